import HapVerif.Model.C10
/-!
Views used by the regenerated translation of `checkListenerAllowed*` (pkg/converters/gateway/gateway.go):
how the Go objects the three functions read are represented by the objects of the C10 model.  Core-only.
Part of the trusted reading of the source (listed in the target table of harness/cmd/translate).
-/
namespace HapVerif.C10Views
open HapVerif.C10

/-- `*source` / `*gatewaySource` as the admission functions see them -/
structure RouteSrc where
  kind : String
  namespace' : String
deriving DecidableEq, Repr

structure GwSrc where
  namespace' : String
deriving DecidableEq, Repr

/-- `listener.AllowedRoutes` of a non-nil listener -/
def allowedOf (l : Option Listener) : Option Allowed := l.bind (·.allowed)
def kindsOf (l : Option Listener) : List RKind := ((allowedOf l).map (·.kinds)).getD []
def nssOf (l : Option Listener) : Option NsRule := (allowedOf l).bind (·.nss)
/-- `namespaces.From`, `namespaces.Selector` -/
def frmOf (n : Option NsRule) : Option String := n.bind (·.frm)
def selOf (n : Option NsRule) : Option (List Term) := n.bind (·.sel)

/-- `metav1.LabelSelectorAsSelector(sel)`: the requirements and an error when one of them is invalid -/
def asSelector (sel : Option (List Term)) : List Term × Option String :=
  let ts := sel.getD []
  (ts, if ts.all termValid then none else some "invalid-selector")

/-- `c.cache.GetNamespace(name)`: the labels of the namespace, or an error -/
def getNamespace (w : World) (name : String) : List (String × String) × Option String :=
  match w.nss.lookup name with
  | some ls => (ls, none)
  | none => ([], some "namespace-not-found")

/-- `selector.Matches(labels.Set(ns.Labels))` -/
def matches' (selector : List Term) (ls : List (String × String)) : Bool := selector.all (termMatch ls)

/-! ### `syncRoute` -/

/-- `p != nil && *p != ""` on an optional group / kind / namespace of a parentRef -/
def nonEmpty (o : Option String) : Bool :=
  match o with
  | some s => s != ""
  | none => false

/-- `err := syncGateway(gatewaySource, parentRef.SectionName)`: the callback (`syncHTTPRouteGateway`, ...) as a step of
a trace — which gateway, which section name —; its error (`errOf`, any function) is only logged by `syncRoute` -/
def callSync (errOf : Gateway → Option String → Option String) (fx : List (Gateway × Option String))
    (g : Option Gateway) (sect : Option String) : Option String × List (Gateway × Option String) :=
  match g with
  | some g => (errOf g sect, fx ++ [(g, sect)])
  | none => (none, fx)

end HapVerif.C10Views
