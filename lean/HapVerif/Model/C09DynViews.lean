import HapVerif.Model.C09
/-!
Views for the TRANSLATION of `updater.validateAllowDeny` / `updater.buildGlobalDynamic`
(pkg/converters/ingress/annotations): the four global keys as an enumeration (the translation maps each
`ingtypes.GlobalCrossNamespace…` constant to its constructor, so a swapped key shows in the tie), the mapper read as a
function from key to value.  Core-only.
-/
namespace HapVerif.C09Dyn
open HapVerif.C09

inductive GKey | crt | ca | pw | svc
deriving DecidableEq, Repr

/-- `d.mapper.Get(key).Value` on a global ConfigMap -/
def getOf (cm : GlobalCM) : GKey → Str
  | .crt => cm.crt
  | .ca => cm.ca
  | .pw => cm.pw
  | .svc => cm.svc

/-- `strings.ToLower` (ASCII, as the model) -/
def toLower (s : Str) : Str := s.map lowerChar

end HapVerif.C09Dyn
