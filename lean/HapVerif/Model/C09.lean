/-
C09 — cross-namespace isolation.

Model of
  * pkg/controller/services/cache.go: `buildResourceName` (over client-go's
    `SplitMetaNamespaceKey`), `getContentProtocol`, and the five getters `GetService`,
    `GetTLSSecretPath`, `GetCASecretPath`, `GetPasswdSecretContent`, `GetDHSecretPath` with
    the permission bit each one passes;
  * pkg/converters/ingress/annotations: `validateAllowDeny`, `buildGlobalDynamic`
    (global.go), `ConfigValue.NamespacedName` (mapper.go) and the REFERENCE SITES: how each
    configuration key that accepts a resource name derives `(defaultNamespace, name)` from
    `(namespace of the annotated object, value)` — ingress.go `addTLS`, gateway.go `readCertRef`,
    host.go `setAuthTLSConfig`, backend.go `buildBackendProtocol` (secure-crt-secret,
    secure-verify-ca-secret, through `ConfigValue.defaultNamespace`), `buildBackendAuthHTTP`
    (auth-secret), `setAuthExternal` + ingress.go's pre-built auth backend (auth-url svc://);
  * the LOOKUP site `oauth` (backend.go `buildBackendOAuth` + `updater.findBackend`): no `ns/name`
    value, the auth backend is the one behind the `/oauth2` path of the host/path table.
The definitions suffixed `Old` are the behaviour BEFORE the repairs c70e6fc, 05277b5, 6c4b527,
bce3fec in /repo; they are kept only for the historical witnesses in Props/C09.lean.
Strings are `List Char` so that every function is structurally recursive and `decide` can
evaluate concrete witnesses.  Core-only.
-/
namespace HapVerif.C09

abbrev Str := List Char

/-- `strings.Split(s, "/")` -/
def splitSlash : Str → List Str
  | [] => [[]]
  | c :: cs =>
    match splitSlash cs with
    | [] => [[c]]          -- unreachable: the result is never empty
    | p :: ps => if c = '/' then [] :: p :: ps else (c :: p) :: ps

/-- client-go `cache.SplitMetaNamespaceKey` -/
def splitKey (s : Str) : Option (Str × Str) :=
  match splitSlash s with
  | [n] => some ([], n)
  | [ns, n] => some (ns, n)
  | _ => none

inductive Res
  /-- a Kubernetes object `ns/name` is read -/
  | obj (ns name : Str)
  /-- a local file is used -/
  | file (path : Str)
  /-- the cross-namespace check refused -/
  | denied
  /-- malformed name / unsupported protocol -/
  | invalid
deriving DecidableEq, Repr, Inhabited

/-- cache.go:97 on an already split key -/
def buildResourceNameK (dns : Str) (key : Option (Str × Str)) (allow : Bool) : Res :=
  match key with
  | none => .invalid
  | some (ns, name) =>
    if dns = [] then .obj ns name
    else if ns = [] then .obj dns name
    else if allow || ns = dns then .obj ns name
    else .denied

def buildResourceName (dns value : Str) (allow : Bool) : Res :=
  buildResourceNameK dns (splitKey value) allow

def isLowerAZ (c : Char) : Bool := 'a' ≤ c && c ≤ 'z'

-- literals as explicit lists (kernel-evaluable)
def sSep : Str := [':', '/', '/']
def sFile : Str := ['f', 'i', 'l', 'e']
def sSecret : Str := ['s', 'e', 'c', 'r', 'e', 't']
def sAllow : Str := ['a', 'l', 'l', 'o', 'w']

/-- `^([a-z]+)://(.*)$` (RE2: `.` does not match a newline); no match = ("secret", input) -/
def getContentProtocol (s : Str) : Str × Str :=
  let pre := s.takeWhile isLowerAZ
  let rest := s.drop pre.length
  if pre ≠ [] ∧ rest.take 3 = sSep ∧ !(rest.drop 3).contains '\n' then (pre, rest.drop 3)
  else (sSecret, s)

/-- `DynamicConfig` -/
structure Bits where
  crt : Bool
  ca : Bool
  pw : Bool
  svc : Bool
deriving DecidableEq, Repr, Inhabited

def Bits.none : Bits := ⟨false, false, false, false⟩

inductive Kind | crt | ca | pw | svc
deriving DecidableEq, Repr, Inhabited

def Bits.get (b : Bits) : Kind → Bool
  | .crt => b.crt | .ca => b.ca | .pw => b.pw | .svc => b.svc

inductive Getter | tls | ca | pw | svc | dh
deriving DecidableEq, Repr, Inhabited

/-- the `allowCrossNamespace` argument each getter passes to `buildResourceName` -/
def getterAllow (b : Bits) : Getter → Bool
  | .tls => b.crt
  | .ca => b.ca
  | .pw => b.pw
  | .svc => b.svc
  | .dh => true          -- GetDHSecretPath passes `true`; only called for the global ConfigMap

/-- what a getter reads for `(defaultNamespace, value)` -/
def getterResolve (g : Getter) (b : Bits) (dns value : Str) : Res :=
  match g with
  | .svc => buildResourceName dns value b.svc
  | _ =>
    let pc := getContentProtocol value
    if pc.1 = sFile then
      (if g = .ca ∧ pc.2 = [] then .invalid else .file pc.2)
    else if pc.1 ≠ sSecret then .invalid
    else buildResourceName dns pc.2 (getterAllow b g)

/-! ## buildGlobalDynamic -/

def lowerChar (c : Char) : Char := if 'A' ≤ c ∧ c ≤ 'Z' then Char.ofNat (c.toNat + 32) else c

/-- `validateAllowDeny`: `strings.ToLower(value) == "allow"` (ASCII values; anything else,
including a missing key, is deny) -/
def allowOf (value : Str) : Bool := value.map lowerChar = sAllow

/-- the four global keys, in the order crt, ca, passwd, services -/
structure GlobalCM where
  crt : Str := []
  ca : Str := []
  pw : Str := []
  svc : Str := []
deriving DecidableEq, Repr

/-- global.go:397; `static` = `--allow-cross-namespace` -/
def buildGlobalDynamic (static : Bool) (cm : GlobalCM) : Bits :=
  { ca := static || allowOf cm.ca
    crt := static || allowOf cm.crt
    pw := static || allowOf cm.pw
    svc := allowOf cm.svc }

/-- `services.setup`: `&DynamicConfig{StaticCrossNamespaceSecrets: cfg.AllowCrossNamespace}` — the
four permissions start as false, whatever the command line says -/
def initialBits : Bits := Bits.none

/-! ## Reference sites -/

/-- `ConfigValue.NamespacedName` with a non-nil source in namespace `src` -/
def namespacedName (src value : Str) : Option (Str × Str) :=
  match splitSlash value with
  | [n] => some (src, n)
  | [ns, n] => some (ns, n)
  | _ => none

inductive Site
  /-- Ingress `spec.tls[].secretName` (HTTP and TCP ingress): `addTLS` -/
  | tls
  /-- `auth-tls-secret` (Host scope, also the TCP variant): `setAuthTLSConfig` -/
  | authTLS
  /-- `secure-crt-secret` (Backend scope, Ingress or Service annotation) -/
  | secureCrt
  /-- `secure-verify-ca-secret` (Backend scope) -/
  | secureCA
  /-- `auth-secret` (Backend scope) -/
  | authSecret
  /-- `auth-url: svc://[ns/]name:port` (Backend scope; backend or frontend placement) -/
  | authURL
  /-- Gateway `listeners[].tls.certificateRefs[].name`: gateway.go `readCertRef` -/
  | gwCert
deriving DecidableEq, Repr, Inhabited

/-- the resource kind the DOCUMENTATION assigns to the site (keys.md "Cross Namespace") -/
def Site.kind : Site → Kind
  | .tls => .crt
  | .gwCert => .crt
  | .secureCrt => .crt
  | .authTLS => .ca
  | .secureCA => .ca
  | .authSecret => .pw
  | .authURL => .svc

def Site.getter : Site → Getter
  | .tls => .tls
  | .gwCert => .tls
  | .secureCrt => .tls
  | .authTLS => .ca
  | .secureCA => .ca
  | .authSecret => .pw
  | .authURL => .svc

/-- THE TABLE: `(defaultNamespace, name)` handed to the getter, from the namespace `src` of the
annotated object and the raw value (`authURL`: the `[ns/]name` part of the URL).  Every site
hands over the namespace of the annotated object and the value as written
(secure-* keys: `cv.defaultNamespace()` = `cv.Source.Namespace`, then `cv.Value`). -/
def siteArgs (_s : Site) (src value : Str) : Option (Str × Str) := some (src, value)

/-- HISTORICAL (before c70e6fc): backend.go did `namespace, name, err := crt.NamespacedName()` and
`GetTLSSecretPath(namespace, name, …)`: the TARGET namespace became the default namespace -/
def siteArgsOld (s : Site) (src value : Str) : Option (Str × Str) :=
  match s with
  | .secureCrt => namespacedName src value
  | .secureCA => namespacedName src value
  | _ => some (src, value)

def siteResolveOld (s : Site) (b : Bits) (src value : Str) : Res :=
  match siteArgsOld s src value with
  | none => .invalid
  | some (dns, name) => getterResolve s.getter b dns name

/-- what the site makes the cache read (ignoring the shortcuts below) -/
def siteResolve (s : Site) (b : Bits) (src value : Str) : Res :=
  match siteArgs s src value with
  | none => .invalid
  | some (dns, name) => getterResolve s.getter b dns name

/-- `converters.Sync` creates the ingress converter first, and `NewIngressConverter` calls
`annotations.UpdateDynamicConfig` (→ `buildGlobalDynamic`) with the current global ConfigMap:
every converter of a reconciliation — Gateway first, then ingress — sees the permissions of the
CURRENT global config (`cur`), never the ones left by the previous reconciliation (`prev`). -/
def bitsSeenBy (_s : Site) (_prev cur : Bits) : Bits := cur

/-- HISTORICAL (before bce3fec): only the ingress converter's `syncFull` called `buildGlobalDynamic`,
after the Gateway converter had run: Gateway sites saw the previous reconciliation's permissions -/
def bitsSeenByOld (s : Site) (prev cur : Bits) : Bits := if s = .gwCert then prev else cur

/-- state of the haproxy model the two shortcut sites look at -/
structure Existing where
  /-- a userlist named after `ns/name` was already built (by any ingress) -/
  userlist : Str → Str → Bool
  /-- a backend for `ns/name:port` already exists (created by any ingress) -/
  backend : Str → Str → Bool

def Existing.none : Existing := ⟨fun _ _ => false, fun _ _ => false⟩

/-- `buildBackendAuthHTTP`: `secretName` = value, or `src/value` when it has no "/" -/
def authSecretName (src value : Str) : Str := if value.contains '/' then value else src ++ ['/'] ++ value

/-- What object a site ends up USING (its content reaches the configuration):
  * auth-secret: `GetPasswdSecretContent` is always called first; an existing userlist of the
    same name is then reused, built from the very same object;
  * auth-url svc: `setAuthExternal` refuses a namespace other than the annotated object's unless
    services are allowed, and only then takes what `Backends().FindBackend(ns, name, port)`
    returns (a backend pre-built by ingress.go through the checked `GetService` when the annotation
    is on the Ingress: `fromIngress`, or one created by any other ingress);
  * others: what the getter reads. -/
def siteUses (s : Site) (b : Bits) (ex : Existing) (fromIngress : Bool) (src value : Str) : Res :=
  match s with
  | .authURL =>
    match namespacedName src value with
    | none => .invalid
    | some (ns, n) =>
      -- "a globally configured auth-url is missing the namespace"
      if ns = [] then .invalid
      else if ns ≠ src ∧ b.svc = false then .denied
      else
        let prebuilt := fromIngress && (match siteResolve s b src value with | .obj _ _ => true | _ => false)
        if prebuilt || ex.backend ns n then .obj ns n
        else (match siteResolve s b src value with | .obj _ _ => .invalid | r => r)
  | _ => siteResolve s b src value

/-- the object the cache is asked for while the site is evaluated (`none`: no getter call) -/
def siteReads (s : Site) (b : Bits) (_ex : Existing) (fromIngress : Bool) (src value : Str) : Option Res :=
  match s with
  | .authURL => if fromIngress then some (siteResolve s b src value) else none
  | _ => some (siteResolve s b src value)

/-- HISTORICAL (before 6c4b527 and 05277b5): `Userlists().Find(listName)` came before the cache,
and `setAuthExternal` took whatever `FindBackend` returned -/
def siteUsesOld (s : Site) (b : Bits) (ex : Existing) (fromIngress : Bool) (src value : Str) : Res :=
  match s with
  | .authSecret =>
    match splitKey (authSecretName src value) with
    | some (ns, n) => if ex.userlist ns n then .obj ns n else siteResolveOld s b src value
    | none => siteResolveOld s b src value
  | .authURL =>
    match namespacedName src value with
    | none => .invalid
    | some (ns, n) =>
      if ns = [] then .invalid else
      let prebuilt := fromIngress && (match siteResolveOld s b src value with | .obj _ _ => true | _ => false)
      if prebuilt || ex.backend ns n then .obj ns n
      else (match siteResolveOld s b src value with | .obj _ _ => .invalid | r => r)
  | _ => siteResolveOld s b src value

def siteReadsOld (s : Site) (b : Bits) (ex : Existing) (fromIngress : Bool) (src value : Str) : Option Res :=
  match s with
  | .authSecret =>
    match splitKey (authSecretName src value) with
    | some (ns, n) => if ex.userlist ns n then none else some (siteResolveOld s b src value)
    | none => some (siteResolveOld s b src value)
  | .authURL => if fromIngress then some (siteResolveOld s b src value) else none
  | _ => some (siteResolveOld s b src value)

/-- the namespace a result touches, if any -/
def Res.ns? : Res → Option Str
  | .obj ns _ => some ns
  | _ => none

def Res.foreignTo (r : Res) (src : Str) : Bool :=
  match r with
  | .obj ns _ => ns != src
  | _ => false

/-! ## The `oauth` reference site (backend.go `buildBackendOAuth` + `updater.findBackend`)

`oauth: oauth2_proxy` has no value that names a resource: the auth backend (= the Service behind
the oauth2 proxy) is found by LOOKUP — the path `<oauth-uri-prefix>` (default `/oauth2`) among the
hosts already built in the haproxy model, whatever ingress of whatever namespace declared them
(hostnames are shared between namespaces).  The lookup does not go through the cache, so none of
the four permission keys applies; its only cross-namespace guard is the comparison
`path.Backend.Namespace == namespace` inside `findBackend`. -/

/-- one `HostPath` of the haproxy model: `path.Path()` and `path.Backend.{Namespace,Name}` -/
structure HPath where
  path : Str
  ns : Str
  name : Str
deriving DecidableEq, Repr, Inhabited

/-- one `Host`: `Hostname` and `Paths` in the order of the slice -/
structure HHost where
  hostname : Str
  paths : List HPath
deriving DecidableEq, Repr, Inhabited

/-- `strings.TrimRight(s, "/")` -/
def trimRightSlash (s : Str) : Str := (s.reverse.dropWhile (· == '/')).reverse

def sOAuth2Path : Str := ['/', 'o', 'a', 'u', 't', 'h', '2']
def sOAuth2Proxy : Str := ['o', 'a', 'u', 't', 'h', '2', '_', 'p', 'r', 'o', 'x', 'y']
def sOAuth2ProxyDash : Str := ['o', 'a', 'u', 't', 'h', '2', '-', 'p', 'r', 'o', 'x', 'y']

/-- the test of `findBackend`'s inner loop -/
def oauthCandidate (ns pfx : Str) (p : HPath) : Bool := trimRightSlash p.path == pfx && p.ns == ns

/-- `updater.findBackend(namespace, uriPrefix)`: the hosts in the order `Hosts().Items()` yields them
(a Go map: the list is ANY order, the theorems quantify over all of them), the paths of each host in
slice order, first hit returns -/
def findBackend : List HHost → Str → Str → Option HPath
  | [], _, _ => none
  | h :: hs, ns, pfx =>
    match h.paths.find? (oauthCandidate ns pfx) with
    | some p => some p
    | none => findBackend hs ns pfx

/-- Go's `<=` on hostnames (byte-wise; ASCII names: the lexicographic order of the characters) -/
def hostLe (a b : HHost) : Bool := decide (a.hostname ≤ b.hostname)

/-- since 58bb97c `findBackend` does not range over the map `Hosts().Items()` itself: it collects the
hostnames, `sort.Strings` them and looks each host up in that order -/
def insertHost (h : HHost) : List HHost → List HHost
  | [] => [h]
  | x :: xs => if hostLe h x then h :: x :: xs else x :: insertHost h xs

/-- (`sort.Strings` + lookup; an insertion sort here: structurally recursive, kernel-evaluable) -/
def sortHosts (hosts : List HHost) : List HHost := hosts.foldr insertHost []

/-- `updater.findBackend` on the map whose entries are `hosts` (listed in any order) -/
def findBackendSorted (hosts : List HHost) (ns pfx : Str) : Option HPath :=
  findBackend (sortHosts hosts) ns pfx

/-- SEEDED VARIANT (C09e, not the code): the host with the protected path's hostname is looked at
first, WITHOUT the namespace comparison; the guarded loop is only the fallback -/
def findBackendSeeded (hosts : List HHost) (ns hostname pfx : Str) : Option HPath :=
  match (hosts.find? (·.hostname == hostname)).bind
      (fun h => h.paths.find? (fun p => trimRightSlash p.path == pfx)) with
  | some p => some p
  | none => findBackend hosts ns pfx

/-- what `buildBackendOAuth` reads of one path's configuration -/
structure OAuthCfg where
  /-- value of `oauth` when the key has a source (an annotation); `none`: not declared -/
  oauth : Option Str
  /-- external haproxy without the Lua json module -/
  luaMissing : Bool := false
  /-- the path also has a non empty `auth-url` (which has precedence) -/
  authURL : Bool := false
  /-- value of `oauth-uri-prefix` when the key has a source -/
  uriPrefix : Option Str := none
deriving DecidableEq, Repr

inductive OAuthOut
  /-- no `oauth` on the path: `AuthExternal` is left as it was -/
  | untouched
  /-- `auth-url` has precedence: what it left on the path stays -/
  | kept
  /-- `AlwaysDeny = true`, no auth backend -/
  | deny
  /-- `AuthBackendName = p`'s backend, `AllowedPath`/`AuthPath`/`RedirectOnFail` built from `pfx` -/
  | proxy (p : HPath) (pfx : Str)
deriving DecidableEq, Repr

def oauthPrefix (c : OAuthCfg) : Str := trimRightSlash (c.uriPrefix.getD sOAuth2Path)

/-- `buildBackendOAuth` for one path declared by an object of namespace `src` -/
def buildOAuth (hosts : List HHost) (src : Str) (c : OAuthCfg) : OAuthOut :=
  match c.oauth with
  | none => .untouched
  | some v =>
    if v ≠ sOAuth2Proxy ∧ v ≠ sOAuth2ProxyDash then .deny
    else if c.luaMissing then .deny
    else if c.authURL then .kept
    else
      match findBackend hosts src (oauthPrefix c) with
      | none => .deny
      | some p => .proxy p (oauthPrefix c)

/-- the same with the seeded lookup (for the witness) -/
def buildOAuthSeeded (hosts : List HHost) (src hostname : Str) (c : OAuthCfg) : OAuthOut :=
  match c.oauth with
  | none => .untouched
  | some v =>
    if v ≠ sOAuth2Proxy ∧ v ≠ sOAuth2ProxyDash then .deny
    else if c.luaMissing then .deny
    else if c.authURL then .kept
    else
      match findBackendSeeded hosts src hostname (oauthPrefix c) with
      | none => .deny
      | some p => .proxy p (oauthPrefix c)

/-- the host/path table without what other namespaces declared (their paths; a host they alone
declared stays as a host without paths) -/
def removeForeign (ns : Str) (hosts : List HHost) : List HHost :=
  hosts.map fun h => { h with paths := h.paths.filter (·.ns == ns) }

/-- every path of namespace `ns`, hosts and paths in table order -/
def ownPaths (ns : Str) (hosts : List HHost) : List HPath :=
  hosts.flatMap fun h => h.paths.filter (·.ns == ns)

/-- SPEC of the site: the auth backend of a path declared in namespace `src` is a backend of
`src`, or there is none.  No key opens this site. -/
def oauthSpec (src : Str) : OAuthOut → Bool
  | .proxy p _ => p.ns == src
  | _ => true

/-! ## Oracle (what the property demands of an observed run)

`allowed`: the DOCUMENTED permission of the site's kind under the effective settings.
`readForeign`: during the conversion of namespace `src`'s object the cache read an object of
the site's kind in another namespace.  `usedForeign`: the part of the configuration that belongs
to `src` differs between the world with and the world without the foreign object, or names an
artifact of the foreign object. -/
def kindName : Kind → String
  | .svc => "service"
  | _ => "secret"

/- `usedForeign` also covers a `file://` value that names the controller's own copy of another
namespace's secret (labels suffixed `-file`): accepted as a KNOWN FINDING — `file://` is a
documented feature of the annotation keys and a local path carries no namespace. -/
def oracle (siteName : String) (k : Kind) (allowed readForeign usedForeign panicked : Bool) : Option String :=
  if panicked then some ("panic:" ++ siteName)
  else if !allowed && readForeign then some ("foreign-" ++ kindName k ++ "-read:" ++ siteName)
  else if !allowed && usedForeign then some ("foreign-" ++ kindName k ++ "-used:" ++ siteName)
  else none

end HapVerif.C09
