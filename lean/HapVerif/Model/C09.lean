/- Model for C09: not written yet -/
namespace HapVerif.C09
end HapVerif.C09
