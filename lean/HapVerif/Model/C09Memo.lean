import HapVerif.Model.C09
import HapVerif.Model.C09Ctx
/-
C09 — resolution of several references IN ONE SYNC, with an optional per-sync MEMO as a model parameter.

`Model/C09.lean` resolves ONE reference: `getterResolve g bits reader value` (reader = namespace of the
declaring object = the `defaultNamespace` the site hands to the cache facade, the only place where a
cross-namespace read is refused).  A converter lives for one `Sync()` and resolves MANY references, one
after the other, in the order the objects are converted (`sortIngress`: creationTimestamp, then
namespace/name; partial syncs convert only the dirty objects).  The code asks the facade on EVERY
reference (facts `c09AddTLSStatements`, `c09SecretGetterGuards`): the resolver is memo-free, `memo = none`.

The parameter `memo : Option MemoPolicy` describes what a converter-side cache of successful answers
would do: `key reader value` names the table entry; a hit returns the stored answer WITHOUT asking the
facade; a successful answer (object or file) is stored, an error is not; the table starts empty in every
sync.  Who READS decides the permission, so a key is harmless iff it determines the facade's decision
(`memo_invisible`); a key made of WHAT is read only (`targetKey`: the canonical `namespace/name`, seed
C09g) hands a foreign secret to a denied reader after a legitimate one.  Core-only.
-/
namespace HapVerif.C09

/-- a converter-side memo: the table key of a reference `(reader namespace, value)` -/
structure MemoPolicy where
  key : Str → Str → Str

/-- the memo table of one sync: key ↦ stored answer, newest first -/
abbrev MemoTbl := List (Str × Res)

def MemoTbl.find (t : MemoTbl) (k : Str) : Option Res :=
  match t with
  | [] => none
  | (k', r) :: rest => if k' = k then some r else MemoTbl.find rest k

/-- `err == nil`: the answers a memo stores -/
def Res.success : Res → Bool
  | .obj _ _ => true
  | .file _ => true
  | _ => false

/-- one reference: namespace of the declaring object (READER) and the value as written -/
structure Ref where
  reader : Str
  value : Str
deriving DecidableEq, Repr, Inhabited

/-- resolve one reference with the sync's memo table; returns the answer and the new table -/
def resolveM (memo : Option MemoPolicy) (g : Getter) (b : Bits) (t : MemoTbl) (reader value : Str) :
    Res × MemoTbl :=
  match memo with
  | none => (getterResolve g b reader value, t)
  | some p =>
    match t.find (p.key reader value) with
    | some r => (r, t)
    | none =>
      let r := getterResolve g b reader value
      (r, if r.success then (p.key reader value, r) :: t else t)

/-- the references of one sync in conversion order, table threaded through -/
def runFrom (memo : Option MemoPolicy) (g : Getter) (b : Bits) : MemoTbl → List Ref → List Res
  | _, [] => []
  | t, q :: qs =>
    let (r, t') := resolveM memo g b t q.reader q.value
    r :: runFrom memo g b t' qs

/-- one sync: the converter (and with it the table) is created empty -/
def runSync (memo : Option MemoPolicy) (g : Getter) (b : Bits) (refs : List Ref) : List Res :=
  runFrom memo g b [] refs

/-- the answer the LAST reference of a sync gets (the reference under test, after a history `pre`) -/
def answerAfter (memo : Option MemoPolicy) (g : Getter) (b : Bits) (pre : List Ref) (q : Ref) : Res :=
  ((runSync memo g b (pre ++ [q])).getLast?).getD .invalid

def sSecretScheme : Str := ['s', 'e', 'c', 'r', 'e', 't', ':', '/', '/']

/-- `strings.TrimPrefix(s, "secret://")` -/
def trimSecretScheme (s : Str) : Str :=
  if s.take 9 = sSecretScheme then s.drop 9 else s

/-- SEEDED VARIANT (C09g, not the code): the key is the canonical full name of WHAT is read — a bare
name gets the reader's namespace, `secret://` is trimmed; the reader is not part of the key -/
def targetKey : MemoPolicy :=
  { key := fun reader value =>
      let n := trimSecretScheme value
      if n.contains '/' then n else reader ++ ['/'] ++ n }

/-- a key that keeps the reader: `<reader>|<value>` (namespaces contain no `|`); harmless -/
def readerKey : MemoPolicy := { key := fun reader value => reader ++ ['|'] ++ value }

/-- the objects converted by ONE sync, as the driver describes a `legit` case: who is converted (the
legitimate reader of the target's own namespace `b`, the referencing object of namespace `a`), in which
order (`bFirst`: the reader of namespace b is older, or as old with a smaller namespace/name) -/
def syncRefs (bFirst withB withA : Bool) (qa qb : Ref) : List Ref :=
  let a := if withA then [qa] else []
  let b := if withB then [qb] else []
  if bFirst then b ++ a else a ++ b

end HapVerif.C09
