/- Model for C14: not written yet -/
namespace HapVerif.C14
end HapVerif.C14
