/-
Model of pkg/controller/reconciler/watchers.go: the per-kind event handlers
(`hdlr.Create/Update/Delete/Generic`, the `add/upd/del` closures of the handler table, `compose`,
`notify`), the predicates that decide which events are accepted, and `getChangedObjects`/`initCh`
(the batch swap).  Core-only.

Every handler and `getChangedObjects` run with `watchers.mu` held, so one handler call and one
swap are ATOMIC steps of the model (`Op.ev`, `Op.swap`); an interleaving of the informer
goroutines with reconciliations is a `List Op`.  The mutual exclusion itself is not proved here —
it is exercised by the concurrent run of the harness under the Go race detector.

Objects are abstracted to what the code looks at: kind, namespace/name (and the
`kubernetes.io/service-name` label of an EndpointSlice), validity of the old/new object as
answered by `services.IsValidResource`, "did the part watched by the kind's update predicate
change", and for ConfigMaps an identifier of `.Data` (`none` = nil map).
The object pointer appended to a typed list is identified by the event id plus old/new.
-/
namespace HapVerif.C14

inductive Kind
  | cm | svc | ep | eps | secret | pod | ing | ingcls
  | gwA2 | gwclsA2 | hrA2 | gwB1 | gwclsB1 | hrB1 | gwV1 | gwclsV1 | hrV1 | tcpr
  deriving DecidableEq, Repr

/-- `types.ResourceType` values used by the handler table -/
inductive Res
  | configMap | service | endpoints | secret | pod | ingress | ingressClass
  | gateway | gatewayClass | httpRoute | tcpRoute
  deriving DecidableEq, Repr

/-- change classification: typed list suffix (`Add/Upd/Del`) and description prefix (`add/update/del`) -/
inductive Act | add | upd | del
  deriving DecidableEq, Repr

inductive EvT | create | update | delete | generic
  deriving DecidableEq, Repr

/-- the kinds whose handler fills `<Fam>{Add,Upd,Del}` of `ChangedObjects` -/
inductive Fam | ing | gwA2 | gwclsA2 | gwB1 | gwclsB1
  deriving DecidableEq, Repr

structure Name where
  ns : Option Nat        -- `none`: cluster scoped (empty namespace)
  name : Nat
  deriving DecidableEq, Repr

abbrev Link := Res × Name
abbrev Descr := Act × Res × Name

/-- an element of a typed list: which list, and which object pointer (event id, old/new object) -/
structure Entry where
  fam : Fam
  act : Act
  id : Nat
  old : Bool
  deriving DecidableEq, Repr

/-- the part of `config.Config` the watchers read.  `ConfigMapName = n0/o0`,
`TCPConfigMapName = n0/o1`, `PublishService = n0/o0` when `publish`. -/
structure Cfg where
  epSlice : Bool := false
  hasA2 : Bool := false
  hasB1 : Bool := false
  hasV1 : Bool := false
  hasTCPR : Bool := false
  publish : Bool := false
  deriving DecidableEq, Repr

structure Event where
  id : Nat
  kind : Kind
  typ : EvT
  ns : Option Nat
  name : Nat
  label : Option Nat := none   -- service-name label (read for EndpointSlice only)
  vOld : Bool := true          -- IsValid…(old object); meaningful for updates
  vNew : Bool := true          -- IsValid…(object) / IsValid…(new object)
  changed : Bool := true       -- the kind's content predicate holds for this update
  data : Option Nat := none    -- ConfigMap `.Data` of the (new) object
  deriving DecidableEq, Repr

inductive Op
  | ev (e : Event)
  | swap
  deriving DecidableEq, Repr

/-! ## handler table -/

def Kind.res : Kind → Res
  | .cm => .configMap | .svc => .service | .ep => .endpoints | .eps => .endpoints
  | .secret => .secret | .pod => .pod | .ing => .ingress | .ingcls => .ingressClass
  | .gwA2 => .gateway | .gwB1 => .gateway | .gwV1 => .gateway
  | .gwclsA2 => .gatewayClass | .gwclsB1 => .gatewayClass | .gwclsV1 => .gatewayClass
  | .hrA2 => .httpRoute | .hrB1 => .httpRoute | .hrV1 => .httpRoute
  | .tcpr => .tcpRoute

/-- `hdlr.full` (IngressClass since 546cb55: a class change can make untracked ingresses valid) -/
def Kind.full : Kind → Bool
  | .ingcls | .gwA2 | .gwclsA2 | .hrA2 | .gwB1 | .gwclsB1 | .hrB1 | .gwV1 | .gwclsV1 | .hrV1 | .tcpr => true
  | _ => false

def Kind.fam : Kind → Option Fam
  | .ing => some .ing | .gwA2 => some .gwA2 | .gwclsA2 => some .gwclsA2
  | .gwB1 => some .gwB1 | .gwclsB1 => some .gwclsB1
  | _ => none

/-- `getHandlers`: which handlers are registered -/
def Kind.registered (c : Cfg) : Kind → Bool
  | .gwA2 | .gwclsA2 | .hrA2 => c.hasA2
  | .gwB1 | .gwclsB1 | .hrB1 => c.hasB1
  | .gwV1 | .gwclsV1 | .hrV1 => c.hasV1
  | .tcpr => c.hasTCPR
  | _ => true

/-- kinds whose predicate list has the Create/Delete/Update validity `predicate.Funcs` -/
def Kind.validated : Kind → Bool
  | .ing | .ingcls | .gwclsA2 | .gwclsB1 | .gwclsV1 => true
  | _ => false

/-- ConfigMap selector: `some true` = global ConfigMap, `some false` = TCP ConfigMap -/
def cmSel (e : Event) : Option Bool :=
  if e.ns = some 0 ∧ e.name = 0 then some true
  else if e.ns = some 0 ∧ e.name = 1 then some false
  else none

/-- conjunction of the handler's predicates (`h.pr`), as applied by controller-runtime's
source before the handler is called.  Generic events are fed to the handler directly. -/
def accepts (c : Cfg) (e : Event) : Bool :=
  e.kind.registered c &&
  match e.typ with
  | .generic => true
  | .create =>
    (match e.kind with
     | .cm => (cmSel e).isSome
     | .ep => !c.epSlice
     | .eps => c.epSlice
     | .pod => false
     | _ => true) && (!e.kind.validated || e.vNew)
  | .delete =>
    (match e.kind with
     | .cm => (cmSel e).isSome
     | .ep => !c.epSlice
     | .eps => c.epSlice
     | _ => true) && (!e.kind.validated || e.vNew)
  | .update =>
    (match e.kind with
     | .cm => (cmSel e).isSome
     | .svc => e.changed || (c.publish && e.ns = some 0 && e.name = 0)
     | .ep => !c.epSlice && e.changed
     | .eps => c.epSlice && e.changed
     | .secret => true
     | _ => e.changed) && (!e.kind.validated || e.vOld || e.vNew)

/-! ## accumulator -/

/-- `types.ChangedObjects` as written by the watchers.  `typed` is the union of the 15 typed
slices `<Fam><Act>` in append order (slice `<f><a>` = the sub-list with that fam/act);
`links` is `Links` flattened to (resource, name) pairs (`Links[r]` = the names paired with `r`,
in order). -/
structure Batch where
  gCur : Option Nat := none
  gNew : Option Nat := none
  tCur : Option Nat := none
  tNew : Option Nat := none
  typed : List Entry := []
  full : Bool := false
  objects : List Descr := []
  links : List Link := []
  deriving DecidableEq, Repr

/-- `appenddedup` -/
def appendDedup {α} [DecidableEq α] (l : List α) (x : α) : List α :=
  if x ∈ l then l else l ++ [x]

/-- `compose`: `h.name(obj)` (EndpointSlice: non-empty service-name label) else `obj.GetName()`,
prefixed by the namespace when there is one -/
def fullName (e : Event) : Name :=
  { ns := e.ns, name := if e.kind = .eps then e.label.getD e.name else e.name }

def linkOf (e : Event) : Link := (e.kind.res, fullName e)

/-- the literal passed to `compose` by Create/Update/Delete -/
def actOf : EvT → Act
  | .create => .add | .update => .upd | .delete => .del | .generic => .upd

def descrOf (e : Event) : Descr := (actOf e.typ, e.kind.res, fullName e)

/-- the `add/upd/del` closures of the five families -/
def entryOf (e : Event) : Option Entry :=
  match e.kind.fam with
  | none => none
  | some f =>
    match e.typ with
    | .create => some ⟨f, .add, e.id, false⟩
    | .delete => some ⟨f, .del, e.id, false⟩
    | .update =>
      if e.vOld && e.vNew then some ⟨f, .upd, e.id, false⟩
      else if !e.vOld && e.vNew then some ⟨f, .add, e.id, false⟩
      else if e.vOld && !e.vNew then some ⟨f, .del, e.id, true⟩
      else none
    | .generic => none

/-- `cmChange` (ConfigMap `add`/`upd`; there is no `del`): a nil `.Data` is written as an empty
map (`some 0`), because a nil `…New` means "unchanged" to `initCh` and the converters -/
def applyCm (b : Batch) (e : Event) : Batch :=
  if e.kind = .cm ∧ (e.typ = .create ∨ e.typ = .update) then
    match cmSel e with
    | some true => { b with gNew := some (e.data.getD 0) }
    | some false => { b with tNew := some (e.data.getD 0) }
    | none => b
  else b

/-- `cmChange` before the repair f69446d (kept as the historical witness): `.Data` was stored as
it is, so an emptied ConfigMap (nil map) was announced as "unchanged" -/
def applyCmOld (b : Batch) (e : Event) : Batch :=
  if e.kind = .cm ∧ (e.typ = .create ∨ e.typ = .update) then
    match cmSel e with
    | some true => { b with gNew := e.data }
    | some false => { b with tNew := e.data }
    | none => b
  else b

/-- one accepted event, under the mutex: closure, `compose`, `notify` -/
def apply (b : Batch) (e : Event) : Batch :=
  if e.typ = .generic then { b with full := true }
  else
    let b := applyCm b e
    { b with
      typed := b.typed ++ (entryOf e).toList
      links := appendDedup b.links (linkOf e)
      objects := appendDedup b.objects (descrOf e)
      full := b.full || e.kind.full }

/-- watchers state: the accumulating `w.ch` and the items given to `q.AddRateLimited`
(`rparam.fullsync`), oldest first -/
structure St where
  ch : Batch := {}
  q : List Bool := []
  deriving DecidableEq, Repr

def onEvent (c : Cfg) (s : St) (e : Event) : St :=
  if accepts c e then { ch := apply s.ch e, q := s.q ++ [e.kind.full] } else s

def pick (new cur : Option Nat) : Option Nat :=
  match new with
  | some d => some d
  | none => cur

/-- `initCh` on a non-nil `w.ch` -/
def carry (b : Batch) : Batch := { gCur := pick b.gNew b.gCur, tCur := pick b.tNew b.tCur }

/-- `getChangedObjects` -/
def swap (s : St) : Batch × St := (s.ch, { s with ch := carry s.ch })

/-- batches returned by the swaps of `ops`, oldest first, and the final state -/
def runFrom (c : Cfg) : St → List Op → List Batch × St
  | s, [] => ([], s)
  | s, .ev e :: ops => runFrom c (onEvent c s e) ops
  | s, .swap :: ops =>
    let r := runFrom c (swap s).2 ops
    ((swap s).1 :: r.1, r.2)

def run (c : Cfg) (ops : List Op) : List Batch × St := runFrom c {} ops

/-- the events of an op sequence, in order -/
def eventsOf : List Op → List Event
  | [] => []
  | .ev e :: ops => e :: eventsOf ops
  | .swap :: ops => eventsOf ops

/-- number of swaps (= index of the batch the next swap returns) -/
def swapCount : List Op → Nat
  | [] => 0
  | .ev _ :: ops => swapCount ops
  | .swap :: ops => swapCount ops + 1

/-! ## specification side (what C14 demands), independent of the accumulator -/

/-- the accepted events of each closed window (between two consecutive swaps), and the pending
window after the last swap -/
def windowsFrom (acc : Event → Bool) : List Event → List Op → List (List Event) × List Event
  | w, [] => ([], w)
  | w, .ev e :: ops => windowsFrom acc (if acc e then w ++ [e] else w) ops
  | w, .swap :: ops =>
    let r := windowsFrom acc [] ops
    (w :: r.1, r.2)

def windows (acc : Event → Bool) (ops : List Op) : List (List Event) × List Event :=
  windowsFrom acc [] ops

/-- how the controller must see the event: an object entering the controller's class is an
add, one leaving it is a delete (of the old object) -/
def specAct (e : Event) : Act :=
  match e.typ with
  | .create => .add
  | .delete => .del
  | .generic => .upd
  | .update =>
    if e.kind.fam.isSome then
      if !e.vOld && e.vNew then .add else if e.vOld && !e.vNew then .del else .upd
    else .upd

def specEntry (e : Event) : Option Entry :=
  match e.kind.fam with
  | none => none
  | some f =>
    match e.typ with
    | .generic => none
    | .update =>
      if !e.vOld && !e.vNew then none
      else some ⟨f, specAct e, e.id, e.vOld && !e.vNew⟩
    | _ => some ⟨f, specAct e, e.id, false⟩

def specDescr (e : Event) : Descr := (specAct e, e.kind.res, fullName e)

/-- events that set the global / TCP ConfigMap data -/
def setsCm (g : Bool) (e : Event) : Bool :=
  e.kind = .cm && (e.typ = .create || e.typ = .update) && cmSel e == some g

/-- data the batch has to announce as `…New`: that of the last ConfigMap event of the window;
a ConfigMap without data (nil map) must be announced as empty data (`some 0`), because a nil
`…New` means "unchanged" to the converters -/
def specNew (g : Bool) (w : List Event) : Option Nat :=
  match (w.filter (setsCm g)).getLast? with
  | none => none
  | some e => some (e.data.getD 0)

def isFlip (e : Event) : Bool :=
  e.typ = .update && e.kind.fam.isSome && (e.vOld != e.vNew)

/-- data of the last ConfigMap event of the window that sets the global/TCP data -/
def lastSet (g : Bool) (w : List Event) : Option Event := (w.filter (setsCm g)).getLast?

/-- first violated clause for one window and the batch that closed it.  Two specific clauses
(`checkKnown`: the known finding about the description of a class transition, and the repaired
emptied-ConfigMap defect, kept so that a regression is reported under its own key) are evaluated
after all others so that they do not mask anything; here a class transition may carry any
description prefix and an emptied ConfigMap may be announced as nil. -/
def checkWindow (w : List Event) (b : Batch) : Option String :=
  let evs := w.filter (·.typ ≠ .generic)
  let cmOk (g : Bool) (new : Option Nat) : Bool :=
    match lastSet g w with
    | none => new.isNone
    | some e => match e.data with
      | some d => new == some d
      | none => new.isNone || new == some 0
  if evs.any (fun e => !(b.links.contains (linkOf e))) then some "event-lost-link"
  else if evs.any (fun e => isFlip e && (match specEntry e with
      | some x => !(b.typed.contains x) && b.typed.any (fun y => y.id == e.id)
      | none => false)) then
    some "class-transition-misclassified"
  else if evs.any (fun e => match specEntry e with | some x => !(b.typed.contains x) | none => false) then
    some "event-lost-entry"
  else if evs.any (fun e => !isFlip e && !(b.objects.contains (specDescr e))) then some "event-lost-description"
  else if evs.any (fun e => isFlip e && !(b.objects.any fun d => d.2 == linkOf e)) then some "event-lost-description"
  else if b.typed.any (fun x => b.typed.count x ≠ 1) then some "event-duplicated"
  else if b.links.any (fun x => b.links.count x ≠ 1) then some "event-duplicated-link"
  else if b.objects.any (fun x => b.objects.count x ≠ 1) then some "event-duplicated-description"
  else if b.typed.any (fun x => !(evs.any fun e => specEntry e == some x)) then some "event-phantom-entry"
  else if b.links.any (fun x => !(evs.any fun e => linkOf e == x)) then some "event-phantom-link"
  else if b.objects.any (fun x => !(evs.any fun e => specDescr e == x || (isFlip e && linkOf e == x.2))) then
    some "event-phantom-description"
  else if b.full ≠ w.any (fun e => e.typ = .generic || e.kind.full) then some "fullsync-flag-wrong"
  else if !cmOk true b.gNew || !cmOk false b.tNew then some "configmap-data-wrong"
  else none

/-- the specific clauses: known finding (description) and repaired defect (emptied ConfigMap) -/
def checkKnown (w : List Event) (b : Batch) : Option String :=
  let evs := w.filter (·.typ ≠ .generic)
  if evs.any (fun e => isFlip e && !(b.objects.contains (specDescr e))) then
    some "class-transition-described-as-update"
  else if b.gNew ≠ specNew true w || b.tNew ≠ specNew false w then
    some "configmap-emptied-update-not-delivered"
  else none

/-- chaining: `Cur` of a batch is the last delivered `New` before it -/
def checkChain : Option Nat → Option Nat → List Batch → Bool
  | _, _, [] => true
  | g, t, b :: bs => b.gCur == g && b.tCur == t && checkChain (pick b.gNew g) (pick b.tNew t) bs

def checkWindows (chk : List Event → Batch → Option String) : List (List Event) → List Batch → Option String
  | [], [] => none
  | w :: ws, b :: bs =>
    match chk w b with
    | some r => some r
    | none => checkWindows chk ws bs
  | _, _ => some "batch-count"

/-- Spec evaluated on observed batches: `acc` = the events the real predicates accepted,
`q` = the observed queue items -/
def oracle (acc : Event → Bool) (ops : List Op) (bs : List Batch) (q : List Bool) : Option String :=
  let ws := windows acc ops
  match checkWindows checkWindow ws.1 bs with
  | some r => some r
  | none =>
    if !checkChain none none bs then some "configmap-chain-broken"
    else if q ≠ (ws.1.flatten ++ ws.2).map (·.kind.full) then some "notify-wrong"
    else checkWindows checkKnown ws.1 bs

end HapVerif.C14
