/-!
Views of `types.Frontend` / `AuthProxyBind` as `Frontend.AcquireAuthBackendName` (pkg/haproxy/types/frontend.go)
touches them, for its TRANSLATION (Generated/CodeC11.lean).  The name `_auth_<port>` is represented by the port.
`sort.Slice(proxy.BindList, less)` is the parameter `sortSlice` (any function: the theorems about the walk hold
whatever the sort does).  Core-only.
-/
namespace HapVerif.C11AuthPV

structure BindV where
  AuthBackendName : Int
  Backend : Nat
  LocalPort : Int
  SocketID : Int
deriving DecidableEq, Repr

structure FrontV where
  RangeStart : Int
  RangeEnd : Int
  BindList : List BindV
  changed : Bool
deriving DecidableEq, Repr

def applySort (sortSlice : List BindV → List BindV) (f : FrontV) : FrontV := { f with BindList := sortSlice f.BindList }

end HapVerif.C11AuthPV
