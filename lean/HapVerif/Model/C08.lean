/- Model for C08: not written yet -/
namespace HapVerif.C08
end HapVerif.C08
