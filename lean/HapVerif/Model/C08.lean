/-
C08 — only Ingresses classified for this controller are configured.

Model of
  * pkg/controller/services/cache.go  `(*c).IsValidIngress`, `GetIngress`, `GetIngressList`
    (and the textual copy pkg/controller/legacy/cache.go `(*k8scache).IsValidIngress`),
  * pkg/controller/reconciler/watchers.go `handlersIngress`: the predicates of the Ingress
    kind and the add / upd / del classification,
  * the part of pkg/converters/ingress/ingress.go `syncPartial` that decides which Ingress
    objects are (re)read after an IngressClass event (tracker link class -> ingress, kept only
    for ingresses that were converted).
Core-only.

Abstraction of one Ingress: the value of the `kubernetes.io/ingress.class` annotation
(absent / the controller's class / anything else), what `spec.ingressClassName` resolves to
(absent / an IngressClass whose controller is ours / one whose controller is not / a name
with no IngressClass object) and opaque fingerprints of the other annotations, of the rest of
the spec and of the rest of the metadata (needed by the update predicate).
-/
namespace HapVerif.C08

inductive Ann | absent | ours | foreign
deriving DecidableEq, Repr, Inhabited

inductive Cls | absent | ours | foreign | dangling
deriving DecidableEq, Repr, Inhabited

structure Cfg where
  /-- `--watch-ingress-without-class` -/
  watch : Bool
  /-- `--ingress-class-precedence` -/
  prec : Bool
  /-- `config.ControllerName == ""`.  `GetIngressClass` returns a pointer to a zero
  IngressClass together with the error, so the `ingClass != nil` test always succeeds and a
  dangling name is compared as `"" == ControllerName`.  config.go builds the name from a
  non-empty literal, hence `false` in every deployment (fact `c08ControllerNameLit`). -/
  ctrlEmpty : Bool := false
deriving DecidableEq, Repr

/-- `c.IsValidIngressClass(ingClass)` for what `GetIngressClass(*className)` returns -/
def fromClassOf (cfg : Cfg) : Cls → Bool
  | .absent => false
  | .ours => true
  | .foreign => false
  | .dangling => cfg.ctrlEmpty

/-- cache.go:126 `IsValidIngress`, branch by branch -/
def isValidIngress (cfg : Cfg) (ann : Ann) (cls : Cls) : Bool :=
  let hasAnn := ann != .absent
  let fromAnn :=
    if cfg.watch then !hasAnn || ann == .ours
    else hasAnn && ann == .ours
  let hasClass := cls != .absent
  let fromClass := if hasClass then fromClassOf cfg cls else false
  if hasAnn then
    if hasClass && fromAnn != fromClass then
      if cfg.prec then fromClass else fromAnn
    else fromAnn
  else if hasClass then fromClass
  else fromAnn

/-! ## Spec: the documented rule (docs/content/en/docs/configuration/keys.md "Class matter",
command-line.md "Ingress Class") -/

/-- "Ingress resources have the annotation kubernetes.io/ingress.class with the value <class>" -/
def annSays : Ann → Bool
  | .ours => true
  | _ => false

/-- "ingressClassName field assigning an IngressClass resource whose controller name is <ours>" -/
def clsSays : Cls → Bool
  | .ours => true
  | _ => false

/-- * unclassified (neither annotation nor ingressClassName): selected iff `--watch-ingress-without-class`;
    * only one of them: that one decides;
    * both: if they agree that is the answer, "if they conflict the annotation value wins",
      unless `--ingress-class-precedence` ("IngressClass resource should take precedence"). -/
def spec (cfg : Cfg) (ann : Ann) (cls : Cls) : Bool :=
  match ann, cls with
  | .absent, .absent => cfg.watch
  | .absent, c => clsSays c
  | a, .absent => annSays a
  | a, c => if annSays a = clsSays c then annSays a else if cfg.prec then clsSays c else annSays a

/-- `GetIngress`: the object is returned iff it exists and is valid -/
def getIngress (cfg : Cfg) (o : Option (Ann × Cls)) : Bool :=
  match o with
  | some (a, c) => isValidIngress cfg a c
  | none => false

/-- `GetIngressList`: filter through `IsValidIngress`, order kept -/
def getIngressList {α} (cfg : Cfg) (l : List (α × Ann × Cls)) : List α :=
  (l.filter fun x => isValidIngress cfg x.2.1 x.2.2).map (·.1)

/-! ## Watchers -/

structure Obj where
  ann : Ann
  cls : Cls
  /-- fingerprint of the other annotations -/
  annRest : Nat := 0
  /-- fingerprint of the rest of the spec -/
  specRest : Nat := 0
  /-- fingerprint of labels and other metadata that neither predicate looks at -/
  metaRest : Nat := 0
deriving DecidableEq, Repr, Inhabited

def Obj.valid (cfg : Cfg) (o : Obj) : Bool := isValidIngress cfg o.ann o.cls
def Obj.selected (cfg : Cfg) (o : Obj) : Bool := spec cfg o.ann o.cls

/-- `predicate.Or(AnnotationChangedPredicate, GenerationChangedPredicate)` on an update.
Interface assumption (API server): `metadata.generation` changes iff the spec changes. -/
def changed (o n : Obj) : Bool :=
  o.ann != n.ann || o.annRest != n.annRest || o.cls != n.cls || o.specRest != n.specRest

inductive Ev
  | create (n : Obj)
  | update (o n : Obj)
  | delete (o : Obj)
deriving Repr

inductive Act | add | upd | del | none
deriving DecidableEq, Repr, Inhabited

/-- predicates (conjunction) followed by the handler's add/upd/del; `none` = filtered out or
listed nowhere -/
def classify (cfg : Cfg) : Ev → Act
  | .create n => if n.valid cfg then .add else .none
  | .delete o => if o.valid cfg then .del else .none
  | .update o n =>
    if !(changed o n) then .none
    else if !(o.valid cfg || n.valid cfg) then .none
    else if o.valid cfg && n.valid cfg then .upd
    else if !(o.valid cfg) && n.valid cfg then .add
    else if o.valid cfg && !(n.valid cfg) then .del
    else .none

/-- what the Spec asks of one event -/
def wanted (cfg : Cfg) : Ev → List Act
  | .create n => if n.selected cfg then [.add] else [.none]
  | .delete o => if o.selected cfg then [.del] else [.none]
  | .update o n =>
    match o.selected cfg, n.selected cfg with
    | false, true => [.add]
    | true, false => [.del]
    | false, false => [.none]
    | true, true => if changed o n then [.upd] else [.none, .upd]

/-! ## Histories of one cluster: ingresses `0..`, API-server operations -/

inductive Op
  | create (i : Nat) (n : Obj)
  | update (i : Nat) (n : Obj)
  | delete (i : Nat)
deriving Repr

structure St where
  /-- API server content -/
  world : Nat → Option Obj
  /-- the ingresses that currently contribute to the configuration.  Interface to C01:
  an ingress listed in `IngressesAdd` is converted, one listed in `IngressesDel` has everything
  it added removed, one in `IngressesUpd` is removed and converted again. -/
  contrib : Nat → Bool

def St.init : St := { world := fun _ => none, contrib := fun _ => false }

def set {α} (f : Nat → α) (i : Nat) (v : α) : Nat → α := fun j => if j = i then v else f j

def applyAct (c : Nat → Bool) (i : Nat) : Act → (Nat → Bool)
  | .add => set c i true
  | .del => set c i false
  | .upd => set c i true
  | .none => c

/-- the event the informer delivers for an operation (none if the operation is impossible) -/
def eventOf (s : St) : Op → Option (Nat × Ev)
  | .create i n => match s.world i with | none => some (i, .create n) | some _ => none
  | .update i n => match s.world i with | some o => some (i, .update o n) | none => none
  | .delete i => match s.world i with | some o => some (i, .delete o) | none => none

def worldAfter (s : St) : Op → (Nat → Option Obj)
  | .create i n => match s.world i with | none => set s.world i (some n) | some _ => s.world
  | .update i n => match s.world i with | some _ => set s.world i (some n) | none => s.world
  | .delete i => set s.world i none

def step (cfg : Cfg) (s : St) (op : Op) : St :=
  match eventOf s op with
  | none => s
  | some (i, ev) => { world := worldAfter s op, contrib := applyAct s.contrib i (classify cfg ev) }

def run (cfg : Cfg) (ops : List Op) : St := ops.foldl (step cfg) St.init

def validAt (cfg : Cfg) (w : Nat → Option Obj) (i : Nat) : Bool :=
  match w i with
  | some o => o.valid cfg
  | none => false

/-! ## One ingress and one IngressClass object: class events (the part of the property that
the ingress events alone do not cover) -/

/-- the IngressClass object the ingress may name -/
inductive ClassObj | none | ours | foreign
deriving DecidableEq, Repr, Inhabited

/-- does the ingress name that class (`r = true`) or nothing (`false`) -/
structure Ing2 where
  ann : Ann
  ref : Bool
deriving DecidableEq, Repr, Inhabited

def resolve (k : ClassObj) (i : Ing2) : Cls :=
  if i.ref then (match k with | .none => .dangling | .ours => .ours | .foreign => .foreign) else .absent

def Ing2.valid (cfg : Cfg) (k : ClassObj) (i : Ing2) : Bool := isValidIngress cfg i.ann (resolve k i)
def Ing2.selected (cfg : Cfg) (k : ClassObj) (i : Ing2) : Bool := spec cfg i.ann (resolve k i)

inductive Op2
  | ingCreate (i : Ing2)
  | ingUpdate (i : Ing2)
  | ingDelete
  | classSet (k : ClassObj)     -- create / update / delete of the IngressClass object
deriving DecidableEq, Repr

structure St2 where
  cls : ClassObj := .none
  ing : Option Ing2 := none
  /-- the ingress is part of the configuration -/
  contrib : Bool := false
deriving DecidableEq, Repr

def classValid : ClassObj → Bool
  | .ours => true
  | _ => false

/-- One reconciliation per operation.
Ingress events (partial sync): `classify`, then the converter converts Add, removes Del,
re-converts Upd (`trackAddedIngress` links the hosts of the rules of an updated ingress before
the dirty set is computed, so an Upd converts the ingress even if it did not contribute;
ingresses here have one rule — the tracking gaps of rule-less ingresses belong to C01).
Class events: predicate `IsValidIngressClass old ∨ new` (create: new, delete: old).
  * `fullOnClass = true` (the code as it is: the IngressClass handler has `full: true`):
    an accepted event asks for a full sync, which reads every ingress through
    `GetIngressList`, i.e. the ingress contributes iff it is valid;
  * `fullOnClass = false` (the handler without the flag, kept to show why it is needed):
    the handler only records the link `IngressClass/<name>` and `syncPartial` re-reads through
    `GetIngress` exactly the ingresses the tracker links to that class, i.e. those converted
    while naming it: the ingress if it `contrib`utes and `ref`s. -/
def step2 (cfg : Cfg) (fullOnClass : Bool) (s : St2) : Op2 → St2
  | .ingCreate i =>
    match s.ing with
    | some _ => s
    | none => { s with ing := some i, contrib := i.valid cfg s.cls }
  | .ingUpdate n =>
    match s.ing with
    | none => s
    | some o =>
      let ev := Ev.update ⟨o.ann, resolve s.cls o, 0, 0, 0⟩ ⟨n.ann, resolve s.cls n, 0, 0, 0⟩
      { s with ing := some n,
               contrib := match classify cfg ev with
                 | .add => true | .del => false | .upd => true | .none => s.contrib }
  | .ingDelete =>
    match s.ing with
    | none => s
    | some o => { s with ing := none, contrib := if o.valid cfg s.cls then false else s.contrib }
  | .classSet k =>
    if k = s.cls then s else
    let accepted := classValid s.cls || classValid k
    let s' := { s with cls := k }
    if !accepted then s' else
    match s.ing with
    | none => if fullOnClass then { s' with contrib := false } else s'
    | some i =>
      if fullOnClass then { s' with contrib := i.valid cfg k }
      else if s.contrib && i.ref then { s' with contrib := i.valid cfg k } else s'

def run2 (cfg : Cfg) (fullOnClass : Bool) (ops : List Op2) : St2 := ops.foldl (step2 cfg fullOnClass) {}

def selectedNow (cfg : Cfg) (s : St2) : Bool :=
  match s.ing with
  | some i => i.selected cfg s.cls
  | none => false

/-! ## The annotation as the code reads it: `ann, hasAnn := ing.Annotations[...]`

The map lookup yields the pair (value, present).  A generator of class states has to cover FOUR
states of the annotation: absent `("", false)`, present but empty `("", true)` (what a chart
renders from an unset value), the controller's class, any other value.  The first two have the
same VALUE and different verdicts (`Props/C08List.lean: presence_matters`). -/

/-- cache.go `IsValidIngress` on the raw lookup result `p = (ann, hasAnn)`; `ic` = `config.IngressClass` -/
def isValidRaw (cfg : Cfg) (ic : String) (p : String × Bool) (cls : Cls) : Bool :=
  let ann := p.1
  let hasAnn := p.2
  let fromAnn :=
    if cfg.watch then !hasAnn || ann == ic
    else hasAnn && ann == ic
  let hasClass := cls != .absent
  let fromClass := if hasClass then fromClassOf cfg cls else false
  if hasAnn then
    if hasClass && fromAnn != fromClass then
      if cfg.prec then fromClass else fromAnn
    else fromAnn
  else if hasClass then fromClass
  else fromAnn

/-- the abstraction of the raw lookup used by every C08 theorem -/
def absOf (ic : String) (p : String × Bool) : Ann :=
  if !p.2 then .absent else if p.1 == ic then .ours else .foreign

/-- the four annotation states a generator must reach -/
inductive AnnS | absent | empty | ours | foreign
deriving DecidableEq, Repr, Inhabited

def AnnS.raw (ic other : String) : AnnS → String × Bool
  | .absent => ("", false)
  | .empty => ("", true)
  | .ours => (ic, true)
  | .foreign => (other, true)

/-! ## Listings: several ingresses in ONE answer of `client.List`, and full syncs

`GetIngressList` (the reader behind every full sync and the status updater) lists every
Ingress of the cluster in the order the client returns them and keeps the valid ones:
`getIngressList` above.  Here the cluster is the `world` of the history model, `order` the
order in which the client lists the ingresses. -/

/-- what `client.List` returns: the existing ingresses among `order`, in that order -/
def listing (w : Nat → Option Obj) (order : List Nat) : List (Nat × Ann × Cls) :=
  order.filterMap fun i => (w i).map fun o => (i, o.ann, o.cls)

/-- the ingresses `GetIngressList` returns -/
def listed (cfg : Cfg) (w : Nat → Option Obj) (order : List Nat) : List Nat :=
  getIngressList cfg (listing w order)

/-- a cluster given as a list: ingress `k` is the `k`-th element -/
def worldOf (l : List Obj) : Nat → Option Obj := fun i => l[i]?

def Op.idx : Op → Nat
  | .create i _ => i
  | .update i _ => i
  | .delete i => i

/-- histories with full syncs: `full order` = a reconciliation that asks for a full sync
(start-up, global ConfigMap change, IngressClass / Gateway API event, leader change) while the
client lists the ingresses in `order` -/
inductive OpF
  | op (o : Op)
  | full (order : List Nat)
deriving Repr

structure StF where
  st : St := St.init
  /-- every index an operation has named so far (a superset of the existing ingresses) -/
  dom : List Nat := []

/-- a full sync drops the whole configuration and converts exactly what `GetIngressList` returns -/
def fullSync (cfg : Cfg) (s : St) (order : List Nat) : St :=
  { s with contrib := fun i => (listed cfg s.world order).contains i }

/-- a listing that omits an ingress named before is not an answer of a consistent client: such a
`full` is skipped (as impossible operations are) -/
def stepF (cfg : Cfg) (s : StF) : OpF → StF
  | .op o => { st := step cfg s.st o, dom := o.idx :: s.dom }
  | .full order =>
    if s.dom.all (fun i => order.contains i) then { s with st := fullSync cfg s.st order } else s

def runF (cfg : Cfg) (ops : List OpF) : StF := ops.foldl (stepF cfg) {}

/-- the rule applied to ingress `i` of the cluster `l` -/
def selList (cfg : Cfg) (l : List Obj) (i : Nat) : Bool :=
  match l[i]? with
  | some o => o.selected cfg
  | none => false

/-- `list` cases: `ids` = the ingresses the facade's GetIngressList returned for the cluster `l`.
Each ingress of the cluster is in the answer iff the rule selects IT — whatever else is listed,
in whatever order. -/
def oracleList (cfg : Cfg) (l : List Obj) (ids : List Nat) : Option String :=
  if ids.any (fun i => i ≥ l.length) then some "list-returns-unknown-ingress"
  else if ids.eraseDups.length != ids.length then some "list-returns-duplicate"
  else if (List.range l.length).any (fun i => ids.contains i && !(selList cfg l i)) then
    some "unselected-ingress-listed"
  else if (List.range l.length).any (fun i => !(ids.contains i) && selList cfg l i) then
    some "selected-ingress-not-listed"
  else none

/-- `lsync` cases: `bits i` = the host of ingress `i` is in the haproxy model, `sel i` = the rule
selects the current object `i`; `full` = the reconciliation was a full sync -/
def oracleSync (n : Nat) (full : Bool) (bits sel : Nat → Bool) : Option String :=
  if (List.range n).any (fun i => bits i && !(sel i)) then
    some (if full then "unselected-ingress-configured-by-full-sync" else "unselected-ingress-configured")
  else if (List.range n).any (fun i => !(bits i) && sel i) then
    some (if full then "selected-ingress-dropped-by-full-sync" else "selected-ingress-not-configured")
  else none

/-! ## Oracle on implementation outputs -/

/-- `valid` cases: the facade's IsValidIngress / GetIngress / GetIngressList answers -/
def oracleValid (cfg : Cfg) (a : Ann) (c : Cls) (v get list : Bool) : Option String :=
  if v != spec cfg a c then some "class-rule"
  else if get != spec cfg a c then some "get-filter"
  else if list != spec cfg a c then some "list-filter"
  else none

def oracleEvent (cfg : Cfg) (ev : Ev) (act : Act) : Option String :=
  if (wanted cfg ev).contains act then none else
  match ev with
  | .create _ => some "create-misclassified"
  | .delete _ => some "delete-misclassified"
  | .update o n =>
    match o.selected cfg, n.selected cfg with
    | false, true => some "became-selected-not-added"
    | true, false => some "became-unselected-not-removed"
    | false, false => some "unselected-event-delivered"
    | true, true => some "update-lost"

end HapVerif.C08
