/-
M-Store (hosts): the `Hosts` container of pkg/haproxy/types/host.go with its derived counter
`sslPassthroughCount` (HasSSLPassthrough() decides whether the tcp `_front__tls` proxy and the
`_front_https__local` split are rendered: a counter that drifts away from the items makes the
long-lived controller render another frontend layout than a freshly started one — property C01).

Go                                  model
  items     map[string]*Host          `items`  : association list name -> Host (by value)
  itemsAdd  map[string]*Host          `add`    : names; the object is the one in `items` (same pointer in Go,
                                                 true for every disciplined cycle, see `cycle`)
  itemsDel  map[string]*Host          `del`    : removed objects (by value)
  sslPassthroughCount int             `count`
  AcquireHost / SetSSLPassthrough / RemoveAll (releaseHost) / Shrink (reflect.DeepEqual) / Commit / Clear

`other` stands for every field of Host that reflect.DeepEqual looks at besides the name and the flag.
-/
namespace HapVerif.C01Hosts

structure Host where
  name  : String
  pass  : Bool
  other : Nat
  deriving DecidableEq, Repr

structure St where
  items : List Host := []
  add   : List String := []
  del   : List Host := []
  count : Int := 0
  deriving DecidableEq, Repr

def find (l : List Host) (n : String) : Option Host := l.find? (·.name = n)

def passCount (l : List Host) : Int := ((l.filter (·.pass)).length : Int)

/-- `AcquireHost`: the existing object, or a fresh one (flag off) registered in items and itemsAdd -/
def acquire (s : St) (n : String) : St :=
  match find s.items n with
  | some _ => s
  | none => { s with items := s.items ++ [⟨n, false, 0⟩], add := s.add ++ [n] }

/-- `Host.SetSSLPassthrough(v)` on the object held by items -/
def setPass (s : St) (n : String) (v : Bool) : St :=
  match find s.items n with
  | none => s
  | some h =>
    if h.pass = v then s else
      { s with items := s.items.map (fun x => if x.name = n then { x with pass := v } else x),
               count := if v then s.count + 1 else s.count - 1 }

/-- any other configuration of the host -/
def setOther (s : St) (n : String) (k : Nat) : St :=
  { s with items := s.items.map (fun x => if x.name = n then { x with other := k } else x) }

/-- `releaseHost` -/
def release (c : Int) (h : Host) : Int := if h.pass then c - 1 else c

/-- `RemoveAll(names)` -/
def removeOne (s : St) (n : String) : St :=
  match find s.items n with
  | none => s
  | some h => { s with items := s.items.filter (·.name ≠ n), del := s.del.filter (·.name ≠ n) ++ [h],
                       count := release s.count h }
def removeAll (s : St) (ns : List String) : St := ns.foldl removeOne s

/-- variants of `Shrink`: the code as it is, and the two seeded mutations (kept as counter-examples) -/
inductive Variant | current | reacquire | rerelease
  deriving DecidableEq, Repr

/-- one iteration of the loop of `Shrink` over itemsDel -/
def shrinkOne (v : Variant) (s : St) (d : Host) : St :=
  if d.name ∈ s.add then
    match find s.items d.name with
    | some a =>
      if a = d then
        -- items[name] = del; delete(itemsAdd, name); delete(itemsDel, name)
        { s with items := s.items.map (fun x => if x.name = d.name then d else x),
                 add := s.add.filter (· ≠ d.name), del := s.del.filter (·.name ≠ d.name),
                 count := match v with
                   | .current => s.count
                   | .reacquire => if d.pass then s.count + 1 else s.count
                   | .rerelease => release s.count d }
      else s
    | none => s
  else s
def shrink (v : Variant) (s : St) : St := s.del.foldl (shrinkOne v) s

def commit (s : St) : St := { s with add := [], del := [] }

/-- `CreateHosts()` (config.Clear of a full sync) -/
def clear : St := {}

/-- one declaration of a converter run: acquire the host and configure it -/
structure Decl where
  name  : String
  pass  : Bool
  other : Nat
  deriving DecidableEq, Repr

def declare (s : St) (d : Decl) : St := setOther (setPass (acquire s d.name) d.name d.pass) d.name d.other

/-- one reconciliation as converters.Sync + HAProxyUpdate run it: (Clear | RemoveAll dirty), the declarations
    of the re-synced ingresses, Shrink, Commit -/
structure Cycle where
  full  : Bool
  dirty : List String
  decls : List Decl
  deriving Repr

def cycle (v : Variant) (s : St) (c : Cycle) : St :=
  let s0 := if c.full then clear else removeAll s c.dirty
  commit (shrink v (c.decls.foldl declare s0))

def run (v : Variant) (cs : List Cycle) : St := cs.foldl (cycle v) {}

def hasPass (s : St) : Bool := decide (s.count > 0)

/-- Spec: the flag the templates read says whether some current host is an ssl-passthrough host -/
def oracle (implHas : Bool) (implItems : List Host) : Option String :=
  if implHas = (implItems.any (·.pass)) then none
  else if implHas then some "passthrough-flag-without-passthrough-host"
  else some "passthrough-host-without-passthrough-flag"

end HapVerif.C01Hosts
