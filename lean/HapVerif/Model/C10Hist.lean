import HapVerif.Model.C10
/-!
# C10 — histories on one long-lived cache facade (core-only)

The cache facade of `pkg/controller/services` is created ONCE (`services.go`) and serves every
reconciliation of the controller's life.  `Model/C10.lean` describes one full sync of a fresh
controller over one cluster; this file lifts it to HISTORIES: a state machine whose step replaces the
cluster (any set of changes to GatewayClass / Gateway / listener / Namespace / route objects), lets the
Gateway watchers validate the Gateways they saw changing, and runs a full sync — every Gateway API change
triggers one (`full: true` handlers of `reconciler/watchers.go`).

What the facade may carry from one call of `isValidGateway` to the next is a MODEL PARAMETER (`Facade σ`,
like `Model/C19.lean`'s `Updater σ`):

* `pureFacade` is the code as it is (`isValidGateway` reads the GatewayClass on every call and compares
  `spec.controllerName`; pinned by the regenerated facts `c10ValidGateway*`, theorem `facts_c10_facade`);
* `memoFacade` remembers every class name that once matched (the seeded change C10f).

The sync through a facade (`attsF`) follows the call order of the Go code: HTTPRoutes sorted, then
TCPRoutes sorted; per route the parentRefs in order; one `GetGateway` — hence one `isValidGateway` — per
parentRef that designates an existing Gateway.  Its result is the list of ATTACHMENTS
(route, parentRef, gateway, listener), from which the configuration follows (`attEvents`, `stateOf`).
-/
namespace HapVerif.C10

/-- cache.go `isValidGateway` as a function of the GatewayClass objects of the cluster:
class found and `Spec.ControllerName == config.ControllerName` -/
def classOursIn (classes : List (String × Bool)) (cls : String) : Bool :=
  match classes.lookup cls with
  | some b => b
  | none => false

/-- A cache facade, as far as the GatewayClass filter goes: what it keeps from one `isValidGateway`
call to the next (`σ`, for the whole life of the process) and the call itself: carried state, the
GatewayClass objects of the cluster at the time of the call, the Gateway's class name ↦ answer. -/
structure Facade (σ : Type) where
  init : σ
  valid : σ → List (String × Bool) → String → Bool × σ

/-- the code as it is: every call reads the GatewayClass -/
def pureFacade : Facade Unit where
  init := ()
  valid _ classes cls := (classOursIn classes cls, ())

/-- the variant with a memo of the class names that once matched (seeded defect C10f):
a remembered class short-circuits to `true` without reading the GatewayClass -/
def memoFacade : Facade (List String) where
  init := []
  valid memo classes cls :=
    if memo.contains cls then (true, memo)
    else if classOursIn classes cls then (true, cls :: memo)
    else (false, memo)

/-- one attachment: the route is converted through this listener of this gateway -/
structure Att where
  r : Route
  pr : ParentRef
  gw : Gateway
  l : Listener
deriving DecidableEq, Repr

/-- `syncHTTPRouteGateway` / `syncTCPRouteGateway`: the listeners that take the route -/
def gatewayAtts (fx : Bool) (w : World) (r : Route) (pr : ParentRef) (gw : Gateway) : List Att :=
  (gw.listeners.filter fun l => sectionOK pr l && protoGuard fx r l && listenerAllowed w gw r l).map
    fun l => { r := r, pr := pr, gw := gw, l := l }

/-- `syncRoute` over a facade: the parentRef loop, one `isValidGateway` per existing Gateway designated -/
def routeAttsF {σ : Type} (f : Facade σ) (fx : Bool) (w : World) (r : Route) : σ → List ParentRef → List Att × σ
  | s, [] => ([], s)
  | s, pr :: prs =>
    if refersGateway pr then
      match findGateway w (parentNs r pr) pr.name with
      | some gw =>
        let a := f.valid s w.classes gw.cls
        let rest := routeAttsF f fx w r a.2 prs
        ((if a.1 then gatewayAtts fx w r pr gw else []) ++ rest.1, rest.2)
      | none => routeAttsF f fx w r s prs
    else routeAttsF f fx w r s prs

def routesAttsF {σ : Type} (f : Facade σ) (fx : Bool) (w : World) : σ → List Route → List Att × σ
  | s, [] => ([], s)
  | s, r :: rs =>
    let a := routeAttsF f fx w r s r.parents
    let b := routesAttsF f fx w a.2 rs
    (a.1 ++ b.1, b.2)

/-- `Sync`: HTTPRoutes, then TCPRoutes, each list sorted -/
def syncOrder (w : World) : List Route :=
  sortRoutes (w.routes.filter fun r => !r.tcp) ++ sortRoutes (w.routes.filter fun r => r.tcp)

/-- attachments of one full sync through the facade, and what the facade carries afterwards -/
def attsF {σ : Type} (f : Facade σ) (fx : Bool) (w : World) (s : σ) : List Att × σ :=
  routesAttsF f fx w s (syncOrder w)

/-- the fresh controller of `Model/C10.lean`: the attachments of `events` -/
def atts (fx : Bool) (w : World) : List Att :=
  (syncOrder w).flatMap fun r => r.parents.flatMap fun pr =>
    match resolveParent w r pr with
    | none => []
    | some gw => gatewayAtts fx w r pr gw

/-- the declarations an attachment list gives (rule loop of `sync{HTTP,TCP}RouteGateway`) -/
def attEvents (w : World) (as : List Att) : List Ev := as.flatMap fun a => rulesEvents w a.r a.l

/-- the haproxy model after the declarations (first declared wins) -/
def stateOf (evs : List Ev) : State :=
  { backends := firsts (·.id) (evs.map Ev.backend),
    paths := firsts pathKey (evs.filterMap Ev.path?),
    tcps := firsts (·.port) (evs.filterMap Ev.tcp?) }

/-! ## histories -/

/-- one step of a history: the cluster is replaced by `world`; the Gateway watchers validate the
Gateways of the class names `probes` (old and new object of every Gateway update event:
`IsValidGateway{A2,B1}` in `handlersGatewayv1alpha2/v1beta1`); then a full sync runs -/
structure Step where
  probes : List String
  world : World

def probeF {σ : Type} (f : Facade σ) (classes : List (String × Bool)) : σ → List String → σ
  | s, [] => s
  | s, c :: cs => probeF f classes (f.valid s classes c).2 cs

/-- result of one full sync: who is attached, and the configuration -/
abbrev Outcome := List Att × State

def stepF {σ : Type} (f : Facade σ) (fx : Bool) (s : σ) (st : Step) : Outcome × σ :=
  let s1 := probeF f st.world.classes s st.probes
  let a := attsF f fx st.world s1
  ((a.1, stateOf (attEvents st.world a.1)), a.2)

/-- the controller's life from facade state `s`: the outcome of every full sync -/
def runF {σ : Type} (f : Facade σ) (fx : Bool) : σ → List Step → List Outcome
  | _, [] => []
  | s, st :: rest =>
    let a := stepF f fx s st
    a.1 :: runF f fx a.2 rest

/-- a controller started with a new facade -/
def history {σ : Type} (f : Facade σ) (fx : Bool) (steps : List Step) : List Outcome := runF f fx f.init steps

/-- a fresh controller started on cluster `w` -/
def fresh (fx : Bool) (w : World) : Outcome := (atts fx w, sync fx w)

/-! ## what the watchers probe between two clusters (used by the driver; the theorems hold for ANY probes) -/

/-- Gateways present before and after with a different spec: old class, new class (the v1alpha2 and
v1beta1 Gateway update handlers; the v1 handlers validate nothing) -/
def gwProbes (ver : String) (prev cur : World) : List String :=
  if ver = "v1" then [] else
  prev.gws.flatMap fun g =>
    match findGateway cur g.ns g.name with
    | some g' => if g' = g then [] else [g.cls, g'.cls]
    | none => []

def stepsOf (ver : String) : Option World → List World → List Step
  | _, [] => []
  | none, w :: ws => { probes := [], world := w } :: stepsOf ver (some w) ws
  | some p, w :: ws => { probes := gwProbes ver p w, world := w } :: stepsOf ver (some w) ws

/-- observed form of a model state (what the Spec oracle reads) -/
def State.obs (s : State) : Obs :=
  { paths := s.paths.map fun p => (p.host, p.link, p.backend.id),
    backends := s.backends,
    tcps := s.tcps.map fun t => (t.port, t.backend.id) }

end HapVerif.C10
