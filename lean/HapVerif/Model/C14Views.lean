import HapVerif.GoLib
/-!
Views of the structs `watchers.initCh`, `watchers.getChangedObjects` and the ConfigMap callback `cmChange`
(pkg/controller/reconciler/watchers.go) touch, for their TRANSLATION (Generated/CodeC14.lean).  ConfigMap `.Data`
is an identifier of the content as in Model/C14.lean: `none` = nil map, `some 0` = the empty map.  Core-only.
-/
namespace HapVerif.C14V

/-- the four chained fields of `types.ChangedObjects` (every other field of a fresh object is empty) -/
structure ChView where
  GlobalConfigMapDataCur : Option Nat := none
  GlobalConfigMapDataNew : Option Nat := none
  TCPConfigMapDataCur : Option Nat := none
  TCPConfigMapDataNew : Option Nat := none
deriving DecidableEq, Repr, Inhabited

/-- `watchers`: the accumulating batch (non-nil once `createWatchers` ran) and the `run` flag -/
structure WView where
  ch : ChView
  run : Bool
deriving DecidableEq, Repr

/-- `w.initCh()` called by a method of `w` whose `w.ch` is non-nil -/
def applyInit (initCh : Option ChView → ChView) (w : WView) : WView := { w with ch := initCh (some w.ch) }

structure CmView where
  Namespace : String
  Name : String
  Data : Option Nat
deriving DecidableEq, Repr

/-- `w.cfg.ConfigMapName`, `w.cfg.TCPConfigMapName` -/
structure CfgNames where
  ConfigMapName : String
  TCPConfigMapName : String
deriving DecidableEq, Repr

end HapVerif.C14V
