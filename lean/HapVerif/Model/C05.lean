/-
M-Store: model of pkg/haproxy/types/backends.go (`Backends`: items / itemsAdd / itemsDel / shards /
changedShards with AcquireBackend, RemoveAll, Clear, Shrink, Commit, ChangedShards,
BuildSortedShard / BuildSortedItems) and of the backend part of the update cycle of
pkg/haproxy/instance.go (`HAProxyUpdate`: `config.Shrink()`, `writeConfig()` = main file plus
`ChangedShards()` only, deferred `config.Commit()`).  Core-only.

Names are drawn from a finite universe `Fin p` (every history touches finitely many names; the
theorems hold for every `p`).  Go maps are finite maps `Fin p → Option Content`.  The shard of a
name is the abstract function `Sh.shardOf` (the real one is md5-based: `createBackend`), the
harness reports the real shard of every name it uses.

A backend's rendered content is abstract: `cfg` stands for everything but the endpoint list,
`slots` for the (empty) endpoint slots.  `Shrink` drops a del/add pair of the same name when
`len(add.Endpoints) <= len(del.Endpoints) && backendsMatch(add, del)`; `backendsMatch` ignores
empty endpoints, hence `Content.matches`.  Shrink puts the DELETED object back into `items`
(`b.items[name] = del`), which is what keeps `items` equal to the file content.
-/
namespace HapVerif.C05

structure Content where
  cfg : Nat
  slots : Nat
deriving DecidableEq, Repr

/-- `len(add.Endpoints) <= len(del.Endpoints) && backendsMatch(add, del)` -/
def Content.matches (add del : Content) : Bool := add.cfg == del.cfg && decide (add.slots ≤ del.slots)

abbrev Map (p : Nat) := Fin p → Option Content

def emp {p : Nat} : Map p := fun _ => none
def setM {p : Nat} (m : Map p) (x : Fin p) (v : Option Content) : Map p := fun y => if y = x then v else m y

/-- bounded existential over `Fin p` (Go: `len(m) > 0`, loops over a map) -/
def anyBelow {p : Nat} (f : Fin p → Bool) : (i : Nat) → i ≤ p → Bool
  | 0, _ => false
  | i + 1, h => f ⟨i, h⟩ || anyBelow f i (Nat.le_of_succ_le h)

def anyFin {p : Nat} (f : Fin p → Bool) : Bool := anyBelow f p (Nat.le_refl p)

/-- shard count (`len(b.shards)`, 0 = sharding disabled) and shard function (`backend.shard`) -/
structure Sh (p : Nat) where
  n : Nat
  shardOf : Fin p → Nat

/-- `createBackend`: `shard = hash64 % shards` when `shards > 0`, else 0 -/
def Sh.WF {p : Nat} (sh : Sh p) : Prop := ∀ x, if sh.n = 0 then sh.shardOf x = 0 else sh.shardOf x < sh.n

structure Store (p : Nat) where
  items : Map p := emp
  add : Map p := emp
  del : Map p := emp
  shards : Nat → Map p := fun _ => emp          -- only used when `n > 0`
  changed : Nat → Bool := fun _ => false        -- `changedShards`

/-- one file per shard (`haproxy5-backendNNN.cfg`); with `n = 0` file 0 is the main file -/
abbrev Disk (p : Nat) := Nat → Map p

variable {p : Nat}

/-- `if len(b.shards) > 0 { b.shards[backend.shard][id] = v }` (`v = none`: delete) -/
def setShard (sh : Sh p) (shards : Nat → Map p) (x : Fin p) (v : Option Content) : Nat → Map p :=
  fun k y => if sh.n ≠ 0 ∧ k = sh.shardOf x ∧ y = x then v else shards k y

def flag (s : Store p) (k : Nat) : Store p := { s with changed := fun j => j == k || s.changed j }

/-- `AcquireBackend` (find or create) followed by the caller filling the new object -/
def acquire (sh : Sh p) (s : Store p) (x : Fin p) (c : Content) : Store p :=
  match s.items x with
  | some _ => s
  | none =>
    flag { s with
      items := setM s.items x (some c)
      add := setM s.add x (some c)
      shards := setShard sh s.shards x (some c) } (sh.shardOf x)

def removeOne (sh : Sh p) (s : Store p) (x : Fin p) : Store p :=
  match s.items x with
  | none => s
  | some v =>
    flag { s with
      items := setM s.items x none
      del := setM s.del x (some v)
      shards := setShard sh s.shards x none } (sh.shardOf x)

/-- `RemoveAll` -/
def removeAll (sh : Sh p) (s : Store p) (xs : List (Fin p)) : Store p := xs.foldl (removeOne sh) s

def nonEmpty (m : Map p) : Bool := anyFin fun x => (m x).isSome

/-- `Clear`: fresh state, `itemsDel` = the old items, every non-empty shard of the OLD state is
flagged in the NEW state (so a shard that the new state leaves empty is rewritten) -/
def clear (sh : Sh p) (s : Store p) : Store p :=
  { items := emp, add := emp, del := s.items, shards := fun _ => emp,
    changed := fun k => decide (k < sh.n) && nonEmpty (s.shards k) }

/-- `Clear` before the repair (historical witness): the loop tested the shards of the NEW (empty)
object and flagged the OLD object, which was then overwritten — no shard was ever flagged -/
def clearOld (_sh : Sh p) (s : Store p) : Store p :=
  { items := emp, add := emp, del := s.items, shards := fun _ => emp, changed := fun _ => false }

def matched (s : Store p) (x : Fin p) : Bool :=
  match s.del x, s.add x with
  | some d, some a => a.matches d
  | _, _ => false

/-- `Shrink`: every name is handled independently of the others, so Go's map order is irrelevant -/
def shrink (sh : Sh p) (s : Store p) : Store p :=
  let add' : Map p := fun x => if matched s x then none else s.add x
  let del' : Map p := fun x => if matched s x then none else s.del x
  { items := fun x => if matched s x then s.del x else s.items x
    add := add'
    del := del'
    shards := fun k x => if sh.n ≠ 0 ∧ matched s x = true ∧ k = sh.shardOf x then s.del x else s.shards k x
    changed := if anyFin (matched s) then
        fun k => anyFin fun x => ((add' x).isSome || (del' x).isSome) && sh.shardOf x == k
      else s.changed }

/-- `Commit` -/
def commit (s : Store p) : Store p := { s with add := emp, del := emp, changed := fun _ => false }

/-- `writeConfig`: the main file is always rendered (`BuildSortedItems` is `items` when there are no
shards, nil otherwise), then `BuildSortedShard(k)` for `k ∈ ChangedShards()` only -/
def write (sh : Sh p) (s : Store p) (d : Disk p) : Disk p :=
  if sh.n = 0 then fun k => if k = 0 then s.items else d k
  else fun k => if s.changed k then s.shards k else d k

inductive Op (p : Nat) where
  | acquire (x : Fin p) (c : Content)
  | removeAll (xs : List (Fin p))
  | clear
  | shrink
  | write
  | commit
  | update      -- shrink; write; commit  (one successful `HAProxyUpdate` that rewrites files)

structure World (p : Nat) where
  store : Store p := {}
  disk : Disk p := fun _ => emp

def stepWith (clr : Sh p → Store p → Store p) (sh : Sh p) (w : World p) : Op p → World p
  | .acquire x c => { w with store := acquire sh w.store x c }
  | .removeAll xs => { w with store := removeAll sh w.store xs }
  | .clear => { w with store := clr sh w.store }
  | .shrink => { w with store := shrink sh w.store }
  | .write => { w with disk := write sh w.store w.disk }
  | .commit => { w with store := commit w.store }
  | .update =>
    let s := shrink sh w.store
    { store := commit s, disk := write sh s w.disk }

/-- the current code -/
def step (sh : Sh p) (w : World p) (op : Op p) : World p := stepWith clear sh w op

def run (sh : Sh p) (w : World p) (ops : List (Op p)) : World p := ops.foldl (step sh) w

/-- the code before the repair of `Clear` -/
def runOld (sh : Sh p) (w : World p) (ops : List (Op p)) : World p := ops.foldl (stepWith clearOld sh) w

/-- `HAProxyUpdate` as a whole (end-to-end runs): `writeConfig` is reached when
`!updated || updater.cmdCnt > 0 || Backends().Changed()`.  With backends only (no host, global,
tcp or userlist change) the dynamic updater reports `updated` iff committed data exists
(`globalOld != nil`: an update ran since the last `config.Clear`) and no added backend is left
after `Shrink` (every remaining add/del pair fails `checkBackendPair`; removed backends without a
counterpart are not looked at); no socket command is ever sent (`cmdCnt = 0`).  So the write is
skipped iff nothing at all is pending after `Shrink`.  `Commit` is deferred: it runs on every path. -/
def updateGated (sh : Sh p) (committed : Bool) (w : World p) : World p :=
  let s := shrink sh w.store
  if committed && !(anyFin fun x => (s.add x).isSome) && !(anyFin fun x => (s.add x).isSome || (s.del x).isSome) then
    { store := commit s, disk := w.disk }
  else { store := commit s, disk := write sh s w.disk }

/-- the gate before the repair (historical witness): `Backends().Changed()` was not consulted, a
batch that only removed backends skipped `writeConfig` -/
def updateGatedOld (sh : Sh p) (committed : Bool) (w : World p) : World p :=
  let s := shrink sh w.store
  if committed && !(anyFin fun x => (s.add x).isSome) then { store := commit s, disk := w.disk }
  else { store := commit s, disk := write sh s w.disk }

/-- world + `config.hasCommittedData()` -/
structure GWorld (p : Nat) where
  w : World p := {}
  committed : Bool := false

/-- end-to-end step: `update` is the whole `HAProxyUpdate`, `clear` is `config.Clear()` (drops
`globalOld`), `commit` is `config.Commit()` (sets it) -/
def stepG (sh : Sh p) (g : GWorld p) : Op p → GWorld p
  | .update => { w := updateGated sh g.committed g.w, committed := true }
  | .clear => { w := step sh g.w .clear, committed := false }
  | .commit => { w := step sh g.w .commit, committed := true }
  | op => { g with w := step sh g.w op }

def runG (sh : Sh p) (g : GWorld p) (ops : List (Op p)) : GWorld p := ops.foldl (stepG sh) g

/-- what a file of shard `k` must hold: the current items of that shard -/
def itemsIn (sh : Sh p) (s : Store p) (k : Nat) : Map p := fun x => if sh.shardOf x = k then s.items x else none

/-- caller discipline, the quantifier of the property: a batch is a partial resync
(`RemoveAll(dirty)` before anything is re-added) or a full resync (`Clear` right after a commit);
`write`/`commit` only as part of an update cycle -/
def okOp (s : Store p) : Op p → Bool
  | .acquire _ _ => true
  | .removeAll xs => xs.all fun x => (s.add x).isNone
  | .clear => !(anyFin fun x => (s.add x).isSome || (s.del x).isSome)
  | .shrink => true
  | .write => false
  | .commit => false
  | .update => true

def allOk (sh : Sh p) : World p → List (Op p) → Bool
  | _, [] => true
  | w, op :: ops => okOp w.store op && allOk sh (step sh w op) ops

def allOkG (sh : Sh p) : GWorld p → List (Op p) → Bool
  | _, [] => true
  | g, op :: ops => okOp g.w.store op && allOkG sh (stepG sh g op) ops

/-! ### observations (driver) and the Spec evaluated on implementation output -/

/-- one backend as printed by the harness -/
structure Ent where
  name : Nat
  cfg : Nat
  slots : Nat
deriving DecidableEq, Repr

/-- observable state after one op -/
structure Obs where
  items : List Ent
  add : List Ent
  del : List Ent
  changed : List Nat
  disk : List (Nat × List Ent)      -- every file that exists, by shard index
deriving DecidableEq, Repr

def entsOf (m : Map p) : List Ent :=
  (List.finRange p).filterMap fun x => (m x).map fun c => { name := x.val, cfg := c.cfg, slots := c.slots }

/-- number of files: one per shard, or the single main file -/
def Sh.files (sh : Sh p) : Nat := if sh.n = 0 then 1 else sh.n

def obsOf (sh : Sh p) (w : World p) : Obs :=
  { items := entsOf w.store.items, add := entsOf w.store.add, del := entsOf w.store.del
    changed := (List.range sh.files).filter w.store.changed
    disk := (List.range sh.files).map fun k => (k, entsOf (w.disk k)) }

def hasName (l : List Ent) (n : Nat) : Bool := l.any (·.name == n)

def strictSorted : List Ent → Bool
  | a :: b :: r => decide (a.name < b.name) && strictSorted (b :: r)
  | _ => true

/-- Spec on one observation taken right after files were written: every file holds exactly the
current items of its shard, once, sorted; `shardOf` = the real shard index of each name -/
def diskClause (files : Nat) (shardOf : Nat → Nat) (o : Obs) : Option String :=
  let fileOf (k : Nat) : List Ent := ((o.disk.filter (·.1 == k)).map (·.2)).flatten
  if o.disk.any (fun f => !strictSorted f.2) then some "duplicate-or-unsorted-backend-on-disk"
  else if o.disk.any (fun f => decide (files ≤ f.1) && !f.2.isEmpty) then some "stale-backend-on-disk"
  else if o.disk.any (fun f => f.2.any fun e => !(hasName o.items e.name) || shardOf e.name != f.1) then
    some "stale-backend-on-disk"
  else if o.items.any (fun e => !(hasName (fileOf (shardOf e.name)) e.name)) then some "missing-backend-on-disk"
  else if o.items.any (fun e => !((fileOf (shardOf e.name)).contains e)) then some "outdated-backend-on-disk"
  else none

/-- discipline evaluated on the implementation's own observations (state before the op) -/
def okObs (prev : Obs) : Op p → Bool
  | .removeAll xs => xs.all fun x => !(hasName prev.add x.val)
  | .clear => prev.add.isEmpty && prev.del.isEmpty
  | _ => true

/-! ### hosts / frontend maps guard (`config.WriteFrontendMaps`)

`Hosts` has the same items/itemsAdd/itemsDel/Shrink/Commit shape with a single "file" (the set of
frontend maps) that is rewritten iff the guard in front of `WriteFrontendMaps` does not skip it.
`config.Clear` replaces hosts and frontend by fresh objects (itemsDel is NOT carried over;
`Maps == nil` forces the rewrite).  Host content is abstract (`Nat`, odd = the host has a root
redirect); `Hosts.Shrink` uses `reflect.DeepEqual`.

One frontend map is NOT a function of the hosts alone: `RedirRootSSLMap` lists a host with a root
redirect iff the BACKEND path of its root has `SSLRedirect` (`c.backends.Items()[..]`).  `bc x` is
the content of the backend serving host `x` (odd = ssl-redirect), `bcC x` its content at the last
commit: after `Backends.Shrink` that backend is in ItemsAdd/ItemsDel iff `bc x ≠ bcC x`. -/

def hasRoot (c : Nat) : Bool := c % 2 == 1
def sslOf (b : Nat) : Bool := b % 2 == 1

structure HStore (p : Nat) where
  items : Fin p → Option Nat := fun _ => none
  add : Fin p → Option Nat := fun _ => none
  del : Fin p → Option Nat := fun _ => none
  bc : Fin p → Nat := fun _ => 0
  bcC : Fin p → Nat := fun _ => 0
  mapsNil : Bool := true
  maps : Fin p → Option (Nat × Bool) := fun _ => none     -- host entry + root-ssl entry in the map files

def hset (m : Fin p → Option Nat) (x : Fin p) (v : Option Nat) : Fin p → Option Nat := fun y => if y = x then v else m y

def HStore.acquire (s : HStore p) (x : Fin p) (c : Nat) : HStore p :=
  match s.items x with
  | some _ => s
  | none => { s with items := hset s.items x (some c), add := hset s.add x (some c) }

def HStore.removeOne (s : HStore p) (x : Fin p) : HStore p :=
  match s.items x with
  | none => s
  | some v => { s with items := hset s.items x none, del := hset s.del x (some v) }

def HStore.removeAll (s : HStore p) (xs : List (Fin p)) : HStore p := xs.foldl HStore.removeOne s

/-- the backend of host `x` is removed and re-added with content `b` -/
def HStore.backend (s : HStore p) (x : Fin p) (b : Nat) : HStore p :=
  { s with bc := fun y => if y = x then b else s.bc y }

/-- `config.Clear`: fresh `Hosts`, fresh `Frontend` (`Maps = nil`); the files stay on disk -/
def HStore.clear (s : HStore p) : HStore p := { maps := s.maps, bc := s.bc, bcC := s.bcC }

def HStore.hmatched (s : HStore p) (x : Fin p) : Bool :=
  match s.del x, s.add x with
  | some d, some a => a == d
  | _, _ => false

def HStore.shrink (s : HStore p) : HStore p :=
  { s with
    items := fun x => if s.hmatched x then s.del x else s.items x
    add := fun x => if s.hmatched x then none else s.add x
    del := fun x => if s.hmatched x then none else s.del x }

/-- `Hosts.Changed()` -/
def HStore.isChanged (s : HStore p) : Bool := anyFin fun x => (s.add x).isSome || (s.del x).isSome

/-- `config.rootRedirectBackendChanged()`: a changed backend serves a host with a root redirect -/
def HStore.rootBackendChanged (s : HStore p) : Bool :=
  anyFin fun x => (s.bc x != s.bcC x) && (match s.items x with | some c => hasRoot c | none => false)

/-- what the map files must hold for host `x` -/
def HStore.want (s : HStore p) (x : Fin p) : Option (Nat × Bool) :=
  (s.items x).map fun c => (c, hasRoot c && sslOf (s.bc x))

/-- `WriteFrontendMaps` then `Commit`.  `withBackends = false` is the guard before the repair:
`Maps != nil && !hosts.Changed()` alone -/
def HStore.updateWith (withBackends : Bool) (s : HStore p) : HStore p :=
  let s := s.shrink
  let skip := !s.mapsNil && !s.isChanged && !(withBackends && s.rootBackendChanged)
  let s := if skip then s else { s with maps := s.want, mapsNil := false }
  { s with add := fun _ => none, del := fun _ => none, bcC := s.bc }

def HStore.update (s : HStore p) : HStore p := s.updateWith true

inductive HOp (p : Nat) where
  | acquire (x : Fin p) (c : Nat)
  | removeAll (xs : List (Fin p))
  | backend (x : Fin p) (b : Nat)
  | clear
  | update

def hstepWith (withBackends : Bool) (s : HStore p) : HOp p → HStore p
  | .acquire x c => s.acquire x c
  | .removeAll xs => s.removeAll xs
  | .backend x b => s.backend x b
  | .clear => s.clear
  | .update => s.updateWith withBackends

/-- the current code: the guard looks at the hosts and at the backends of root-redirect hosts -/
def hstep (s : HStore p) (op : HOp p) : HStore p := hstepWith true s op

/-- the guard before the repair (historical witness, finding `stale-frontend-map-entry`) -/
def hstepOld (s : HStore p) (op : HOp p) : HStore p := hstepWith false s op

def hokOp (s : HStore p) : HOp p → Bool
  | .removeAll xs => xs.all fun x => (s.add x).isNone
  | _ => true

def hallOk : HStore p → List (HOp p) → Bool
  | _, [] => true
  | s, op :: ops => hokOp s op && hallOk (hstep s op) ops

end HapVerif.C05
