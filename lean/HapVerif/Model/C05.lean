/- Model for C05: not written yet -/
namespace HapVerif.C05
end HapVerif.C05
