/- Model for C19: not written yet -/
namespace HapVerif.C19
end HapVerif.C19
