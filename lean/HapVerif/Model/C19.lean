/-
Model of the `--disable-config-keywords` filter of the annotation updater:

* `pkg/utils/utils.go`  `LineToSlice`
* `pkg/converters/ingress/annotations/backend.go`  `asciiSpace`, `firstToken`,
  `(*updater).buildBackendCustomConfig`
* `pkg/converters/ingress/annotations/mapper.go`  `(*Mapper).Get` (which value the
  backend sees when several annotations and the global ConfigMap carry `config-backend`)

A Go string is a byte sequence: `Str = List Nat`, every element `< 256` when it comes from
the driver (the theorems do not need the bound: a value outside the table is not a space,
exactly like a byte `>= 128`).  Core-only.
-/
namespace HapVerif.C19

abbrev Str := List Nat

/-! ## `asciiSpace` and `firstToken` (backend.go) -/

/-- `var asciiSpace = [256]uint8{'\t': 1, '\n': 1, '\v': 1, '\f': 1, '\r': 1, ' ': 1}`
as (index, value) pairs; pinned to the Go source by `facts_c19`. -/
def spaceTable : List (Nat × Nat) := [(9, 1), (10, 1), (11, 1), (12, 1), (13, 1), (32, 1)]

/-- `asciiSpace[b]` -/
def tbl (b : Nat) : Nat :=
  match spaceTable.lookup b with
  | some v => v
  | none => 0

/-- first loop of `firstToken`: `for ; len(s) > start; start++ { if asciiSpace[s[start]] == 0 { break } }` -/
def skipBlanks : Str → Str
  | [] => []
  | b :: r => if tbl b == 0 then b :: r else skipBlanks r

/-- second loop: `for ; len(s) > end; end++ { if asciiSpace[s[end]] == 1 { break } }` -/
def takeToken : Str → Str
  | [] => []
  | b :: r => if tbl b == 1 then [] else b :: takeToken r

/-- `firstToken(s)` = `s[start:end]` -/
def firstToken (s : Str) : Str := takeToken (skipBlanks s)

/-! ## `utils.LineToSlice` -/

def nl : Nat := 10

/-- `strings.TrimRight(s, "\n")` -/
def trimRightNL : Str → Str
  | [] => []
  | b :: r => if (b :: r).all (· == nl) then [] else b :: trimRightNL r

/-- `strings.Split(s, "\n")` (always at least one element) -/
def splitNL : Str → List Str
  | [] => [[]]
  | b :: r =>
    if b == nl then [] :: splitNL r
    else match splitNL r with
      | h :: t => (b :: h) :: t
      | [] => [[b]]

/-- `LineToSlice`: `""` gives `nil`, otherwise split the right-trimmed text -/
def lineToSlice (s : Str) : List Str :=
  if s = [] then [] else splitNL (trimRightNL s)

/-! ## `Mapper.Get` restricted to one key

`anns` are the values registered for `config-backend` on the backend's mapper, in
registration order (Service annotation, then Ingress annotation, then IngressClass
parameters, path after path); the label identifies the source object.  The first
registered value wins; without any, the global ConfigMap/default value is returned with a
nil source. -/

structure Cfg where
  source : Option String
  value : Str
deriving Repr, DecidableEq

def mapperGet (anns : List (String × Str)) (glob : Str) : Cfg :=
  match anns with
  | [] => { source := none, value := glob }
  | (l, v) :: _ => { source := some l, value := v }

/-! ## `buildBackendCustomConfig` -/

def star : Str := [42]

inductive Outcome where
  | noSnippet                                  -- `len(lines) == 0`
  | emitted (lines : List Str)                 -- `d.backend.CustomConfig = lines`
  | skipStar (src : Option String)             -- "custom configuration is disabled"
  | skipKw (src : Option String) (kw : Str)    -- "keyword '%s' not allowed"
deriving Repr, DecidableEq

/-- the keyword loop; `none` = fell through -/
def scan (src : Option String) (lines : List Str) : List Str → Option Outcome
  | [] => none
  | k :: ks =>
    if k = [] then scan src lines ks
    else if k = star then some (.skipStar src)
    else if lines.any (fun l => firstToken l == k) then some (.skipKw src k)
    else scan src lines ks

/-- note: `cfg.source` only feeds the log text — a nil (global) source runs the same loop -/
def customConfig (kws : List Str) (cfg : Cfg) : Outcome :=
  let lines := lineToSlice cfg.value
  if lines = [] then .noSnippet else
  match scan cfg.source lines kws with
  | some o => o
  | none => .emitted lines

/-- `Backend.CustomConfig` after the call on a freshly acquired backend -/
def Outcome.lines : Outcome → List Str
  | .emitted ls => ls
  | _ => []

def run (kws : List Str) (anns : List (String × Str)) (glob : Str) : Outcome :=
  customConfig kws (mapperGet anns glob)

/-! ## Specification (oracle)

What property C19 demands of the snippet lines `out` that reach a backend, given the
disabled keywords, the annotation values and the global value.  Written with its own
notion of "first token" (C `isspace` blanks, which is what HAProxy's parser skips), not
with the model's table loops. -/

/-- C-locale `isspace` -/
def isSpace (b : Nat) : Bool := b == 32 || b == 9 || b == 10 || b == 11 || b == 12 || b == 13

def specToken (l : Str) : Str := (l.dropWhile isSpace).takeWhile (fun b => !isSpace b)

/-- keywords that count: the empty entry (e.g. from `a,,b`) disables nothing -/
def disabled (kws : List Str) (k : Str) : Bool := k ≠ [] && kws.contains k

def dirtyLine (kws : List Str) (l : Str) : Bool := disabled kws (specToken l)

def oracle (kws : List Str) (anns : List (String × Str)) (glob : Str) (out : List Str) : Option String :=
  let sel := mapperGet anns glob
  let lines := lineToSlice sel.value
  match sel.source with
  | none =>
    -- global ConfigMap snippets are exempt from the filter
    if out = lines then none
    else if out = [] then some "global-source-snippet-filtered"
    else some "global-snippet-altered"
  | some _ =>
    if disabled kws star && out ≠ [] then some "star-leaked"
    else if out.any (dirtyLine kws) then some "annotation-keyword-leaked"
    else if lines.any (dirtyLine kws) && out ≠ [] then some "dirty-snippet-not-dropped-as-a-whole"
    else if disabled kws star || lines.any (dirtyLine kws) then none
    else if out = lines then none
    else if out = [] then some "clean-snippet-dropped"
    else some "clean-snippet-altered"

end HapVerif.C19
