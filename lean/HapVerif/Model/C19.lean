/-
Model of the `--disable-config-keywords` filter of the annotation updater:

* `pkg/utils/utils.go`  `LineToSlice`
* `pkg/converters/ingress/annotations/backend.go`  `asciiSpace`, `firstToken`,
  `(*updater).buildBackendCustomConfig`
* `pkg/converters/ingress/annotations/mapper.go`  `(*Mapper).Get` (which value the
  backend sees when several annotations and the global ConfigMap carry `config-backend`)
* `pkg/converters/ingress/ingress.go`  `ReadAnnotations`, `addBackend`, `fullSyncAnnotations`: one
  updater per sync, every backend of the sync goes through it in map iteration order (section
  "one SYNC" at the end: `Backend`, `Updater`, `runSync`, `Cluster.backends`)

A Go string is a byte sequence: `Str = List Nat`, every element `< 256` when it comes from
the driver (the theorems do not need the bound: a value outside the table is not a space,
exactly like a byte `>= 128`).  Core-only.
-/
namespace HapVerif.C19

abbrev Str := List Nat

/-! ## `asciiSpace` and `firstToken` (backend.go) -/

/-- `var asciiSpace = [256]uint8{'\t': 1, '\n': 1, '\v': 1, '\f': 1, '\r': 1, ' ': 1}`
as (index, value) pairs; pinned to the Go source by `facts_c19`. -/
def spaceTable : List (Nat × Nat) := [(9, 1), (10, 1), (11, 1), (12, 1), (13, 1), (32, 1)]

/-- `asciiSpace[b]` -/
def tbl (b : Nat) : Nat :=
  match spaceTable.lookup b with
  | some v => v
  | none => 0

/-- first loop of `firstToken`: `for ; len(s) > start; start++ { if asciiSpace[s[start]] == 0 { break } }` -/
def skipBlanks : Str → Str
  | [] => []
  | b :: r => if tbl b == 0 then b :: r else skipBlanks r

/-- second loop: `for ; len(s) > end; end++ { if asciiSpace[s[end]] == 1 { break } }` -/
def takeToken : Str → Str
  | [] => []
  | b :: r => if tbl b == 1 then [] else b :: takeToken r

/-- `firstToken(s)` = `s[start:end]` -/
def firstToken (s : Str) : Str := takeToken (skipBlanks s)

/-! ## `utils.LineToSlice` -/

def nl : Nat := 10

/-- `strings.TrimRight(s, "\n")` -/
def trimRightNL : Str → Str
  | [] => []
  | b :: r => if (b :: r).all (· == nl) then [] else b :: trimRightNL r

/-- `strings.Split(s, "\n")` (always at least one element) -/
def splitNL : Str → List Str
  | [] => [[]]
  | b :: r =>
    if b == nl then [] :: splitNL r
    else match splitNL r with
      | h :: t => (b :: h) :: t
      | [] => [[b]]

/-- `LineToSlice`: `""` gives `nil`, otherwise split the right-trimmed text -/
def lineToSlice (s : Str) : List Str :=
  if s = [] then [] else splitNL (trimRightNL s)

/-! ## `Mapper.Get` restricted to one key

`anns` are the values registered for `config-backend` on the backend's mapper, in
registration order (Service annotation, then Ingress annotation, then IngressClass
parameters, path after path); the label identifies the source object.  The first
registered value wins; without any, the global ConfigMap/default value is returned with a
nil source. -/

structure Cfg where
  source : Option String
  value : Str
deriving Repr, DecidableEq

def mapperGet (anns : List (String × Str)) (glob : Str) : Cfg :=
  match anns with
  | [] => { source := none, value := glob }
  | (l, v) :: _ => { source := some l, value := v }

/-! ## `buildBackendCustomConfig` -/

def star : Str := [42]

inductive Outcome where
  | noSnippet                                  -- `len(lines) == 0`
  | emitted (lines : List Str)                 -- `d.backend.CustomConfig = lines`
  | skipStar (src : Option String)             -- "custom configuration is disabled"
  | skipKw (src : Option String) (kw : Str)    -- "keyword '%s' not allowed"
deriving Repr, DecidableEq

/-- the keyword loop; `none` = fell through -/
def scan (src : Option String) (lines : List Str) : List Str → Option Outcome
  | [] => none
  | k :: ks =>
    if k = [] then scan src lines ks
    else if k = star then some (.skipStar src)
    else if lines.any (fun l => firstToken l == k) then some (.skipKw src k)
    else scan src lines ks

/-- note: `cfg.source` only feeds the log text — a nil (global) source runs the same loop -/
def customConfig (kws : List Str) (cfg : Cfg) : Outcome :=
  let lines := lineToSlice cfg.value
  if lines = [] then .noSnippet else
  match scan cfg.source lines kws with
  | some o => o
  | none => .emitted lines

/-- `c.logger.Warn(format, source[, keyword])` as a step of a trace: the regenerated
`buildBackendCustomConfig` (Generated/CodeC19.lean) records its warnings with it -/
structure Warned where
  fmt : String
  source : String
  kw : Str
deriving Repr, DecidableEq

def warn (fx : List Warned) (fmt source : String) (kw : Str := []) : List Warned :=
  fx ++ [{ fmt := fmt, source := source, kw := kw }]

/-- `Backend.CustomConfig` after the call on a freshly acquired backend -/
def Outcome.lines : Outcome → List Str
  | .emitted ls => ls
  | _ => []

def run (kws : List Str) (anns : List (String × Str)) (glob : Str) : Outcome :=
  customConfig kws (mapperGet anns glob)

/-! ## Specification (oracle)

What property C19 demands of the snippet lines `out` that reach a backend, given the
disabled keywords, the annotation values and the global value.  Written with its own
notion of "first token" (C `isspace` blanks, which is what HAProxy's parser skips), not
with the model's table loops. -/

/-- C-locale `isspace` -/
def isSpace (b : Nat) : Bool := b == 32 || b == 9 || b == 10 || b == 11 || b == 12 || b == 13

def specToken (l : Str) : Str := (l.dropWhile isSpace).takeWhile (fun b => !isSpace b)

/-- keywords that count: the empty entry (e.g. from `a,,b`) disables nothing -/
def disabled (kws : List Str) (k : Str) : Bool := k ≠ [] && kws.contains k

def dirtyLine (kws : List Str) (l : Str) : Bool := disabled kws (specToken l)

def oracle (kws : List Str) (anns : List (String × Str)) (glob : Str) (out : List Str) : Option String :=
  let sel := mapperGet anns glob
  let lines := lineToSlice sel.value
  match sel.source with
  | none =>
    -- global ConfigMap snippets are exempt from the filter
    if out = lines then none
    else if out = [] then some "global-source-snippet-filtered"
    else some "global-snippet-altered"
  | some _ =>
    if disabled kws star && out ≠ [] then some "star-leaked"
    else if out.any (dirtyLine kws) then some "annotation-keyword-leaked"
    else if lines.any (dirtyLine kws) && out ≠ [] then some "dirty-snippet-not-dropped-as-a-whole"
    else if disabled kws star || lines.any (dirtyLine kws) then none
    else if out = lines then none
    else if out = [] then some "clean-snippet-dropped"
    else some "clean-snippet-altered"


/-! ## one SYNC: several backends, one updater

`converters.Sync` builds ONE ingress converter (hence ONE `annotations.updater`) per
reconciliation.  The Gateway API converter feeds its backends through
`ReadAnnotations` first; `fullSyncAnnotations` then ranges over the Go map
`Backends().Items()` and calls `UpdateBackendConfig` (→ `buildBackendCustomConfig`) on every
backend that got a mapper — the processing order of one sync is therefore arbitrary.

A backend of the sync is its id plus the values registered for `config-backend` on its
mapper, in registration order, each with its source `(type, namespace, name)`
(`annotations.Source`).  IngressClass parameters are registered with the Ingress as their
source (`params` only tells the two apart for the reader of the log). -/

inductive SrcType where
  | service | ingress          -- `convtypes.ResourceService` / `convtypes.ResourceIngress`
deriving Repr, DecidableEq

structure Src where
  type : SrcType
  ns : String
  name : String
  params : Bool := false
deriving Repr, DecidableEq

/-- `Source.FullName()`: namespace/name WITHOUT the type -/
def Src.fullName (s : Src) : String := s.ns ++ "/" ++ s.name

/-- label used for the single-backend model (`Cfg.source`) and on the wire -/
def Src.label (s : Src) : String :=
  (match s.type, s.params with
    | .service, _ => "S/"
    | .ingress, false => "I/"
    | .ingress, true => "P/") ++ s.fullName

structure Backend where
  id : String
  anns : List (Src × Str)
deriving Repr, DecidableEq

/-- the annotation list of the single-backend model -/
def Backend.lanns (b : Backend) : List (String × Str) := b.anns.map fun sv => (sv.1.label, sv.2)

/-- source of the value `Mapper.Get` selects (`none` = global ConfigMap / default) -/
def Backend.selSrc (b : Backend) : Option Src := b.anns.head?.map (·.1)

/-- value `Mapper.Get` selects -/
def Backend.selValue (b : Backend) (glob : Str) : Str := (mapperGet b.lanns glob).value

/-- An updater: whatever it keeps from one `buildBackendCustomConfig` call to the next
within a sync (`σ`), and the call itself on the selected `(source, value)`. -/
structure Updater (σ : Type) where
  init : σ
  build : List Str → σ → Option Src → Str → Outcome × σ

/-- the code as it is: the outcome is a function of the keywords and the selected value only -/
def pureUpdater : Updater Unit where
  init := ()
  build kws _ src v := (customConfig kws ⟨src.map Src.label, v⟩, ())

/-- `UpdateBackendConfig` on the backends in the given (processing) order, one updater -/
def runSync {σ : Type} (u : Updater σ) (kws : List Str) (glob : Str) : σ → List Backend → List (Backend × Outcome)
  | _, [] => []
  | s, b :: bs =>
    let r := u.build kws s b.selSrc (b.selValue glob)
    (b, r.1) :: runSync u kws glob r.2 bs

def sync {σ : Type} (u : Updater σ) (kws : List Str) (glob : Str) (bs : List Backend) : List (Backend × Outcome) :=
  runSync u kws glob u.init bs

/-- processing order as a list of positions (a permutation when every backend is updated once) -/
def reorder (bs : List Backend) (ord : List Nat) : List Backend := ord.filterMap (bs[·]?)

/-! ### the variant with a per-sync memo (seeded defect C19e)

`findDisabledKeyword` caches the answer of the keyword scan in the updater under a key
derived from the source; `lookupDisabledKeyword` is the old loop returning the keyword
(`""` = allowed). -/

/-- `lookupDisabledKeyword(keywords, lines)` -/
def verdict (lines : List Str) : List Str → Str
  | [] => []
  | k :: ks =>
    if k = [] then verdict lines ks
    else if k = star then star
    else if lines.any (fun l => firstToken l == k) then k
    else verdict lines ks

def ofVerdict (src : Option String) (lines : List Str) (w : Str) : Outcome :=
  if w = star then .skipStar src
  else if w ≠ [] then .skipKw src w
  else .emitted lines

def memoBuild (key : Option Src → String) (kws : List Str) (memo : List (String × Str))
    (src : Option Src) (v : Str) : Outcome × List (String × Str) :=
  let lines := lineToSlice v
  let lbl := src.map Src.label
  if lines = [] then (.noSnippet, memo)
  else if kws = [] then (.emitted lines, memo)
  else match memo.lookup (key src) with
    | some w => (ofVerdict lbl lines w, memo)
    | none =>
      let w := verdict lines kws
      (ofVerdict lbl lines w, (key src, w) :: memo)

def memoUpdater (key : Option Src → String) : Updater (List (String × Str)) where
  init := []
  build := memoBuild key

/-- the seeded key: `config.Source.FullName()`, `""` for a nil source -/
def keyFullName : Option Src → String
  | none => ""
  | some s => s.fullName

/-- a key that tells the selected values of one sync apart: type, full name and params flag -/
def keyLabel : Option Src → String
  | none => ""
  | some s => s.label

/-! ### which backends a cluster gives (registration order of `addBackend`)

Reproduced from `ingress.go` (`ReadAnnotations`, `syncDefaultBackend`, `syncIngressHTTP` →
`addBackend`): per path the Service annotation first, then the Ingress annotation, then the
IngressClass parameters; ingresses in the order the converter sorts them.  Checked by the
correspondence run, not proved from the Go text. -/

structure Svc where
  ns : String
  name : String
  ann : Option Str
  gateway : Bool := false     -- also the backend of a Gateway API route (`ReadAnnotations`, before the ingresses)
  dflt : Bool := false        -- `--default-backend-service`
deriving Repr, DecidableEq

structure Ing where
  ns : String
  name : String
  ann : Option Str
  params : Option Str
  svcs : List String          -- service names (own namespace), one path each
deriving Repr, DecidableEq

structure Cluster where
  svcs : List Svc
  ings : List Ing             -- in processing order
deriving Repr, DecidableEq

def optAnn (s : Src) : Option Str → List (Src × Str)
  | none => []
  | some v => [(s, v)]

def Svc.src (s : Svc) : Src := { type := .service, ns := s.ns, name := s.name }

def backendId (ns name : String) : String := ns ++ "_" ++ name ++ "_8080"

/-- add the values of one path to the backend `id` (created at the end when new) -/
def addPath (id : String) (vals : List (Src × Str)) : List Backend → List Backend
  | [] => [{ id := id, anns := vals }]
  | b :: bs => if b.id = id then { b with anns := b.anns ++ vals } :: bs else b :: addPath id vals bs

def Ing.route (c : Cluster) (i : Ing) (acc : List Backend) (svc : String) : List Backend :=
  match c.svcs.find? (fun s => s.ns == i.ns && s.name == svc) with
  | none => acc
  | some s =>
    addPath (backendId s.ns s.name)
      (optAnn s.src s.ann
        ++ optAnn { type := .ingress, ns := i.ns, name := i.name } i.ann
        ++ optAnn { type := .ingress, ns := i.ns, name := i.name, params := true } i.params) acc

def Cluster.backends (c : Cluster) : List Backend :=
  let gw := (c.svcs.filter (·.gateway)).map fun s =>
    ({ id := backendId s.ns ("r-" ++ s.name), anns := optAnn s.src s.ann } : Backend)
  let df := match c.svcs.find? (·.dflt) with
    | none => []
    | some s => [({ id := backendId s.ns s.name, anns := optAnn s.src s.ann } : Backend)]
  gw ++ c.ings.foldl (fun acc i => i.svcs.foldl (i.route c) acc) df

/-- Spec of one sync: the single-backend oracle on every backend; `outs` = lines per backend -/
def oracleSync (kws : List Str) (glob : Str) (outs : List (Backend × List Str)) : List String :=
  outs.filterMap fun bo => oracle kws bo.1.lanns glob bo.2

end HapVerif.C19
