import HapVerif.Model.C13
/-
C13, the ENQUEUE DISCIPLINE of the callers of a rate limited queue.  Core-only.

client-go's rate limiting queue offers three ways to enqueue an item:

* `AddRateLimited(item)` = `AddAfter(item, limiter.When(item))` — the only one that consults (and updates) the
  limiter (`Enq.rl`);
* `AddAfter(item, d)` — the delaying queue directly, fixed delay, the limiter's `last` is NOT updated (`Enq.after d`);
* `Add(item)` — the base queue directly (`Enq.now`).

Whatever the caller, the delaying queue keeps the EARLIEST deadline of an item that is already waiting
(`delaying_queue.go`: `if existing.readyAt.After(entry.readyAt) { existing.readyAt = entry.readyAt }`).  So an
enqueue with method `how` is exactly an `AddRateLimited` with the limiter replaced by `limOf lim how`
(`constLim d` = "answer `d`, learn nothing"): the whole machinery of `Model/C13.lean` (delaying queue, heap root,
base queue, single worker, `Forget`/`Done`) is reused unchanged.

Second part: the enqueue SITES of the reconcile queue (pkg/controller/reconciler): `hdlr.notify` (every watcher
event, item = the handler's `full` flag) and `IngressReconciler.leaderChanged` (item = full sync, only when this
controller acquired the lease AND `watchers.running()`, i.e. a reconciliation has started before).  A `Disc`
says which method each site uses; `discCode` is the code that exists (pinned by `Props.C13Enq.facts_c13_enqueue`).
-/
namespace HapVerif.C13

/-- the way a caller enqueues -/
inductive Enq where
  | rl                 -- AddRateLimited
  | after (d : Int)    -- AddAfter(item, d)
  | now                -- Add(item)
  deriving DecidableEq, Repr

/-- "limiter" of a direct `AddAfter(d)`: the delay is `d`, `last` learns nothing -/
def constLim (d : Int) : Limiter := fun last _ => (last, d)

def limOf (lim : Limiter) : Enq → Limiter
  | .rl => lim
  | .after d => constLim d
  | .now => constLim 0

/-- one entry of the enqueue log -/
structure EnqEv where
  t   : Int
  b   : Bool
  how : Enq
  deriving DecidableEq, Repr

/-- the plain notification of a log entry -/
def EnqEv.plain (e : EnqEv) : Int × Bool := (e.t, e.b)

/-- enqueue `b` at `t` with method `how`, after everything that happens up to `t` -/
def enqueueD (lim : Limiter) (fg : Forget) (s : StD) (e : EnqEv) : StD :=
  arriveD (limOf lim e.how) fg s e.t e.b

def runAllE (lim : Limiter) (fg : Forget) (durs : List Int) (log : List EnqEv) : StD :=
  log.foldl (enqueueD lim fg) { durs := durs }

/-- run STARTS of an enqueue log -/
def simulateE (lim : Limiter) (fg : Forget) (durs : List Int) (log : List EnqEv) : List (Int × Bool) :=
  (flushD fg (runAllE lim fg durs log)).starts.reverse

/-- every enqueue of the log goes through the limiter -/
def allRL (log : List EnqEv) : Bool := log.all (fun e => e.how = .rl)

/-! ## The enqueue sites of the reconcile queue -/

/-- what happens to the controller -/
inductive Src where
  | notify (full : Bool)       -- a watcher event of a kind whose handler has this `full` flag
  | leader (isLeader : Bool)   -- the leader election callback
  deriving DecidableEq, Repr

/-- the method used by each site -/
structure Disc where
  notify : Enq
  leader : Enq
  deriving DecidableEq, Repr

/-- the code that exists: both sites call `AddRateLimited` -/
def discCode : Disc := { notify := .rl, leader := .rl }

/-- `watchers.running()` at time `t`: `getChangedObjects` was called, i.e. a reconciliation has started -/
def runningAt (fg : Forget) (s : StD) (t : Int) : Bool :=
  !(catchUp fg (some t) none (serveDue fg s t)).starts.isEmpty

/-- the enqueue log produced by the sites for a history of the controller: a notification always enqueues its
handler's flag; `leaderChanged(true)` enqueues a full sync iff the watchers are running; `leaderChanged(false)`
enqueues nothing -/
def siteLog (disc : Disc) (lim : Limiter) (fg : Forget) : StD → List (Int × Src) → List EnqEv
  | _, [] => []
  | s, (t, .notify b) :: es =>
    let e : EnqEv := { t := t, b := b, how := disc.notify }
    e :: siteLog disc lim fg (enqueueD lim fg s e) es
  | s, (t, .leader il) :: es =>
    if il && runningAt fg s t then
      let e : EnqEv := { t := t, b := true, how := disc.leader }
      e :: siteLog disc lim fg (enqueueD lim fg s e) es
    else siteLog disc lim fg s es

/-- final state of a history of the controller -/
def runAllS (disc : Disc) (lim : Limiter) (fg : Forget) (durs : List Int) (evs : List (Int × Src)) : StD :=
  runAllE lim fg durs (siteLog disc lim fg { durs := durs } evs)

/-- run STARTS of a history of the controller -/
def simulateS (disc : Disc) (lim : Limiter) (fg : Forget) (durs : List Int) (evs : List (Int × Src)) : List (Int × Bool) :=
  simulateE lim fg durs (siteLog disc lim fg { durs := durs } evs)

/-- the plain notification pattern of an enqueue log (the methods forgotten) -/
def requests (log : List EnqEv) : List (Int × Bool) := log.map EnqEv.plain

/-- the requests the Spec speaks about, read off the history and the OBSERVED run starts: every notification asks
for a run of its handler's kind; a `leaderChanged(true)` asks for a full sync iff a reconciliation had started
before it (`watchers.running()`); `leaderChanged(false)` asks for nothing -/
def requestsObs (evs : List (Int × Src)) (rs : List (Int × Bool)) : List (Int × Bool) :=
  evs.filterMap fun e =>
    match e.2 with
    | .notify b => some (e.1, b)
    | .leader il => if il && rs.any (fun r => decide (r.1 < e.1)) then some (e.1, true) else none

/-- Spec on the observed run starts of a history: the C13 Spec (`oracleD`: spacing per kind, liveness,
no extra run) for the requests of the history -/
def oracleS (delta slack : Int) (durs : List Int) (evs : List (Int × Src)) (rs : List (Int × Bool)) : Option String :=
  oracleD delta slack durs (requestsObs evs rs) rs

end HapVerif.C13
