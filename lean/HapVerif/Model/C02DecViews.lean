/-!
View of what `dynUpdater.checkConfigChange` and `dynUpdater.update` (pkg/haproxy/dynupdate.go) read, for their
TRANSLATION (Generated/CodeC02.lean): the comparisons of the sections that cannot be updated at run time are
booleans, `frontendUpdated()` / `backendUpdated()` (which pair the hosts / backends and send the runtime commands)
are their verdicts.  Core-only.
-/
namespace HapVerif.C02Dec

structure DecView where
  /-- `d.config.hasCommittedData()` -/
  committed : Bool
  /-- `d.config.globalOld != nil && !reflect.DeepEqual(d.config.globalOld, d.config.global)` -/
  globalDiffers : Bool
  tcpbackendsChanged : Bool
  tcpservicesChanged : Bool
  frontendChanged : Bool
  userlistsChanged : Bool
  /-- verdict of `d.frontendUpdated()`: every host difference was a certificate swapped through the socket -/
  frontendUpdated : Bool
  /-- verdict of `d.backendUpdated()`: every backend difference was applied through the socket -/
  backendUpdated : Bool
deriving DecidableEq, Repr

/-- `d.alignSlots()` as a step of a trace -/
def alignSlots (fx : List String) : List String := fx ++ ["alignSlots"]

end HapVerif.C02Dec
