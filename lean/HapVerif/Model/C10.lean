/- Model for C10: not written yet -/
namespace HapVerif.C10
end HapVerif.C10
