import HapVerif.Model.C16
/-!
# C10 — Gateway API attachment rules: executable model and Spec (core-only)

Model of `pkg/converters/gateway/gateway.go` (`Sync`, `syncHTTPRoutes`, `syncTCPRoutes`,
`sortHTTPRoutes`/`sortTCPRoutes`, `syncRoute`, `syncHTTPRouteGateway`, `syncTCPRouteGateway`,
`checkListenerAllowed{,Kind,Namespace}`, `createBackend`, `createHTTPHosts`, `createTCPService`,
`filterHostnames`) and of the GatewayClass filter of `pkg/controller/services/cache.go`
(`GetGateway*` → `isValidGateway` → `getGatewayClass`/`IsValidGatewayClass`).

The loop nest of the Go code (routes sorted by creation time then `ns/name`; parentRefs; listeners;
rules; matches; hostnames) is mirrored by the `flatMap` nest of `events`; each `continue`/early return
of the Go code is a guard of that nest.  One *event* is one arrival at `h.AddLink` / at the
`tcphost.Backend` assignment, carrying the backend that `createBackend` returned for the rule.  The
mutable haproxy model is then "first declared wins" per key (`firsts`): `Backends().AcquireBackend`
per backend id, `FindPathWithLink` per (hostname, path, match type, headers), `AcquireTCPService`
per port.

Not modelled (excluded from the generator, see registry): listener TLS (certificateRefs, passthrough),
service annotations, endpoint slices, ExternalName services, parentRef.port.
-/
namespace HapVerif.C10

def gwGroup : String := "gateway.networking.k8s.io"
def defaultHost : String := "<default>"

/-! ## input objects -/

/-- one requirement of a label selector: `op` is `=` (matchLabels, `vals = [v]`), `In`, `NotIn`,
`Exists`, `DoesNotExist` (matchExpressions) or anything else (invalid operator) -/
structure Term where
  key : String
  op : String
  vals : List String
deriving DecidableEq, Repr

structure RKind where
  group : Option String
  kind : String
deriving DecidableEq, Repr

structure NsRule where
  frm : Option String            -- `From`: Same | All | Selector | anything else
  sel : Option (List Term)
deriving DecidableEq, Repr

structure Allowed where
  kinds : List RKind
  nss : Option NsRule
deriving DecidableEq, Repr

structure Listener where
  name : String
  host : Option String
  proto : String
  port : Nat
  allowed : Option Allowed
deriving DecidableEq, Repr

structure Gateway where
  ns : String
  name : String
  cls : String
  listeners : List Listener
deriving DecidableEq, Repr

structure ParentRef where
  group : Option String
  kind : Option String
  ns : Option String
  name : String
  sect : Option String
deriving DecidableEq, Repr

structure HMatch where
  ptype : Option String          -- Exact | PathPrefix | RegularExpression | anything else
  value : Option String
  hdr : String                   -- canonical text of the header matches, `-` when none
deriving DecidableEq, Repr

structure BRef where
  svc : String
  port : Option Nat
  weight : Option Int
deriving DecidableEq, Repr

structure Rule where
  mts : List HMatch
  refs : List BRef
deriving DecidableEq, Repr

structure Route where
  tcp : Bool
  ns : String
  name : String
  ts : Nat
  parents : List ParentRef
  hostnames : List String
  rules : List Rule
deriving DecidableEq, Repr

structure Svc where
  ns : String
  name : String
  ports : List (Nat × List String)     -- service port ↦ ready `ip:port` targets
deriving DecidableEq, Repr

structure World where
  classes : List (String × Bool)                       -- GatewayClass name ↦ controllerName is ours
  nss : List (String × List (String × String))         -- Namespace name ↦ labels
  gws : List Gateway
  routes : List Route
  svcs : List Svc
deriving Repr

/-! ## admission: the code path -/

/-- `if x != nil && *x != "" { v = *x }` -/
def orDefault (o : Option String) (d : String) : String :=
  match o with
  | some s => if s = "" then d else s
  | none => d

/-- cache.go `isValidGateway`: class found and `Spec.ControllerName == config.ControllerName` -/
def classOurs (w : World) (cls : String) : Bool :=
  match w.classes.lookup cls with
  | some b => b
  | none => false

def refersGateway (pr : ParentRef) : Bool :=
  orDefault pr.group gwGroup == gwGroup && orDefault pr.kind "Gateway" == "Gateway"

def parentNs (r : Route) (pr : ParentRef) : String := orDefault pr.ns r.ns

def findGateway (w : World) (ns name : String) : Option Gateway :=
  w.gws.find? fun g => g.ns == ns && g.name == name

/-- cache.go `GetGateway`: not found ⇒ error ⇒ `newGatewaySource` returns nil; class not ours ⇒ nil -/
def getGateway (w : World) (ns name : String) : Option Gateway :=
  match findGateway w ns name with
  | some g => if classOurs w g.cls then some g else none
  | none => none

/-- `syncRoute`: group/kind defaulting and check, namespace defaulting, gateway lookup -/
def resolveParent (w : World) (r : Route) (pr : ParentRef) : Option Gateway :=
  if refersGateway pr then getGateway w (parentNs r pr) pr.name else none

def sectionOK (pr : ParentRef) (l : Listener) : Bool :=
  match pr.sect with
  | none => true
  | some s => s == l.name

def routeKind (r : Route) : String := if r.tcp then "TCPRoute" else "HTTPRoute"

/-- `checkListenerAllowedKind` -/
def kindAllowed (r : Route) (kinds : List RKind) : Bool :=
  kinds.isEmpty || kinds.any fun k => (k.group == none || k.group == some gwGroup) && k.kind == routeKind r

/-- `metav1.LabelSelectorAsSelector` fails on these requirements -/
def termValid (t : Term) : Bool :=
  if t.op = "=" then t.vals.length = 1          -- matchLabels is a map: exactly one value
  else if t.op = "In" ∨ t.op = "NotIn" then !t.vals.isEmpty
  else if t.op = "Exists" ∨ t.op = "DoesNotExist" then t.vals.isEmpty
  else false

/-- `labels.Requirement.Matches` -/
def termMatch (ls : List (String × String)) (t : Term) : Bool :=
  match ls.lookup t.key with
  | some v =>
    if t.op = "=" ∨ t.op = "In" then t.vals.contains v
    else if t.op = "NotIn" then !t.vals.contains v
    else if t.op = "Exists" then true
    else false
  | none => t.op = "NotIn" ∨ t.op = "DoesNotExist"

def selectorAllows (w : World) (r : Route) (sel : Option (List Term)) : Bool :=
  match sel with
  | none => false
  | some ts =>
    ts.all termValid &&
      match w.nss.lookup r.ns with
      | none => false                       -- GetNamespace error
      | some ls => ts.all (termMatch ls)

/-- `checkListenerAllowedNamespace` -/
def nsAllowed (w : World) (gw : Gateway) (r : Route) (nr : Option NsRule) : Bool :=
  match nr with
  | none => false
  | some nr =>
    match nr.frm with
    | none => false
    | some f =>
      if f = "Same" ∧ r.ns = gw.ns then true
      else if f = "All" then true
      else if f = "Selector" then selectorAllows w r nr.sel
      else false

/-- `checkListenerAllowed` -/
def listenerAllowed (w : World) (gw : Gateway) (r : Route) (l : Listener) : Bool :=
  match l.allowed with
  | none => false
  | some a => kindAllowed r a.kinds && nsAllowed w gw r a.nss

/-- Two variants of the code are modelled, selected by `fx`:
`fx = true`: the current code (repaired, /repo fbb19ce) — `syncTCPRouteGateway` skips a listener whose
protocol is not empty and neither `TCP` nor `TLS` (an empty protocol, which the API server never
produces, still attaches);
`fx = false`: the code as first found — `syncTCPRouteGateway` never read `listener.Protocol` (kept
for the historical witnesses).  The driver picks the variant from the regenerated fact
`c10TcpProtocolChecked` (the exact three comparisons of the repaired code). -/
def protoGuard (fx : Bool) (r : Route) (l : Listener) : Bool :=
  !fx || !r.tcp || l.proto == "" || l.proto == "TCP" || l.proto == "TLS"

/-- the decision of the code for one (route, parentRef, gateway, listener) -/
def attaches (fx : Bool) (w : World) (r : Route) (pr : ParentRef) (gw : Gateway) (l : Listener) : Bool :=
  resolveParent w r pr == some gw && gw.listeners.contains l && sectionOK pr l && protoGuard fx r l &&
    listenerAllowed w gw r l

/-! ## backends -/

structure Server where
  name : String
  target : String
  weight : Int
deriving DecidableEq, Repr

structure Backend where
  id : String
  tcp : Bool
  servers : List Server
deriving DecidableEq, Repr

def backendID (r : Route) (idx : Nat) : String :=
  r.ns ++ "_" ++ r.name ++ "_" ++ (if r.tcp then "_tcprule" else "_rule") ++ toString idx

def findSvc (w : World) (ns name : String) : Option Svc :=
  w.svcs.find? fun s => s.ns == ns && s.name == name

/-- insertion sort (structural recursion, so that closed examples evaluate in the kernel); the orders
used are total, so the result is the one `sort.Slice` produces up to equal elements -/
def insertBy {α} (le : α → α → Bool) (x : α) : List α → List α
  | [] => [x]
  | y :: ys => if le x y then x :: y :: ys else y :: insertBy le x ys

def isort {α} (le : α → α → Bool) (l : List α) : List α := l.foldr (insertBy le) []

def sortStr (l : List String) : List String := isort (fun a b => decide (a ≤ b)) l

/-- one backendRef of `createBackend`: `none` = skipped (nil port, service not found, port not found);
the service is always looked up in the ROUTE's namespace -/
def refEps (w : World) (ns : String) (b : BRef) : Option (List String) :=
  match b.port with
  | none => none
  | some p =>
    match findSvc w ns b.svc with
    | none => none
    | some s =>
      match s.ports.lookup p with
      | none => none
      | some eps => some (sortStr eps)

/-- (weight, sorted ready targets) of the backendRefs that are not skipped -/
def refGroups (w : World) (r : Route) (rule : Rule) : List (Int × List String) :=
  rule.refs.filterMap fun b => (refEps w r.ns b).map fun eps => (b.weight.getD 1, eps)

def pad3 (n : Nat) : String :=
  let s := toString n
  String.ofList (List.replicate (3 - s.length) '0') ++ s

/-- `Backend.AddEndpoint` with the default (sequence) naming -/
def nameServers (ts : List (String × Int)) : List Server :=
  ts.zipIdx.map fun (tw, i) => { name := "srv" ++ pad3 (i + 1), target := tw.1, weight := tw.2 }

/-- targets with the weight of their group (`RebalanceWeight(cl, 128)`, C16 model) -/
def weighted (groups : List (Int × List String)) : List (String × Int) :=
  let cls := groups.map fun g => ({ weight := g.1, length := g.2.length } : C16.Cluster)
  let ws := C16.rebalance cls 128
  (groups.zip ws).flatMap fun gw => gw.1.2.map fun e => (e, gw.2.getD 0)

/-- `createBackend` -/
def mkBackend (w : World) (r : Route) (idx : Nat) (rule : Rule) : Option Backend :=
  let groups := refGroups w r rule
  if groups.isEmpty then none
  else some { id := backendID r idx, tcp := r.tcp, servers := nameServers (weighted groups) }

/-! ## hosts and paths -/

structure Link where
  path : String
  mtype : String
  hdr : String
deriving DecidableEq, Repr

/-- `filterHostnames` (documented: a listener hostname other than empty/`*` overrides the route's) -/
def filterHostnames (lh : Option String) (rh : List String) : List String :=
  match lh with
  | some h => if h = "" ∨ h = "*" then (if rh.isEmpty then ["*"] else rh) else [h]
  | none => if rh.isEmpty then ["*"] else rh

def normHost (h : String) : String := if h = "" ∨ h = "*" then defaultHost else h

def matchType (t : Option String) : String :=
  match t with
  | some s => if s = "Exact" then "exact" else if s = "RegularExpression" then "regex" else "prefix"
  | none => "prefix"

def linkOf (m : HMatch) : Link :=
  { path := (match m.value with | some v => if v = "" then "/" else v | none => "/"),
    mtype := matchType m.ptype, hdr := m.hdr }

def defaultMatch : HMatch := { ptype := none, value := none, hdr := "-" }

def effMatches (rule : Rule) : List HMatch := if rule.mts.isEmpty then [defaultMatch] else rule.mts

/-! ## events -/

structure PathDecl where
  host : String
  link : Link
  backend : Backend
deriving DecidableEq, Repr

structure TcpDecl where
  port : Nat
  backend : Backend
deriving DecidableEq, Repr

inductive Ev where
  | path (d : PathDecl)
  | tcp (d : TcpDecl)
deriving DecidableEq, Repr

def Ev.backend : Ev → Backend
  | .path d => d.backend
  | .tcp d => d.backend
def Ev.path? : Ev → Option PathDecl
  | .path d => some d
  | .tcp _ => none
def Ev.tcp? : Ev → Option TcpDecl
  | .path _ => none
  | .tcp d => some d

/-- body of the rule loop once `createBackend` returned `b` -/
def ruleEvents (r : Route) (l : Listener) (rule : Rule) (b : Backend) : List Ev :=
  if r.tcp then [Ev.tcp { port := l.port, backend := b }]
  else (effMatches rule).flatMap fun m =>
    (filterHostnames l.host r.hostnames).map fun h =>
      Ev.path { host := normHost h, link := linkOf m, backend := b }

def rulesEvents (w : World) (r : Route) (l : Listener) : List Ev :=
  r.rules.zipIdx.flatMap fun ri =>
    match mkBackend w r ri.2 ri.1 with
    | none => []
    | some b => ruleEvents r l ri.1 b

/-- `syncHTTPRouteGateway` / `syncTCPRouteGateway` -/
def gatewayEvents (fx : Bool) (w : World) (r : Route) (pr : ParentRef) (gw : Gateway) : List Ev :=
  gw.listeners.flatMap fun l =>
    if sectionOK pr l && protoGuard fx r l && listenerAllowed w gw r l then rulesEvents w r l else []

/-- `syncRoute` -/
def routeEvents (fx : Bool) (w : World) (r : Route) : List Ev :=
  r.parents.flatMap fun pr =>
    match resolveParent w r pr with
    | none => []
    | some gw => gatewayEvents fx w r pr gw

def rkey (r : Route) : String := r.ns ++ "/" ++ r.name

/-- `sortHTTPRoutes` / `sortTCPRoutes`: creation timestamp, then `namespace/name` -/
def routeLe (a b : Route) : Bool :=
  if a.ts = b.ts then decide (rkey a ≤ rkey b) else decide (a.ts < b.ts)

def sortRoutes (rs : List Route) : List Route := isort routeLe rs

/-- `Sync`: HTTPRoutes, then TCPRoutes -/
def events (fx : Bool) (w : World) : List Ev :=
  (sortRoutes (w.routes.filter fun r => !r.tcp)).flatMap (routeEvents fx w) ++
  (sortRoutes (w.routes.filter fun r => r.tcp)).flatMap (routeEvents fx w)

/-! ## the haproxy model: first declared wins -/

def addFirst {α κ} [DecidableEq κ] (key : α → κ) (acc : List α) (x : α) : List α :=
  if acc.any (fun y => key y = key x) then acc else acc ++ [x]

/-- keep the first element of every key, in order -/
def firsts {α κ} [DecidableEq κ] (key : α → κ) (l : List α) : List α := l.foldl (addFirst key) []

structure State where
  backends : List Backend
  paths : List PathDecl
  tcps : List TcpDecl
deriving Repr

def pathKey (d : PathDecl) : String × Link := (d.host, d.link)

def pathDecls (fx : Bool) (w : World) : List PathDecl := (events fx w).filterMap Ev.path?
def tcpDecls (fx : Bool) (w : World) : List TcpDecl := (events fx w).filterMap Ev.tcp?

def sync (fx : Bool) (w : World) : State :=
  { backends := firsts (·.id) ((events fx w).map Ev.backend),
    paths := firsts pathKey (pathDecls fx w),
    tcps := firsts (·.port) (tcpDecls fx w) }

/-! ## canonical text (what the harness prints for the real haproxy model) -/

def showServer (s : Server) : String := s.name ++ "=" ++ s.target ++ "*" ++ toString s.weight
def showBackend (b : Backend) : String :=
  b.id ++ "~" ++ (if b.tcp then "1" else "0") ++ "{" ++ ",".intercalate (b.servers.map showServer) ++ "}"
def showPath (d : PathDecl) : String :=
  d.link.path ++ "~" ++ d.link.mtype ++ "~" ++ d.link.hdr ++ ">" ++ d.backend.id

def dedupStr (l : List String) : List String := firsts id l

def joinOr (l : List String) : String := if l.isEmpty then "-" else ";".intercalate l

def natLe (a b : TcpDecl) : Bool := decide (a.port ≤ b.port)

def render (s : State) : String :=
  let hostnames := sortStr (dedupStr (s.paths.map (·.host)))
  let hosts := hostnames.map fun h =>
    h ++ "{" ++ ",".intercalate (sortStr ((s.paths.filter (·.host = h)).map showPath)) ++ "}"
  joinOr (sortStr hosts) ++ "#" ++ joinOr (sortStr (s.backends.map showBackend)) ++ "#" ++
    joinOr ((isort natLe s.tcps).map fun t => toString t.port ++ ">" ++ t.backend.id)

/-! ## Spec: what the property demands (written from docs/…/gateway-api.md and the Gateway API
semantics of `parentRefs` and `allowedRoutes`) -/

/-- the parentRef designates a Gateway (group/kind absent, empty, or the Gateway ones) -/
def RefersGateway (pr : ParentRef) : Prop :=
  (pr.group = none ∨ pr.group = some "" ∨ pr.group = some gwGroup) ∧
  (pr.kind = none ∨ pr.kind = some "" ∨ pr.kind = some "Gateway")

/-- namespace designated by the parentRef: its own, else the route's -/
def ParentNs (r : Route) (pr : ParentRef) (ns : String) : Prop :=
  (∃ n, pr.ns = some n ∧ n ≠ "" ∧ ns = n) ∨ ((pr.ns = none ∨ pr.ns = some "") ∧ ns = r.ns)

/-- the Gateway's GatewayClass exists and names this controller -/
def ClassOurs (w : World) (gw : Gateway) : Prop := (gw.cls, true) ∈ w.classes

def SectionOK (pr : ParentRef) (l : Listener) : Prop := ∀ s, pr.sect = some s → s = l.name

/-- allowedRoutes.kinds: empty ⇒ any kind the listener protocol supports; otherwise the route's kind
must be listed with the Gateway API group (absent group = that group) -/
def KindListed (r : Route) (a : Allowed) : Prop :=
  a.kinds = [] ∨ ∃ k ∈ a.kinds, (k.group = none ∨ k.group = some gwGroup) ∧ k.kind = routeKind r

/-- Gateway API: the kinds a listener may accept are bounded by its protocol.  Documented
(gateway-api.md, Conformance): "Listener Port and Protocol are implemented for TCPRoute, but they are
not implemented for HTTPRoute".  So an HTTPRoute is compatible with every listener, a TCPRoute only
with `TCP` (or `TLS`) listeners.  An empty protocol (required field: never produced by the API
server) is "unspecified" and puts no bound. -/
def ProtoCompat (r : Route) (l : Listener) : Prop :=
  r.tcp = true → (l.proto = "" ∨ l.proto = "TCP" ∨ l.proto = "TLS")

def TermHolds (ls : List (String × String)) (t : Term) : Prop :=
  (t.op = "=" ∧ ∃ v, t.vals = [v] ∧ (t.key, v) ∈ ls) ∨
  (t.op = "In" ∧ ∃ v ∈ t.vals, (t.key, v) ∈ ls) ∨
  (t.op = "NotIn" ∧ t.vals ≠ [] ∧ ∀ v ∈ t.vals, (t.key, v) ∉ ls) ∨
  (t.op = "Exists" ∧ t.vals = [] ∧ ∃ v, (t.key, v) ∈ ls) ∨
  (t.op = "DoesNotExist" ∧ t.vals = [] ∧ ∀ v, (t.key, v) ∉ ls)

/-- allowedRoutes.namespaces: Same / All / Selector over the labels of the route's Namespace;
an absent allowedRoutes / namespaces / from admits nothing (the API server always defaults them) -/
def NsOK (w : World) (gw : Gateway) (r : Route) (a : Allowed) : Prop :=
  ∃ nr f, a.nss = some nr ∧ nr.frm = some f ∧
    ((f = "Same" ∧ r.ns = gw.ns) ∨ f = "All" ∨
     (f = "Selector" ∧ ∃ ts ls, nr.sel = some ts ∧ (r.ns, ls) ∈ w.nss ∧ ∀ t ∈ ts, TermHolds ls t))

/-- admission without the protocol bound (what the code decides) -/
structure AdmittedNoProto (w : World) (r : Route) (pr : ParentRef) (gw : Gateway) (l : Listener) : Prop where
  refers : RefersGateway pr
  gwIn : gw ∈ w.gws
  gwNs : ParentNs r pr gw.ns
  gwName : gw.name = pr.name
  lIn : l ∈ gw.listeners
  classOurs : ClassOurs w gw
  sectOK : SectionOK pr l
  allowed : ∃ a, l.allowed = some a ∧ KindListed r a ∧ NsOK w gw r a

/-- **the admission rule of the property**: class ∧ section ∧ kind (listed ∧ protocol) ∧ namespace -/
def Admitted (w : World) (r : Route) (pr : ParentRef) (gw : Gateway) (l : Listener) : Prop :=
  AdmittedNoProto w r pr gw l ∧ ProtoCompat r l

/-- object identity: what Kubernetes guarantees about the object sets -/
structure WF (w : World) : Prop where
  gwUnique : w.gws.Pairwise fun a b => ¬(a.ns = b.ns ∧ a.name = b.name)
  classUnique : w.classes.Pairwise fun a b => a.1 ≠ b.1
  nsUnique : w.nss.Pairwise fun a b => a.1 ≠ b.1
  labelUnique : ∀ n ∈ w.nss, n.2.Pairwise fun a b => a.1 ≠ b.1

/-! ## Spec as a computable oracle over an observed configuration -/

def specParentNs (r : Route) (pr : ParentRef) : String :=
  match pr.ns with
  | some n => if n = "" then r.ns else n
  | none => r.ns

def specRefers (pr : ParentRef) : Bool :=
  (pr.group == none || pr.group == some "" || pr.group == some gwGroup) &&
  (pr.kind == none || pr.kind == some "" || pr.kind == some "Gateway")

def specTerm (ls : List (String × String)) (t : Term) : Bool :=
  let has := ls.any fun kv => kv.1 == t.key
  let hasIn := ls.any fun kv => kv.1 == t.key && t.vals.contains kv.2
  if t.op = "=" then t.vals.length == 1 && hasIn
  else if t.op = "In" then hasIn
  else if t.op = "NotIn" then !t.vals.isEmpty && !hasIn
  else if t.op = "Exists" then t.vals.isEmpty && has
  else if t.op = "DoesNotExist" then t.vals.isEmpty && !has
  else false

/-- the four conjuncts of the admission rule for a candidate (gateway matched by namespace/name) -/
structure Conj where
  cls : Bool
  sect : Bool
  kind : Bool
  proto : Bool
  nsr : Bool
deriving Repr

def specConj (w : World) (r : Route) (pr : ParentRef) (gw : Gateway) (l : Listener) : Conj :=
  { cls := w.classes.any fun c => c.1 == gw.cls && c.2,
    sect := (match pr.sect with | none => true | some s => s == l.name),
    kind := (match l.allowed with
      | none => false
      | some a => a.kinds.isEmpty || a.kinds.any fun k => (k.group == none || k.group == some gwGroup) && k.kind == routeKind r),
    proto := !r.tcp || l.proto == "" || l.proto == "TCP" || l.proto == "TLS",
    nsr := (match l.allowed with
      | none => false
      | some a =>
        match a.nss with
        | none => false
        | some nr =>
          match nr.frm with
          | none => false
          | some f =>
            (f == "Same" && r.ns == gw.ns) || f == "All" ||
            (f == "Selector" &&
              match nr.sel with
              | none => false
              | some ts => w.nss.any fun n => n.1 == r.ns && ts.all (specTerm n.2))) }

def Conj.all (c : Conj) : Bool := c.cls && c.sect && c.kind && c.proto && c.nsr

/-- candidates of a route: every (parentRef, gateway, listener) whose gateway the parentRef designates -/
def candidates (w : World) (r : Route) : List (ParentRef × Gateway × Listener) :=
  r.parents.flatMap fun pr =>
    if specRefers pr then
      (w.gws.filter fun g => g.ns == specParentNs r pr && g.name == pr.name).flatMap fun gw =>
        gw.listeners.map fun l => (pr, gw, l)
    else []

def admittedListeners (w : World) (r : Route) : List Listener :=
  (candidates w r).filterMap fun c => if (specConj w r c.1 c.2.1 c.2.2).all then some c.2.2 else none

/-- a declaration the Spec expects: its precedence (route creation time, route name, rule index),
its key (host + link, or port) and the backend id it points to -/
structure SDecl where
  ts : Nat
  rkey : String
  rule : Nat
  host : String           -- "" for a TCP declaration
  link : Link
  port : Nat
  bid : String
deriving Repr

def sdeclBefore (a b : SDecl) : Bool :=
  a.ts < b.ts || (a.ts == b.ts && (a.rkey < b.rkey || (a.rkey == b.rkey && a.rule < b.rule)))

/-- resolvable rules of a route: (index, rule) with at least one backendRef that resolves -/
def liveRules (w : World) (r : Route) : List (Rule × Nat) :=
  r.rules.zipIdx.filter fun ri => !(refGroups w r ri.1).isEmpty

def specDecls (w : World) : List SDecl :=
  w.routes.flatMap fun r =>
    (admittedListeners w r).flatMap fun l =>
      (liveRules w r).flatMap fun ri =>
        if r.tcp then
          [{ ts := r.ts, rkey := rkey r, rule := ri.2, host := "", link := ⟨"", "", ""⟩, port := l.port, bid := backendID r ri.2 }]
        else
          (effMatches ri.1).flatMap fun m =>
            (filterHostnames l.host r.hostnames).map fun h =>
              { ts := r.ts, rkey := rkey r, rule := ri.2, host := normHost h, link := linkOf m, port := 0, bid := backendID r ri.2 }

/-- observed configuration (parsed from the harness output) -/
structure Obs where
  paths : List (String × Link × String)      -- host, link, backend id
  backends : List Backend
  tcps : List (Nat × String)
deriving Repr

def ownerOf (w : World) (bid : String) : Option Route :=
  w.routes.find? fun r => (List.range r.rules.length).any fun i => backendID r i == bid

def ownedBy (w : World) (r : Route) (bid : String) : Bool :=
  match ownerOf w bid with
  | some r' => r'.tcp == r.tcp && r'.ns == r.ns && r'.name == r.name
  | none => false

/-- why a route that the Spec does not admit got configuration: the single conjunct whose relaxation
would admit it, looking at the candidates (parentRef, gateway, listener) that can explain what is
observed for the route (the TCP port / one of the hostnames); all candidates if none does.  The
protocol clause is tested first (a candidate failing only there explains the observation). -/
def whyNot (w : World) (o : Obs) (r : Route) : String :=
  let ports := o.tcps.filterMap fun t => if ownedBy w r t.2 then some t.1 else none
  let hosts := o.paths.filterMap fun p => if ownedBy w r p.2.2 then some p.1 else none
  let all := candidates w r
  let cons := all.filter fun c =>
    if r.tcp then ports.contains c.2.2.port
    else ((filterHostnames c.2.2.host r.hostnames).map normHost).any hosts.contains
  let cs := (if cons.isEmpty then all else cons).map fun c => specConj w r c.1 c.2.1 c.2.2
  if cs.any (fun c => c.cls && c.sect && c.kind && !c.proto && c.nsr) then "tcproute-attached-through-non-tcp-listener"
  else if cs.any (fun c => !c.cls && c.sect && c.kind && c.proto && c.nsr) then "attached-through-foreign-class-gateway"
  else if cs.any (fun c => c.cls && c.sect && c.kind && c.proto && !c.nsr) then "attached-despite-namespace-rule"
  else if cs.any (fun c => c.cls && c.sect && !c.kind && c.nsr) then "attached-despite-kind-rule"
  else if cs.any (fun c => c.cls && !c.sect && c.kind && c.proto && c.nsr) then "attached-despite-section-name"
  else "attached-without-admission"

/-- expected servers of a backend: the ready targets of the resolvable backendRefs, in order -/
def expectedGroups (w : World) (bid : String) : Option (List (Int × List String)) :=
  match ownerOf w bid with
  | none => none
  | some r =>
    match (List.range r.rules.length).find? fun i => backendID r i == bid with
    | none => none
    | some i => r.rules[i]?.map fun rule => refGroups w r rule

def takeGroups : List (Int × List String) → List Server → List (C16.Cluster × List Server)
  | [], _ => []
  | g :: gs, ss => ({ weight := g.1, length := g.2.length }, ss.take g.2.length) :: takeGroups gs (ss.drop g.2.length)

def nodupStr (l : List String) : Bool := (dedupStr l).length == l.length

/-- weights: constant inside a backendRef's group and acceptable to the C16 Spec -/
def weightsOK (groups : List (Int × List String)) (ss : List Server) : Bool :=
  let gs := takeGroups groups ss
  gs.all (fun g => match g.2 with | [] => true | s :: rest => rest.all (·.weight = s.weight)) &&
  -- the C16 Spec clauses range / zero-iff / order / share (the precision of the binary32 arithmetic
  -- beyond them is C16's subject; the exact weights are compared with the C16 model by `agree`)
  (let cls := gs.map (·.1)
   let out := gs.map fun g => match g.2 with | [] => none | s :: _ => some s.weight
   let l := C16.live cls out
   l.all C16.specRange && l.all C16.specZero &&
   (l.all fun p => l.all fun q => C16.specOrder p q) && (l.all fun p => l.all fun q => C16.specShare p q))

def firstSome {α} (l : List α) (f : α → Option String) : Option String := l.findSome? f

def winner (ds : List SDecl) : Option SDecl :=
  ds.foldl (fun acc d => match acc with | none => some d | some a => if sdeclBefore d a then some d else some a) none

def oracle (w : World) (o : Obs) : Option String :=
  let ds := specDecls w
  let bids := dedupStr (ds.map (·.bid))
  -- nothing else: every backend belongs to an admitted (route, listener)
  (firstSome o.backends fun b =>
    if bids.contains b.id then none else
      match ownerOf w b.id with
      | some r => some (whyNot w o r)
      | none => some "backend-of-no-route") <|>
  -- every admitted, resolvable rule has its backend
  (firstSome bids fun id => if o.backends.any (·.id == id) then none else some "admitted-route-produced-nothing") <|>
  -- servers and weights
  (firstSome o.backends fun b =>
    match expectedGroups w b.id with
    | none => some "backend-of-no-route"
    | some gs =>
      if !nodupStr (b.servers.map (·.name)) then some "duplicate-server-name"
      else if b.servers.map (·.target) ≠ gs.flatMap (·.2) then some "wrong-servers"
      else if !weightsOK gs b.servers then some "wrong-weight"
      else none) <|>
  -- nothing else: every path / tcp service is a declaration of an admitted (route, listener), and
  -- the first declared one (older route, then namespace/name, then rule order) holds the key
  (firstSome o.paths fun p =>
    let same := ds.filter fun d => d.host == p.1 && d.link == p.2.1 && d.host != ""
    match winner same with
    | none =>
      match ownerOf w p.2.2 with
      | some r => some (whyNot w o r)
      | none => some "path-without-admitted-declaration"
    | some d => if d.bid == p.2.2 then none else
        if same.any (·.bid == p.2.2) then some "not-first-declared" else
          match ownerOf w p.2.2 with
          | some r => some (whyNot w o r)
          | none => some "path-to-foreign-backend") <|>
  (firstSome o.tcps fun t =>
    let same := ds.filter fun d => d.host == "" && d.port == t.1
    match winner same with
    | none =>
      match ownerOf w t.2 with
      | some r => some (whyNot w o r)
      | none => some "tcp-without-admitted-declaration"
    | some d => if d.bid == t.2 then none else
        if same.any (·.bid == t.2) then some "not-first-declared" else
          match ownerOf w t.2 with
          | some r => some (whyNot w o r)
          | none => some "tcp-to-foreign-backend") <|>
  -- every expected key is configured
  (firstSome ds fun d =>
    if d.host == "" then (if o.tcps.any (·.1 == d.port) then none else some "admitted-route-produced-nothing")
    else if o.paths.any (fun p => p.1 == d.host && p.2.1 == d.link) then none else some "admitted-route-produced-nothing")

end HapVerif.C10
