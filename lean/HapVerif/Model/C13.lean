/-
Model of pkg/utils/workqueue/ratelimiters.go (`reloadHAProxy.When`, `ingressReconciler.When`)
driving client-go's rate limiting + delaying queue.  Core-only.

Time is `Int` nanoseconds.  `last = none` is Go's zero `time.Time` (far in the past).
The delaying queue is modelled as: per item the earliest pending deadline (client-go keeps the
earlier `readyAt` of a waiting item), `AddAfter d ≤ 0` runs at once, a pending item runs at its
deadline.  First part (`St`, `simulate`): the run itself is instantaneous.  Second part (`StD`,
`simulateD`, end of the file): a run occupies the single worker for a duration, after which
`WorkQueue.process` calls the limiter's `Forget` and `Done`; `simulate` is the case "all durations 0"
(`Props.C13.simulateD_zero`).  Scheduling latency is outside the model (named in the evidence).
-/
namespace HapVerif.C13

/-- limiter transition: `(last, now) ↦ (last', delay)` -/
abbrev Limiter := Option Int → Int → Option Int × Int

/-- `reloadHAProxy.When` -/
def reloadWhen (interval : Int) : Limiter := fun last now =>
  match last with
  | none => (some now, 0)
  | some l =>
    if l > now then (some l, l - now)                    -- already scheduled: remaining time
    else if l + interval < now then (some now, 0)          -- not rate limited
    else (some (l + interval), l + interval - now)       -- rate limited: schedule next slot

/-- the limiter before the repair (kept as the historical witness): `last` is not advanced
when the call is deferred -/
def reloadWhenOld (interval : Int) : Limiter := fun last now =>
  match last with
  | none => (some now, 0)
  | some l => if l + interval < now then (some now, 0) else (some l, l + interval - now)

/-- `ingressReconciler.When` -/
def ingressWhen (delta wait : Int) : Limiter := fun last now =>
  match last with
  | none => (some (now + wait), wait)
  | some l =>
    if l > now then (some l, l - now)
    else if l + delta < now then (some (now + wait), wait)
    else (some (l + delta), l + delta - now)

/-- queue + limiter state for items identified by `Bool` (reload queue: only `false`;
reconciler: `false` = partial, `true` = full sync) -/
structure St where
  last : Option Int := none
  pend : Bool → Option Int := fun _ => none   -- pending deadline per item
  runs : List (Int × Bool) := []              -- runs so far (per item: most recent first)
  tie  : Bool := false   -- an arrival coincided with a pending deadline (order undefined)

def setPend (f : Bool → Option Int) (b : Bool) (p : Option Int) : Bool → Option Int :=
  fun x => if x = b then p else f x

/-- item `b` runs if its deadline is `≤ t` -/
def fire1 (s : St) (t : Int) (b : Bool) : St :=
  match s.pend b with
  | some d => if d ≤ t then { s with pend := setPend s.pend b none, runs := (d, b) :: s.runs } else s
  | none => s

/-- fire every pending item whose deadline is `≤ t` (the order of two items at one instant is
not observable in the spec; outputs are canonicalised) -/
def fire (s : St) (t : Int) : St := fire1 (fire1 s t false) t true

def minOpt (a : Option Int) (b : Int) : Int := match a with | some x => if x ≤ b then x else b | none => b

/-- `AddRateLimited(item)` at time `t` -/
def arrive (lim : Limiter) (s : St) (t : Int) (b : Bool) : St :=
  let tie := s.tie || (s.pend false == some t) || (s.pend true == some t)
  let s := fire s t
  let r := lim s.last t
  if r.2 ≤ 0 then { s with last := r.1, tie := tie, runs := (t, b) :: s.runs }
  else { s with last := r.1, tie := tie, pend := setPend s.pend b (some (minOpt (s.pend b) (t + r.2))) }

def runAll (lim : Limiter) (evs : List (Int × Bool)) : St :=
  evs.foldl (fun s e => arrive lim s e.1 e.2) {}

/-- flush: let all pending items run -/
def flush (s : St) : St :=
  let m := max ((s.pend false).getD 0) ((s.pend true).getD 0)
  fire s m

/-- runs of a whole arrival pattern (per item chronological) -/
def simulate (lim : Limiter) (evs : List (Int × Bool)) : List (Int × Bool) :=
  (flush (runAll lim evs)).runs.reverse

/-! ## Specification (oracle) on an observed list of runs -/

/-- runs of one item, chronological -/
def runsOf (b : Bool) (rs : List (Int × Bool)) : List Int := (rs.filter (·.2 = b)).map (·.1)

def spaced (delta : Int) : List Int → Bool
  | a :: b :: rest => decide (a + delta ≤ b) && spaced delta (b :: rest)
  | _ => true

/-- every arrival `(t, b)` is followed by a run of `b` at `r` with `t ≤ r ≤ max (t + slack) (prev + delta)` (`slack` = wait-before-update, 0 for reloads),
where `prev` is the latest run (of any item — the limiter is shared) before `t` -/
def served (delta slack : Int) (rs : List (Int × Bool)) (ev : Int × Bool) : Bool :=
  let prev := (rs.filter (fun r => r.1 < ev.1)).map (·.1) |>.foldl max (ev.1 - delta)
  let bound := max (ev.1 + slack) (prev + delta)
  rs.any fun r => r.2 = ev.2 ∧ ev.1 ≤ r.1 ∧ r.1 ≤ bound

/-- no more runs than arrivals, per item (coalescing never duplicates) -/
def noExtra (evs rs : List (Int × Bool)) (b : Bool) : Bool :=
  (runsOf b rs).length ≤ (runsOf b evs).length

def oracle (delta slack : Int) (evs rs : List (Int × Bool)) : Option String :=
  if !(spaced delta (runsOf false rs)) then some "spacing" else
  if !(spaced delta (runsOf true rs)) then some "spacing" else
  if !(evs.all (served delta slack rs)) then some "liveness" else
  if !(noExtra evs rs false && noExtra evs rs true) then some "extra-run" else none

/-! ## Run durations, the single worker and `Forget`

`WorkQueue.process` (pkg/utils/workqueue/workqueue.go): `Get` — sync callback (takes `d`) — `Forget(item)`
— `Done(item)`, ONE worker.  client-go's base queue (`queue.go`): `Add(b)` is a no-op if `b` is dirty;
if `b` is being processed it is only marked dirty and pushed at `Done`; otherwise it is pushed to the
FIFO.  The delaying queue's heap holds at most the two items `false`/`true`; `root` is the entry that
`waitingLoop` pops first (`heap.Push`/`heap.Fix` swap only on strictly smaller `readyAt`).

`St` keeps its meaning: the limiter and the delaying queue; `St.runs` are the READY events (the
`Add` calls on the base queue), which the instantaneous model identifies with the runs.  `StD` adds
the worker; `starts` are the run STARTS (the observable of the property). -/

/-- the limiter's `Forget(item)` at time `now`: `last ↦ last'` -/
abbrev Forget := Option Int → Int → Option Int

/-- the code that exists: `Forget` is a no-op (and `NumRequeues` is constantly 0, nobody reads it) -/
def forgetId : Forget := fun last _ => last

/-- the seeded variant C13e: `Forget` re-bases `last` on the end of the run -/
def forgetNow : Forget := fun _ now => some now

structure StD where
  q      : St := {}
  root   : Bool := false                 -- heap root of the delaying queue when both items wait
  queue  : List Bool := []               -- base FIFO (dirty and not being processed)
  busy   : Option (Bool × Int) := none   -- item being processed and the end of its run
  dirty  : Bool := false                 -- the item being processed was added again
  durs   : List Int := []                -- durations of the runs still to start (0 beyond the list)
  starts : List (Int × Bool) := []       -- run starts, most recent first
  tie    : Bool := false                 -- a run end coincided with an arrival / another item's deadline

def setLast (s : StD) (l : Option Int) : StD := { s with q := { s.q with last := l } }

/-- base queue `Add(b)` -/
def addD (s : StD) (b : Bool) : StD :=
  if s.queue.contains b then s
  else match s.busy with
    | some (c, _) => if c = b then { s with dirty := true } else { s with queue := s.queue ++ [b] }
    | none => { s with queue := s.queue ++ [b] }

/-- the idle worker takes queued items at time `now`; a run of duration `≤ 0` completes at once
(`Forget`, `Done` with nothing dirty) and the worker takes the next one -/
def drainD (fg : Forget) (now : Int) : Nat → StD → StD
  | 0, s => s
  | n + 1, s =>
    match s.busy, s.queue with
    | none, b :: rest =>
      let d := s.durs.headD 0
      let s := { s with queue := rest, durs := s.durs.tail, starts := (now, b) :: s.starts }
      if d ≤ 0 then drainD fg now n (setLast s (fg s.q.last now))
      else { s with busy := some (b, now + d) }
    | _, _ => s

def drain (fg : Forget) (now : Int) (s : StD) : StD := drainD fg now s.queue.length s

/-- the run in progress ends: `Forget`, `Done` (a dirty item is pushed), next `Get` -/
def finishD (fg : Forget) (s : StD) : StD :=
  match s.busy with
  | some (b, e) =>
    drain fg e { setLast s (fg s.q.last e) with
      busy := none, dirty := false, queue := if s.dirty then s.queue ++ [b] else s.queue }
  | none => s

/-- let the worker catch up with the clock: every run end `≤ lim` (`none`: no limit) happens.
`who` = the item about to be added at `lim` (`none`: an arrival, whose `When` races with `Forget`).
A run end at exactly `lim` races with that `Add`: the outcome depends on the order unless it is the same
item and it is not dirty (then both orders queue it once) — flagged `tie`, the case is not compared. -/
def catchUpD (fg : Forget) (lim : Option Int) (who : Option Bool) : Nat → StD → StD
  | 0, s => s
  | n + 1, s =>
    match s.busy with
    | some (b, e) =>
      if lim.all (e ≤ ·) then
        catchUpD fg lim who n (finishD fg { s with tie := s.tie || (lim == some e && (who != some b || s.dirty)) })
      else s
    | none => s

def catchUp (fg : Forget) (lim : Option Int) (who : Option Bool) (s : StD) : StD :=
  catchUpD fg lim who (s.queue.length + 2) s

/-- deadline of `b` if it is due at `t` -/
def dueOf (q : St) (t : Int) (b : Bool) : List Int :=
  match q.pend b with
  | some d => if d ≤ t then [d] else []
  | none => []

/-- entries of the delaying queue that are ready at `t`, in the order `waitingLoop` pops them -/
def due (q : St) (root : Bool) (t : Int) : List (Int × Bool) :=
  (dueOf q t root).map (·, root) ++ (dueOf q t (!root)).map (·, !root)

/-- both items are due at the same instant -/
def sameInstant : List (Int × Bool) → Bool
  | [a, b] => a.1 == b.1
  | _ => false

/-- a ready event: `waitingLoop` calls `Add(b)` at the deadline (`multi`: the other item is added at the
same instant, a run ending right then races with the two `Add`s) -/
def readyD (fg : Forget) (multi : Bool) (s : StD) (r : Int × Bool) : StD :=
  drain fg r.1 (addD (catchUp fg (some r.1) (if multi then none else some r.2) s) r.2)

/-- the delaying queue hands over everything that is due at `t` -/
def serveDue (fg : Forget) (s : StD) (t : Int) : StD :=
  let du := due s.q s.root t
  du.foldl (readyD fg (sameInstant du)) s

/-- heap root after the entries `≤ t` are popped and `b` is (re)inserted; `qf` = popped, `q'` = final -/
def rootAfter (root : Bool) (qf q' : St) (b : Bool) (inserted : Bool) : Bool :=
  let rf := if (qf.pend root).isSome then root else !root
  if !inserted then rf else
  match q'.pend (!b), q'.pend b with
  | none, _ => b
  | some y, some nb =>
    if (qf.pend b).isSome && rf == b then b else if nb < y then b else !b
  | some _, none => rf

/-- `AddRateLimited(b)` at time `t`, the worker being up to date -/
def arriveW (lim : Limiter) (fg : Forget) (s : StD) (t : Int) (b : Bool) : StD :=
  let r := lim s.q.last t
  let qf := fire s.q t
  let q' := arrive lim s.q t b
  let s := { s with q := q', root := rootAfter s.root qf q' b (!(r.2 ≤ 0)) }
  if r.2 ≤ 0 then drain fg t (addD s b) else s

/-- `AddRateLimited(b)` at time `t`, after everything that happens up to `t` -/
def arriveD (lim : Limiter) (fg : Forget) (s : StD) (t : Int) (b : Bool) : StD :=
  arriveW lim fg (catchUp fg (some t) none (serveDue fg s t)) t b

def runAllD (lim : Limiter) (fg : Forget) (durs : List Int) (evs : List (Int × Bool)) : StD :=
  evs.foldl (fun s e => arriveD lim fg s e.1 e.2) { durs := durs }

/-- flush: all pending items become ready, all runs complete -/
def flushD (fg : Forget) (s : StD) : StD :=
  let m := max ((s.q.pend false).getD 0) ((s.q.pend true).getD 0)
  let s := serveDue fg s m
  catchUp fg none none { s with q := flush s.q }

/-- run STARTS of a whole arrival pattern; the `k`-th run takes `durs[k]` (0 beyond the list) -/
def simulateD (lim : Limiter) (fg : Forget) (durs : List Int) (evs : List (Int × Bool)) : List (Int × Bool) :=
  (flushD fg (runAllD lim fg durs evs)).starts.reverse

/-- the domain in which the Spec is judged on run starts: every run is shorter than the interval and
either one kind of item only (the reload queue has a single item) or instantaneous runs.  Outside it the
UNCHANGED code does not keep start-to-start spacing (see `Props.C13`: `long_run_breaks_spacing`,
`other_kind_run_breaks_spacing`); those cases stay in the correspondence run. -/
def judged (delta : Int) (durs : List Int) (evs : List (Int × Bool)) : Bool :=
  durs.all (fun d => d < delta) &&
    (durs.all (fun d => d ≤ 0) || evs.all (fun e => e.2 = false) || evs.all (fun e => e.2 = true))

/-- Spec on the observed run starts -/
def oracleD (delta slack : Int) (durs : List Int) (evs rs : List (Int × Bool)) : Option String :=
  if judged delta durs evs then oracle delta slack evs rs
  else if !(noExtra evs rs false && noExtra evs rs true) then some "extra-run" else none

end HapVerif.C13
