/-
Model of pkg/utils/workqueue/ratelimiters.go (`reloadHAProxy.When`, `ingressReconciler.When`)
driving client-go's rate limiting + delaying queue.  Core-only.

Time is `Int` nanoseconds.  `last = none` is Go's zero `time.Time` (far in the past).
The delaying queue is modelled as: per item the earliest pending deadline (client-go keeps the
earlier `readyAt` of a waiting item), `AddAfter d ≤ 0` runs at once, a pending item runs at its
deadline; the run itself is instantaneous (scheduling latency and run duration are outside the
model — named in the evidence).
-/
namespace HapVerif.C13

/-- limiter transition: `(last, now) ↦ (last', delay)` -/
abbrev Limiter := Option Int → Int → Option Int × Int

/-- `reloadHAProxy.When` -/
def reloadWhen (interval : Int) : Limiter := fun last now =>
  match last with
  | none => (some now, 0)
  | some l =>
    if l > now then (some l, l - now)                    -- already scheduled: remaining time
    else if l + interval < now then (some now, 0)          -- not rate limited
    else (some (l + interval), l + interval - now)       -- rate limited: schedule next slot

/-- the limiter before the repair (kept as the historical witness): `last` is not advanced
when the call is deferred -/
def reloadWhenOld (interval : Int) : Limiter := fun last now =>
  match last with
  | none => (some now, 0)
  | some l => if l + interval < now then (some now, 0) else (some l, l + interval - now)

/-- `ingressReconciler.When` -/
def ingressWhen (delta wait : Int) : Limiter := fun last now =>
  match last with
  | none => (some (now + wait), wait)
  | some l =>
    if l > now then (some l, l - now)
    else if l + delta < now then (some (now + wait), wait)
    else (some (l + delta), l + delta - now)

/-- queue + limiter state for items identified by `Bool` (reload queue: only `false`;
reconciler: `false` = partial, `true` = full sync) -/
structure St where
  last : Option Int := none
  pend : Bool → Option Int := fun _ => none   -- pending deadline per item
  runs : List (Int × Bool) := []              -- runs so far (per item: most recent first)
  tie  : Bool := false   -- an arrival coincided with a pending deadline (order undefined)

def setPend (f : Bool → Option Int) (b : Bool) (p : Option Int) : Bool → Option Int :=
  fun x => if x = b then p else f x

/-- item `b` runs if its deadline is `≤ t` -/
def fire1 (s : St) (t : Int) (b : Bool) : St :=
  match s.pend b with
  | some d => if d ≤ t then { s with pend := setPend s.pend b none, runs := (d, b) :: s.runs } else s
  | none => s

/-- fire every pending item whose deadline is `≤ t` (the order of two items at one instant is
not observable in the spec; outputs are canonicalised) -/
def fire (s : St) (t : Int) : St := fire1 (fire1 s t false) t true

def minOpt (a : Option Int) (b : Int) : Int := match a with | some x => if x ≤ b then x else b | none => b

/-- `AddRateLimited(item)` at time `t` -/
def arrive (lim : Limiter) (s : St) (t : Int) (b : Bool) : St :=
  let tie := s.tie || (s.pend false == some t) || (s.pend true == some t)
  let s := fire s t
  let r := lim s.last t
  if r.2 ≤ 0 then { s with last := r.1, tie := tie, runs := (t, b) :: s.runs }
  else { s with last := r.1, tie := tie, pend := setPend s.pend b (some (minOpt (s.pend b) (t + r.2))) }

def runAll (lim : Limiter) (evs : List (Int × Bool)) : St :=
  evs.foldl (fun s e => arrive lim s e.1 e.2) {}

/-- flush: let all pending items run -/
def flush (s : St) : St :=
  let m := max ((s.pend false).getD 0) ((s.pend true).getD 0)
  fire s m

/-- runs of a whole arrival pattern (per item chronological) -/
def simulate (lim : Limiter) (evs : List (Int × Bool)) : List (Int × Bool) :=
  (flush (runAll lim evs)).runs.reverse

/-! ## Specification (oracle) on an observed list of runs -/

/-- runs of one item, chronological -/
def runsOf (b : Bool) (rs : List (Int × Bool)) : List Int := (rs.filter (·.2 = b)).map (·.1)

def spaced (delta : Int) : List Int → Bool
  | a :: b :: rest => decide (a + delta ≤ b) && spaced delta (b :: rest)
  | _ => true

/-- every arrival `(t, b)` is followed by a run of `b` at `r` with `t ≤ r ≤ max (t + slack) (prev + delta)` (`slack` = wait-before-update, 0 for reloads),
where `prev` is the latest run (of any item — the limiter is shared) before `t` -/
def served (delta slack : Int) (rs : List (Int × Bool)) (ev : Int × Bool) : Bool :=
  let prev := (rs.filter (fun r => r.1 < ev.1)).map (·.1) |>.foldl max (ev.1 - delta)
  let bound := max (ev.1 + slack) (prev + delta)
  rs.any fun r => r.2 = ev.2 ∧ ev.1 ≤ r.1 ∧ r.1 ≤ bound

/-- no more runs than arrivals, per item (coalescing never duplicates) -/
def noExtra (evs rs : List (Int × Bool)) (b : Bool) : Bool :=
  (runsOf b rs).length ≤ (runsOf b evs).length

def oracle (delta slack : Int) (evs rs : List (Int × Bool)) : Option String :=
  if !(spaced delta (runsOf false rs)) then some "spacing" else
  if !(spaced delta (runsOf true rs)) then some "spacing" else
  if !(evs.all (served delta slack rs)) then some "liveness" else
  if !(noExtra evs rs false && noExtra evs rs true) then some "extra-run" else none

end HapVerif.C13
