import HapVerif.Model.C18
/-!
Model of external authentication when the annotation builders of one backend run MORE THAN ONCE
in one sync, each time with a mapper of its own (C18, gateway mode):

* `pkg/converters/converters.go` `Sync`: `haproxy.Clear()`, the gateway converter, then the
  ingress converter (whose `syncFull` starts with `UpdateGlobalConfig`): while the gateway converter
  runs, `Global().External` and `Frontend().AuthProxy` still are the zero values `Clear()` left
  (`Globals.zero`: not external, port range 0..0)                                → `gwSync`
* `pkg/converters/gateway/gateway.go` `syncHTTPRouteGateway`: one visit per (route, parentRef,
  accepting listener, rule); `createBackend` answers `(backend, nil)` for a backend that already
  exists, `createHTTPHosts` links the NEW paths, and `ReadAnnotations(backend, services, pathLinks)`
  runs in every visit                                                             → `GwVisit`
* `pkg/converters/ingress/ingress.go` `ReadAnnotations`: a fresh mapper that holds the annotations
  of the given Services for the given path links only, then `UpdateBackendConfig(backend, mapper)`
  over ALL paths of the backend; a path the mapper does not know reads the defaults (`Mapper.GetConfig`
  → empty `KeyConfig`: placement `backend`, no auth-url, oauth with a nil source)  → `viewOf`, `Call`
* `pkg/converters/ingress/annotations/backend.go` `buildBackendAuthExternal`: the per-path step is a
  parameter (`AuthStep`): `authStep` (Model/C18.lean) is the code — it touches the record only when
  the path declares an auth-url —, `authStepScratch` is the variant that configures a scratch
  `hatypes.AuthExternal` and assigns it unconditionally (seed C18e).

A sync is a list of `Call`s (`runCalls`); the one-batch model `run` is the special case in which
every call sees every path (`run_eq_runCalls`, Props/C18Gw.lean).  Core-only.
-/
namespace HapVerif.C18

/-! ## globals in effect during one call -/

structure Globals where
  isExternal : Bool
  hasLua : Bool
  rangeStart : Int
  rangeEnd : Int
deriving Repr, DecidableEq

/-- what `haproxy.Clear()` leaves: `hatypes.Global{}` and `hatypes.Frontend{}` -/
def Globals.zero : Globals := ⟨false, false, 0, 0⟩

def World.globals (w : World) : Globals := ⟨w.isExternal, w.hasLua, w.rangeStart, w.rangeEnd⟩

/-! ## the mapper of one call -/

/-- what `KeyConfig.Get` answers for a path link the mapper holds nothing for (no global defaults
for auth-url / oauth: `assumptions`) -/
def maskPath (p : PathIn) : PathIn :=
  { p with url := .absent, plc := .absent, oauth := .absent, signin := false }

/-- the world as one call of the updater sees it: its globals, and the annotations of the paths in
`mapped` only -/
def viewOf (w : World) (g : Globals) (mapped : List Nat) : World :=
  { isExternal := g.isExternal, hasLua := g.hasLua, rangeStart := g.rangeStart, rangeEnd := g.rangeEnd,
    paths := w.paths.mapIdx fun i p => if mapped.contains i then p else maskPath p }

/-! ## the builder as a parameter -/

abbrev AuthStep := Variant → World → St → Nat → St

/-- seed C18e: `var auth hatypes.AuthExternal; if isBackend && url.Value != "" { setAuthExternal(config,
&auth, url) }; path.AuthExternal = auth` -/
def authStepScratch : AuthStep := fun v w st i =>
  match w.paths[i]? with
  | none => st
  | some p =>
    match ownPlc p, p.url with
    | .backend, .val u =>
      let res := setAuth w.isExternal w.hasLua w.rangeStart w.rangeEnd
        (usedOf v w st) st.binds {} u p.signin
      { st with binds := res.2.1, brec := upd st.brec i res.1, cleaned := st.cleaned || res.2.2 }
    | _, _ => { st with brec := upd st.brec i {} }

/-- `UpdateBackendConfig` with the given `buildBackendAuthExternal` -/
def backendPhaseWith (step : AuthStep) (v : Variant) (w : World) (st : St) (b : Nat) : St :=
  (backendIdxs w b).foldl (oauthStep v w) ((backendIdxs w b).foldl (step v w) st)

/-! ## a sync as a list of updater calls -/

inductive Call where
  | backend (g : Globals) (b : Nat) (mapped : List Nat)   -- `UpdateBackendConfig(backend, mapper)`
  | host (g : Globals) (h : Nat) (mapped : List Nat)      -- `UpdateHostConfig(host, mapper)`
deriving Repr, DecidableEq

def applyCall (step : AuthStep) (v : Variant) (w : World) (st : St) : Call → St
  | .backend g b m => backendPhaseWith step v (viewOf w g m) st b
  | .host g h m => hostPhase v (viewOf w g m) st h

def runCalls (step : AuthStep) (v : Variant) (w : World) (calls : List Call) : St :=
  calls.foldl (applyCall step v w) {}

/-! ## the gateway flow -/

/-- one `ReadAnnotations` of the gateway converter: the backend of the route rule, and the paths
that carry the Service annotations in the mapper of this call (the paths linked in this visit when
the backend was created by it; none when the backend existed) -/
structure GwVisit where
  backend : Nat
  mapped : List Nat
deriving Repr, DecidableEq

def gwCalls (visits : List GwVisit) : List Call :=
  visits.map fun vis => .backend Globals.zero vis.backend vis.mapped

/-- `fullSyncAnnotations` of the ingress converter, which follows in the same sync: the hosts and the
backends that Ingress objects configure (`ing` = the paths Ingress objects declare), with the
globals `UpdateGlobalConfig` has set by then -/
def ingCalls (g : Globals) (ing : List Nat) (hostOrder backendOrder : List Nat) : List Call :=
  hostOrder.map (.host g · ing) ++ backendOrder.map (.backend g · ing)

/-- `converters.Sync()`: `w` holds every path with what is DECLARED for it (a gateway path: the
annotations of the Service of its rule; an ingress path: those of its Ingress) and the configured
globals -/
def gwSync (step : AuthStep) (v : Variant) (w : World) (visits : List GwVisit) (ing : List Nat)
    (hostOrder backendOrder : List Nat) : St :=
  runCalls step v w (gwCalls visits ++ ingCalls w.globals ing hostOrder backendOrder)

/-! ## Spec (gateway mode) -/

/-- how a path came to be: through an Ingress, or through an HTTPRoute — then whether some visit
handed its annotations to the updater -/
inductive Origin where
  | ingress
  | route (mapped : Bool)
deriving Repr, DecidableEq

/-- root cause of a violation, gateway paths first (the keys under which the findings of this
mode are tracked); each gateway key names ONE mechanism and nothing else:
* later visit — the path was linked by a visit that handed no annotations to the updater AND its
  backend section carries no authentication rule at all;
* missing Lua — the only thing wrong with the rendered intercept is that the controller is
  "external without Lua" (with Lua it would be the path's own service);
* frontend placement — a Service auth-url placed in the frontend for which nothing was rendered,
  neither in the backend section nor in the frontends (when an Ingress on the same hostname places
  its auth-url in the frontend, its host-wide rule reaches the route path too: that is the finding
  `frontend-intercept-by-auth-url-of-another-ingress` of the one-batch mode).
Everything else, and every ingress path, keeps the signature of the one-batch mode -/
def gwSignature (w : World) (binds : List Bind) (og : Origin) (p : PathIn) (o : Obs) : String :=
  match og with
  | .ingress => signature w binds p o
  | .route false =>
    if o.rb = [] then "gateway-path-linked-on-a-later-visit-gets-no-service-annotations"
    else signature w binds p o
  | .route true =>
    if hasIcpt o.rb && !covered binds (wants w p) o.rb then
      (if w.isExternal && !w.hasLua && covered binds (wants { w with hasLua := true } p) o.rb then
         "gateway-auth-built-before-the-globals-ignores-missing-lua"
       else "backend-intercept-by-foreign-auth-service")
    else if p.url.nonEmpty && ownPlc p = .frontend then
      -- a route path is never part of a host mapper: what the frontends apply to it is the host-wide
      -- auth-url of an Ingress that shares the hostname
      (if o.rb = [] && o.r0 = [] then "gateway-service-auth-url-with-frontend-placement-ignored"
       else if !covered binds (wants w p) o.r0 then "frontend-intercept-by-auth-url-of-another-ingress"
       else if !covered binds (wants w p) o.r1 then "frontend-rule-misses-subpath-requests"
       else "declared-path-no-rule")
    else signature w binds p o

/-- Spec evaluated on observed rules and binds: `pathOk` for every path, whatever its origin -/
def gwOracle (w : World) (binds : List Bind) (origins : List Origin) (obs : List Obs) : Option String :=
  pickSig (((w.paths.zip origins).zip obs).filterMap fun ((p, og), o) =>
    if pathOk w binds p o then none else some (gwSignature w binds og p o))

end HapVerif.C18
