import HapVerif.Model.C16
import HapVerif.GoLib
/-!
Go's `float32` as the TRANSLATED `RebalanceWeight` (Generated/CodeC16.lean) uses it: a value is either finite —
a rational that is a binary32 value, every operation rounds with `C16.f32` (round to nearest, ties to even; the
normal range, see Model/C16.lean) — or not finite (`none`: ±Inf / NaN, the result of a division by zero).
Go leaves `int(x)` of a non-finite value implementation defined: `toInt` of `none` is an arbitrary number about
which the tie theorems claim nothing.  A comparison with a non-finite operand is `false` here (true of NaN; ±Inf is
never compared: `weightFactor` is finite whenever the code reaches the comparison — part of `rebalance_tie`).
Core-only.
-/
namespace HapVerif.C16

structure F32 where
  v : Option Rat

namespace F32

/-- `float32(i)` -/
def ofInt (i : Int) : F32 := ⟨some (f32 (i : Rat))⟩
def mul (a b : F32) : F32 :=
  ⟨match a.v, b.v with
    | some x, some y => some (f32 (x * y))
    | _, _ => none⟩
def div (a b : F32) : F32 :=
  ⟨match a.v, b.v with
    | some x, some y => if y = 0 then none else some (f32 (x / y))
    | _, _ => none⟩
/-- `int(x)`; unspecified (here 0) for a non-finite value -/
def toInt (a : F32) : Int :=
  match a.v with
  | some x => truncI x
  | none => 0
def ltB (a b : F32) : Bool :=
  match a.v, b.v with
  | some x, some y => decide (x < y)
  | _, _ => false

instance : Mul F32 := ⟨mul⟩
instance : GoLib.GoQuo F32 := ⟨div⟩
instance : LT F32 := ⟨fun a b => ltB a b = true⟩
instance (a b : F32) : Decidable (a < b) := inferInstanceAs (Decidable (ltB a b = true))
/-- an untyped Go constant (`weightFactor > 1`) takes the float type -/
instance : Coe Int F32 := ⟨ofInt⟩

end F32
end HapVerif.C16
