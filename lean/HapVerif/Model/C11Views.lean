import HapVerif.Model.C02
/-!
Views used by the regenerated translation of `dynUpdater.alignSlots` (pkg/haproxy/dynupdate.go): a backend as
the function sees it — the three `Dynamic` settings and the endpoint list (the M-Dyn `Back`), and the two effects
it has: `back.AddEmptyEndpoint()` (M-Dyn `addEmpty`) and `backends.BackendChanged(back)` (the backend, as it is
at that moment, is appended to the log of flagged backends).  Core-only; part of the trusted reading of the source.
-/
namespace HapVerif.C11Views
open HapVerif

structure BackView where
  dyn : Bool
  minFree : Int
  block : Int
  b : C02.Back

def addEmpty (v : BackView) : BackView := { v with b := C02.addEmpty v.b }
def markChanged (fx : List BackView) (v : BackView) : List BackView := fx ++ [v]
def isEmpty (e : C02.EP) : Bool := e.isEmpty

end HapVerif.C11Views
