import HapVerif.Model.C18
/-!
Model of external authentication over PARTIAL syncs (C18, history mode):

* `pkg/converters/ingress/ingress.go` `syncPartial`: `tracker.QueryLinks(changed.Links)` (the dirty
  ingresses, hosts and backends) → `closeKeys`, `dirtyOf`; `Hosts().RemoveAll(dirtyHosts)`,
  `Frontend().RemoveAuthBackendByTarget(dirtyBacks)`, `Backends().RemoveAll(dirtyBacks)` and the
  re-creation of the dirty hosts and backends with fresh paths by `syncIngress` → `resetRecs`;
  `partialSyncAnnotations` (`Hosts().ItemsAdd()`, then `Backends().ItemsAdd()`, both Go maps)
  → `partialSync`, which runs the SAME `hostPhase` / `backendPhase` as a full sync (Model/C18.lean)
  on the state carried over: `Frontend.AuthProxy.BindList`, the `BackendPath.AuthExternal` and
  `HostPath.AuthExt` records of the hosts and backends that were not dirty.
* the clean-up of `setAuthExternal` reads `Backends.BuildUsedAuthBackends()` = ALL current backends
  (`b.items`) and all hosts: `usedOf` ranges over every slot, dirty or not.
* `pkg/converters/tracker`: links are symmetric and `QueryLinks` follows them transitively; an
  ingress is linked to its host, to the backend of its service (and that service to the host) and,
  for an auth-url `svc://name:port`, to the named service / its backend (`Slot.keys`).
  `trackAddedIngress` links a new or updated ingress to its host and (existing) service backend only
  (`Slot.seedKeys`).

Ingresses live in numbered slots (ing01, ing02, ... = the order `sortIngress` gives them); a
deleted ingress leaves a dead slot (`deadPath`: a path of a host and a backend that no sync ever
visits and that declares nothing), so that path indices stay put.  Core-only.
-/
namespace HapVerif.C18

/-! ## slots -/

def deadId : Nat := 1000000

def deadPath : PathIn :=
  { host := deadId, backend := deadId, ord := 0, key := "", hamatch := "", sub := "",
    url := .absent, plc := .absent, oauth := .absent, signin := false }

def isDead (p : PathIn) : Bool := p.host == deadId

/-- one live ingress: its path and what the tracker links it to -/
structure Slot where
  path : PathIn
  hostKey : String              -- the hostname
  svcKey : String               -- the service it routes to (= its backend)
  authKey : Option String       -- service named by a `svc://<name>:<port>` auth-url (linked to the host even when missing)
  authBack : Option Nat         -- bind target id of the service backend pre-built for that auth-url
deriving Repr, DecidableEq

def Slot.keys (s : Slot) : List String := [s.hostKey, s.svcKey] ++ s.authKey.toList
def Slot.seedKeys (s : Slot) : List String := [s.hostKey, s.svcKey]

abbrev Slots := List (Option Slot)

def slotPaths (ss : Slots) : List PathIn := ss.map fun | some s => s.path | none => deadPath

/-! ## the dirty sets (`tracker.QueryLinks`) -/

structure Dirty where
  hosts : List Nat      -- removed and/or created: `UpdateHostConfig` runs on them
  backs : List Nat      -- ingress backends removed and/or created: `UpdateBackendConfig` runs on them
  targets : List Nat    -- dirty service backends that may be the target of an auth-proxy bind
deriving Repr, DecidableEq

def absorb (ks new : List String) : List String :=
  new.foldl (fun acc k => if acc.contains k then acc else acc ++ [k]) ks

/-- one pass: every ingress that has a dirty link makes all of its links dirty -/
def grow (old : Slots) (ks : List String) : List String :=
  old.foldl (fun ks s =>
    match s with
    | some s => if s.keys.any ks.contains then absorb ks s.keys else ks
    | none => ks) ks

/-- transitive closure: each productive pass takes in one more ingress at least -/
def closeKeys (old : Slots) (ks : List String) : List String :=
  (List.range (old.length + 1)).foldl (fun ks _ => grow old ks) ks

/-- links the changed ingresses start from: everything the old object was linked to, host and
service of the new object (`trackAddedIngress`) -/
def seedsOf (old new : Slots) (touched : List Nat) : List String :=
  touched.foldl (fun ks i =>
    absorb (absorb ks (match old[i]?.join with | some s => s.keys | none => []))
      (match new[i]?.join with | some s => s.seedKeys | none => [])) []

def dirtyOf (old new : Slots) (touched : List Nat) : Dirty :=
  let ks := closeKeys old (seedsOf old new touched)
  let dold := old.filterMap fun s =>
    match s with
    | some s => if s.keys.any ks.contains then some s else none
    | none => none
  let tnew := touched.filterMap fun i => new[i]?.join
  { hosts := ((dold ++ tnew).map (·.path.host)).eraseDups
    backs := ((dold ++ tnew).map (·.path.backend)).eraseDups
    targets := (dold.filterMap (·.authBack)).eraseDups }

/-! ## one partial sync -/

/-- what is left of the previous state when the dirty hosts and backends were removed and created
again (`w` = the world after the change): binds whose target is a dirty backend are dropped, paths
of dirty backends / hosts start with fresh records, the others keep theirs -/
def resetRecs (w : World) (d : Dirty) (st : St) : St :=
  { binds := removeByTarget d.targets st.binds
    brec := fun i =>
      match w.paths[i]? with
      | some p => if isDead p || d.backs.contains p.backend then {} else st.brec i
      | none => {}
    frec := fun i =>
      match w.paths[i]? with
      | some p => if isDead p || d.hosts.contains p.host then none else st.frec i
      | none => none
    cleaned := false }

/-- `syncPartial` as far as authentication goes; `ho` / `bo`: the order in which the Go maps
`Hosts().ItemsAdd()` / `Backends().ItemsAdd()` happen to be walked -/
def partialSync (v : Variant) (w : World) (d : Dirty) (ho bo : List Nat) (st : St) : St :=
  bo.foldl (backendPhase v w) (ho.foldl (hostPhase v w) (resetRecs w d st))

structure Batch where
  w : World          -- after the changes of the batch
  d : Dirty
  ho : List Nat
  bo : List Nat

/-- a full sync followed by partial syncs -/
def runHist (v : Variant) (w0 : World) (ho0 bo0 : List Nat) (bs : List Batch) : St :=
  bs.foldl (fun st b => partialSync v b.w b.d b.ho b.bo st) (run v w0 ho0 bo0)

def lastWorld (w0 : World) : List Batch → World
  | [] => w0
  | b :: r => lastWorld b.w r

/-- the seeded defect C18b: `BuildUsedAuthBackends` walks `itemsAdd`, the backends created by the
running sync, instead of `items`: the names of the untouched backends are not seen by the
clean-up (their records are hidden while the phases run, and put back afterwards) -/
def partialSyncSeeded (v : Variant) (w : World) (d : Dirty) (ho bo : List Nat) (st : St) : St :=
  let st0 := resetRecs w d st
  let fresh (i : Nat) : Bool :=
    match w.paths[i]? with
    | some p => d.backs.contains p.backend
    | none => false
  let r := bo.foldl (backendPhase v w) (ho.foldl (hostPhase v w)
    { st0 with brec := fun i => if fresh i then st0.brec i else {} })
  { r with brec := fun i => if fresh i then r.brec i else st0.brec i }

/-! ## what a partial sync relies on: the dirty sets are closed -/

/-- computable form of `Closed` (Lemmas/C18Hist.lean) at one slot: a live path outside the dirty
backends (hosts) is the path it was before, with the same host level values, and neither its
auth-url nor the host's names a dirty service backend -/
def closedAt (w w' : World) (d : Dirty) (i : Nat) : Bool :=
  match w'.paths[i]? with
  | none => true
  | some p =>
    isDead p ||
    ((d.backs.contains p.backend ||
        (w.paths[i]? == some p &&
          (match p.url with
           | .val u => !d.targets.contains u.target
           | _ => true))) &&
     (d.hosts.contains p.host ||
        (w.paths[i]? == some p && hostPlc w' p.host == hostPlc w p.host &&
          hostUrl w' p.host == hostUrl w p.host && hostSignin w' p.host == hostSignin w p.host &&
          (match hostUrl w' p.host with
           | .val u => !d.targets.contains u.target
           | _ => true))))

def closedOk (w w' : World) (d : Dirty) : Bool :=
  w'.isExternal == w.isExternal && w'.hasLua == w.hasLua &&
    (List.range w'.paths.length).all (closedAt w w' d)

/-! ## Spec on the outcome of a history -/

def proxyNames (rs : List Rule) : List Int :=
  rs.filterMap fun
    | .icpt (.proxy p) _ _ => some p
    | _ => none

/-- root cause of a violation after partial syncs: an intercept through a name that is bound to
another service (or to none) is a bind that went stale while its user was not processed -/
def histSignature (w : World) (binds : List Bind) (p : PathIn) (o : Obs) : String :=
  let s := signature w binds p o
  if s = "backend-intercept-by-foreign-auth-service" ||
      s = "frontend-intercept-through-reassigned-auth-proxy-port" then
    "stale-auth-bind-after-partial-sync"
  else s

def pathVerdict (w : World) (binds : List Bind) (p : PathIn) (o : Obs) : Option String :=
  if !pathOk w binds p o then some (histSignature w binds p o)
  else if !declared p && hasIcpt o.rb then some "undeclared-path-intercepted-in-backend"
  else if (proxyNames (o.rb ++ o.r0 ++ o.r1)).any (fun P => (targetOf binds P).isNone) then
    some "auth-intercept-name-unbound-after-partial-sync"
  else none

/-- Spec evaluated on the observed rules and binds of ALL live paths (`w.paths` = the live ones) -/
def histOracle (w : World) (binds : List Bind) (obs : List Obs) : Option String :=
  let sigs := (w.paths.zip obs).filterMap fun (p, o) => pathVerdict w binds p o
  if sigs.contains "stale-auth-bind-after-partial-sync" then some "stale-auth-bind-after-partial-sync"
  else pickSig sigs

end HapVerif.C18
