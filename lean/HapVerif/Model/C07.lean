/- Model for C07: not written yet -/
namespace HapVerif.C07
end HapVerif.C07
