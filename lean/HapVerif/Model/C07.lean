/-
C07 — every generated configuration is loadable.
Model pieces that are specific to C07 (the others are shared: server names = M-Dyn `HapVerif.C02`,
auth-proxy ports = `HapVerif.C18`, references between hosts and backends = the sync model):
`AddBackendPath` ids of pkg/haproxy/types/backend.go, and the verdict of the static "would HAProxy
load this" pass that the harness runs on every configuration the real pipeline writes.  Core-only.
-/
namespace HapVerif.C07

/-- the paths of one backend: link (host#path#type, abstract) and the numeric part of `pathNN` -/
abbrev Paths := List (String × Nat)

/-- `AddBackendPath`: find the link, else append with id `len+1` -/
def addPath (ps : Paths) (link : String) : Paths :=
  if ps.any (·.1 = link) then ps else ps ++ [(link, ps.length + 1)]

def addAll (links : List String) : Paths := links.foldl addPath []

/-- ids are exactly 1..n in insertion order -/
def WellNumbered (ps : Paths) : Prop := ps.map (·.2) = (List.range ps.length).map (· + 1)

/-- problem classes reported by the lint pass (harness/world/lint.go) -/
def problemClass (p : String) : String := (p.splitOn ":").headD p

/-- verdict on the implementation: the list of problems must be empty -/
def oracle (problems : List String) : Option String :=
  match problems with
  | [] => none
  | p :: _ => some (problemClass p)

end HapVerif.C07
