import HapVerif.Model.C16Callers
/-!
# C16 — histories: from the weights a conversion COMPUTES to the weights that are WRITTEN

Two levels.  `convert : Config → backend` is the callers' model (`bgRun`, `gwRun`: Model/C16Callers).
Between the converter and the files sits the store (`pkg/haproxy/types/backends.go`): every
`HAProxyUpdate` starts with `Backends.Shrink()`, which compares each REBUILT backend with the COMMITTED
one of the same name (`backendsMatch`) and, when they match, puts the committed backend back and drops
the rebuilt one: nothing is written, nothing is sent to the running HAProxy.

`backendsMatch` = `reflect.DeepEqual` on everything but the endpoints (`other`) and equality of the
SETS of non-empty endpoints, the set being a Go map keyed by the dereferenced `Endpoint` struct
(`epmap[*ep]`).  The key is a PARAMETER of the model (`key`): `keyWhole` = the code (the whole value,
`Weight` included); `keyNoWeight` = a key that leaves the weight out (seed C16g).
-/
namespace HapVerif.C16

/-- a server as the store sees it: `addr` stands for every field of the Endpoint value but the
weight (ip, port, name, target, targetRef, ...), `weight` for `Endpoint.Weight` -/
structure HSrv where
  addr : Nat
  weight : Int
deriving DecidableEq, Repr

/-- a backend of the store: `other` = every field but `Endpoints` -/
structure HBackend (α : Type) where
  other : α
  eps : List HSrv
deriving DecidableEq, Repr

/-- the code: `epmap[*ep]`, the whole Endpoint value -/
def keyWhole : HSrv → Nat × Int := fun e => (e.addr, e.weight)

/-- a key built field by field that leaves `Weight` out -/
def keyNoWeight : HSrv → Nat := fun e => e.addr

/-- the three loops over `epmap`: every key of `l2` is a key of `l1` and every key of `l1` was hit -/
def sameKeys {κ : Type} [DecidableEq κ] (key : HSrv → κ) (l1 l2 : List HSrv) : Bool :=
  (l2.all fun e => l1.any fun x => decide (key x = key e)) &&
  (l1.all fun x => l2.any fun e => decide (key e = key x))

def backendsMatchWith {α κ : Type} [DecidableEq α] [DecidableEq κ] (key : HSrv → κ)
    (b1 b2 : HBackend α) : Bool :=
  decide (b1.other = b2.other) && sameKeys key b1.eps b2.eps

/-- `Shrink` for one backend name: `committed` = `itemsDel[name]` (none: a new backend), `rebuilt` =
`itemsAdd[name]`; the result is what `items[name]` holds when the files are rendered -/
def shrinkWith {α κ : Type} [DecidableEq α] [DecidableEq κ] (key : HSrv → κ)
    (committed : Option (HBackend α)) (rebuilt : HBackend α) : HBackend α :=
  match committed with
  | none => rebuilt
  | some del =>
    if decide (rebuilt.eps.length ≤ del.eps.length) && backendsMatchWith key rebuilt del then del else rebuilt

/-- state of a long-lived controller between two cluster states: the previous cluster state, the last
state it CONVERTED, the committed backend -/
structure HState (α σ : Type) where
  prev : Option σ := none
  seen : Option σ := none
  store : Option (HBackend α) := none

/-- one cluster state.  `vis prev c`: the change from `prev` to `c` reaches the controller as an event
(the Pod watcher of `watchers.go` forwards only updates that change the DeletionTimestamp: a change of
pod labels alone is NOT visible; the first state always is).  A visible state is converted, shrunk
against the committed backend, written and committed; an invisible one leaves everything as it is. -/
def isVisible {σ : Type} (vis : σ → σ → Bool) : Option σ → σ → Bool
  | none, _ => true
  | some p, c => vis p c

def histStep {α κ σ : Type} [DecidableEq α] [DecidableEq κ] (key : HSrv → κ) (vis : σ → σ → Bool)
    (convert : σ → HBackend α) (s : HState α σ) (c : σ) : HState α σ :=
  if isVisible vis s.prev c then
    { prev := some c, seen := some c, store := some (shrinkWith key s.store (convert c)) }
  else { s with prev := some c }

def histWith {α κ σ : Type} [DecidableEq α] [DecidableEq κ] (key : HSrv → κ) (vis : σ → σ → Bool)
    (convert : σ → HBackend α) (s : HState α σ) (cs : List σ) : HState α σ :=
  cs.foldl (histStep key vis convert) s

/-- the state after each step -/
def histStepsWith {α κ σ : Type} [DecidableEq α] [DecidableEq κ] (key : HSrv → κ) (vis : σ → σ → Bool)
    (convert : σ → HBackend α) : HState α σ → List σ → List (HState α σ)
  | _, [] => []
  | s, c :: cs =>
    let s' := histStep key vis convert s c
    s' :: histStepsWith key vis convert s' cs

/-- every change is an event (Gateway API: the weights live in the route) -/
def visAlways {σ : Type} : σ → σ → Bool := fun _ _ => true

/-- the weight written for an address (the first server carrying it) -/
def weightAt {α : Type} (b : HBackend α) (a : Nat) : Option Int :=
  (b.eps.find? fun e => e.addr == a).map (·.weight)

/-- the addresses determine the weights: no two servers with one address and different weights -/
def WellKeyed (l : List HSrv) : Prop := ∀ e1 ∈ l, ∀ e2 ∈ l, e1.addr = e2.addr → e1 = e2

/-! ### the two converters as `convert` -/

def srvInsertH (x : HSrv) : List HSrv → List HSrv
  | [] => [x]
  | y :: ys => if x.addr < y.addr || (x.addr == y.addr && x.weight ≤ y.weight) then x :: y :: ys else y :: srvInsertH x ys

/-- canonical order for the output: by address, then weight -/
def srvSortH (l : List HSrv) : List HSrv := l.foldr srvInsertH []

/-- blue/green: a configuration is the address ids of the servers (in the order of `BgIn.eps`) and the
input of `bgRun` -/
def bgBackend (c : List Nat × BgIn) : HBackend Unit :=
  ⟨(), List.zipWith HSrv.mk c.1 (bgRun c.2)⟩

def bgWritten (b : HBackend Unit) : List Int := (srvSortH b.eps).map (·.weight)

/-- gateway: `other` = the route's backend exists; a server of backendRef `i` with address id `a`
(< 1000) is the store's address `1000*i + a` -/
def gwBackend (refs : List GwRef) : HBackend Bool :=
  match gwRun refs with
  | none => ⟨false, []⟩
  | some per =>
    ⟨true, (per.zip (List.range per.length)).flatMap fun p => p.1.map fun s => ⟨1000 * p.2 + s.1, s.2⟩⟩

def gwWritten (n : Nat) (b : HBackend Bool) : Option (List (List (Nat × Int))) :=
  if b.other then
    some ((List.range n).map fun i =>
      ((srvSortH b.eps).filter fun e => e.addr / 1000 == i).map fun e => (e.addr % 1000, e.weight))
  else none

/-- oracle clause of the histories, on outputs of the implementation only: what is written after a step
is what a fresh controller writes for the same state; the running HAProxy holds the written weights.
`relabelOnly`: since the last state the controller converted only pod labels changed (an input fact):
the staleness then has its own signature (the Pod watcher drops label updates). -/
def histOracle {β : Type} [DecidableEq β] (relabelOnly : Bool) (written running fresh : β) : Option String :=
  if written ≠ fresh then
    some (if relabelOnly then "written-weights-stale-after-pod-relabel" else "written-weights-stale-after-balance-change")
  else if running ≠ written then some "running-weights-differ-from-written"
  else none

end HapVerif.C16
