import HapVerif.Model.C16
/-!
Model of the two CALLERS of `RebalanceWeight`, composed with `HapVerif.C16.rebalance`:

* `pkg/converters/gateway/gateway.go` `createBackend` (`gwRun`): one cluster per backendRef that is
  not skipped (nil port, Service not found, port not declared, endpoints unreadable), weight
  `back.Weight` or 1 when nil, length = number of LISTED ready endpoints (`len(epready)`; an ip:port
  may be listed more than once), base 128; then a separate server-writing step (a parameter,
  `GwWrite`; the code: every listed endpoint becomes a server, `gwWriteAll`) gives every server of
  ref `i` the weight `cl[i].Weight`.
* `pkg/converters/ingress/annotations/backend.go` `buildBackendBlueGreenBalance` (`bgRun`): parse
  of `label=value=weight,...` (`strings.Split` on `,` then on `=`: exactly three fields, of which the
  label NAME and the label VALUE may be EMPTY — `blue==3` is label `blue`, value ``, weight 3; any
  malformed item aborts and leaves every weight untouched), clamp to 0..256, first loop over the
  endpoints (weight 0 = draining: skipped; an entry matches the pod iff the label is PRESENT in the
  pod's label map — comma-ok lookup — and its value is equal, so a pod WITHOUT the label matches no
  entry, not even one declared with the empty value; the LAST matching entry's weight sticks, the
  endpoint is appended to EVERY matching group; no match / no pod: 0),
  mode `pod` stops there, any other mode rebalances with `initial-weight` and writes the groups
  back in order (a later group overwrites an earlier one).  The endpoints it walks are the SERVERS
  of the backend, which the ingress converter's `addEndpoints` built with `AcquireEndpoint`: one
  server per ip:port (`bgAcquire`), so a repeated address is collapsed BEFORE the group lengths
  are counted.

Core-only.  The Spec (`gwOracle`, `bgOracle`) is evaluated on the implementation's output.
-/
namespace HapVerif.C16

/-! ## gateway `createBackend` -/

structure GwRef where
  /-- `backendRef.weight`; `none` = nil = 1 -/
  weight : Option Int
  /-- the ready endpoints of the service port AS LISTED by `convutils.CreateEndpoints` (`epready`), one
  address id (ip:port) per listed endpoint.  An id may REPEAT: `createEndpointSlices` and
  `createEndpoints` do not dedup, so an endpoint listed by two overlapping EndpointSlices / subsets, or
  several replicas behind the `haproxy-ingress.github.io/ip-override` address, are listed once each. -/
  addrs : List Nat
  /-- the loop body hit a `continue` before the cluster was appended -/
  skipped : Bool
deriving Repr, DecidableEq

/-- `Length: len(epready)`: the replica count handed to `RebalanceWeight` is the number of LISTED
endpoints — taken in the first loop, before any server is written -/
def GwRef.replicas (r : GwRef) : Nat := r.addrs.length

/-- `n` distinct addresses `1..n` (the shape every input had before repeated addresses were modelled) -/
def gwDistinct (n : Nat) : List Nat := (List.range n).map (· + 1)

/-- `convutils.RebalanceWeight(cl, 128)` (pinned by `Facts.c16GatewayBase`) -/
def gwBase : Int := 128

def gwKept (refs : List GwRef) : List GwRef := refs.filter fun r => !r.skipped

/-- `weight := 1; if back.Weight != nil { weight = int(*back.Weight) }`, `Length: len(epready)` -/
def gwCluster (r : GwRef) : Cluster := ⟨r.weight.getD 1, r.replicas⟩

def gwClusters (refs : List GwRef) : List Cluster := (gwKept refs).map gwCluster

/-! ### the server-writing step

The second loop of `createBackend` writes the servers of backendRef `i` from `backends[i].epready`
AFTER `RebalanceWeight` ran on the `Length`s above.  Which listed endpoints become servers is a
PARAMETER of the model, so that both the code and the seeded variant are expressible. -/

/-- which of the listed endpoints of ONE backendRef get a server (`habackend.AddEndpoint`), in order -/
abbrev GwWrite := List Nat → List Nat

/-- **the code**: `for _, addr := range backends[i].epready { ep := habackend.AddEndpoint(...) }` —
every listed endpoint becomes a server, repeated addresses included (`AddEndpoint` appends, it does
not look for an existing target; only the ingress converter uses `AcquireEndpoint`) -/
def gwWriteAll : GwWrite := id

/-- first occurrence of every address, in order -/
def gwDedup : List Nat → List Nat
  | [] => []
  | a :: as => a :: (gwDedup as).filter (· != a)

/-- **the seeded variant C16e**: an `added` set per backendRef skips a target that was already added
for the same service — after `Length: len(epready)` was taken and `RebalanceWeight` ran with it -/
def gwWriteDedup : GwWrite := gwDedup

/-- the servers (address, weight) of one kept ref: `ep.Weight = cl[i].Weight` for each endpoint the
writing step keeps.  The unspecified weight of a zero-length cluster is never read (no endpoint). -/
def gwServersW (write : GwWrite) (r : GwRef) (o : Option Int) : List (Nat × Int) :=
  match o with
  | some w => (write r.addrs).map fun a => (a, w)
  | none => []

/-- kept refs with the servers written for them -/
def gwKeptOutW (write : GwWrite) (refs : List GwRef) : List (GwRef × List (Nat × Int)) :=
  ((gwKept refs).zip (rebalance (gwClusters refs) gwBase)).map fun p => (p.1, gwServersW write p.1 p.2)

/-- the weights `RebalanceWeight`'s vector PROMISES: `Length` copies of the cluster's result (what the
servers of a ref are when every listed endpoint is written: `gw_written_all`) -/
def gwServersOf (c : Cluster) (o : Option Int) : List Int :=
  match o with
  | some w => List.replicate c.length.toNat w
  | none => []

/-- kept refs' clusters with `Length` copies of their result -/
def gwKeptOut (refs : List GwRef) : List (Cluster × List Int) :=
  let cls := gwClusters refs
  (cls.zip (rebalance cls gwBase)).map fun p => (p.1, gwServersOf p.1 p.2)

/-- put the kept refs' results back at their positions; a skipped ref has no server -/
def gwSpread {α : Type} : List GwRef → List (List α) → List (List α)
  | [], _ => []
  | r :: rs, outs =>
    if r.skipped then [] :: gwSpread rs outs else
    match outs with
    | o :: os => o :: gwSpread rs os
    | [] => [] :: gwSpread rs []

/-- `createBackend` with the writing step `write`: `none` = `len(backends) == 0`, no backend; otherwise
per backendRef (in order, skipped ones included) the servers (address, weight) written for it -/
def gwRunW (write : GwWrite) (refs : List GwRef) : Option (List (List (Nat × Int))) :=
  if (gwKept refs).isEmpty then none
  else some (gwSpread refs ((gwKeptOutW write refs).map (·.2)))

/-- `createBackend` as it is -/
def gwRun (refs : List GwRef) : Option (List (List (Nat × Int))) := gwRunW gwWriteAll refs

/-- all elements equal: the common value (`none` for `[]` or a mixed list) -/
def uniformW : List Int → Option Int
  | [] => none
  | w :: rest => if rest.all (· = w) then some w else none

/-- the cluster the Spec judges a ref by: configured weight (nil = 1) and the number of servers
ACTUALLY WRITTEN for it — the share of a group is (weight of its servers) x (servers it has) -/
def gwWrittenCluster (r : GwRef) (servers : List (Nat × Int)) : Cluster :=
  ⟨r.weight.getD 1, servers.length⟩

/-- Spec on the observed servers (address, weight) of the route's backend, per backendRef.

Shape clauses make the observation meaningful: a backend exists iff some ref is kept; a skipped ref has
no server; a server of a kept ref carries one of its listed addresses (`gw-shape`) and every listed
address has at least one server (`gw-address-without-server`).  HOW MANY servers a repeated address
gets is not prescribed (one per listed endpoint, or one per address, are both fine).

Property clauses: `gw-range`; the servers of a ref carry one weight (`gw-group-not-uniform`); then the
clauses of `oracle` (range, zero-iff, order, share) on (configured weight with nil = 1, number of
servers WRITTEN, weight written): the share of a group is judged on the servers it really has, so
weights computed for `N` replicas and written on `M < N` servers are a `gw-share` failure. -/
def gwOracle (refs : List GwRef) (obs : Option (List (List (Nat × Int)))) : Option String :=
  match obs with
  | none => if (gwKept refs).isEmpty then none else some "gw-no-backend"
  | some per =>
    if (gwKept refs).isEmpty then some "gw-backend-without-ref" else
    if per.length ≠ refs.length then some "gw-shape" else
    let z := refs.zip per
    if z.any (fun p => if p.1.skipped then !p.2.isEmpty else p.2.any fun s => !p.1.addrs.contains s.1) then some "gw-shape" else
    if z.any (fun p => !p.1.skipped && p.1.addrs.any fun a => !(p.2.any fun s => s.1 == a)) then some "gw-address-without-server" else
    if z.any (fun p => p.2.any fun s => s.2 < 0 ∨ s.2 > 256) then some "gw-range" else
    if z.any (fun p => p.2 ≠ [] ∧ uniformW (p.2.map (·.2)) = none) then some "gw-group-not-uniform" else
    let kept := z.filter fun p => !p.1.skipped
    (oracle (kept.map fun p => gwWrittenCluster p.1 p.2) (kept.map fun p => uniformW (p.2.map (·.2)))).map ("gw-" ++ ·)

/-- statistics: some kept ref lists an address more than once -/
def gwHasRepeat (refs : List GwRef) : Bool :=
  (gwKept refs).any fun r => (gwDedup r.addrs).length ≠ r.addrs.length

/-! ## blue/green `buildBackendBlueGreenBalance` -/

structure BgEntry where
  name : String
  value : String
  /-- after the clamp -/
  weight : Int
deriving Repr, DecidableEq

structure BgEp where
  /-- weight 0 before blue/green (not ready or terminating, drain-support) -/
  drain : Bool
  /-- labels of the pod; `none`: no TargetRef or `GetPod` failed -/
  labels : Option (List (String × String))
deriving Repr, DecidableEq

/-! ### the labels of a pod: a PARTIAL map

`pod.Labels` is a Go `map[string]string`.  It is modelled by an association list read with
`List.lookup` (the first pair of a key counts): a label name is ABSENT (`none`), PRESENT with the
empty value (`some ""` — marker labels such as `blue: ""` are legal in Kubernetes) or present with
another value.  Names and values are arbitrary strings, the empty string included. -/

/-- `pod.Labels[k] = v` (Go map assignment): the value of an existing key is replaced -/
def labelSet (m : List (String × String)) (k v : String) : List (String × String) :=
  if m.any (·.1 == k) then m.map fun p => if p.1 == k then (k, v) else p else m ++ [(k, v)]

/-- the map built by assigning the pairs in order (a repeated name: the LAST value wins) -/
def labelsOfPairs (kvs : List (String × String)) : List (String × String) :=
  kvs.foldl (fun m p => labelSet m p.1 p.2) []

/-- `label, found := pod.Labels[name]`: `none` = not found -/
def labelGet (ls : List (String × String)) (name : String) : Option String := ls.lookup name

/-! ### from the listed endpoints to the servers (ingress converter `addEndpoints`)

`convutils.CreateEndpoints` lists ready and not-ready endpoints (an ip:port may repeat, as for the
gateway).  `addEndpoints` walks the ready ones, then (drain-support) the not-ready ones, with
`backend.AcquireEndpoint(ip, port, targetRef)` = `FindEndpoint(target)` or `AddEndpoint`: a target
that already has a server gets NO second server; the server keeps the `TargetRef` (pod) of the
listing that created it, and a not-ready listing sets `ep.Weight = 0` on whatever server carries the
address.  Blue/green runs later, on `d.backend.Endpoints`. -/

structure BgListed where
  /-- address id (ip:port) -/
  addr : Nat
  /-- `drain`: listed among the not-ready endpoints; `labels`: the pod of its targetRef -/
  ep : BgEp
deriving Repr, DecidableEq

/-- one `AcquireEndpoint` (+ `ep.Weight = 0` for a not-ready listing) -/
def bgAcquireStep (srv : List (Nat × BgEp)) (l : BgListed) : List (Nat × BgEp) :=
  if srv.any (·.1 == l.addr) then
    if l.ep.drain then srv.map fun s => if s.1 == l.addr then (s.1, { s.2 with drain := true }) else s
    else srv
  else srv ++ [(l.addr, l.ep)]

/-- `addEndpoints` under drain-support: the ready listings in order, then the not-ready ones.
(`CreateEndpoints` sorts each class by target; between equal targets the listing order is kept for the
at most 12 endpoints per class the harness builds — insertion sort — and the order between different
targets does not matter: `bgAcquireStep` only ever looks at the server of the same address.) -/
def bgAcquire (ls : List BgListed) : List (Nat × BgEp) :=
  ((ls.filter fun l => !l.ep.drain) ++ ls.filter fun l => l.ep.drain).foldl bgAcquireStep []

/-- `strconv.ParseInt(s, 10, 0)` / `strconv.Atoi`: optional sign, at least one ASCII digit,
nothing else, value within int64 -/
def parseGoInt (s : String) : Option Int :=
  let cs := s.toList
  let (neg, ds) := match cs with
    | '-' :: r => (true, r)
    | '+' :: r => (false, r)
    | r => (false, r)
  if ds.isEmpty ∨ !(ds.all Char.isDigit) then none else
  let n : Nat := ds.foldl (fun a c => a * 10 + (c.toNat - '0'.toNat)) 0
  let v : Int := if neg then -(n : Int) else (n : Int)
  if v < -9223372036854775808 ∨ v > 9223372036854775807 then none else some v

/-- Go `strings.Split(s, sep)` for a one-character separator, on the characters of `s`: the fields
between the separators — `count sep + 1` of them, empty ones kept (`"blue==3"` has the fields `blue`,
`` and `3`; `""` has the one field ``).  Structural, so that the kernel evaluates it
(`Props/C16Labels`: `goSplit_length`, `goSplit_join`, `goSplit_no_sep`, `goSplit_unique`). -/
def goSplit (sep : Char) : List Char → List (List Char)
  | [] => [[]]
  | c :: cs =>
    if c = sep then [] :: goSplit sep cs
    else match goSplit sep cs with
      | f :: fs => (c :: f) :: fs
      | [] => [[c]]

def goSplitStr (sep : Char) (s : String) : List String := (goSplit sep s.toList).map String.ofList

/-- one `label=value=weight` item: `dwSlice := strings.Split(weight, "="); len(dwSlice) != 3` is an
error.  Nothing is demanded of the first two fields: the label name and the label value may be empty. -/
def parseEntry (s : String) : Option BgEntry :=
  match goSplitStr '=' s with
  | [n, v, w] => (parseGoInt w).map fun w => ⟨n, v, clampWeight w⟩
  | _ => none

/-- `none` = some item is malformed (the function logs and returns; nothing was written yet) -/
def parseEntries : List String → Option (List BgEntry)
  | [] => some []
  | s :: ss =>
    match parseEntry s, parseEntries ss with
    | some e, some es => some (e :: es)
    | _, _ => none

/-- the whole annotation -/
def parseBalance (s : String) : Option (List BgEntry) := parseEntries (goSplitStr ',' s)

structure BgIn where
  /-- value of `blue-green-mode` (`""` when absent) -/
  mode : String
  /-- `initial-weight` as read by `Int()` -/
  initial : Int
  /-- effective `blue-green-balance` / `blue-green-deploy` value; `none`: no annotation -/
  ann : Option String
  eps : List BgEp
deriving Repr

/-- weight of the endpoint when blue/green starts: `Server.InitialWeight`, 0 when draining -/
def bgCur (initial : Int) (ep : BgEp) : Int := if ep.drain then 0 else initial

/-- **the matching condition** `if label, found := pod.Labels[dw.labelName]; found { if label ==
dw.labelValue {` (pinned by `Facts.c16BlueGreenMatchCommaOk` / `c16BlueGreenMatchEq`): the label is
PRESENT and its value is the entry's.  A pod that lacks the label matches no entry of that name,
whatever the entry's value — the empty value included. -/
def bgLabelMatch (e : BgEntry) (ep : BgEp) : Bool :=
  match ep.labels with
  | none => false
  | some ls =>
    match labelGet ls e.name with
    | some label => label == e.value
    | none => false

/-- **the seeded variant C16f**: `if pod.Labels[dw.labelName] == dw.labelValue {` — a missing key
reads as `""`, so a pod WITHOUT the label matches every entry declared with the empty value -/
def bgLabelMatchLoose (e : BgEntry) (ep : BgEp) : Bool :=
  match ep.labels with
  | none => false
  | some ls => (labelGet ls e.name).getD "" == e.value

/-- the endpoint is appended to the group of `e` -/
def bgMember (initial : Int) (e : BgEntry) (ep : BgEp) : Bool :=
  bgCur initial ep != 0 && bgLabelMatch e ep

def bgCount (initial : Int) (eps : List BgEp) (e : BgEntry) : Nat :=
  (eps.filter (bgMember initial e)).length

def bgCluster (initial : Int) (eps : List BgEp) (e : BgEntry) : Cluster :=
  ⟨e.weight, bgCount initial eps e⟩

def bgClusters (initial : Int) (entries : List BgEntry) (eps : List BgEp) : List Cluster :=
  entries.map (bgCluster initial eps)

/-- first loop (= the result in mode `pod`): the last matching entry's weight sticks -/
def bgPodWeight (initial : Int) (entries : List BgEntry) (ep : BgEp) : Int :=
  match (entries.filter fun e => bgMember initial e ep).getLast? with
  | some e => e.weight
  | none => 0

/-- write-back after the rebalance: the last group the endpoint belongs to wins -/
def bgDeployWeight (initial : Int) (entries : List BgEntry) (out : List (Option Int)) (ep : BgEp) : Int :=
  match ((entries.zip out).filter fun p => bgMember initial p.1 ep).getLast? with
  | some (_, some w) => w
  | _ => 0

/-- the function once the annotation is parsed -/
def bgCore (mode : String) (initial : Int) (entries : List BgEntry) (eps : List BgEp) : List Int :=
  if mode = "pod" then eps.map (bgPodWeight initial entries)
  else
    let out := rebalance (bgClusters initial entries eps) initial
    eps.map (bgDeployWeight initial entries out)

/-- entries when the function goes past the parser -/
def bgEntries (ann : Option String) : Option (List BgEntry) :=
  match ann with
  | none => none
  | some s => if s = "" then none else parseBalance s

def bgRun (i : BgIn) : List Int :=
  match bgEntries i.ann with
  | none => i.eps.map (bgCur i.initial)           -- untouched
  | some entries => bgCore i.mode i.initial entries i.eps

/-! ### the function with the matching condition as a PARAMETER

So that both the code (`bgLabelMatch`) and the seeded variant (`bgLabelMatchLoose`) are expressible:
`bgRunM bgLabelMatch = bgRun` (`Props/C16Labels.bgRunM_code`, by `rfl`). -/

abbrev BgMatch := BgEntry → BgEp → Bool

def bgMemberM (m : BgMatch) (initial : Int) (e : BgEntry) (ep : BgEp) : Bool :=
  bgCur initial ep != 0 && m e ep

def bgClustersM (m : BgMatch) (initial : Int) (entries : List BgEntry) (eps : List BgEp) : List Cluster :=
  entries.map fun e => ⟨e.weight, (eps.filter (bgMemberM m initial e)).length⟩

def bgPodWeightM (m : BgMatch) (initial : Int) (entries : List BgEntry) (ep : BgEp) : Int :=
  match (entries.filter fun e => bgMemberM m initial e ep).getLast? with
  | some e => e.weight
  | none => 0

def bgDeployWeightM (m : BgMatch) (initial : Int) (entries : List BgEntry) (out : List (Option Int))
    (ep : BgEp) : Int :=
  match ((entries.zip out).filter fun p => bgMemberM m initial p.1 ep).getLast? with
  | some (_, some w) => w
  | _ => 0

def bgCoreM (m : BgMatch) (mode : String) (initial : Int) (entries : List BgEntry) (eps : List BgEp) : List Int :=
  if mode = "pod" then eps.map (bgPodWeightM m initial entries)
  else
    let out := rebalance (bgClustersM m initial entries eps) initial
    eps.map (bgDeployWeightM m initial entries out)

def bgRunM (m : BgMatch) (i : BgIn) : List Int :=
  match bgEntries i.ann with
  | none => i.eps.map (bgCur i.initial)
  | some entries => bgCoreM m i.mode i.initial entries i.eps

/-! ### Spec -/

def bgMatching (initial : Int) (entries : List BgEntry) (ep : BgEp) : List BgEntry :=
  entries.filter fun e => bgMember initial e ep

structure BgGroup where
  cl : Cluster
  /-- observed weights of the members -/
  members : List Int
  /-- some member also belongs to another group -/
  dirty : Bool

def bgGroups (initial : Int) (entries : List BgEntry) (rows : List (BgEp × Int)) : List BgGroup :=
  entries.map fun e =>
    let ms := rows.filter fun r => bgMember initial e r.1
    { cl := ⟨e.weight, ms.length⟩, members := ms.map (·.2),
      dirty := ms.any fun r => (bgMatching initial entries r.1).length ≥ 2 }

/-- Spec on the observed weights, one per endpoint.

* outside the property's quantifier (`initial-weight` 1..256; 0 = every server draining is kept)
  nothing is demanded, nor when no balance is configured (absent / malformed annotation);
* every server: `bg-range`; draining / no group: weight 0 (`bg-unmatched-not-zero`: a server whose pod
  lacks the label of every entry belongs to no group, whatever the entries' values — `bgMatching` is
  the comma-ok matching `bgLabelMatch`, which is what "the server matches no group" means for a label
  SELECTOR: an absent label is not the label with the empty value);
* a server of exactly ONE group: zero iff the group's configured weight is zero; mode `pod`: the
  configured weight itself;
* mode deploy, groups none of whose members belongs to another group: members uniform, then the
  clauses of `oracle` on (configured weight, members, weight);
* a server of SEVERAL groups (a pod matching more than one entry, duplicated entries included) and
  the groups that contain one are OUTSIDE the property's domain ("its group" presumes one group per
  server, the quantifier ranges over disjoint groups): only `bg-range` (and the draining clause)
  judges them; what the code does there is documented by theorems, not judged. -/
def bgOracleCore (mode : String) (initial : Int) (entries : List BgEntry) (eps : List BgEp)
    (obs : List Int) : Option String :=
  let rows := eps.zip obs
  let ms := fun (r : BgEp × Int) => bgMatching initial entries r.1
  if obs.any (fun w => w < 0 ∨ w > 256) then some "bg-range" else
  if rows.any (fun r => bgCur initial r.1 = 0 ∧ r.2 ≠ 0) then some "bg-draining-not-zero" else
  if rows.any (fun r => bgCur initial r.1 ≠ 0 ∧ (ms r).isEmpty ∧ r.2 ≠ 0) then some "bg-unmatched-not-zero" else
  if rows.any (fun r => (ms r).length = 1 ∧ (ms r).any fun e => (r.2 = 0) ≠ (e.weight = 0)) then some "bg-zero-iff" else
  let pod := mode = "pod"
  if pod ∧ rows.any (fun r => (ms r).length = 1 ∧ (ms r).any fun e => r.2 ≠ e.weight) then some "bg-pod-weight" else
  let gs := bgGroups initial entries rows
  let clean := gs.filter fun g => !g.dirty
  if !pod ∧ clean.any (fun g => g.members ≠ [] ∧ uniformW g.members = none) then some "bg-group-not-uniform" else
  -- servers of several groups and the groups that contain one are OUTSIDE the property's domain
  -- ("its group" presumes one group per server): documented in Props/C16Callers, not judged
  (if pod then none else oracle (clean.map (·.cl)) (clean.map fun g => uniformW g.members)).map ("bg-" ++ ·)

/-- the case has a server that belongs to several groups (statistics; such servers and their
groups are outside the property's domain) -/
def bgHasOverlap (initial : Int) (entries : List BgEntry) (eps : List BgEp) : Bool :=
  eps.any fun ep => (bgMatching initial entries ep).length ≥ 2

def bgOracle (i : BgIn) (obs : List Int) : Option String :=
  if obs.length ≠ i.eps.length then some "bg-length" else
  if ¬ (0 ≤ i.initial ∧ i.initial ≤ 256) then none else
  match bgEntries i.ann with
  | none => none
  | some entries => bgOracleCore i.mode i.initial entries i.eps obs

end HapVerif.C16
