import HapVerif.Model.C17
/-!
# C17 — the signer as a LIVE object: configuration histories

`Model/C17.lean` (a) models one `Notify` of a signer whose window (`expiring`) and account are inputs.
In the controller the signer is created once (`initSvcAcmeClient`) and lives as long as the process:
`instance.acmeEnsureConfig()` hands it the current global configuration before every `AcmeUpdate` /
`AcmeCheck` — `signer.AcmeConfig(expiring)` and `signer.AcmeAccount(endpoint, emails, termsAgreed)` — and
the checks (`Notify`) that follow must be decided with THAT configuration. `acme-expiring` is any integer
number of days: `0` ("only renew what has already expired") and negative values are accepted by the
annotation parser and reach the signer as they are; `verify` computes `now.Add(expiring)` whatever the sign.

State of `signer` (signer.go): `account`, `client` (nil or not), `expiring`. Steps of a history:

* `config w`                        — `AcmeConfig(w)`: `s.expiring = w`, unconditionally;
* `account endpoint emails terms ok` — `AcmeAccount(...)`: endpoint aliases expanded (`v2`, `v02`, `v2-staging`,
  `v02-staging`); nothing happens if the account equals the stored one; otherwise account and client are
  forgotten, and — unless the three fields are empty — a client is created (`NewClient`, `ok` = it succeeded)
  and stored together with the account;
* `check secret now declared sign setErr` — `Notify(item)`: `Model/C17.lean notify` with the window and the
  client of the state.

`ConfigPolicy` = how `AcmeConfig` treats its argument: `.always` is the code; `.positiveOnly` is the setter
that keeps the previous window when it is handed a non-positive one (seed C17g).
-/
namespace HapVerif.C17

structure Account where
  endpoint : String
  emails   : String
  terms    : Bool
deriving Repr, DecidableEq

def Account.empty : Account := ⟨"", "", false⟩

/-- the `switch endpoint` of `AcmeAccount` -/
def expandEndpoint (e : String) : String :=
  if e = "v2" ∨ e = "v02" then "https://acme-v02.api.letsencrypt.org"
  else if e = "v2-staging" ∨ e = "v02-staging" then "https://acme-staging-v02.api.letsencrypt.org"
  else e

structure Signer where
  account : Account := Account.empty
  client  : Bool := false
  window  : Int := 0
deriving Repr, DecidableEq

/-- one `Notify`, without the state it is decided with -/
structure Check where
  secret   : Secret
  now      : Int
  declared : List Name
  sign     : SignRes
  setErr   : Bool
deriving Repr

inductive SStep where
  | config (w : Int)
  | account (endpoint emails : String) (terms : Bool) (clientOk : Bool)
  | check (c : Check)
deriving Repr

inductive ConfigPolicy where
  | always          -- signer.go: `s.expiring = expiring`
  | positiveOnly    -- seed C17g: `if expiring <= 0 { return }` first
deriving Repr, DecidableEq

def Check.toVIn (c : Check) (acct : Bool) (window : Int) : VIn :=
  { acct := acct, secret := c.secret, now := c.now, window := window, declared := c.declared,
    sign := c.sign, setErr := c.setErr }

/-- `signer.AcmeConfig` -/
def acmeConfigP (p : ConfigPolicy) (s : Signer) (w : Int) : Signer :=
  match p with
  | .always => { s with window := w }
  | .positiveOnly => if w ≤ 0 then s else { s with window := w }

/-- `signer.AcmeAccount` -/
def acmeAccount (s : Signer) (endpoint emails : String) (terms clientOk : Bool) : Signer :=
  let a : Account := ⟨expandEndpoint endpoint, emails, terms⟩
  if s.account = a then s
  else if a.endpoint = "" ∧ emails = "" ∧ terms = false then { s with client := false, account := Account.empty }
  else if clientOk then { s with client := true, account := a }
  else { s with client := false, account := Account.empty }

def sstepP (p : ConfigPolicy) (s : Signer) : SStep → Signer × Option VOut
  | .config w => (acmeConfigP p s w, none)
  | .account e m t ok => (acmeAccount s e m t ok, none)
  | .check c => (s, some (notify (c.toVIn s.client s.window)))

/-- a history: the state afterwards and the outcome of every check, in order -/
def srunP (p : ConfigPolicy) (s : Signer) : List SStep → Signer × List VOut
  | [] => (s, [])
  | st :: rest =>
    let r := sstepP p s st
    let q := srunP p r.1 rest
    (q.1, (match r.2 with | some o => [o] | none => []) ++ q.2)

abbrev sstep := sstepP .always
abbrev srun := srunP .always

/-! ### Spec: the CONFIGURED window / account at a point of the history -/

/-- the window the operator configured last (`w0`: what the signer was created with) — a function of
the history alone, it does not look at the signer -/
def lastWindow (w0 : Int) : List SStep → Int
  | [] => w0
  | .config w :: rest => lastWindow w rest
  | _ :: rest => lastWindow w0 rest

/-- the signer as far as the account goes (windows ignored) -/
def accountAfter (s : Signer) : List SStep → Signer
  | [] => s
  | .account e m t ok :: rest => accountAfter (acmeAccount s e m t ok) rest
  | _ :: rest => accountAfter s rest

/-- Spec over a history: every check is judged by `oracleVerify` — requested iff missing / expiring within the
window / not covering — with the window CONFIGURED LAST before that check. `outs`: the observed outcomes. -/
def oracleHistory (s : Signer) : List SStep → List VOut → Option String
  | [], [] => none
  | [], _ :: _ => some "more-outcomes-than-checks"
  | .config w :: rest, outs => oracleHistory { s with window := w } rest outs
  | .account e m t ok :: rest, outs => oracleHistory (acmeAccount s e m t ok) rest outs
  | .check _ :: _, [] => some "missing-output"
  | .check c :: rest, o :: outs =>
    let i := c.toVIn s.client s.window
    match (if c.declared.isEmpty then none else oracleVerify i o) with
    | some e => some e
    | none => oracleHistory s rest outs

def checksOf : List SStep → Nat
  | [] => 0
  | .check _ :: rest => checksOf rest + 1
  | _ :: rest => checksOf rest

end HapVerif.C17
