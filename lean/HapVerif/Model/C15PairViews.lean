/-!
View of what `dynUpdater.checkHostPair` (pkg/haproxy/dynupdate.go) reads of a (committed, re-created) pair of one
host, for its TRANSLATION (Generated/CodeC15.lean).  Core-only.
-/
namespace HapVerif.C15Pair

structure PairView where
  /-- `!reflect.DeepEqual(&oldHostCopy, curHost)` after the three certificate fields were copied over -/
  differsOutsideCert : Bool
  /-- `curHost.TLS.HasTLS()` -/
  hasTLS : Bool
  oldHash : String
  curHash : String
  oldFilename : String
  curFilename : String
  /-- answer of `d.execUpdateCert(hostname, filename)` (the runtime API accepted the new certificate) -/
  execOk : Bool
deriving DecidableEq, Repr

end HapVerif.C15Pair
