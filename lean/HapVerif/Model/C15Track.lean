import HapVerif.Model.Sync
import HapVerif.Model.C01
/-!
# C15 — which hosts are re-read when a Secret changes: the tracker over secret histories

`Model/C15.lean` says which certificate a FULL sync serves.  A long-lived controller re-reads a
certificate only for the hosts the dirty-set closure of a partial sync reaches, so the clause
"replacing the content of a Secret updates the served certificate for exactly the hosts that use it"
needs the part of the converter that decides WHICH hosts are re-read:

* `ingLinks`: the tracking calls `syncIngressHTTP` makes for the certificate part of an Ingress —
  `addHost` (`TrackNames(Ingress, ns/name, HAHostname, host)`, for every rule host and every host of a
  tls block) and `addTLS` → `GetTLSSecretPath` (`TrackRefName(Ingress ns/name, Secret, ns/name)`, called
  once per host of a tls block with a non-empty secret name that `buildResourceName` accepts; a MISSING
  or malformed secret is tracked as well, a forbidden cross-namespace name is not);
* the tracker is the M-Tracker of C01 (`HapVerif.C01.Tr`, `track`, `queryLinks`: undirected edge list,
  `QueryLinks(seeds, true)` returns the nodes of the connected components of the seeds and deletes
  those components — `removeRef` recurses);
* `partialSync`: `syncPartial` — `trackAddedIngress` (`pre`), `QueryLinks(changed.Links, true)`, the
  ingresses of the output (minus the deleted, plus the added/updated ones) are read again from the
  cache and synced, which registers their links again;
* `fullSyncT`: `ClearLinks` + every ingress of this controller is synced.

Everything else the converter tracks (backends, services, endpoints, pods, the default host, ingress
classes, annotation secrets …) is an ARBITRARY extra edge list per step (`Batch.pre`, `Batch.post`) and
arbitrary extra seeds (`Batch.extraSeeds`) over the same node type (`Node.other`): the theorems of
`Props/C15Track.lean` hold for every choice of them, so they cover the real, larger tracker.

`seededQuery` is the closure as changed by the seeded defect C15e (a Secret reached from one of its
readers is listed but not followed, while the removal still deletes whole components); it is kept for
the kernel-checked witness that this closure loses the links of the second reader of a shared Secret.
-/
namespace HapVerif.C15
open HapVerif.Sync
open HapVerif.C04 (Str)
open HapVerif.C01 (Tr track queryLinks queryOut reach rest dedup)

/-- the resource ids of the tracker that matter here (`other`: every other context) -/
inductive Node
  | sec (ns name : Str)
  | ing (key : Str)
  | host (h : Str)
  | other (kind name : Str)
deriving DecidableEq, Repr

/-- the Secret node `addTLS` tracks for a tls block: none for an empty name, for a block without hosts
(`addTLS` is called per host) and for a name `buildResourceName` refuses -/
def secNode (w : World) (ns : Str) (b : TLSSpec) : Option Node :=
  if b.secret.isEmpty ∨ b.hosts.isEmpty then none
  else (secretRef w ns b.secret).map fun p => Node.sec p.1 p.2

/-- links registered by one `syncIngress` for hosts and certificates -/
def ingLinks (w : World) (i : Ingress) : Tr Node :=
  (hostsOfIng i).map (fun h => (Node.ing (ingKey i), Node.host h)) ++
  i.tls.filterMap fun b => (secNode w i.ns b).map fun s => (Node.ing (ingKey i), s)

/-- `syncIngress` on the tracker: one `TrackRefs` per link -/
def trackIng (w : World) (t : Tr Node) (i : Ingress) : Tr Node :=
  (ingLinks w i).foldr (fun e t => track e.1 e.2 t) t

def trackAll (w : World) (l : List Ingress) (t : Tr Node) : Tr Node := l.foldl (trackIng w) t

/-- controller state: the cluster as the cache shows it and the tracker -/
structure TState where
  w : World
  t : Tr Node

/-- ingress keys named by the events of a batch (`changed.IngressesAdd/Upd/Del`) -/
def changedIngs : List Op → List Str
  | [] => []
  | .ingPut i :: ops => ingKey i :: changedIngs ops
  | .ingDel ns name :: ops => (ns ++ '/' :: name) :: changedIngs ops
  | _ :: ops => changedIngs ops

/-- secrets named by the events of a batch (`changed.Links[Secret]`) -/
def changedSecs : List Op → List Node
  | [] => []
  | .secPut s :: ops => Node.sec s.ns s.name :: changedSecs ops
  | .secDel ns name :: ops => Node.sec ns name :: changedSecs ops
  | _ :: ops => changedSecs ops

/-- one reconciliation: the events, and what the rest of the converter does to the tracker -/
structure Batch where
  ops : List Op
  extraSeeds : List Node := []      -- other changed objects (services, endpoints, pods, …)
  pre : Tr Node := []               -- `trackAddedIngress`
  post : Tr Node := []              -- every other tracking call of the re-synced ingresses

def seedsOf (b : Batch) : List Node :=
  (changedIngs b.ops).map Node.ing ++ changedSecs b.ops ++ b.extraSeeds

/-- the ingresses `syncPartial` reads again: in the cache, of this controller, and dirty or added/updated -/
def resyncList (w' : World) (changed : List Str) (out : List Node) : List Ingress :=
  w'.ings.filter fun i => i.valid && (decide (ingKey i ∈ changed) || decide (Node.ing (ingKey i) ∈ out))

/-- `syncPartial` with the closure `q` (`queryLinks` for the code as it is) -/
def partialWith (q : Tr Node → List Node → Bool → List Node × Tr Node) (s : TState) (b : Batch) : TState :=
  let w' := s.w.applyAll b.ops
  let r := q (b.pre ++ s.t) (seedsOf b) true
  ⟨w', b.post ++ trackAll w' (resyncList w' (changedIngs b.ops) r.1) r.2⟩

def partialSync (s : TState) (b : Batch) : TState := partialWith queryLinks s b

/-- the hosts `syncPartial` removes and builds again (`dirtyHosts`) -/
def dirtyOut (s : TState) (b : Batch) : List Node := (queryLinks (b.pre ++ s.t) (seedsOf b) true).1

/-- `syncFull` after `ClearLinks` -/
def fullSyncT (w : World) (post : Tr Node) : TState :=
  ⟨w, post ++ trackAll w (w.ings.filter (·.valid)) []⟩

/-- every state a controller can be in: a full sync of any cluster, then any partial syncs -/
inductive Reachable : TState → Prop
  | full (w : World) (post : Tr Node) : Reachable (fullSyncT w post)
  | step {s : TState} (b : Batch) : Reachable s → Reachable (partialSync s b)

/-- ingress `i` declares Secret `a/n` for host `h` (a tls block of `i` lists `h` and its name resolves to `a/n`) -/
def Declares (w : World) (i : Ingress) (h a n : Str) : Prop :=
  ∃ b ∈ i.tls, h ∈ b.hosts ∧ secNode w i.ns b = some (Node.sec a n)

/-! ## the closure of the seeded defect C15e -/

def Node.isSec : Node → Bool
  | .sec .. => true
  | _ => false

/-- `QueryLinks` as changed by the seed: a Secret reached from one of its readers is listed, not
followed (Secrets of the input are followed).  The followed nodes are the nodes reachable from the seeds
through edges without a non-seed Secret end; the output is every neighbour of a followed node.
`removeRef` is unchanged: it still deletes the whole components of the seeds. -/
def seededQuery (t : Tr Node) (seeds : List Node) (remove : Bool) : List Node × Tr Node :=
  let walk := t.filter fun e => (!e.1.isSec || decide (e.1 ∈ seeds)) && (!e.2.isSec || decide (e.2 ∈ seeds))
  let followed := reach walk seeds
  let out := dedup (t.flatMap fun e =>
    (if e.1 ∈ followed then [e.2] else []) ++ (if e.2 ∈ followed then [e.1] else []))
  (out, if remove then rest t seeds else t)

def partialSeeded (s : TState) (b : Batch) : TState := partialWith seededQuery s b

/-! ## projections for the driver -/

/-- ingresses and hosts a rotation of Secret `a/n` reaches in tracker `t` -/
def closureOf (t : Tr Node) (a n : Str) : List Str × List Str :=
  let out := (queryLinks t [Node.sec a n] false).1
  (out.filterMap (fun x => match x with | .ing k => some k | _ => none),
   out.filterMap (fun x => match x with | .host h => some h | _ => none))

/-- what the property demands of the tracker: `(ingress, host)` of every tls block of this controller
whose secret name resolves to `a/n` -/
def readersOf (w : World) (a n : Str) : List (Str × Str) :=
  (w.ings.filter (·.valid)).flatMap fun i =>
    i.tls.flatMap fun b =>
      if secNode w i.ns b = some (Node.sec a n) then b.hosts.map fun h => (ingKey i, h) else []

end HapVerif.C15
