import HapVerif.Model.C03
/-!
# C03 — hand-maintained Endpoints objects (mode `C03 ep`, after seed C03g)

The Endpoints objects of `Model/Sync` are the ones the endpoints controller writes for a Service WITH a selector:
one subset, TCP ports, every port number the numeric `targetPort`.  A Service WITHOUT selector has its Endpoints
object written by hand (or by another controller): any number of subsets, each with its own ready / not-ready
addresses and its own ports, whose NAMES, NUMBERS and PROTOCOLS (TCP, UDP, SCTP) are whatever the author wrote —
in particular the port number is not tied to `spec.ports[].targetPort` of the Service.

Model of the code (`pkg/converters/utils/services.go`):
* `matchPortE`   = `matchPort`: an endpoint port is taken iff its protocol is TCP and the service port is unnamed
  or has the same name.  Neither `port` nor `targetPort` of the service port is read.
* `listed`       = `createEndpoints`: subset by subset, port by port, the addresses x the taken ports.
* `sortT`        = the `sort.Slice(.. Target <)` of `CreateEndpoints` (`Target` = `ip:port`).
* `backendOf`    = `FindServicePort` + `addEndpoints` of the ingress converter (`AcquireEndpoint`, drain-support).

Spec (what property C03 demands, written from the Kubernetes API documentation: "ServicePort.name ... must match
the 'name' field in the EndpointPort"; a service port and an endpoint port are paired by NAME, `targetPort` is an
input of the endpoints controller only):
* `designated`   : the ready addresses x the TCP ports of the same subset whose name EQUALS the service port's name.
  Every one of them must be served (`endpoint-omitted-against-service-port-designation`).
* `allowedB`     : what may be served at all: a ready address x a TCP port of the same subset that has the service
  port's name — or any TCP port of the subset when the service port is unnamed (an unnamed port is the only port of
  its Service; the controller has always attributed every TCP port of the object to it).  Anything else served is
  `endpoint-listed-against-service-port-designation` (with the more specific `non-tcp-endpoint-port-listed` /
  `not-ready-endpoint-listed` / `foreign-named-endpoint-port-listed` when that is the reason).
-/
namespace HapVerif.C03Ep
open HapVerif.Sync
open HapVerif.C04 (Str ltStr)
open HapVerif.C03 (enabledOf drainedOf)

inductive Proto | tcp | udp | sctp
deriving DecidableEq, Repr, Inhabited

structure EpPortE where
  name : Str
  num : Nat
  proto : Proto
deriving DecidableEq, Repr

/-- `api.EndpointSubset` -/
structure Subset where
  ready : List Str
  notReady : List Str
  ports : List EpPortE
deriving DecidableEq, Repr

/-- `api.Endpoints` (the subsets) -/
abbrev EpObj := List Subset

def Subset.addrs (s : Subset) (ready : Bool) : List Str := if ready then s.ready else s.notReady

/-! ## the code -/

/-- `matchPort` -/
def matchPortE (sp : SvcPort) (p : EpPortE) : Bool :=
  p.proto = .tcp && (sp.name.isEmpty || sp.name = p.name)

/-- `createEndpoints`: one subset -/
def listedSubset (sp : SvcPort) (ready : Bool) (s : Subset) : List (Str × Nat) :=
  (s.ports.filter (matchPortE sp)).flatMap fun p => (s.addrs ready).map fun ip => (ip, p.num)

/-- `createEndpoints`: the ready (`true`) / not-ready (`false`) listing, in the order written -/
def listed (e : EpObj) (sp : SvcPort) (ready : Bool) : List (Str × Nat) :=
  e.flatMap (listedSubset sp ready)

def targetStr (t : Str × Nat) : Str := t.1 ++ ':' :: itoa t.2

/-- `sort.Slice(l, Target <)` of `CreateEndpoints` (equal targets are indistinguishable here) -/
def sortT (l : List (Str × Nat)) : List (Str × Nat) := sortBy (fun a b => ltStr (targetStr a) (targetStr b)) l

/-- `addEndpoints`: `AcquireEndpoint` for the ready listing, weight 0 for the not-ready one under drain-support -/
def serversOf (ready notReady : List (Str × Nat)) (drain : Bool) : List Server :=
  let l := ready.foldl (fun l t => acquire l t.1 t.2 1) []
  if drain then notReady.foldl (fun l t => acquireDrain l t.1 t.2) l else l

structure Case where
  ports : List SvcPort      -- spec.ports of the Service (no selector)
  ing : Str                 -- the port the Ingress backend names (number or name)
  drain : Bool
  eps : EpObj

structure Out where
  ready : List (Str × Nat)
  notReady : List (Str × Nat)
  backend : Option (Str × List Server)   -- id suffix (targetPort string) and servers
deriving DecidableEq, Repr

/-- the model of the run: `FindServicePort`, `CreateEndpoints`, `addEndpoints` -/
def run (c : Case) : Option Out :=
  (findPort ⟨[], [], c.ports⟩ c.ing).map fun sp =>
    let r := sortT (listed c.eps sp true)
    let n := sortT (listed c.eps sp false)
    ⟨r, n, some (sp.target, serversOf r n c.drain)⟩

/-! ## the Spec -/

/-- ready addresses x TCP ports of the same subset NAMED as the service port: they must be served -/
def designated (e : EpObj) (sp : SvcPort) : List (Str × Nat) :=
  e.flatMap fun s => (s.ports.filter fun p => p.proto = .tcp && p.name = sp.name).flatMap fun p =>
    s.ready.map fun ip => (ip, p.num)

/-- may `t` be served for the service port at all -/
def allowedB (e : EpObj) (sp : SvcPort) (ready : Bool) (t : Str × Nat) : Bool :=
  e.any fun s => (s.addrs ready).contains t.1 &&
    s.ports.any fun p => p.proto = .tcp && p.num = t.2 && (sp.name.isEmpty || sp.name = p.name)

/-- why a served target is not allowed -/
def whyNot (e : EpObj) (sp : SvcPort) (t : Str × Nat) : String :=
  if e.any (fun s => s.ready.contains t.1 && s.ports.any fun p => p.proto ≠ .tcp && p.num = t.2) then
    "non-tcp-endpoint-port-listed"
  else if e.any (fun s => s.ready.contains t.1 && s.ports.any fun p => p.num = t.2) then
    "foreign-named-endpoint-port-listed"
  else if allowedB e sp false t then "not-ready-endpoint-listed"
  else "endpoint-listed-against-service-port-designation"

/-- verdict on a ready listing -/
def checkListing (e : EpObj) (sp : SvcPort) (l : List (Str × Nat)) : Option String :=
  match l.find? (fun t => !allowedB e sp true t) with
  | some t => some (whyNot e sp t)
  | none =>
    if (designated e sp).all l.contains then none
    else some "endpoint-omitted-against-service-port-designation"

/-- verdict on the servers of the backend of the designated port -/
def checkServers (e : EpObj) (sp : SvcPort) (drain : Bool) (l : List Server) : Option String :=
  match (enabledOf l).find? (fun t => !allowedB e sp true t) with
  | some t => some ("backend:" ++ whyNot e sp t)
  | none =>
    if !(drainedOf l).isEmpty && !drain then some "backend:drain-without-support"
    else if !(drainedOf l).all (allowedB e sp false) then some "backend:unknown-drained-server"
    else if (designated e sp).all fun t =>
        (enabledOf l).contains t || (drain && allowedB e sp false t && (drainedOf l).contains t) then none
    else some "backend:endpoint-omitted-against-service-port-designation"

/-- the service port the Ingress designates, from the documentation of `IngressServiceBackend.port`: by NAME, or by
the NUMBER of `spec.ports[].port`; the controller additionally accepts the targetPort text (`findPort`) -/
def specPort (c : Case) : Option SvcPort :=
  match c.ports.find? (fun p => p.name = c.ing ∧ !c.ing.isEmpty) with
  | some p => some p
  | none => if isDigits c.ing then c.ports.find? (fun p => p.port = atoi c.ing) else none

/-- the whole oracle on the implementation's output (`none` = the run reported no service port) -/
def oracle (c : Case) (o : Option Out) : Option String :=
  match o with
  | none => if (specPort c).isSome then some "designated-service-port-not-found" else none
  | some out =>
    match findPort ⟨[], [], c.ports⟩ c.ing with
    | none => some "backend-without-port"
    | some sp =>
      match checkListing c.eps sp out.ready with
      | some s => some s
      | none =>
        match out.backend with
        | none => some "backend-missing-for-designated-port"
        | some (id, l) =>
          if id ≠ sp.target then some "backend-of-another-port"
          else checkServers c.eps sp c.drain l

end HapVerif.C03Ep
