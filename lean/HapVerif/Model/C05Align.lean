import HapVerif.Model.C05
/-
M-Store + the dynamic updater (`pkg/haproxy/dynupdate.go`): the part of `HAProxyUpdate` that MUTATES, IN
PLACE, backend objects that `Backends` already holds, between `Shrink` and `writeConfig`.  Core-only.

  HAProxyUpdate:  Shrink
                  updater.update():  hasCommittedData() && checkConfigChange()
                        checkBackendPair(old, cur) for every del/add pair left by Shrink: `cur` (the object in
                        items / itemsAdd / its shard map) receives the free slots of `old` (`carry`); the pair
                        may or may not ask for a reload (`pairOk`)
                     not updated  =>  alignSlots(): EVERY backend of Items() - also the ones no batch touched
                        since they were written (bystanders) - gets empty slots appended: a top-up to
                        slots-min-free, then a padding to a multiple of the slots increment; an object grown
                        this way is in no add/del set, so its shard is flagged by hand (`BackendChanged`)
                  writeConfig (main file + ChangedShards()) iff !updated || cmdCnt > 0 || Backends().Changed()
                  Commit (deferred)

`Dyn` keeps the updater abstract (any pair decision, any in-place change of `cur`, any number of slots added
by the two loops of alignSlots): the theorems of Props/C05Align.lean hold for every `Dyn`.  `slotsDyn` is the
arithmetic of the code for the backends the harness builds (mode `al`), where a backend's content is
`cfg = 1024*gen + 64*conf + 16*off + used` (`conf` < 16: everything outside the endpoints, `off`/`used`: which
real endpoints, how many; `gen`: generation of the server names, compared by `Shrink` and by nothing else) and
`slots` = its empty endpoints.
-/
namespace HapVerif.C05A
open HapVerif.C05

variable {p : Nat}

structure Dyn (p : Nat) where
  /-- `checkBackendPair(old, cur)` returns true (no reload asked) -/
  pairOk : Fin p → Content → Content → Bool
  /-- what `checkBackendPair(old, cur)` leaves in `cur` -/
  carry : Fin p → Content → Content → Content
  /-- `alignSlots`, first loop: slots added to reach slots-min-free -/
  top : Fin p → Content → Nat
  /-- `alignSlots`, second loop (`newFreeSlots`): slots added to fill the last block -/
  pad : Fin p → Content → Nat

/-- `real`: the code (`changed` is set by both loops).  `padOnly`: seeded defect C05e, the shard is flagged
`if newFreeSlots > 0`, i.e. only when the block padding added slots. -/
inductive Variant | real | padOnly
deriving DecidableEq, Repr

/-- in-place change of the objects reachable from `items`: `itemsAdd` and the shard maps hold the same
pointers (`Inv.a`, `Inv.s1`); `itemsDel` holds the replaced objects and is not touched -/
def mutate (s : Store p) (f : Fin p → Content → Content) : Store p :=
  { s with
    items := fun x => (s.items x).map (f x)
    add := fun x => (s.add x).map (f x)
    shards := fun k x => (s.shards k x).map (f x) }

/-- `backendUpdated`: every del/add pair goes through `checkBackendPair` -/
def dynF (d : Dyn p) (s : Store p) : Fin p → Content → Content := fun x c =>
  match s.del x, s.add x with
  | some o, some _ => d.carry x o c
  | _, _ => c

/-- `backendUpdated()` is true: no added backend, no removed backend, every pair is fine -/
def pairsOk (d : Dyn p) (s : Store p) : Bool :=
  !(anyFin fun x =>
    match s.del x, s.add x with
    | some o, some a => !d.pairOk x o a
    | some _, none => true
    | none, some _ => true
    | none, none => false)

/-- `!updater.update()`; `other` = something outside the backends changed (global, hosts, tcp, userlists) -/
def needReload (d : Dyn p) (committed other : Bool) (s : Store p) : Bool :=
  !committed || other || !pairsOk d s

def grow (d : Dyn p) (x : Fin p) (c : Content) : Nat := d.top x c + d.pad x c

def alignF (d : Dyn p) : Fin p → Content → Content := fun x c => { c with slots := c.slots + grow d x c }

/-- the condition in front of `backends.BackendChanged(back)` -/
def alignFlag (v : Variant) (d : Dyn p) (x : Fin p) (c : Content) : Bool :=
  match v with
  | .real => grow d x c != 0
  | .padOnly => d.pad x c != 0

/-- `alignSlots`: walks `Items()` -/
def align (v : Variant) (d : Dyn p) (sh : Sh p) (s : Store p) : Store p :=
  { mutate s (alignF d) with
    changed := fun k => s.changed k || anyFin fun x =>
      match s.items x with
      | some c => alignFlag v d x c && sh.shardOf x == k
      | none => false }

def pending (s : Store p) : Bool := anyFin fun x => (s.add x).isSome || (s.del x).isSome

/-- the backend side of one `HAProxyUpdate` -/
def updateA (v : Variant) (d : Dyn p) (sh : Sh p) (committed other : Bool) (w : World p) : World p :=
  let s1 := shrink sh w.store
  let s2 := if committed then mutate s1 (dynF d s1) else s1
  let reload := needReload d committed other s1
  let s3 := if reload then align v d sh s2 else s2
  if reload || pending s1 then { store := commit s3, disk := write sh s3 w.disk }
  else { store := commit s3, disk := w.disk }

inductive AOp (p : Nat) where
  | acquire (x : Fin p) (c : Content)
  | removeAll (xs : List (Fin p))
  | clear
  | update (other : Bool)

def stepA (v : Variant) (d : Dyn p) (sh : Sh p) (g : GWorld p) : AOp p → GWorld p
  | .acquire x c => { g with w := step sh g.w (.acquire x c) }
  | .removeAll xs => { g with w := step sh g.w (.removeAll xs) }
  | .clear => { w := step sh g.w .clear, committed := false }
  | .update other => { w := updateA v d sh g.committed other g.w, committed := true }

def runA (v : Variant) (d : Dyn p) (sh : Sh p) (g : GWorld p) (ops : List (AOp p)) : GWorld p :=
  ops.foldl (stepA v d sh) g

/-- the discipline of `converters.Sync` (see `C05.okOp`) -/
def okA (s : Store p) : AOp p → Bool
  | .acquire _ _ => true
  | .removeAll xs => xs.all fun x => (s.add x).isNone
  | .clear => !(pending s)
  | .update _ => true

def allOkA (v : Variant) (d : Dyn p) (sh : Sh p) : GWorld p → List (AOp p) → Bool
  | _, [] => true
  | g, op :: ops => okA g.w.store op && allOkA v d sh (stepA v d sh g op) ops

/-! ### the arithmetic of the code, for the backends of harness mode `al` -/

def usedOf (c : Content) : Nat := c.cfg % 16
def confOf (c : Content) : Nat := c.cfg / 64 % 16
def lenOf (c : Content) : Nat := usedOf c + c.slots
def blockOf (b : Nat) : Nat := if b < 1 then 1 else b

/-- `minFree x` = `Dynamic.MinFreeSlots`, `block x` = `Dynamic.BlockSize` of backend `x` (dynamic scaling on, no
resolver, no label, no cookie, distinct targets; `cur` is declared without empty slots).
`checkBackendPair`: a difference outside the endpoints asks for a reload; `len(old.Endpoints) <
len(cur.Endpoints)` returns at once, otherwise the endpoints are paired (also when a reload is already due) and
the unused slots of `old` are appended to `cur`.
`alignSlots`: `if minFree == 0 && len == 0 { newFreeSlots = blockSize }`, else top-up to `minFree` free slots,
then `newFreeSlots = blockSize - ((len + blockSize - 1) % blockSize + 1)`. -/
def slotsDyn (minFree block : Fin p → Nat) : Dyn p where
  pairOk := fun _ o a => confOf o == confOf a && decide (lenOf a ≤ lenOf o)
  carry := fun _ o a => if lenOf a ≤ lenOf o then { a with slots := lenOf o - usedOf a } else a
  top := fun x c => if minFree x = 0 ∧ lenOf c = 0 then 0 else minFree x - c.slots
  pad := fun x c =>
    let b := blockOf (block x)
    if minFree x = 0 ∧ lenOf c = 0 then b
    else
      let len := lenOf c + (minFree x - c.slots)
      b - ((len + b - 1) % b + 1)

end HapVerif.C05A
