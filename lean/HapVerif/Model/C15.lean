/- Model for C15: not written yet -/
namespace HapVerif.C15
end HapVerif.C15
