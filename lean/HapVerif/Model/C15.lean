import HapVerif.Model.Sync
/-!
# C15 — Spec: each TLS host is served with the certificate its Ingress declares, else default

Model side: `Sync.fullSync` (tls loop: first assignment wins, `crtOf` falls back to the default
certificate on a missing / malformed / forbidden secret), `Sync.crtList` (`WriteFrontendMaps`: one
line per host whose certificate is not the default one, after the default line `!*`) and
`Sync.sniCrt` (HAProxy's crt-list lookup, trusted: exact filter, wildcard filter, first line).

Spec, written from the property over the cluster state:

* `tlsDecls w`: every `(host, certificate)` declared in `spec.tls`, first-created Ingress first
  (creation time, then namespace/name; blocks and hosts as listed); the certificate is the one of
  the Secret named by the block, read from the namespace of the Ingress, `default` when the name is
  empty, the Secret is missing, has no `tls.crt`/`tls.key`, or lives in another namespace without
  permission.
* `specCrt w sni`:
  1. the name is the host of a tls declaration: the certificate of the FIRST declaration;
  2. else the name is a host of some rule (a host without tls entry): the default certificate;
  3. else (a name no Ingress mentions) a wildcard host `*.rest` with a tls declaration answers with
     the certificate of its first declaration; else the default certificate.
  Clause 1 with a failing secret and clause 2 say "default, never another tenant's".
-/
namespace HapVerif.C15
open HapVerif.Sync
open HapVerif.C04 (Str lower)

/-- `(host, certificate)` of every tls declaration, in processing order -/
def tlsDecls (w : World) : List (Str × Crt) :=
  (sortIngs (w.ings.filter (·.valid))).flatMap fun i =>
    i.tls.flatMap fun b => b.hosts.map fun h => (h, crtOf w i.ns b.secret)

/-- certificate of the first tls declaration of a host -/
def declaredCrt (w : World) (h : Str) : Option Crt := ((tlsDecls w).find? (·.1 = h)).map (·.2)

/-- the name is the host of a rule of an Ingress of this controller -/
def isRuleHost (w : World) (h : Str) : Bool :=
  (w.ings.filter (·.valid)).any fun i => i.rules.any fun r => r.host = h

def specCrt (w : World) (sni : Str) : Crt :=
  let s := lower sni
  match declaredCrt w s with
  | some c => c
  | none =>
    if isRuleHost w s then .dflt else
    match wildOf s with
    | none => .dflt
    | some wc => (declaredCrt w wc).getD .dflt

/-- the inputs on which the code before repair c836d74 violated the Spec (kept for the oracle's
signature and the historical witness): the name is a declared host (tls entry or rule) that ends up
with the default certificate while a wildcard host above it has its own certificate -/
def wildcardCaptures (w : World) (sni : Str) : Bool :=
  let s := lower sni
  (declaredCrt w s = some .dflt || (declaredCrt w s = none && isRuleHost w s)) &&
  match wildOf s with
  | none => false
  | some wc => (match declaredCrt w wc with | some c => c ≠ .dflt | none => false)

/-- hypotheses on the tls hosts: lower case (Kubernetes validates host names) and not the reserved `<default>` -/
def tlsHostOk (h : Str) : Bool := lower h = h && h ≠ dfltHost

def WFTls (w : World) : Bool := (tlsDecls w).all fun d => tlsHostOk d.1

/-- SNI names are host names: they do not start with `*` -/
def WFSni (sni : Str) : Bool := sni.head? ≠ some '*'

/-- rule hosts are lower case as well -/
def WFHosts (w : World) : Bool :=
  (w.ings.filter (·.valid)).all fun i => i.rules.all fun r => lower r.host = r.host

/-- the certificate served for an SNI name by the generated crt-list -/
def served (w : World) (sni : Str) : Crt := sniCrt (crtList (fullSync w)) sni

/-- the same before repair c836d74 (historical witness) -/
def servedBefore (w : World) (sni : Str) : Crt := sniCrt (crtListBefore (fullSync w)) sni

/-! ## oracle on the implementation's projection -/

def checkSni (w : World) (sni : Str) (got : Crt) : Option String :=
  if got = specCrt w sni then none
  else if wildcardCaptures w sni then some "wildcard-certificate-for-host-without-own-certificate"
  else match got with
    | .dflt => some "declared-certificate-not-served"
    | .secret ns name v =>
      if (tlsDecls w).any (fun d => match d.2 with | .secret a b _ => a = ns ∧ b = name | .dflt => false) then
        (match specCrt w sni with
         | .secret a b v' => if a = ns ∧ b = name ∧ v ≠ v' then some "stale-certificate-version" else some "other-tenant-certificate"
         | .dflt => some "other-tenant-certificate")
      else some "undeclared-certificate"

/-- replacing the content of a secret: the new content version -/
def setSecretVersion (w : World) (ns name : Str) (v : Nat) : World :=
  { w with secs := w.secs.map fun s => if s.ns = ns ∧ s.name = name then { s with version := v } else s }

/-- the certificate after the replacement of the content of secret `ns/name` -/
def rot (ns name : Str) (v : Nat) : Crt → Crt
  | .dflt => .dflt
  | .secret a b v' => if a = ns ∧ b = name then .secret a b v else .secret a b v'

end HapVerif.C15
