/- Model for C03: not written yet -/
namespace HapVerif.C03
end HapVerif.C03
