import HapVerif.Model.Sync
/-!
# C03 — Spec: requests reach exactly the ready endpoints that Ingress and Service designate

Written from the property and the documentation, over the cluster state (not over the generated
configuration):

* `effective w`: the declared paths that designate an existing Service port, first-created Ingress
  first (creation time, then namespace/name; inside an Ingress `spec.defaultBackend`, then the
  rules as listed), duplicates of a (host, path, type) erased keeping the first.  A declaration
  that names a missing Service or port designates nothing and therefore claims nothing.
* `specRoute w r`: the backends the property allows for a request.  Host first: the paths of the
  request's host — for HTTPS only if some Ingress declares TLS for that host — choose by
  `C04.best` (an exact path, else the longest matching declared path; equal length between
  different path types is left open exactly as in C04).  No answer there: the same over the
  `<default>` host (empty `host:` and `spec.defaultBackend`).  Else `--default-backend-service`,
  else the 404 backend.
* `specServers`: enabled servers = ready addresses of the Endpoints port that matches the Service
  port; weight-0 servers only among not-ready addresses / terminating pods and only with
  `drain-support`.
-/
namespace HapVerif.C03
open HapVerif.Sync
open HapVerif.C04 (Str MT lower)

/-- every declaration of the Ingresses that belong to this controller, first-created first -/
def allDecls (w : World) : List Decl := (sortIngs (w.ings.filter (·.valid))).flatMap declsOf

/-- the host path a declaration designates, if its Service and port exist -/
def toHPath (w : World) (d : Decl) : Option HPath :=
  (resolve w d.ns d.svc d.port).map fun (s, sp) => ⟨d.host, d.path, d.mt, ⟨s.ns, s.name, sp.target⟩⟩

def sameHP (a b : HPath) : Bool := a.host = b.host && a.path = b.path && a.mt = b.mt

/-- first declaration of every (host, path, type) -/
def effective (w : World) : List HPath := ((allDecls w).filterMap (toHPath w)).eraseDupsBy sameHP

/-- some Ingress of this controller lists the host in `spec.tls` -/
def declaresTLS (w : World) (h : Str) : Bool :=
  (w.ings.filter (·.valid)).any fun i => i.tls.any fun t => t.hosts.contains h

/-- backends `C04.best` allows among the paths `l`; `[]` = no path applies -/
def answers (l : List HPath) (host path : Str) : List Str :=
  (C04.best (rulesOf l) host path).filterMap fun i => (l[i]?).map (·.bk.id)

/-- `--default-backend-service ns/name`: first port of the service -/
def specDefault (w : World) : Str :=
  match w.opts.defaultBackend with
  | none => error404
  | some (ns, name) =>
    match w.findSvc ns name with
    | none => error404
    | some s =>
      match s.ports.head? with
      | none => error404
      | some p0 => (BKey.mk s.ns s.name p0.target).id

def specHostPaths (w : World) (tls : Bool) : List HPath :=
  (effective w).filter fun p => p.host ≠ dfltHost ∧ (tls → declaresTLS w p.host)

def specDfltPaths (w : World) : List HPath := (effective w).filter (·.host = dfltHost)

/-- the backends the property allows for a request (never empty) -/
def specRoute (w : World) (r : Req) : List Str :=
  match answers (specHostPaths w r.tls) r.host r.path with
  | a :: as => a :: as
  | [] =>
    match answers (specDfltPaths w) dfltHost r.path with
    | a :: as => a :: as
    | [] => [specDefault w]

/-! ## servers -/

/-- ready / not-ready targets of the Endpoints port matching service port `sp` -/
def readyTargets (w : World) (s : Service) (sp : SvcPort) : List (Str × Nat) :=
  match w.findEps s.ns s.name with | none => [] | some e => targetsOf e sp true

def drainTargets (w : World) (s : Service) (sp : SvcPort) : List (Str × Nat) :=
  (match w.findEps s.ns s.name with | none => [] | some e => targetsOf e sp false) ++
    terminatingTargets w s sp

def enabledOf (l : List Server) : List (Str × Nat) := (l.filter (·.weight ≠ 0)).map fun s => (s.ip, s.port)
def drainedOf (l : List Server) : List (Str × Nat) := (l.filter (·.weight = 0)).map fun s => (s.ip, s.port)

/-- verdict on the servers of one backend whose service port is known -/
def checkServers (w : World) (s : Service) (sp : SvcPort) (l : List Server) : Option String :=
  let ready := readyTargets w s sp
  let dr := drainTargets w s sp
  if !(enabledOf l).all ready.contains then some "not-ready-endpoint-served"
  else if !(drainedOf l).isEmpty && !w.opts.drain then some "drain-without-support"
  else if !(drainedOf l).all dr.contains then some "unknown-drained-server"
  else if !ready.all (fun t => (enabledOf l).contains t || (w.opts.drain && dr.contains t)) then
    some "ready-endpoint-missing"
  else none

/-- the port of a service with a given targetPort string -/
def portByTarget (s : Service) (t : Str) : Option SvcPort := s.ports.find? (·.target = t)

/-! ## oracle on the implementation's projection -/

/-- all resolvable declarations, duplicates kept (to name a `duplicate-path-owner`) -/
def allHP (w : World) : List HPath := (allDecls w).filterMap (toHPath w)

/-- signature of a routing violation, `none` if the answer is allowed -/
def checkRoute (w : World) (r : Req) (ans : Str) : Option String :=
  if (specRoute w r).contains ans then none
  else if r.tls && (answers (specHostPaths w false) r.host r.path).contains ans then some "https-without-tls"
  else if ((answers ((allHP w).filter (·.host ≠ dfltHost)) r.host r.path) ++
           (answers ((allHP w).filter (·.host = dfltHost)) dfltHost r.path)).contains ans then
    some "duplicate-path-owner"
  else some "wrong-backend"

/-- the backend key of an id among the resolvable declarations and the default backend -/
def keyOfId (w : World) (id : Str) : Option BKey :=
  match (allHP w).find? (·.bk.id = id) with
  | some p => some p.bk
  | none =>
    match w.opts.defaultBackend with
    | none => none
    | some (ns, name) =>
      (w.findSvc ns name).bind fun s => (s.ports.head?).bind fun p0 =>
        if (BKey.mk s.ns s.name p0.target).id = id then some ⟨s.ns, s.name, p0.target⟩ else none

def checkBackend (w : World) (id : Str) (l : List Server) : Option String :=
  match keyOfId w id with
  | none => some "backend-without-declaration"
  | some k =>
    match w.findSvc k.ns k.svc with
    | none => some "backend-without-service"
    | some s =>
      match portByTarget s k.port with
      | none => some "backend-without-port"
      | some sp => checkServers w s sp l

/-- the whole oracle: routes then servers -/
def oracle (w : World) (routes : List (Req × Str)) (servers : List (Str × List Server)) : Option String :=
  match routes.findSome? (fun (r, a) => checkRoute w r a) with
  | some s => some s
  | none => servers.findSome? fun (id, l) => checkBackend w id l

end HapVerif.C03
