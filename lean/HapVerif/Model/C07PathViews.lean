/-!
View of `types.Backend` as `Backend.AddBackendPath` (pkg/haproxy/types/backend.go) touches it, for its TRANSLATION
(Generated/CodeC07.lean): a path is (id number, link identifier) — the id text is `path%02d` of the number —,
`FindBackendPath` is the lookup by link, `sortPaths` is a parameter (any function; the uniqueness theorem asks it to
be a permutation).  Core-only.
-/
namespace HapVerif.C07Path

structure PathV where
  ID : Int
  Link : Nat
deriving DecidableEq, Repr

structure BackV where
  Paths : List PathV
deriving DecidableEq, Repr

/-- the nil `*BackendPath` (ids start at 1) -/
def nilPath : PathV := { ID := 0, Link := 0 }

/-- `b.FindBackendPath(link)`: the first path with an equal link, or nil -/
def find (paths : List PathV) (link : Nat) : PathV := (paths.find? (fun p => p.Link == link)).getD nilPath

def applySort (sortPaths : List PathV → List PathV) (b : BackV) : BackV := { b with Paths := sortPaths b.Paths }

end HapVerif.C07Path
