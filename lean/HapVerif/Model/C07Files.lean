/-
C07 — CA bundles given as files (`file://<ca>[,<crl>]`): which file names the resolution hands to the
configuration writers.

Model of `(c *c) GetCASecretPath` of pkg/controller/services/cache.go (the `file` branch, plus the
protocol split `getContentProtocol` in front of it) as a function of WHICH FILES EXIST, of the two call
sites that copy the result into the model of the configuration (`setAuthTLSConfig`: CAFilename /
CRLFilename of a host or TCP service; `buildBackendProtocol`: CAFilename / CRLFilename of the servers)
and of the words the writers emit for them (crt-list line `[ca-file <ca> verify optional crl-file <crl>]`,
bind line, server line `verify required ca-file <ca> crl-file <crl>`).  Core-only.
-/
namespace HapVerif.C07.Files

/-- what `GetCASecretPath` returns: the two `File.Filename`s (`""` = zero value) and the error class
(`none` = nil error).  As in the Go code the names filled in before a failing step are still returned
next to the error; the callers look at them only when the error is nil. -/
structure Res where
  ca  : String
  crl : String
  err : Option String
  deriving DecidableEq, Repr

def isLowerAZ (c : Char) : Bool := 'a' ≤ c ∧ c ≤ 'z'

/-- `getContentProtocol`: regexp `^([a-z]+)://(.*)$` (no flags: `.` does not match a line feed and `$`
is the end of the text), else protocol `secret` and the whole input as content.  `[a-z]+` is followed by
`:` in the expression, so the only possible match of the group is the maximal run of lower case letters. -/
def contentProtocol (s : String) : String × String :=
  let cs := s.toList
  match cs.takeWhile isLowerAZ, cs.dropWhile isLowerAZ with
  | p@(_ :: _), ':' :: '/' :: '/' :: c =>
    if c.contains '\n' then ("secret", s) else (String.ofList p, String.ofList c)
  | _, _ => ("secret", s)

/-- the `file` branch after `strings.Split(content, ",")`: at most two names, `os.Stat` of the first,
then of the second; a name is stored in the result only after its `Stat` succeeded -/
def resolveNames (ex : String → Bool) : List String → Res
  | [] => ⟨"", "", some "empty"⟩          -- unreachable from Go (Split never returns an empty slice)
  | [a] => if ex a then ⟨a, "", none⟩ else ⟨"", "", some "stat"⟩
  | [a, b] =>
    if ex a then (if ex b then ⟨a, b, none⟩ else ⟨a, "", some "stat"⟩) else ⟨"", "", some "stat"⟩
  | _ :: _ :: _ :: _ => ⟨"", "", some "count"⟩

/-- `strings.Split(s, ",")` on the characters: never empty, `n` separators give `n+1` pieces -/
def splitChars (sep : Char) : List Char → List Char → List (List Char)
  | [], cur => [cur.reverse]
  | c :: cs, cur => if c = sep then cur.reverse :: splitChars sep cs [] else splitChars sep cs (c :: cur)

def names (content : String) : List String := (splitChars ',' content.toList []).map String.ofList

def resolveFile (ex : String → Bool) (content : String) : Res :=
  if content = "" then ⟨"", "", some "empty"⟩ else resolveNames ex (names content)

/-- `GetCASecretPath` over a cluster WITHOUT secrets (the secret branch can then only fail: the name does
not parse or the secret is not found; its model with secrets is C09/C17's business) -/
def resolve (ex : String → Bool) (ref : String) : Res :=
  let pc := contentProtocol ref
  if pc.1 = "file" then resolveFile ex pc.2
  else if pc.1 ≠ "secret" then ⟨"", "", some "proto"⟩
  else ⟨"", "", some "secret"⟩

/-- the two names the callers copy into the configuration model: only when the error is nil
(`if cafile, crlfile, err := c.cache.GetCASecretPath(...); err == nil { … } else { log }`) -/
def configured (r : Res) : String × String :=
  match r.err with
  | none => (r.ca, r.crl)
  | some _ => ("", "")

/-- words naming files that the writers emit for a configured (ca, crl): templates
`{{ if CAFilename }} ca-file CA … {{ if CRLFilename }} crl-file CRL` and config.go's bindConf -/
def words (p : String × String) : List String :=
  if p.1 = "" then [] else
    ["ca-file", p.1] ++ (if p.2 = "" then [] else ["crl-file", p.2])

/-- the files named by a list of configuration words -/
def namedFiles : List String → List String
  | k :: f :: rest => if k = "ca-file" ∨ k = "crl-file" then f :: namedFiles rest else namedFiles (f :: rest)
  | _ => []

/-- everything a reference contributes to the written configuration -/
def written (ex : String → Bool) (ref : String) : List String := words (configured (resolve ex ref))

/-- the variant of seed C07g: a missing CRL file is not an error, its name is handed back all the same -/
def resolveNamesLax (ex : String → Bool) : List String → Res
  | [a, b] => if ex a then ⟨a, b, none⟩ else ⟨"", "", some "stat"⟩
  | l => resolveNames ex l

/-- existence as the harness sets it up: exactly the listed names exist -/
def exOf (present : List String) (f : String) : Bool := present.contains f

def render (r : Res) : String :=
  let d (s : String) := if s = "" then "-" else s
  d r.ca ++ "|" ++ d r.crl ++ "|" ++ (match r.err with | none => "-" | some e => e)

/-- Spec on the implementation's answer: with a nil error every name handed back is the name of a file
that exists (it goes verbatim into a crt-list / bind / server line) -/
def oracle (ex : String → Bool) (ca crl err : String) : Option String :=
  if err ≠ "-" then none
  else if (ca ≠ "-" ∧ !ex ca) ∨ (crl ≠ "-" ∧ !ex crl) then some "config-names-missing-file"
  else none

end HapVerif.C07.Files
