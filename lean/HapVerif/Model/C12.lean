/- Model for C12: not written yet -/
namespace HapVerif.C12
end HapVerif.C12
