import HapVerif.Model.C05
/-!
M-Store with faults: model of one whole `instance.HAProxyUpdate` (pkg/haproxy/instance.go) with a
fault at each numbered point, of `instance.Reload`, and of the two retry paths
(`IngressReconciler.Reconcile` requeues itself after an error: the retry is one more
`HAProxyUpdate` with whatever batch accumulated, possibly none; `Services.reloadHAProxy` puts the
reload-queue item back after a failed `Reload`).  Core-only.  Built on the C05 model (backends,
shards, files, hosts, frontend maps guard); nothing of C05 is redefined.

Program order of `HAProxyUpdate` (every `return` runs the deferred `config.Commit()`):

    Shrink                                  hosts + backends
    rewrite := rewriteOwed; rewriteOwed = true; if rewrite { config.ForceRewrite() }
                                            (frontend.Maps = nil, rewriteAll, AllShardsChanged)
    1 WriteTCPServicesMaps                  guard `tcpservices.Changed() || rewriteAll`
    2 WriteFrontendMaps                     guard `Maps != nil && !hosts.Changed() && !rootRedirectBackendChanged()`
    3 WriteBackendMaps                      guard `backends.Changed() || rewriteAll`, one file set per visited
                                            backend that needs ACLs (ItemsAdd; Items when rewriteAll)
    4 writeCrtLists                         every tcp port with TLS, no guard
    5 dynUpdater.update                     runtime commands on the admin socket (Send k = 0,1,..);
                                            `if rewrite { updated = false }`
    6 writeConfig                           gate `!updated || cmdCnt > 0 || Backends().Changed()`:
                                            (modsec, errorfiles, responses.lua: layer `RW` below,)
                                            haproxy.cfg, then ChangedShards() ascending
      rewriteOwed = false                   only an update that gets here clears it
      if updated && reloadOwed { updated = false }
    7 updated ⇒ return nil
    8 ReloadQueue.Add (queue mode) or Reload (direct mode): reload command, then its result;
      Reload sets reloadOwed on failure and clears it on success

`Opt.repaired = false` is the code before the two `fix:` commits (5b084c3 `reloadOwed`, 17543b6
`rewriteOwed` / `ForceRewrite`): the two flags are never looked at.  It is only used by the
historical witnesses of Props/C12.

What HAProxy holds (`run`) next to what the files hold: `run := load files` at a successful
reload; a successful runtime command rewrites the address of one running server.

Abstractions.  Backend content `cfg = 4 * conf + epv`: `conf` = everything but the endpoints,
`epv` = the address of the single real endpoint, `slots` = empty endpoints (C05).  A pair
(deleted d, added a) left by `Shrink` is handled by `checkBackendPair`: more slots than before ⇒
no command, reload; otherwise one Send for the real endpoint when its address changed plus one
Send per empty slot of `a`, and the added object inherits the old slots (`len = len(d)`); the
pair is "updated" iff `conf` is unchanged, every Send was answered well, and the deleted object
went through `WriteBackendMaps` or a rendering once: both call `Backend.NeedACL()/PathConfig()`,
which fill the unexported `pathConfig` that `reflect.DeepEqual(&oldBackCopy, curBack)` compares
(`pcI`/`pcD`; an object acquired in a batch whose update failed before stage 3 has none).  Hosts: C05 `HStore`
(content abstract).  One tcp service (content `want`, 0 = none) rendered into its sni map, its
crt-list and its `listen` section of haproxy.cfg.  Backend maps: one file set per backend whose
`conf` needs ACLs (`needACL`), holding `conf`; the template dereferences `PathsMap`, set by
WriteBackendMaps only (`pmI`/`pmD`).  haproxy.cfg also holds whether any host exists
(`mainHosts`: the frontend references the host maps only then; rendered from the `frontend.Maps` object).
-/
namespace HapVerif.C12
open HapVerif.C05

variable {p : Nat}

def conf (c : Content) : Nat := c.cfg / 4
def epv (c : Content) : Nat := c.cfg % 4
/-- `set server b/srv addr <new>`: the running server keeps what was loaded but the address -/
def setEpv (c : Content) (e : Nat) : Content := { c with cfg := 4 * (c.cfg / 4) + e % 4 }

/-- fault points of one `HAProxyUpdate` / `Reload`, in program order -/
inductive Fault where
  | none
  | tcpMaps                  -- 1  a tcp sni map cannot be written
  | frontMaps                -- 2  the first file of WriteFrontendMaps (_front_bind_crt.list)
  | backMaps                 -- 3  the first backend map file
  | crtLists                 -- 4  the tcp crt-list
  | admin (bad : List Nat)   -- 5  these Sends of the update fail (socket error or bad answer)
  | mainCfg                  -- 6a haproxy.cfg
  | shard (k : Nat)          -- 6b haproxy5-backend<k>.cfg
  | reloadSend               -- 8a the reload command fails
  | reloadResult             -- 8b the reload is accepted, the new worker fails
deriving DecidableEq, Repr

def Fault.bad : Fault → Nat → Bool
  | .admin l, i => l.contains i
  | _, _ => false

def Fault.isShard : Fault → Nat → Bool
  | .shard j, k => j == k
  | _, _ => false

/-- the fault makes a file write fail -/
def Fault.isWrite : Fault → Bool
  | .tcpMaps => true
  | .frontMaps => true
  | .backMaps => true
  | .crtLists => true
  | .mainCfg => true
  | .shard _ => true
  | _ => false

def Fault.isReload : Fault → Bool
  | .reloadSend => true
  | .reloadResult => true
  | _ => false

/-- the tcp service and its three renderings -/
structure Tcp where
  want : Nat := 0
  changed : Bool := false      -- `TCPServices.changed`
  map : Nat := 0               -- _tcp_sni_<port>__*.map
  crt : Nat := 0               -- crtlist_tcp_<port>.list
  main : Nat := 0              -- frontend _front_tcp_<port> in haproxy.cfg
deriving DecidableEq, Repr

/-- everything HAProxy reads at (re)load -/
structure Files (p : Nat) where
  back : Fin p → Option Content := fun _ => none
  maps : Fin p → Option (Nat × Bool) := fun _ => none
  bm : Fin p → Option Nat := fun _ => none
  tcpMap : Nat := 0
  tcpCrt : Nat := 0
  tcpMain : Nat := 0

structure Opt where
  queue : Bool := false                      -- `InstanceOptions.ReloadQueue != nil` (--reload-interval > 0)
  needACL : Nat → Bool := fun _ => false     -- `Backend.NeedACL()` as a function of `conf`
  repaired : Bool := true                    -- false: the code before the two `fix:` commits (historical witnesses)

structure FW (p : Nat) where
  g : GWorld p := {}                         -- backends, haproxy.cfg / shard files, hasCommittedData
  h : HStore p := {}                         -- hosts, frontend maps, frontend.Maps == nil
  tcp : Tcp := {}
  bm : Fin p → Option Nat := fun _ => none   -- backend map files
  mainHosts : Bool := false                  -- haproxy.cfg references the host maps
  pcI : Fin p → Bool := fun _ => false       -- the object in `items x` has its `pathConfig` (see `pairOK`)
  pcD : Fin p → Bool := fun _ => false       -- the object in `itemsDel x` has it
  pmI : Fin p → Bool := fun _ => false       -- the object in `items x` went through WriteBackendMaps: `PathsMap` is set
  pmD : Fin p → Bool := fun _ => false
  run : Files p := {}                        -- what the running HAProxy holds
  pending : Bool := false                    -- the reload queue holds an item
  rewriteOwed : Bool := false                -- `instance.rewriteOwed`: an update did not get past writeConfig
  reloadOwed : Bool := false                 -- `instance.reloadOwed`: the last reload failed

/-- what `haproxy -f <dir>` reads now -/
def load (sh : Sh p) (w : FW p) : Files p :=
  { back := fun x => w.g.w.disk (sh.shardOf x) x
    maps := fun x => if w.mainHosts then w.h.maps x else none
    bm := w.bm, tcpMap := w.tcp.map, tcpCrt := w.tcp.crt, tcpMain := w.tcp.main }

/-! ### the pieces of C05's `HStore.updateWith true`, separated so that a fault fits in between -/

def hSkip (s : HStore p) : Bool := !s.mapsNil && !s.isChanged && !s.rootBackendChanged
def hWrite (s : HStore p) : HStore p := if hSkip s then s else { s with maps := s.want, mapsNil := false }
def hCommit (s : HStore p) : HStore p := { s with add := fun _ => none, del := fun _ => none, bcC := s.bc }

/-! ### dynamic update (stage 5) -/

/-- the (deleted, added) pair of `x` that `checkBackendPair` works on: same name on both sides and
not more endpoints than before -/
def pair? (s : Store p) (x : Fin p) : Option (Content × Content) :=
  match s.del x, s.add x with
  | some d, some a => if a.slots ≤ d.slots then some (d, a) else none
  | _, _ => none

/-- number of Sends for `x` -/
def nsend (s : Store p) (x : Fin p) : Nat :=
  match pair? s x with
  | some (d, a) => (if epv a ≠ epv d then 1 else 0) + a.slots
  | none => 0

def sumBelow (f : Fin p → Nat) : (i : Nat) → i ≤ p → Nat
  | 0, _ => 0
  | i + 1, h => sumBelow f i (Nat.le_of_succ_le h) + f ⟨i, h⟩

/-- index of the first Send of `x` (pairs are visited by name here; Go visits them in map order,
the harness only uses fault indexes whose outcome does not depend on it) -/
def base (s : Store p) (x : Fin p) : Nat := sumBelow (nsend s) x.val (Nat.le_of_lt x.isLt)
def totalSends (s : Store p) : Nat := sumBelow (nsend s) p (Nat.le_refl p)

def anyRange (f : Nat → Bool) (lo : Nat) : Nat → Bool
  | 0 => false
  | n + 1 => f (lo + n) || anyRange f lo n

/-- HAProxy answers "No such server." when the addressed server is not part of what it loaded: the
server of the real endpoint exists iff the backend is loaded, the one of the `j`-th empty slot iff the
loaded backend has more than `j` slots -/
def knowsServers (rb : Fin p → Option Content) (s : Store p) (x : Fin p) : Bool :=
  match pair? s x with
  | some (_, a) =>
    nsend s x == 0 || (match rb x with | some r => decide (a.slots ≤ r.slots) | none => false)
  | none => true

/-- `checkBackendPair` answers true -/
def pairOK (s : Store p) (bad : Nat → Bool) (rb : Fin p → Option Content) (pcD : Fin p → Bool) (x : Fin p) : Bool :=
  match s.add x with
  | none => (s.del x).isNone                       -- a removed backend asks for a reload
  | some _ =>
    match pair? s x with
    | none => false                                -- added backend, or more endpoints than slots
    | some (d, a) =>
      conf a == conf d && pcD x && !anyRange bad (base s x) (nsend s x) && knowsServers rb s x

def backendUpdated (s : Store p) (bad : Nat → Bool) (rb : Fin p → Option Content) (pcD : Fin p → Bool) : Bool :=
  !anyFin fun x => !pairOK s bad rb pcD x

/-- the added object of a pair inherits the remaining empty slots of the deleted one -/
def dynStore (sh : Sh p) (s : Store p) : Store p :=
  let nw : Fin p → Option Content := fun x => (pair? s x).map fun da => { cfg := da.2.cfg, slots := da.1.slots }
  { s with
    items := fun x => match nw x with | some c => some c | none => s.items x
    add := fun x => match nw x with | some c => some c | none => s.add x
    shards := fun k x => match nw x with
      | some c => if sh.n ≠ 0 ∧ k = sh.shardOf x then some c else s.shards k x
      | none => s.shards k x }

/-- the running servers after the Sends -/
def dynRun (s : Store p) (bad : Nat → Bool) (rb : Fin p → Option Content) : Fin p → Option Content :=
  fun x => match pair? s x with
    | some (d, a) => if epv a ≠ epv d ∧ bad (base s x) = false then (rb x).map (setEpv · (epv a)) else rb x
    | none => rb x

/-! ### writeConfig (stage 6) -/

/-- haproxy.cfg (holds the backends when there are no shards), then the changed shard files in
ascending order up to the first one that cannot be written; `lim = none` is C05's `write` -/
def writeCfg (sh : Sh p) (s : Store p) (d : Disk p) (lim : Option Nat) : Disk p :=
  if sh.n = 0 then fun k => if k = 0 then s.items else d k
  else fun k =>
    if s.changed k && (match lim with | none => true | some f => decide (k < f)) then s.shards k else d k

/-- the template renders backend `x` (and fills its `pathConfig`) -/
def rendered (sh : Sh p) (s : Store p) (lim : Option Nat) (x : Fin p) : Bool :=
  (s.items x).isSome &&
    (if sh.n = 0 then true
     else s.changed (sh.shardOf x) && (match lim with | none => true | some f => decide (sh.shardOf x < f)))

def hasHosts (s : HStore p) : Bool := anyFin fun x => (s.items x).isSome
def backChanged (s : Store p) : Bool := anyFin fun x => (s.add x).isSome || (s.del x).isSome

/-! ### the update -/

structure Res (p : Nat) where
  w : FW p
  err : Bool := false
  sends : Nat := 0
  -- what the update did, for the layer of the response files (see `updR`):
  reached : Bool := false        -- `writeConfig` was called (the gate of stage 6 was open)
  wroteMain : Bool := false      -- `writeConfig` got as far as haproxy.cfg and wrote it
  reloaded : Bool := false       -- HAProxy was reloaded and read the files

/-- the deferred `config.Commit()`: backends, hosts, tcp services, `globalOld` -/
def commitAll (w : FW p) (s : Store p) (hs : HStore p) : FW p :=
  { w with g := { w := { store := commit s, disk := w.g.w.disk }, committed := true }
           h := hCommit hs
           tcp := { w.tcp with changed := false } }

def setDisk (w : FW p) (d : Disk p) : FW p := { w with g := { w.g with w := { w.g.w with disk := d } } }

/-- `Instance.Reload` -/
def reload (sh : Sh p) (f : Fault) (w : FW p) : FW p × Bool :=
  if f.isReload then ({ w with reloadOwed := true }, true)
  else ({ w with run := load sh w, reloadOwed := false }, false)

/-- state of one `HAProxyUpdate` after the dynamic update (stage 5) -/
structure Mid (p : Nat) where
  w : FW p              -- files written so far, running servers after the Sends, `pathConfig`/`PathsMap` flags
  s : Store p           -- backends after Shrink and the dynamic update
  hs : HStore p         -- hosts after Shrink and WriteFrontendMaps
  sends : Nat
  updated : Bool
  bchg : Bool           -- `Backends().Changed()`

/-- `Shrink` puts the deleted object back for a matched name: its flags come back with it -/
def shrinkFlags (w : FW p) : FW p :=
  { w with pcI := fun x => if matched w.g.w.store x then w.pcD x else w.pcI x
           pmI := fun x => if matched w.g.w.store x then w.pmD x else w.pmI x }

/-- the loop of WriteBackendMaps over ItemsAdd calls `NeedACL()` and sets `PathsMap` -/
def mapFlags (vis : Fin p → Option Content) (w : FW p) : FW p :=
  { w with pcI := fun x => (vis x).isSome || w.pcI x
           pmI := fun x => (vis x).isSome || w.pmI x }

def bmWrite (o : Opt) (vis : Fin p → Option Content) (w : FW p) : FW p :=
  { w with bm := fun x => match vis x with
      | some c => if o.needACL (conf c) then some (conf c) else w.bm x
      | none => w.bm x }

def bmFiles (o : Opt) (vis : Fin p → Option Content) : Bool :=
  anyFin fun x => match vis x with | some c => o.needACL (conf c) | none => false

/-- `config.ForceRewrite()` on the backends: `AllShardsChanged` -/
def allShards (sh : Sh p) (s : Store p) : Store p :=
  { s with changed := fun k => decide (k < sh.n) || s.changed k }

/-- stage 5 -/
def dynStage (sh : Sh p) (bad : Nat → Bool) (rewrite : Bool) (w0 : FW p) (s0 : Store p) (hs0 hs1 : HStore p)
    (w4 : FW p) : Mid p :=
  -- `hasCommittedData() && checkConfigChange()`: without committed data no command is sent
  let dynRuns := w0.g.committed
  { w := if dynRuns then { w4 with run := { w4.run with back := dynRun s0 bad w4.run.back } } else w4
    s := if dynRuns then dynStore sh s0 else s0
    hs := hs1
    sends := if dynRuns then totalSends s0 else 0
    updated := dynRuns && !w0.tcp.changed && !hs0.isChanged && backendUpdated s0 bad w4.run.back w0.pcD && !rewrite
    bchg := backChanged s0 }

/-- the stores the update works on: after Shrink, and after `ForceRewrite()` (`AllShardsChanged`,
`frontend.Maps = nil`) when a rewrite is owed -/
def s0Of (sh : Sh p) (rw : Bool) (w : FW p) : Store p :=
  if rw then allShards sh (shrink sh w.g.w.store) else shrink sh w.g.w.store
def hs0Of (rw : Bool) (w : FW p) : HStore p := if rw then { w.h.shrink with mapsNil := true } else w.h.shrink
/-- `i.rewriteOwed = true` until the update is past writeConfig -/
def w0Of (w : FW p) : FW p := { shrinkFlags w with rewriteOwed := true }

/-- 1  guard `!tcpservices.Changed() && !rewriteAll`; without a tcp service nothing is written -/
def tcpWrites (rw : Bool) (w : FW p) : Bool := w.tcp.changed || (rw && w.tcp.want != 0)
def tcpStage (rw : Bool) (w : FW p) : FW p :=
  if tcpWrites rw w then { w with tcp := { w.tcp with map := w.tcp.want } } else w
/-- 3  guard `!backends.Changed() && !rewriteAll`; ItemsAdd, or Items when everything is rewritten -/
def visOf (rw : Bool) (s0 : Store p) : Fin p → Option Content := if rw then s0.items else s0.add
def flagStage (rw : Bool) (s0 : Store p) (w : FW p) : FW p :=
  if backChanged s0 || rw then mapFlags (visOf rw s0) w else w
def bmStage (o : Opt) (rw : Bool) (s0 : Store p) (w : FW p) : FW p :=
  if backChanged s0 || rw then bmWrite o (visOf rw s0) w else w
/-- 4 -/
def crtStage (w : FW p) : FW p := if w.tcp.want != 0 then { w with tcp := { w.tcp with crt := w.tcp.want } } else w

def pre4 (o : Opt) (sh : Sh p) (f : Fault) (rw : Bool) (w0 : FW p) (s0 : Store p) (hs0 hs1 : HStore p) (w3 : FW p) :
    Except (Res p) (Mid p) :=
  if w3.tcp.want != 0 && f == .crtLists then .error { w := commitAll w3 s0 hs1, err := true } else
  -- 5  (`if rewrite { updated = false }` right after `updater.update()`)
  .ok (dynStage sh f.bad rw w0 s0 hs0 hs1 (crtStage w3))

def pre3 (o : Opt) (sh : Sh p) (f : Fault) (rw : Bool) (w0 : FW p) (s0 : Store p) (hs0 hs1 : HStore p) (w1 : FW p) :
    Except (Res p) (Mid p) :=
  -- (the loop over the visited backends calls NeedACL() and sets PathsMap before the first file is written)
  if (backChanged s0 || rw) && bmFiles o (visOf rw s0) && f == .backMaps then
    .error { w := commitAll (flagStage rw s0 w1) s0 hs1, err := true }
  else pre4 o sh f rw w0 s0 hs0 hs1 (bmStage o rw s0 (flagStage rw s0 w1))

def pre2 (o : Opt) (sh : Sh p) (f : Fault) (rw : Bool) (w0 : FW p) (s0 : Store p) (hs0 : HStore p) (w1 : FW p) :
    Except (Res p) (Mid p) :=
  if !hSkip hs0 && f == .frontMaps then .error { w := commitAll w1 s0 hs0, err := true } else
  pre3 o sh f rw w0 s0 hs0 (hWrite hs0) { w1 with h := hWrite hs0 }

/-- stages 1 to 5; `Except.error` = the update returned at a failed write.
`rewrite := i.rewriteOwed; i.rewriteOwed = true; if rewrite { i.config.ForceRewrite() }` -/
def pre (o : Opt) (sh : Sh p) (f : Fault) (w : FW p) : Except (Res p) (Mid p) :=
  if tcpWrites (o.repaired && w.rewriteOwed) (w0Of w) && f == .tcpMaps then
    .error { w := commitAll (w0Of w) (s0Of sh (o.repaired && w.rewriteOwed) w) (hs0Of (o.repaired && w.rewriteOwed) w)
             err := true }
  else pre2 o sh f (o.repaired && w.rewriteOwed) (w0Of w) (s0Of sh (o.repaired && w.rewriteOwed) w)
    (hs0Of (o.repaired && w.rewriteOwed) w) (tcpStage (o.repaired && w.rewriteOwed) (w0Of w))

/-- the template dereferences `$backend.PathsMap` of every backend that needs ACLs: rendering a backend
whose object never went through WriteBackendMaps fails (nil pointer inside the template) -/
def badX (o : Opt) (s : Store p) (pm : Fin p → Bool) (x : Fin p) : Bool :=
  match s.items x with
  | some c => o.needACL (conf c) && !pm x
  | none => false

/-- the first shard file that cannot be rendered or written -/
def shardLim (o : Opt) (sh : Sh p) (f : Fault) (s : Store p) (pm : Fin p → Bool) : Option Nat :=
  if sh.n = 0 then none
  else (List.range sh.n).find? fun k => s.changed k &&
    (f.isShard k || anyFin fun x => decide (sh.shardOf x = k) && badX o s pm x)

/-- stages 6 to 8 -/
def post (o : Opt) (sh : Sh p) (f : Fault) (m : Mid p) : Res p :=
  -- 6
  let doWrite := !m.updated || decide (0 < m.sends) || m.bchg
  let mainBad := decide (sh.n = 0) && anyFin (badX o m.s m.w.pmI)
  if doWrite && (f == .mainCfg || mainBad) then
    { w := commitAll m.w m.s m.hs, err := true, sends := m.sends, reached := true } else
  let lim := shardLim o sh f m.s m.w.pmI
  let w6 : FW p := if doWrite then
      { setDisk m.w (writeCfg sh m.s m.w.g.w.disk lim) with
        tcp := { m.w.tcp with main := m.w.tcp.want }
        mainHosts := anyFin fun x => (m.hs.maps x).isSome      -- rendered from the `frontend.Maps` object
        pcI := fun x => rendered sh m.s lim x || m.w.pcI x }
    else m.w
  if doWrite && lim.isSome then
    { w := commitAll w6 m.s m.hs, err := true, sends := m.sends, reached := true, wroteMain := true } else
  -- past writeConfig: `i.rewriteOwed = false`; `if updated && i.reloadOwed { updated = false }`
  let w6 : FW p := { w6 with rewriteOwed := false }
  let updated := m.updated && !(o.repaired && m.w.reloadOwed)
  -- 7
  if updated then { w := commitAll w6 m.s m.hs, sends := m.sends, reached := doWrite, wroteMain := doWrite } else
  -- 8
  if o.queue then
    { w := commitAll { w6 with pending := true } m.s m.hs, sends := m.sends, reached := doWrite, wroteMain := doWrite } else
  let r := reload sh f w6
  { w := commitAll r.1 m.s m.hs, err := r.2, sends := m.sends, reached := doWrite, wroteMain := doWrite, reloaded := !r.2 }

/-- one `HAProxyUpdate` with fault `f` -/
def upd (o : Opt) (sh : Sh p) (f : Fault) (w : FW p) : Res p :=
  match pre o sh f w with
  | .error r => r
  | .ok m => post o sh f m

/-- one run of the reload queue worker (`Services.reloadHAProxy`): a failed `Reload` puts the item back -/
def qrun (sh : Sh p) (f : Fault) (w : FW p) : Res p :=
  if !w.pending then { w := w } else
  let r := reload sh f w
  { w := { r.1 with pending := r.2 }, err := r.2, reloaded := !r.2 }

/-! ### histories -/

inductive Ev (p : Nat) where
  | acq (x : Fin p) (c : Content)      -- AcquireBackend + fill when new
  | rem (xs : List (Fin p))            -- Backends.RemoveAll
  | hacq (x : Fin p) (c : Nat)         -- AcquireHost + fill when new
  | hrem (xs : List (Fin p))           -- Hosts.RemoveAll
  | tcp (v : Nat)                      -- RemoveService + AcquireTCPService with content v
  | full                               -- config.Clear(): a full resync starts
  | upd (f : Fault)                    -- HAProxyUpdate
  | qrun (f : Fault)                   -- reload queue worker

def setStore (w : FW p) (s : Store p) : FW p := { w with g := { w.g with w := { w.g.w with store := s } } }

def step (o : Opt) (sh : Sh p) (w : FW p) : Ev p → FW p
  | .acq x c =>
    { setStore w (acquire sh w.g.w.store x c) with
      pcI := fun y => if y = x ∧ w.g.w.store.items x = none then false else w.pcI y
      pmI := fun y => if y = x ∧ w.g.w.store.items x = none then false else w.pmI y }
  | .rem xs =>
    { setStore w (removeAll sh w.g.w.store xs) with
      pcD := fun y => if xs.contains y ∧ (w.g.w.store.items y).isSome then w.pcI y else w.pcD y
      pmD := fun y => if xs.contains y ∧ (w.g.w.store.items y).isSome then w.pmI y else w.pmD y }
  | .hacq x c => { w with h := w.h.acquire x c }
  | .hrem xs => { w with h := w.h.removeAll xs }
  | .tcp v => { w with tcp := { w.tcp with want := v, changed := true } }
  | .full =>
    { w with g := { w := { w.g.w with store := clear sh w.g.w.store }, committed := false }
             h := w.h.clear
             tcp := { w.tcp with want := 0, changed := false }
             pcD := w.pcI
             pmD := w.pmI }
  | .upd f => (upd o sh f w).w
  | .qrun f => (qrun sh f w).w

def run (o : Opt) (sh : Sh p) (w : FW p) (evs : List (Ev p)) : FW p := evs.foldl (step o sh) w

/-- caller discipline (C05): RemoveAll only for names not acquired in the running batch; Clear is
always preceded by a commit here because every `HAProxyUpdate` commits; a tcp service, once
declared, is declared again by every full resync before the update (content > 0) -/
def okEv (w : FW p) : Ev p → Bool
  | .rem xs => xs.all fun x => (w.g.w.store.add x).isNone
  | .hrem xs => xs.all fun x => (w.h.add x).isNone
  | .full => !backChanged w.g.w.store
  | .tcp v => decide (v ≠ 0)
  | _ => true

def allOk (o : Opt) (sh : Sh p) : FW p → List (Ev p) → Bool
  | _, [] => true
  | w, e :: es => okEv w e && allOk o sh (step o sh w e) es

/-! ### the Spec: files = rendering of the in-memory model, HAProxy = the files -/

def DiskGood (o : Opt) (sh : Sh p) (w : FW p) : Prop :=
  (∀ k x, w.g.w.disk k x = itemsIn sh w.g.w.store k x) ∧
  (∀ x, w.h.maps x = w.h.want x) ∧
  w.mainHosts = hasHosts w.h ∧
  (w.tcp.want ≠ 0 → w.tcp.map = w.tcp.want ∧ w.tcp.crt = w.tcp.want) ∧
  w.tcp.main = w.tcp.want ∧
  (∀ x c, w.g.w.store.items x = some c → o.needACL (conf c) = true → w.bm x = some (conf c))

/-- `Running = load Disk`; a backend that was removed without a reload may still be loaded (no map
or frontend refers to it any more) -/
def RunGood (sh : Sh p) (w : FW p) : Prop :=
  (∀ x c, (load sh w).back x = some c → w.run.back x = some c) ∧
  (∀ x, w.run.maps x = (load sh w).maps x) ∧
  (∀ x, w.run.bm x = (load sh w).bm x) ∧
  w.run.tcpMap = w.tcp.map ∧ w.run.tcpCrt = w.tcp.crt ∧ w.run.tcpMain = w.tcp.main

/-! ### the custom HTTP response files

`writeConfig` (stage 6) writes, in this order: spoe-modsecurity.conf (content fixed here, not modelled),
one `errorfiles/<code>.http` per entry of `Global.CustomHTTPHAResponses`, `lua/responses.lua` from
`Global.CustomHTTPLuaResponses`, haproxy.cfg (which names every errorfile: `errorfile <code> <file>`, and
`lua-load`s responses.lua), the changed shard files.  Each failed write returns at once.  The response
files have no guard of their own: every update that calls `writeConfig` renders them again from the
global config.  The global config is replaced by `config.Clear()` and filled by the converter inside a
full resync only; the deferred `Commit()` copies it into `globalOld` on every return path
(`hasCommittedData() = globalOld != nil` is `GWorld.committed`).  `Clear()` keeps the global of the last
commit in `globalPrev` (until the next `Commit()`); `config.Shrink()` calls `ForceRewrite()` when the new
global differs from it, because the shard files and the maps render globals too (`forced`).

This layer sits on top of `FW`: for the part of the state that `FW` holds, a response file that cannot be
written is the return path of a haproxy.cfg that cannot be written (`return err` of `writeConfig` before
anything of haproxy.cfg is rendered), so `updR` runs `upd` with that fault and replays the response
files from what `upd` reports (`Res.reached`, `Res.wroteMain`, `Res.reloaded`).

Abstraction: `Glob.lua` = content of the Lua based responses (`http-response-404`), `Glob.ha` = content of
the one HAProxy based response (`http-response-503`), 0 = not configured: no errorfile, no `errorfile`
line.  A file that was written once stays (nothing deletes an errorfile).

`ROpt.gated = true` is NOT the code that exists: it is the variant "write the response files only when
`globalOld == nil || global != globalOld`", kept for the witnesses of Props/C12 (such a gate looks at
what `Commit()` already overwrote on the failing path). -/

structure Glob where
  lua : Nat := 0
  ha : Nat := 0
deriving DecidableEq, Repr

/-- the response files, and what haproxy.cfg says about them -/
structure RFiles where
  ha : Option Nat := none          -- errorfiles/503.http
  lua : Option Nat := none         -- lua/responses.lua
  main : Option Bool := none       -- haproxy.cfg exists; it has the `errorfile 503` line
deriving DecidableEq, Repr

/-- what HAProxy reads: an errorfile only when haproxy.cfg names it -/
def loadR (d : RFiles) : RFiles := { d with ha := if d.main = some true then d.ha else none }

/-- HAProxy refuses a configuration that names a file that does not exist -/
def loadable (d : RFiles) : Bool :=
  match d.main with
  | none => true
  | some b => d.lua.isSome && (!b || d.ha.isSome)

inductive RFault where
  | base (f : Fault)
  | haResp                     -- 6  errorfiles/503.http cannot be written
  | luaResp                    -- 6  lua/responses.lua cannot be written
deriving DecidableEq, Repr

structure ROpt where
  o : Opt := {}
  gated : Bool := false        -- the variant with `if GlobalChanged()` around the response files (witnesses only)

structure RW (p : Nat) where
  fw : FW p := {}
  glob : Glob := {}            -- `config.global` (custom responses)
  globOld : Glob := {}         -- `config.globalOld`, meaningful while `fw.g.committed`
  globPrev : Option Glob := none   -- `config.globalPrev`: the global of the last commit, kept over `Clear()`
  disk : RFiles := {}
  run : RFiles := {}           -- what the running HAProxy read

structure RRes (p : Nat) where
  w : RW p
  err : Bool := false

/-- `config.Shrink()` finds a global that differs from the one of the last commit and calls
`ForceRewrite()`.  `globalPrev` is only set between a `Clear()` and the next `Commit()`: no data is
committed then. -/
def forced (w : RW p) : Bool :=
  !w.fw.g.committed && (match w.globPrev with | some g => g != w.glob | none => false)

/-- the lower layer as the update sees it.  `ForceRewrite()` out of `Shrink()` is the `ForceRewrite()` of a
rewrite that is owed; `if rewrite { updated = false }` is the only difference and makes none, without
committed data the dynamic updater never answers `updated`. -/
def fwOf (w : RW p) : FW p := if forced w then { w.fw with rewriteOwed := true } else w.fw

/-- `GlobalChanged()` of the gated variant; the code that exists has no such gate -/
def respGate (ro : ROpt) (w : RW p) : Bool := !ro.gated || !w.fw.g.committed || w.globOld != w.glob

/-- the fault as `upd` sees it -/
def baseFault (f : RFault) (g : Glob) (gate : Bool) : Fault :=
  match f with
  | .base f => f
  | .haResp => if gate && g.ha != 0 then .mainCfg else .none
  | .luaResp => if gate then .mainCfg else .none

/-- the two loops of `writeConfig` over the response files, up to the first file that cannot be written -/
def writeResp (f : RFault) (g : Glob) (d : RFiles) : RFiles :=
  if f == .haResp && g.ha != 0 then d else
  let d1 : RFiles := if g.ha != 0 then { d with ha := some g.ha } else d
  if f == .luaResp then d1 else { d1 with lua := some g.lua }

/-- the response files after an update that reported `r` -/
def respDisk (f : RFault) (g : Glob) (gate : Bool) (r : Res p) (d : RFiles) : RFiles :=
  let d1 := if r.reached && gate then writeResp f g d else d
  if r.wroteMain then { d1 with main := some (g.ha != 0) } else d1

/-- one `HAProxyUpdate` -/
def updR (ro : ROpt) (sh : Sh p) (f : RFault) (w : RW p) : RRes p :=
  let gate := respGate ro w
  let r := upd ro.o sh (baseFault f w.glob gate) (fwOf w)
  let d := respDisk f w.glob gate r w.disk
  -- the deferred `Commit()`: `globalOld = global`, `globalPrev = nil`
  if ro.gated && r.reloaded && !loadable d then
    -- (gated variant only) the new worker does not start: the reload fails
    let r' := upd ro.o sh .reloadResult (fwOf w)
    { w := { fw := r'.w, glob := w.glob, globOld := w.glob, globPrev := none, disk := d, run := w.run }, err := r'.err }
  else
    { w := { fw := r.w, glob := w.glob, globOld := w.glob, globPrev := none, disk := d
             run := if r.reloaded then loadR d else w.run }
      err := r.err }

/-- one run of the reload queue worker -/
def qrunR (ro : ROpt) (sh : Sh p) (f : Fault) (w : RW p) : RRes p :=
  let r := qrun sh f w.fw
  if ro.gated && r.reloaded && !loadable w.disk then
    let r' := qrun sh .reloadResult w.fw
    { w := { w with fw := r'.w }, err := r'.err }
  else
    { w := { w with fw := r.w, run := if r.reloaded then loadR w.disk else w.run }, err := r.err }

inductive REv (p : Nat) where
  | ev (e : Ev p)              -- an event of the lower layer; `.upd f` / `.qrun f` carry a fault of theirs
  | glob (g : Glob)            -- the converter fills `config.Global()`: custom responses
  | updHa                      -- HAProxyUpdate, the errorfile cannot be written
  | updLua                     -- HAProxyUpdate, responses.lua cannot be written

def stepR (ro : ROpt) (sh : Sh p) (w : RW p) : REv p → RW p
  | .ev (.upd f) => (updR ro sh (.base f) w).w
  | .ev (.qrun f) => (qrunR ro sh f w).w
  | .ev .full =>                                                             -- `createConfig`: a new Global
    { w with fw := step ro.o sh w.fw .full, glob := {}
             globPrev := if w.fw.g.committed then some w.globOld else w.globPrev }
  | .ev e => { w with fw := step ro.o sh w.fw e }
  | .glob g => { w with glob := g }
  | .updHa => (updR ro sh .haResp w).w
  | .updLua => (updR ro sh .luaResp w).w

def runR (ro : ROpt) (sh : Sh p) (w : RW p) (evs : List (REv p)) : RW p := evs.foldl (stepR ro sh) w

/-- caller discipline: the one of the lower layer, and the global config is only filled inside a full
resync (after `config.Clear()`, before the update) -/
def okEvR (w : RW p) : REv p → Bool
  | .ev e => okEv w.fw e
  | .glob _ => !w.fw.g.committed
  | _ => true

def allOkR (ro : ROpt) (sh : Sh p) : RW p → List (REv p) → Bool
  | _, [] => true
  | w, e :: es => okEvR w e && allOkR ro sh (stepR ro sh w e) es

/-- Spec: the response files hold the rendering of the global config, haproxy.cfg names the errorfile iff
one is configured -/
def RespGood (w : RW p) : Prop :=
  w.disk.lua = some w.glob.lua ∧ (w.glob.ha ≠ 0 → w.disk.ha = some w.glob.ha) ∧ w.disk.main = some (w.glob.ha != 0)

/-- Spec: HAProxy read them -/
def RespRunGood (w : RW p) : Prop := w.run = loadR w.disk

/-! ### the same cycle over opaque files (world runner)

The end-to-end harness cannot name hosts and backends; it runs a fault-free TWIN controller on the
same history and reports, per reconcile, the files the twin wrote (in write order, split at the
dynamic update), whether it asked for a reload and how many Sends it made.  Because `Commit()` runs
on every path, the in-memory model of the faulty controller is the twin's; so the faulty controller
attempts the twin's writes — or, while `rewriteOwed`, every file of the current model — and stops
at the first file that cannot be written.  `wstep` replays that and predicts the error flag of
every reconcile and whether the history ends converged (nothing owed). -/

structure FileFact where
  name : String
  ns : String
  srv : String
deriving DecidableEq, Repr

structure StepFact where
  reload : Bool
  sends : Nat
  pre : List FileFact        -- tcp maps, frontend crt-list + maps, backend maps, tcp crt-lists
  post : List FileFact       -- modsec, error files, lua, haproxy.cfg, shard files

inductive WFault where
  | none
  | files (l : List String)  -- these files cannot be written
  | reloadSend
  | reloadResult
  | admin                    -- some Send fails
deriving DecidableEq, Repr

def put (m : List FileFact) (f : FileFact) : List FileFact :=
  if m.any (·.name == f.name) then m.map fun g => if g.name == f.name then f else g else m ++ [f]

def get? (m : List FileFact) (n : String) : Option FileFact := m.find? (·.name == n)

def isFront (n : String) : Bool := n.startsWith "maps/_front_"
def crtList : String := "maps/_front_bind_crt.list"
def isCfg (n : String) : Bool := n.startsWith "cfg/"

structure WState where
  twin : List FileFact := []      -- files of the twin
  run : List FileFact := []       -- server tables HAProxy holds, per file, in terms of the twin's facts
  errs : List Bool := []
  owed : Bool := false            -- `rewriteOwed`
  rowed : Bool := false           -- `reloadOwed`
  mapsNil : Bool := true          -- `frontend.Maps == nil`: WriteFrontendMaps never succeeded
  front : List FileFact := []     -- the frontend files as of the twin's last WriteFrontendMaps
  known : Nat := 0                -- number of leading reconciles whose error flag the facts determine
  unknown : Bool := false

def wstep (st : WState) (t : StepFact) (f : WFault) : WState :=
  let twin := (t.pre ++ t.post).foldl put st.twin
  let blocked := match f with | .files l => l | _ => []
  let isBlocked : FileFact → Bool := fun g => blocked.contains g.name
  let adminFault := f == .admin && decide (0 < t.sends)
  let writesFront := t.pre.any (·.name == crtList)
  let front := if writesFront then t.pre.filter fun g => isFront g.name else st.front
  -- files the faulty controller writes before the dynamic update: the twin's; the frontend files too
  -- while `frontend.Maps == nil`; every current map while a rewrite is owed
  let pre := t.pre ++ (if st.mapsNil || st.owed then front else []) ++
    (if st.owed then twin.filter fun g => !isCfg g.name && !isFront g.name else [])
  -- Sends are computed against the servers the in-memory model believes to be running; a HAProxy that
  -- holds something else may answer "No such server.", the update then reloads
  let changed := t.post.filter fun g => (get? st.twin g.name).map (·.srv) != some g.srv
  let knows := changed.all fun g => (get? st.run g.name).map (·.srv) == (get? st.twin g.name).map (·.srv)
  let sending := decide (0 < t.sends)
  let unknown := st.unknown || (sending && !knows && !adminFault)
  let st := { st with twin := twin, front := front, unknown := unknown, known := if unknown then st.known else st.known + 1 }
  if pre.any isBlocked then
    { st with errs := st.errs ++ [true], owed := true }
  else
  let st := { st with mapsNil := st.mapsNil && !writesFront && front.isEmpty && !st.owed }
  let applied := sending && !adminFault && knows
  let updated := !t.reload && !st.owed && (!sending || applied)
  let run1 := if applied then
      t.post.foldl (fun r g => match get? r g.name with
        | some h => put r { h with srv := g.srv }
        | none => r) st.run
    else st.run
  -- haproxy.cfg and friends: the twin's, or all of them when the update does not end "updated"
  let post := t.post ++ (if !updated then twin.filter fun g => isCfg g.name && (st.owed || !g.name.startsWith "cfg/haproxy5-") else [])
  if post.any isBlocked then
    { st with errs := st.errs ++ [true], owed := true, run := run1 }
  else
  if !updated || st.rowed then
    if f == .reloadSend || f == .reloadResult then
      { st with errs := st.errs ++ [true], owed := false, rowed := true, run := run1 }
    else
      { st with errs := st.errs ++ [false], owed := false, rowed := false, run := twin.filter fun g => isCfg g.name }
  else
    { st with errs := st.errs ++ [false], owed := false, run := run1 }

def wrun (st : WState) : List (StepFact × WFault) → WState
  | [] => st
  | (t, f) :: r => wrun (wstep st t f) r

/-- nothing is owed at the end: the files are the model's, HAProxy read them -/
def WState.converged (st : WState) : Bool := !st.owed && !st.rowed

end HapVerif.C12
