import HapVerif.Model.C09
/-
C09 — the DECLARING CONTEXT of a reference.

`Model/C09.lean` resolves a value "in the namespace `src` of the annotated object".  Where does that
namespace come from?  An annotation is carried by an object (the CARRIER: an Ingress, a Gateway, a
Service) and the carrier is reached by the controller through a ROUTE:

  * `direct`         — the controller lists the object itself (Ingress, Gateway + route);
  * `ingress`        — Service behind an Ingress rule / `spec.defaultBackend`
                       (`fullSvcName := ing.Namespace + "/" + svcName`: same namespace by construction);
  * `defaultBackend` — Service named by the command line `--default-backend-service=ns/name`
                       (ingress.go `syncDefaultBackend`, source `defaultBackSource` whose namespace is EMPTY);
  * `authURL`        — Service named by `auth-url: svc://[ns/]name:port` of an Ingress, pre-built by
                       ingress.go `syncIngressHTTP` (another namespace while `cross-namespace-services: allow`);
  * `gateway`        — Service named by Gateway API `backendRefs` (gateway.go `createBackend` +
                       ingress.go `ReadAnnotations`; same namespace by construction: `backendRef.namespace`
                       is not read and there is no ReferenceGrant).

All Service routes but the last end in ingress.go `addBackendWithClass(source, …, fullSvcName, …)`:
`GetService(source.Namespace, fullSvcName)` decides whether the carrier is reached (`source` = the
REFERENCING object), then the Service's annotations enter the mapper with
`&annotations.Source{Namespace: namespace, Name: svcName, Type: Service}` where `namespace` is the first
part of `fullSvcName` — the CARRIER's namespace, never `source.Namespace`.  `Source.Namespace` is what
every site of `Model/C09.lean` hands to the cache as `defaultNamespace`, and the cache reads an empty
`defaultNamespace` as "global configuration, nothing to deny": the empty namespace belongs to the global
ConfigMap and to command-line sources, which carry no tenant-written annotation.

`annContextSeeded` is seed C09f (`svcSource := *source`): the annotations of the Service are resolved
in the context of whoever references it.  Core-only.
-/
namespace HapVerif.C09

inductive Route
  | direct
  | ingress
  | defaultBackend
  | authURL
  | gateway
deriving DecidableEq, Repr, Inhabited

/-- the keys a Service can carry: `readAnnotations` keeps the Backend scope of a Service's annotations
(`spec.tls`, Gateway certificateRefs and the Host-scoped `auth-tls-secret` are not read from a Service) -/
def Site.onService : Site → Bool
  | .secureCrt | .secureCA | .authSecret | .authURL => true
  | _ => false

/-- evaluated once per backend (`buildBackendProtocol`); the other Service keys are evaluated once per
PATH of the backend (`for _, path := range d.backend.Paths`) -/
def Site.perBackend : Site → Bool
  | .secureCrt | .secureCA => true
  | _ => false

/-- does the route give the backend a path?  The command-line default backend
(`Backends().DefaultBackend = backend`) and the pre-built auth backend are not linked to any host path -/
def Route.hasPaths : Route → Bool
  | .defaultBackend | .authURL => false
  | _ => true

/-- `addBackendWithClass` starts with `GetService(source.Namespace, "<carNs>/<name>")`: the carrier is
reached iff the REFERENCE to it is allowed (kind: service).  `refNs = []`: command line. -/
def carrierReached (b : Bits) (route : Route) (refNs carNs name : Str) : Bool :=
  match route with
  | .direct => true
  -- gateway.go: `GetService("", routeSource.namespace + "/" + name)`
  | .gateway => true
  | _ =>
    match buildResourceNameK refNs (some (carNs, name)) b.svc with
    | .obj _ _ => true
    | _ => false

/-- is the site evaluated at all on a carrier reached through the route -/
def carrierEvaluated (s : Site) (route : Route) : Bool :=
  route = .direct || (s.onService && (s.perBackend || route.hasPaths))

/-- THE CONTEXT: the namespace of the `Source` attached to the annotations read from the carrier =
the namespace of the carrier, whatever the route and whoever the referencer is. -/
def annContext (_route : Route) (_refNs carNs : Str) : Str := carNs

/-- SEEDED VARIANT (C09f, not the code): `svcSource := *source` in `addBackendWithClass` — the
referencing source's namespace becomes the context (`ReadAnnotations` of the gateway flow is untouched) -/
def annContextSeeded (route : Route) (refNs carNs : Str) : Str :=
  match route with
  | .direct | .gateway => carNs
  | _ => refNs

/-- the haproxy-model state a site on the carrier can see.  A Gateway API change always asks for a
full sync, a full sync clears the model, and `converters.Sync` runs the Gateway converter BEFORE the
ingress converter (facts `c09SyncOrder`): `ReadAnnotations` → `UpdateBackendConfig` runs when no
ingress-built backend or userlist exists yet. -/
def existingSeenBy (route : Route) (ex : Existing) : Existing :=
  if route = .gateway then Existing.none else ex

/-- what a site on a carrier ends up using; `none`: carrier not reached / key not evaluated.
The pre-build of an `auth-url` backend (`fromIngress` of `siteUses`) only happens for an annotation of
the Ingress itself, i.e. on the direct route. -/
def carrierUsesWith (ctx : Route → Str → Str → Str) (s : Site) (b : Bits) (ex : Existing)
    (route : Route) (refNs carNs name value : Str) : Option Res :=
  if !carrierReached b route refNs carNs name then none
  else if !carrierEvaluated s route then none
  else some (siteUses s b (existingSeenBy route ex) (route == .direct) (ctx route refNs carNs) value)

def carrierReadsWith (ctx : Route → Str → Str → Str) (s : Site) (b : Bits) (ex : Existing)
    (route : Route) (refNs carNs name value : Str) : Option Res :=
  if !carrierReached b route refNs carNs name then none
  else if !carrierEvaluated s route then none
  else siteReads s b (existingSeenBy route ex) (route == .direct) (ctx route refNs carNs) value

def carrierUses := carrierUsesWith annContext
def carrierReads := carrierReadsWith annContext
def carrierUsesSeeded := carrierUsesWith annContextSeeded
def carrierReadsSeeded := carrierReadsWith annContextSeeded

/-- the permission decision for a reference `tns/…` of kind `k` written on a carrier of namespace
`carNs`: a function of exactly these three things (`tns = []`: a bare name) -/
def permitted (b : Bits) (k : Kind) (carNs tns : Str) : Bool :=
  tns = [] || tns = carNs || b.get k

end HapVerif.C09
