/-!
C05 — the counters that `Hosts` keeps next to its item set (pkg/haproxy/types/host.go).

`Hosts.sslPassthroughCount` is the only thing `Hosts.HasSSLPassthrough()` reads, and that answer decides what
`config.SyncConfig()` and haproxy.tmpl put into haproxy.cfg (`listen _front__tls`, `backend _redirect_https`,
the https frontend behind a unix socket).  The files hold the current model only if the counter is the number
of ssl-passthrough hosts of the CURRENT item set after every history of the API:

* `AcquireHost`        a new object (not passthrough) enters `items` and `itemsAdd` (the SAME pointer);
                       an existing one is returned as it is
* `SetSSLPassthrough`  on the object `FindHost` returns: flag and counter move together
* any other field      changed in place on the object `FindHost` returns (what `Shrink` compares)
* `RemoveAll`          per name found: `releaseHost` (counter down if the flag is set), moved to `itemsDel`
* `Shrink`             a name with an added and a deleted object that are `reflect.DeepEqual`: the deleted
                       one is put back into `items`, the re-parsed twin is dropped; the counter is NOT touched
                       (the twin's increment stands for the object put back: it is released exactly once, by
                       the `RemoveAll` that moved it out)
* `Commit`             both trackers emptied
* `config.Clear()`     a fresh `Hosts`

Objects are values here; the one place where the code shares a pointer (`items[x]` and `itemsAdd[x]` after
`AcquireHost`) is modelled by changing both entries (the correspondence run observes both maps).
Core-only.
-/
namespace HapVerif.C05Cnt

structure H where
  pass : Bool := false
  content : Nat := 0
  deriving DecidableEq, Repr, Inhabited

structure HS (p : Nat) where
  items : Fin p → Option H := fun _ => none
  add : Fin p → Option H := fun _ => none
  del : Fin p → Option H := fun _ => none
  count : Int := 0

inductive Op (p : Nat) where
  | acquire (x : Fin p)
  | setPass (x : Fin p) (v : Bool)
  | setContent (x : Fin p) (c : Nat)
  | remove (xs : List (Fin p))
  | shrink
  | commit
  | clear
  /-- NOT in the code: `Shrink` that releases the dropped twin a second time (seeded defect C05g) -/
  | shrinkRelease

def upd {p : Nat} {α : Type} (f : Fin p → α) (x : Fin p) (v : α) : Fin p → α := fun y => if y = x then v else f y

def passOf : Option H → Bool
  | some h => h.pass
  | none => false

def b2n (b : Bool) : Nat := if b then 1 else 0

/-- in-place change of the object `FindHost x` returns: `itemsAdd[x]`, when it exists, is the same pointer -/
def mutate {p : Nat} (s : HS p) (x : Fin p) (h : H) : HS p :=
  { s with items := upd s.items x (some h), add := match s.add x with | some _ => upd s.add x (some h) | none => s.add }

def remove1 {p : Nat} (s : HS p) (x : Fin p) : HS p :=
  match s.items x with
  | some h => { s with count := s.count - (b2n h.pass : Nat), del := upd s.del x (some h), items := upd s.items x none }
  | none => s

/-- `Shrink` finds an equal added / deleted pair at `x` -/
def matched {p : Nat} (s : HS p) (x : Fin p) : Bool :=
  match s.del x, s.add x with
  | some d, some a => a == d
  | _, _ => false

def shrinkMaps {p : Nat} (s : HS p) : HS p :=
  { s with items := fun x => if matched s x then s.del x else s.items x
           add := fun x => if matched s x then none else s.add x
           del := fun x => if matched s x then none else s.del x }

def step {p : Nat} (s : HS p) : Op p → HS p
  | .acquire x =>
    match s.items x with
    | some _ => s
    | none => { s with items := upd s.items x (some {}), add := upd s.add x (some {}) }
  | .setPass x v =>
    match s.items x with
    | some h =>
      if h.pass = v then s
      else { mutate s x { h with pass := v } with count := if v then s.count + 1 else s.count - 1 }
    | none => s
  | .setContent x c =>
    match s.items x with
    | some h => mutate s x { h with content := c }
    | none => s
  | .remove xs => xs.foldl remove1 s
  | .shrink => shrinkMaps s
  | .commit => { s with add := fun _ => none, del := fun _ => none }
  | .clear => {}
  | .shrinkRelease =>
    let n := ((List.finRange p).filter fun x => matched s x && passOf (s.add x)).length
    { shrinkMaps s with count := s.count - (n : Nat) }

def run {p : Nat} (s : HS p) (ops : List (Op p)) : HS p := ops.foldl step s

/-- the discipline of `converters.Sync`: `RemoveAll` only for names not acquired in the running batch
(`RemoveAll` comes first, then the re-adds); `shrinkRelease` is not an operation of the code -/
def okOp {p : Nat} (s : HS p) : Op p → Bool
  | .remove xs => xs.all fun x => (s.add x).isNone
  | .shrinkRelease => false
  | _ => true

def okAll {p : Nat} : HS p → List (Op p) → Bool
  | _, [] => true
  | s, op :: ops => okOp s op && okAll (step s op) ops

/-- number of ssl-passthrough hosts among the names `l` -/
def cnt {p : Nat} (f : Fin p → Option H) : List (Fin p) → Nat
  | [] => 0
  | x :: l => b2n (passOf (f x)) + cnt f l

/-- number of ssl-passthrough hosts in the current item set -/
def passHosts {p : Nat} (s : HS p) : Nat := cnt s.items (List.finRange p)

def hasPass {p : Nat} (s : HS p) : Bool := decide (s.count > 0)

/-! ### observation and Spec -/

def showH (x : Nat) (h : H) : String := s!"{x}:{if h.pass then 1 else 0}.{h.content}"

def showMap {p : Nat} (f : Fin p → Option H) : String :=
  let l := (List.finRange p).filterMap fun x => (f x).map (showH x.val)
  if l.isEmpty then "-" else "+".intercalate l

/-- `<counter>|<HasSSLPassthrough 0/1>|<items>|<itemsAdd>|<itemsDel>` -/
def showObs {p : Nat} (s : HS p) : String :=
  s!"{s.count}|{if hasPass s then 1 else 0}|{showMap s.items}|{showMap s.add}|{showMap s.del}"

def trace {p : Nat} : HS p → List (Op p) → List String
  | _, [] => []
  | s, op :: ops => let s' := step s op; showObs s' :: trace s' ops

/-- Spec on one observation of the implementation: the counter is the number of passthrough hosts in
`Items()`, and `HasSSLPassthrough()` says whether there is one -/
def specObs (count : Option Int) (has : Bool) (itemsPass : Nat) : Option String :=
  match count with
  | some c =>
    if c != (itemsPass : Int) then some "passthrough-counter-differs-from-hosts-in-items"
    else if has != decide (itemsPass > 0) then some "has-ssl-passthrough-differs-from-hosts-in-items" else none
  | none => if has != decide (itemsPass > 0) then some "has-ssl-passthrough-differs-from-hosts-in-items" else none

end HapVerif.C05Cnt
