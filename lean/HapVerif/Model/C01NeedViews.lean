/-!
View of what `converter.NeedFullSync` and its two helpers (pkg/converters/ingress/ingress.go) read, for their
TRANSLATION (Generated/CodeC01.lean): the default certificate the frontend was built with and the one just read, the
global ConfigMap data of the batch (`none` = nil map, `some k` = a content identifier).  Core-only.
-/
namespace HapVerif.C01Need

structure NeedView where
  frontCrtFile : String
  frontCrtHash : String
  dfltCrtFile : String
  dfltCrtHash : String
  gCur : Option Nat
  gNew : Option Nat
deriving DecidableEq, Repr

end HapVerif.C01Need
