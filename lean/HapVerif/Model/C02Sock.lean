import HapVerif.Model.C02
/-!
M-Sock: worker generations of HAProxy, the CLI connections they serve, and the socket client of the controller
(pkg/haproxy/socket/socket.go `sock`, created by pkg/haproxy/connections.go).  Core-only.

HAProxy side (trusted semantics): a reload starts a NEW worker that loads the files on disk; the former worker stops
listening but keeps serving the CLI connections it has already accepted (this is what
`connections.TrackCurrentInstance` relies on to talk to old instances).  So a connection is bound, for as long as it
stays open, to the generation that accepted it, and a command sent on it changes the tables of that generation only.

Controller side: `sock.Send` dials when it has no connection (`acquireConn`), sends the commands and closes the
connection unless the socket was created with keep-alive.  `connections.DynUpdate()` — the socket of the dynamic
updater — is created WITHOUT keep-alive (regenerated fact `c02DynUpdateNewSocket`, theorem `facts_c02_sock`).

Everything is generic in the table type `T` and the command type `K` (`apply : T → K → T`): the theorems of
`Props/C02Sock.lean` instantiate it with the server table of M-Dyn (`List Srv`, `Cmd`, `applyCmd`), the driver with
the wire-level tables below (`WTable`, `WCmd`, `applyW`).
-/
namespace HapVerif.C02Sock
open HapVerif.C02

/-! ### HAProxy: generations and connections -/

/-- the workers of one HAProxy: `old[g]` = the tables of former generation `g`, `cur` = the tables of the worker that
receives the traffic (generation `old.length`); `conns` = established CLI connections `(id, generation that accepted
it)` -/
structure Hap (T : Type) where
  old : List T := []
  cur : T
  conns : List (Nat × Nat) := []
  next : Nat := 0

variable {T K : Type}

/-- number of the generation that receives new connections -/
def Hap.newest (h : Hap T) : Nat := h.old.length

/-- the tables of generation `g` -/
def Hap.table (h : Hap T) (g : Nat) : Option T := if g = h.old.length then some h.cur else h.old[g]?

/-- the generation connection `c` is bound to -/
def Hap.bound (h : Hap T) (c : Nat) : Option Nat := (h.conns.find? (fun p => p.1 == c)).map (·.2)

/-- a new connection is accepted by the newest worker -/
def Hap.accept (h : Hap T) : Hap T × Nat :=
  ({ h with conns := (h.next, h.old.length) :: h.conns, next := h.next + 1 }, h.next)

def Hap.close (h : Hap T) (c : Nat) : Hap T := { h with conns := h.conns.filter (fun p => p.1 != c) }

/-- a command on connection `c` is executed by the generation the connection is bound to -/
def Hap.cmd (apply : T → K → T) (h : Hap T) (c : Nat) (k : K) : Hap T :=
  match h.bound c with
  | none => h
  | some g =>
    if g = h.old.length then { h with cur := apply h.cur k }
    else { h with old := h.old.modify g (fun t => apply t k) }

/-- `reload`: a new worker with the tables loaded from the files; the former one keeps its connections -/
def Hap.reload (h : Hap T) (loaded : T) : Hap T := { h with old := h.old ++ [h.cur], cur := loaded }

/-! ### the controller's socket client (`socket.sock`) -/

structure Client where
  keepalive : Bool
  conn : Option Nat := none
deriving Repr, DecidableEq

/-- `sock.Send(cmds…)`: `acquireConn` (dial iff there is no connection), the commands on that connection, `close()`
unless keep-alive.  (`prompt` has no effect on the tables and is left out; a kept connection is never broken by
HAProxy: the worker serves it until the client closes it.) -/
def Client.send (apply : T → K → T) (cl : Client) (h : Hap T) (cmds : List K) : Client × Hap T :=
  let hc : Hap T × Nat := match cl.conn with
    | some c => (h, c)
    | none => h.accept
  let h' := cmds.foldl (fun h k => h.cmd apply hc.2 k) hc.1
  if cl.keepalive then ({ cl with conn := some hc.2 }, h') else ({ cl with conn := none }, h'.close hc.2)

/-! ### one `HAProxyUpdate` -/

/-- HAProxy, the socket of the dynamic updater, and what the files on disk would load -/
structure World (T : Type) where
  hap : Hap T
  dyn : Client
  disk : T

/-- one `HAProxyUpdate`: the dynamic updater sends its batches (one `Send` each), the files are written
(`written` = what they load), and — when the update was not (fully) applied at run time — HAProxy is reloaded -/
structure Step (K T : Type) where
  batches : List (List K)
  written : T
  reload : Bool

def step (apply : T → K → T) (w : World T) (s : Step K T) : World T :=
  let p := s.batches.foldl (fun (p : Client × Hap T) b => p.1.send apply p.2 b) (w.dyn, w.hap)
  { hap := if s.reload then p.2.reload s.written else p.2, dyn := p.1, disk := s.written }

def run (apply : T → K → T) (w : World T) (steps : List (Step K T)) : World T := steps.foldl (step apply) w

/-! ### wire level: the tables of one worker and the runtime commands as HAProxy receives them -/

inductive WCmd
  | addr (be srv ip : String) (port : Nat)     -- `set server be/srv addr ip port port`
  | state (be srv : String) (st : SState)      -- `set server be/srv state ready|drain|maint`
  | weight (be srv : String) (w : Int)         -- `set server be/srv weight w`
  | setCrt (file id : String)                  -- `set ssl cert file <<payload` (transaction)
  | commitCrt (file : String)                  -- `commit ssl cert file`
  | nop                                        -- `prompt`, `show …`
deriving Repr, DecidableEq

/-- what one worker holds: servers per backend (file order), certificates in memory, open certificate transactions -/
structure WTable where
  srvs : List (String × List Srv) := []
  crts : List (String × String) := []
  pend : List (String × String) := []
deriving Repr, DecidableEq

/-- change the servers called `srv` of backend `be` -/
def updBe (t : List (String × List Srv)) (be srv : String) (f : Srv → Srv) : List (String × List Srv) :=
  t.map fun bl => if bl.1 = be then (bl.1, bl.2.map fun s => if s.name = srv then f s else s) else bl

def applyW (t : WTable) : WCmd → WTable
  | .addr be srv ip port => { t with srvs := updBe t.srvs be srv fun s => { s with ip := ip, port := port } }
  | .state be srv st => { t with srvs := updBe t.srvs be srv fun s => { s with state := st } }
  | .weight be srv w => { t with srvs := updBe t.srvs be srv fun s => { s with weight := w } }
  | .setCrt file id =>
    -- only a certificate the configuration references can be replaced
    if t.crts.any (fun p => p.1 == file) then { t with pend := (file, id) :: t.pend.filter (fun p => p.1 != file) } else t
  | .commitCrt file =>
    match t.pend.find? (fun p => p.1 == file) with
    | none => t
    | some p =>
      { t with crts := t.crts.map (fun q => if q.1 = file then (q.1, p.2) else q),
               pend := t.pend.filter (fun q => q.1 != file) }
  | .nop => t

/-- the three commands of `execEnableEndpoint`, in the order they are sent -/
def wireEnable (be n ip : String) (port : Nat) (w : Int) : List WCmd :=
  [.addr be n ip port, .state be n (if w > 0 then .ready else .drain), .weight be n w]

/-- the three commands of `execDisableEndpoint` -/
def wireDisable (be n : String) : List WCmd :=
  [.state be n .maint, .addr be n emptyIP emptyPort, .weight be n 0]

def wireOf (be : String) : Cmd → List WCmd
  | .enable n ip port w => wireEnable be n ip port w
  | .disable n => wireDisable be n

/-! ### Specification on two wire-level tables: the newest worker against the files -/

def insertS (x : String × String) : List (String × String) → List (String × String)
  | [] => [x]
  | y :: ys => if x.1 < y.1 then x :: y :: ys else y :: insertS x ys
def sortS (l : List (String × String)) : List (String × String) := l.foldl (fun acc x => insertS x acc) []

/-- `none` = the worker `run` behaves like a worker that has just loaded `disk`: the same backends, in every backend
the same observable servers (`C02.norm`: a server in maintenance is only a name), the same certificates -/
def tablesDiffer (run disk : WTable) : Option String :=
  if run.srvs.map (·.1) ≠ disk.srvs.map (·.1) then some "newest-worker-differs-from-disk-after-update" else
  if (run.srvs.zip disk.srvs).any (fun p => sortN (norm p.1.2) ≠ sortN (norm p.2.2)) then
    some "newest-worker-differs-from-disk-after-update" else
  if sortS run.crts ≠ sortS disk.crts then some "newest-worker-certificate-differs-from-disk" else none

/-! ### replay of an observed event trace (driver) -/

inductive Ev
  | accept (c : Nat)
  | close (c : Nat)
  | cmd (c : Nat) (k : WCmd)
  | refused (c : Nat)          -- the next command on `c` is answered with an error and not executed (fault)
  | reload (loaded : WTable)
  | reloadFailed
deriving Repr

/-- state of the replay: HAProxy, plus what the discipline of the code as it is (keep-alive off) excludes:
`stale` = runtime commands executed by a former worker, `across` = connections that were open at a reload,
`badId` = a connection id that is not the one the model hands out / an event on an unknown connection -/
structure Replay where
  hap : Hap WTable
  skip : List Nat := []
  stale : Nat := 0
  across : Nat := 0
  badId : Bool := false
  cmds : Nat := 0               -- runtime commands executed
  cmdsBeforeReload : Bool := false
  reuse : Bool := false         -- a runtime command was executed after a reload that followed another one

def WCmd.isRuntime : WCmd → Bool
  | .nop => false
  | _ => true

def Replay.ev (r : Replay) : Ev → Replay
  | .accept c =>
    let (h, id) := r.hap.accept
    { r with hap := h, badId := r.badId || id != c }
  | .close c => { r with hap := r.hap.close c, badId := r.badId || (r.hap.bound c).isNone }
  | .refused c => { r with skip := c :: r.skip }
  | .cmd c k =>
    if r.skip.contains c then { r with skip := r.skip.erase c } else
    match r.hap.bound c with
    | none => { r with badId := true }
    | some g =>
      let rt := k.isRuntime
      { r with hap := r.hap.cmd applyW c k,
               stale := if rt && g != r.hap.newest then r.stale + 1 else r.stale,
               cmds := if rt then r.cmds + 1 else r.cmds,
               reuse := r.reuse || (rt && r.cmdsBeforeReload && r.hap.newest ≥ 2) }
  | .reload t =>
    { r with hap := r.hap.reload t, across := r.across + r.hap.conns.length,
             cmdsBeforeReload := r.cmdsBeforeReload || r.cmds > 0 }
  | .reloadFailed => r

end HapVerif.C02Sock
