/-
C01 — incremental (partial) resync converges to the configuration of a full sync.  Core-only.

M-Tracker  : pkg/converters/tracker/tracker.go as an undirected edge list over typed nodes
             (`track`, `queryLinks … remove`, `clearLinks`) plus a mirror of the Go recursion
             (`goUpdate`, `goRemoveRef` over directed half edges, with fuel) used for the
             termination argument and cross-checked against the edge-list model on every run.
M-Sync     : the TRACKING CALLS and the control flow they depend on of
             pkg/converters/ingress/ingress.go (`syncFull`, `syncPartial`, `trackAddedIngress`,
             `syncIngressHTTP`, `addDefaultHostBackend`, `addHost`, `addBackendWithClass`, `addTLS`,
             `readIngressClass`, `addEndpoints` drain-support pod tracking) and of the watchers
             (pkg/controller/reconciler/watchers.go) that build the batch.
             Items (hosts, backends) carry a *trace*: the ordered list of touches, each with the
             declaring ingress object and the objects read for it.  "An item's content is a
             function of its trace" is the decomposition abstraction (modelling assumption,
             validated end-to-end by the long-lived-vs-fresh oracle of the harness).
Not modelled (differentially tested only, the driver abstains): TCP-service ingresses, annotations
that track (auth-*, oauth, ssl-passthrough, redirect-to, path-type, header match, cert-signer),
cross-namespace names, `file://` secrets, the default-backend option, Gateway API.
-/
namespace HapVerif.C01

/-! ## M-Tracker -/
section Tracker
variable {α : Type} [DecidableEq α]

/-- the tracker: undirected edges; `(a, b)` stands for `a ↔ b` -/
abbrev Tr (α : Type) := List (α × α)

/-- `TrackRefs(left, right)` -/
def track (a b : α) (t : Tr α) : Tr α := (a, b) :: t

/-- `ClearLinks()` -/
def clearLinks : Tr α := []

def touches (S : List α) (e : α × α) : Bool := decide (e.1 ∈ S) || decide (e.2 ∈ S)

/-- both ends of every edge -/
def ends (t : Tr α) : List α := t.flatMap fun e => [e.1, e.2]

/-- Sweep: move every edge that touches the frontier out of the edge list and add its ends to
the frontier, until no edge touches the frontier.  Each round removes at least one edge, so
`t.length + 1` rounds always suffice (`sweep_closed`). Returns (remaining edges, frontier). -/
def sweep : Nat → Tr α → List α → Tr α × List α
  | 0, t, fr => (t, fr)
  | f + 1, t, fr =>
    match t.filter (touches fr) with
    | [] => (t, fr)
    | h :: hs => sweep f (t.filter fun e => !touches fr e) (fr ++ ends (h :: hs))

def dedup : List α → List α
  | [] => []
  | a :: l => if a ∈ dedup l then dedup l else a :: dedup l

/-- everything connected to a seed (seeds included) -/
def reach (t : Tr α) (seeds : List α) : List α := (sweep (t.length + 1) t seeds).2

/-- edges left after the components of the seeds are removed -/
def rest (t : Tr α) (seeds : List α) : Tr α := (sweep (t.length + 1) t seeds).1

/-- `QueryLinks(seeds, _)` output: every node reachable from a seed in ≥ 1 step, i.e. the nodes
(with at least one edge) of the connected components of the seeds -/
def queryOut (t : Tr α) (seeds : List α) : List α := dedup ((ends t).filter (· ∈ reach t seeds))

/-- `QueryLinks(seeds, removeMatches)` -/
def queryLinks (t : Tr α) (seeds : List α) (remove : Bool) : List α × Tr α :=
  (queryOut t seeds, if remove then rest t seeds else t)

/-! ### mirror of the Go data structure and recursion

`tracking[ctx][name]` is a set of refs: directed half edges `(key, ref)`; `TrackRefs` adds both
directions.  Fuel bounds the recursion DEPTH (it is passed unchanged to siblings). -/

abbrev Half (α : Type) := List (α × α)

def goTrack (a b : α) (d : Half α) : Half α := (a, b) :: (b, a) :: d

def refsOf (d : Half α) (k : α) : List α := (d.filter (·.1 = k)).map (·.2)

/-- `updateOutput(ctx, namelist)` of QueryLinks; `none` = out of fuel -/
def goUpdate : Nat → List α → Half α → List α → Option (List α)
  | 0, _, _, _ => none
  | f + 1, names, d, out =>
    names.foldlM (fun out name =>
      (refsOf d name).foldlM (fun out ref =>
        if ref ∈ out then some out else goUpdate f [ref] d (ref :: out)) out) out

/-- `removeRef(ctx, name)`; `none` = out of fuel -/
def goRemoveRef : Nat → α → Half α → Option (Half α)
  | 0, _, _ => none
  | f + 1, name, d =>
    (refsOf d name).foldlM (fun d ref => goRemoveRef f ref d) (d.filter (·.1 ≠ name))

/-- `QueryLinks` as the Go code runs it -/
def goQuery (d : Half α) (seeds : List α) (remove : Bool) : Option (List α × Half α) := do
  let out ← goUpdate (d.length + 1) seeds d []
  if remove then
    let d' ← out.foldlM (fun d n => goRemoveRef (d.length + 1) n d) d
    pure (out, d')
  else pure (out, d)

end Tracker

/-! ## the cluster -/

structure PathDecl where
  path : String
  ptype : String        -- "Exact" | "Prefix" | anything else (ImplementationSpecific / nil)
  svc : String
  port : String
deriving DecidableEq, Repr, Inhabited

structure Rule where
  host : String
  paths : List PathDecl
deriving DecidableEq, Repr, Inhabited

structure TlsDecl where
  hosts : List String
  secret : String
deriving DecidableEq, Repr, Inhabited

structure Ingress where
  ns : String
  name : String
  created : Nat
  classAnn : Option String := none      -- kubernetes.io/ingress.class
  className : Option String := none     -- spec.ingressClassName
  ann : List (String × String) := []
  rules : List Rule := []
  tls : List TlsDecl := []
  defBackend : Option (String × String) := none
deriving DecidableEq, Repr, Inhabited

def Ingress.key (i : Ingress) : String := i.ns ++ "/" ++ i.name

structure SvcPort where
  name : String
  port : Nat
  target : String        -- TargetPort.String()
deriving DecidableEq, Repr, Inhabited

structure Service where
  key : String
  ports : List SvcPort
  ann : List (String × String) := []
deriving DecidableEq, Repr, Inhabited

structure Endpoints where
  key : String
  ready : List (String × String)       -- (ip, pod)
  notReady : List (String × String)
  ports : List (String × Nat)          -- (name, numeric target) snapshot of the service ports
deriving DecidableEq, Repr, Inhabited

structure Secret where
  key : String
  kind : String
  version : Nat
deriving DecidableEq, Repr, Inhabited

structure Pod where
  key : String
  ip : String
  labels : List (String × String)
  term : Bool
deriving DecidableEq, Repr, Inhabited

structure World where
  ings : List Ingress := []
  svcs : List Service := []
  eps : List Endpoints := []
  secs : List Secret := []
  clss : List (String × String) := []            -- name ↦ spec.controller
  pods : List Pod := []
  cm : Option (List (String × String)) := none   -- data of the global ConfigMap
deriving Repr, Inhabited

def ourController : String := "haproxy-ingress.github.io/controller"
def ourClass : String := "haproxy"
def defaultHost : String := "<default>"

def World.findIng (w : World) (k : String) : Option Ingress := w.ings.find? (·.key = k)
def World.findSvc (w : World) (k : String) : Option Service := w.svcs.find? (·.key = k)
def World.findEp (w : World) (k : String) : Option Endpoints := w.eps.find? (·.key = k)
def World.findSec (w : World) (k : String) : Option Secret := w.secs.find? (·.key = k)
def World.findCls (w : World) (k : String) : Option String := (w.clss.find? (·.1 = k)).map (·.2)
def World.findPod (w : World) (k : String) : Option Pod := w.pods.find? (·.key = k)

def lookupKV (l : List (String × String)) (k : String) : Option String := (l.find? (·.1 = k)).map (·.2)

/-- `drain-support` of the global config (mapper `.Bool()`) -/
def World.drain (w : World) : Bool :=
  match w.cm with
  | some d => lookupKV d "drain-support" == some "true"
  | none => false

/-- `IsValidIngress` with `--ingress-class=haproxy`, no `--watch-ingress-without-class`, no
`--ingress-class-precedence` -/
def World.valid (w : World) (i : Ingress) : Bool :=
  match i.classAnn with
  | some a => a == ourClass
  | none =>
    match i.className with
    | some c => w.findCls c == some ourController
    | none => false

def ingLE (a b : Ingress) : Bool :=
  a.created < b.created || (a.created == b.created && !(decide (b.key < a.key)))

/-- `GetIngressList` + `sortIngress` -/
def World.validSorted (w : World) : List Ingress := (w.ings.filter w.valid).mergeSort ingLE

/-! ## typed tracker nodes -/

inductive Kind
  | ing | cls | cm | svc | ep | sec | pod | tcp | host | back | user | acme
deriving DecidableEq, Repr, Inhabited

structure Node where
  kind : Kind
  name : String
deriving DecidableEq, Repr, Inhabited

/-- the value of a kubernetes object as read through the cache -/
inductive ObjVal
  | svc (s : Option Service)
  | ep (e : Option Endpoints)
  | sec (s : Option Secret)
  | cls (c : Option String)
  | pod (p : Option Pod)
  | other
deriving DecidableEq, Repr, Inhabited

def World.read (w : World) (n : Node) : ObjVal :=
  match n.kind with
  | .svc => .svc (w.findSvc n.name)
  | .ep => .ep (w.findEp n.name)
  | .sec => .sec (w.findSec n.name)
  | .cls => .cls (w.findCls n.name)
  | .pod => .pod (w.findPod n.name)
  | _ => .other

/-! ## controller state -/

/-- one touch of an item: who declared it (the object that was read), what was done, and the
objects that were read to do it -/
structure Touch where
  ing : Ingress
  what : String
  reads : List (Node × ObjVal) := []
deriving DecidableEq, Repr, Inhabited

structure HPath where
  path : String
  mtch : String
  back : String
deriving DecidableEq, Repr, Inhabited

structure Host where
  name : String
  paths : List HPath := []
  trace : List Touch := []
deriving DecidableEq, Repr, Inhabited

structure Back where
  id : String
  trace : List Touch := []
deriving DecidableEq, Repr, Inhabited

structure St where
  tr : Tr Node := []
  hosts : List Host := []
  backs : List Back := []
deriving Repr, Inhabited

def St.trackE (st : St) (a b : Node) : St := { st with tr := track a b st.tr }

def St.findHost (st : St) (h : String) : Option Host := st.hosts.find? (·.name = h)
def St.hostLive (st : St) (h : String) : Bool := (st.findHost h).isSome
def St.hostHasPath (st : St) (h path mtch : String) : Bool :=
  (st.findHost h).any fun x => x.paths.any fun p => p.path = path ∧ p.mtch = mtch
def St.findBack (st : St) (id : String) : Option Back := st.backs.find? (·.id = id)
def St.backLive (st : St) (id : String) : Bool := (st.findBack id).isSome

def updHost (f : Host → Host) (h : String) : List Host → List Host
  | [] => [f { name := h }]
  | x :: l => if x.name = h then f x :: l else x :: updHost f h l

def updBack (f : Back → Back) (id : String) : List Back → List Back
  | [] => [f { id := id }]
  | x :: l => if x.id = id then f x :: l else x :: updBack f id l

/-- `Hosts().AcquireHost` -/
def St.acquireHost (st : St) (h : String) : St :=
  { st with hosts := updHost id h st.hosts }
def St.touchHost (st : St) (h : String) (t : Touch) : St :=
  { st with hosts := updHost (fun x => { x with trace := x.trace ++ [t] }) h st.hosts }
def St.addHostPath (st : St) (h : String) (p : HPath) : St :=
  { st with hosts := updHost (fun x => { x with paths := x.paths ++ [p] }) h st.hosts }
/-- `Backends().AcquireBackend` + the touch -/
def St.touchBack (st : St) (id : String) (t : Touch) : St :=
  { st with backs := updBack (fun x => { x with trace := x.trace ++ [t] }) id st.backs }

/-! ## one ingress, flattened into declarations (processing order of `syncIngressHTTP`) -/

inductive DK
  | defBack (svc port : String)     -- spec.defaultBackend → addDefaultHostBackend
  | ruleHost                        -- readIngressClass + addHost of one rule
  | path (p : PathDecl)             -- one path of the rule
  | tlsHost (secret : String)       -- one host of one tls block: addHost + addTLS
deriving DecidableEq, Repr, Inhabited

structure Decl where
  ing : Ingress
  host : String
  k : DK
deriving DecidableEq, Repr, Inhabited

def normHost (h : String) : String := if h = "" then defaultHost else h

def declsOf (i : Ingress) : List Decl :=
  (match i.defBackend with
    | some (s, p) => [{ ing := i, host := defaultHost, k := .defBack s p }]
    | none => [])
  ++ i.rules.flatMap (fun r =>
      { ing := i, host := normHost r.host, k := .ruleHost } ::
        r.paths.map fun p => { ing := i, host := normHost r.host, k := .path p })
  ++ i.tls.flatMap (fun t => t.hosts.map fun h => { ing := i, host := h, k := .tlsHost t.secret })

def atoi (s : String) : Nat :=
  if s.isEmpty then 0 else if s.all Char.isDigit then s.toNat! else 0

/-- `backendOf` of the world + `readServiceNamePort`: the port text the converter sees -/
def ingPort (p : String) : String :=
  let n := atoi p
  if n > 0 then toString n else if p = "" then "0" else p

/-- `convutils.FindServicePort` -/
def findServicePort (s : Service) (port : String) : Option SvcPort :=
  match s.ports.find? (fun p => p.name = port ∨ p.target = port) with
  | some p => some p
  | none =>
    if port.isEmpty ∨ ¬ port.all Char.isDigit then none
    else s.ports.find? (fun p => p.port = port.toNat!)

inductive Resolve
  | noSvc
  | noPort (s : Service)
  | ok (s : Service) (target : String)
deriving Repr

def resolve (w : World) (ns svc port : String) : Resolve :=
  match w.findSvc (ns ++ "/" ++ svc) with
  | none => .noSvc
  | some s =>
    match findServicePort s (ingPort port) with
    | none => .noPort s
    | some p => .ok s p.target

def backID (ns svc target : String) : String := ns ++ "_" ++ svc ++ "_" ++ target

def matchOf (ptype : String) : String :=
  if ptype = "Exact" then "exact" else if ptype = "Prefix" then "prefix" else "begin"

/-- `GetTLSSecretPath` name resolution (`buildResourceName`, cross-namespace disabled) -/
def secretKey (ns secret : String) : Option String :=
  match secret.splitOn "/" with
  | [n] => some (ns ++ "/" ++ n)
  | [a, n] => if a = "" then some (ns ++ "/" ++ n) else if a = ns then some (a ++ "/" ++ n) else none
  | _ => none

/-- `addEndpoints` in drain-support mode: `GetTerminatingPods` tracks every pod matched by the
service selector (`app=<service name>`) -/
def trackPods (w : World) (svcName id : String) (st : St) : St :=
  if w.drain then
    (w.pods.filter fun p => lookupKV p.labels "app" == some svcName).foldl
      (fun st p => st.trackE ⟨.back, id⟩ ⟨.pod, p.key⟩) st
  else st

def podReads (w : World) (svcName : String) : List (Node × ObjVal) :=
  if w.drain then
    (w.pods.filter fun p => lookupKV p.labels "app" == some svcName).map
      fun p => (⟨.pod, p.key⟩, .pod (some p))
  else []

/-- `addBackendWithClass` after the duplicate check: tracking of service/endpoints → host, the
service and port resolution, `AcquireBackend`, ingress → backend. Returns the new state, the
reads and (on success) the backend id. -/
def addBackend (w : World) (d : Decl) (svc port : String) (st : St) :
    St × List (Node × ObjVal) × Option String :=
  let hN : Node := ⟨.host, d.host⟩
  let sk := d.ing.ns ++ "/" ++ svc
  let st := (st.trackE ⟨.svc, sk⟩ hN).trackE ⟨.ep, sk⟩ hN
  match resolve w d.ing.ns svc port with
  | .noSvc => (st, [(⟨.svc, sk⟩, .svc none)], none)
  | .noPort s => (st, [(⟨.svc, sk⟩, .svc (some s))], none)
  | .ok s target =>
    let id := backID d.ing.ns svc target
    let st := st.trackE ⟨.ing, d.ing.key⟩ ⟨.back, id⟩
    let st := trackPods w svc id st
    (st, [(⟨.svc, sk⟩, .svc (some s)), (⟨.ep, sk⟩, .ep (w.findEp sk))] ++ podReads w svc, some id)

/-- one declaration of `syncIngressHTTP` -/
def procDecl (w : World) (st : St) (d : Decl) : St :=
  let iN : Node := ⟨.ing, d.ing.key⟩
  let hN : Node := ⟨.host, d.host⟩
  match d.k with
  | .ruleHost =>
    match d.ing.className with
    | some c =>
      (((st.trackE ⟨.cls, c⟩ iN).acquireHost d.host).trackE iN hN).touchHost d.host
        { ing := d.ing, what := "host", reads := [(⟨.cls, c⟩, .cls (w.findCls c))] }
    | none => ((st.acquireHost d.host).trackE iN hN).touchHost d.host { ing := d.ing, what := "host" }
  | .tlsHost secret =>
    let st := (st.acquireHost d.host).trackE iN hN
    if secret = "" then st.touchHost d.host { ing := d.ing, what := "tls-default" }
    else
      match secretKey d.ing.ns secret with
      | none => st.touchHost d.host { ing := d.ing, what := "tls-badname:" ++ secret }
      | some k =>
        (st.trackE iN ⟨.sec, k⟩).touchHost d.host
          { ing := d.ing, what := "tls:" ++ k, reads := [(⟨.sec, k⟩, .sec (w.findSec k))] }
  | .path p =>
    let uri := if p.path = "" then "/" else p.path
    let m := matchOf p.ptype
    if st.hostHasPath d.host uri m then
      -- "skipping redeclared path": nothing is tracked
      st.touchHost d.host { ing := d.ing, what := "skip:" ++ uri ++ ":" ++ m }
    else
      match addBackend w d p.svc p.port st with
      | (st, reads, none) =>
        st.touchHost d.host { ing := d.ing, what := "nobackend:" ++ uri ++ ":" ++ m, reads := reads }
      | (st, reads, some id) =>
        ((st.touchBack id { ing := d.ing, what := "path:" ++ d.host ++ uri ++ ":" ++ m, reads := reads }).addHostPath
            d.host ⟨uri, m, id⟩).touchHost d.host
          { ing := d.ing, what := "path:" ++ uri ++ ":" ++ m ++ ":" ++ id, reads := reads }
  | .defBack svc port =>
    if st.hostHasPath defaultHost "/" "begin" then
      -- the loser still tracks the host (a failed default backend leaves no touch: the host content
      -- does not depend on it; what it read is tracked)
      st.trackE iN hN
    else
      match addBackend w d svc port st with
      | (st, _, none) => st.trackE iN ⟨.svc, d.ing.ns ++ "/" ++ svc⟩
      | (st, reads, some id) =>
        ((((st.touchBack id { ing := d.ing, what := "path:" ++ defaultHost ++ "/:begin", reads := reads }).acquireHost
            defaultHost).trackE iN hN).addHostPath defaultHost ⟨"/", "begin", id⟩).touchHost defaultHost
          { ing := d.ing, what := "def:" ++ id, reads := reads }

/-- `syncIngress` -/
def syncIngress (w : World) (st : St) (i : Ingress) : St := (declsOf i).foldl (procDecl w) st

/-- `syncFull` after `ClearLinks` + `haproxy.Clear` -/
def syncFull (w : World) : St := w.validSorted.foldl (syncIngress w) {}

/-! ## the batch of changes and the partial sync -/

structure Batch where
  links : List Node := []
  add : List Ingress := []       -- objects carried by the events
  upd : List Ingress := []
  del : List String := []
  full : Bool := false           -- NeedFullSync of the handlers (IngressClass events)
  cmNew : Option (List (String × String)) := none
deriving Repr, Inhabited

/-- `converter.findBackend` of trackAddedIngress: the LIVE backend a declaration resolves to -/
def findLiveBack (w : World) (st : St) (ns svc port : String) : Option String :=
  match resolve w ns svc port with
  | .ok _ target => if st.backLive (backID ns svc target) then some (backID ns svc target) else none
  | _ => none

/-- `trackAddedIngress` for one added / updated object -/
def preTrackIng (w : World) (st : St) (i : Ingress) : St :=
  let iN : Node := ⟨.ing, i.key⟩
  let st := match i.defBackend with
    | some (s, p) =>
      match findLiveBack w st i.ns s p with
      | some id => st.trackE iN ⟨.back, id⟩
      | none => st
    | none => st
  let st := if i.defBackend.isSome && st.hostLive defaultHost then st.trackE iN ⟨.host, defaultHost⟩ else st
  let st := i.tls.foldl (fun st t => t.hosts.foldl (fun st h => st.trackE iN ⟨.host, h⟩) st) st
  i.rules.foldl (fun st r =>
    r.paths.foldl (fun st p =>
      match findLiveBack w st i.ns p.svc p.port with
      | some id => st.trackE iN ⟨.back, id⟩
      | none => st) (st.trackE iN ⟨.host, normHost r.host⟩)) st

def preTrack (w : World) (b : Batch) (st : St) : St := (b.add ++ b.upd).foldl (preTrackIng w) st

def namesOf (k : Kind) (l : List Node) : List String := (l.filter (·.kind = k)).map (·.name)

/-- keys of the ingresses `syncPartial` reads again: dirty − IngressesDel + IngressesUpd + IngressesAdd -/
def resyncKeys (b : Batch) (dirtyIngs : List String) : List String :=
  (dirtyIngs.filter (· ∉ b.del)) ++ b.upd.map (·.key) ++ b.add.map (·.key)

/-- the state after pre-tracking and removal of the dirty items -/
def afterRemove (w : World) (b : Batch) (st : St) : St × List Node :=
  let st1 := preTrack w b st
  let (out, tr') := queryLinks st1.tr b.links true
  ({ tr := tr', hosts := st1.hosts.filter (fun h => h.name ∉ namesOf .host out),
     backs := st1.backs.filter (fun x => x.id ∉ namesOf .back out) }, out)

/-- `syncPartial`: the re-synced list is read again from the cache (exists ∧ valid) and sorted -/
def syncPartial (w : World) (b : Batch) (st : St) : St :=
  let (st2, out) := afterRemove w b st
  let keys := resyncKeys b (namesOf .ing out)
  (w.validSorted.filter (·.key ∈ keys)).foldl (syncIngress w) st2

/-- one reconciliation on the cluster state `w` (the state at the time of the sync) -/
def step (w : World) (b : Batch) (st : St) : St :=
  if b.full then syncFull w else syncPartial w b st

/-! ## side conditions (decidable on a run) -/

/-- backends that survive the removal (not dirty) and are touched by a re-synced ingress:
a *late reference* (root cause of finding 1) -/
def lateBacks (w : World) (b : Batch) (st : St) : List String :=
  let st2 := (afterRemove w b st).1
  let st3 := syncPartial w b st
  (st2.backs.filter fun x => (st3.findBack x.id).any fun y => y.trace.length ≠ x.trace.length).map (·.id)

/-- the same for hosts -/
def lateHosts (w : World) (b : Batch) (st : St) : List String :=
  let st2 := (afterRemove w b st).1
  let st3 := syncPartial w b st
  (st2.hosts.filter fun x => (st3.findHost x.name).any fun y => y.trace.length ≠ x.trace.length).map (·.name)

/-- `NoLateRef`: no re-synced ingress touches a surviving item -/
def noLateRef (w : World) (b : Batch) (st : St) : Bool :=
  (lateBacks w b st).isEmpty && (lateHosts w b st).isEmpty

/-! ## watchers: operations on the cluster and the batch they produce -/

inductive Op
  | ingSet (i : Ingress)
  | ingDel (key : String)
  | svcSet (s : Service)
  | svcDel (key : String)
  | epSet (key : String) (ready notReady : List (String × String))
  | epDel (key : String)
  | secSet (s : Secret)
  | secDel (key : String)
  | clsSet (name ctrl : String)
  | clsDel (name : String)
  | cmSet (data : List (String × String))
  | podSet (p : Pod)
  | podDel (key : String)
deriving Repr, Inhabited

def addLink (b : Batch) (n : Node) : Batch := if n ∈ b.links then b else { b with links := b.links ++ [n] }

def replaceBy {β : Type} (key : β → String) (x : β) : List β → List β
  | [] => [x]
  | y :: l => if key y = key x then x :: l else y :: replaceBy key x l

/-- numeric target of a service port in the world's Endpoints objects (`NamedTargets`) -/
def numericTarget (t : String) : Nat :=
  let n := atoi t
  if n > 0 then n else if t = "web" then 8080 else if t = "adm" then 9090 else if t = "alt" then 8081 else 0

/-- apply one operation: the new cluster and the events as the real predicates/handlers see them
(validity is evaluated on the cluster AFTER the operation, like the informer cache) -/
def applyOp (wb : World × Batch) (op : Op) : World × Batch :=
  let (w, b) := wb
  match op with
  | .ingSet i0 =>
    match w.findIng i0.key with
    | none =>
      let w' := { w with ings := w.ings ++ [i0] }
      if w'.valid i0 then (w', { addLink b ⟨.ing, i0.key⟩ with add := b.add ++ [i0] }) else (w', b)
    | some old =>
      let i := { i0 with created := old.created }
      let w' := { w with ings := replaceBy Ingress.key i w.ings }
      let ov := w'.valid old
      let nv := w'.valid i
      if ov || nv then
        let b := addLink b ⟨.ing, i.key⟩
        if ov && nv then (w', { b with upd := b.upd ++ [i] })
        else if nv then (w', { b with add := b.add ++ [i] })
        else (w', { b with del := b.del ++ [old.key] })
      else (w', b)
  | .ingDel k =>
    match w.findIng k with
    | none => (w, b)
    | some old =>
      let w' := { w with ings := w.ings.filter (·.key ≠ k) }
      if w'.valid old then (w', { addLink b ⟨.ing, k⟩ with del := b.del ++ [k] }) else (w', b)
  | .svcSet s => ({ w with svcs := replaceBy Service.key s w.svcs }, addLink b ⟨.svc, s.key⟩)
  | .svcDel k =>
    match w.findSvc k with
    | none => (w, b)
    | some _ =>
      let b := addLink b ⟨.svc, k⟩
      let b := if (w.findEp k).isSome then addLink b ⟨.ep, k⟩ else b
      ({ w with svcs := w.svcs.filter (·.key ≠ k), eps := w.eps.filter (·.key ≠ k) }, b)
  | .epSet k ready notReady =>
    let ports := match w.findSvc k with
      | some s => s.ports.map fun p => (p.name, numericTarget p.target)
      | none => []
    let e : Endpoints := if ready.isEmpty && notReady.isEmpty then ⟨k, [], [], []⟩ else ⟨k, ready, notReady, ports⟩
    let w' := { w with eps := replaceBy Endpoints.key e w.eps }
    match w.findEp k with
    | none => (w', addLink b ⟨.ep, k⟩)
    | some old => if old = e then (w', b) else (w', addLink b ⟨.ep, k⟩)
  | .epDel k =>
    match w.findEp k with
    | none => (w, b)
    | some _ => ({ w with eps := w.eps.filter (·.key ≠ k) }, addLink b ⟨.ep, k⟩)
  | .secSet s => ({ w with secs := replaceBy Secret.key s w.secs }, addLink b ⟨.sec, s.key⟩)
  | .secDel k =>
    match w.findSec k with
    | none => (w, b)
    | some _ => ({ w with secs := w.secs.filter (·.key ≠ k) }, addLink b ⟨.sec, k⟩)
  | .clsSet n c =>
    let w' := { w with clss := replaceBy (·.1) (n, c) w.clss }
    let oldValid := w.findCls n == some ourController
    let newValid := c == ourController
    if oldValid || newValid then (w', { addLink b ⟨.cls, n⟩ with full := true }) else (w', b)
  | .clsDel n =>
    match w.findCls n with
    | none => (w, b)
    | some c =>
      let w' := { w with clss := w.clss.filter (·.1 ≠ n) }
      if c == ourController then (w', { addLink b ⟨.cls, n⟩ with full := true }) else (w', b)
  | .cmSet d =>
    ({ w with cm := some d }, { addLink b ⟨.cm, "ingress-controller/haproxy-ingress"⟩ with cmNew := some d })
  | .podSet p =>
    let w' := { w with pods := replaceBy Pod.key p w.pods }
    match w.findPod p.key with
    | none => (w', b)                                         -- create events are filtered
    | some old => if old.term || p.term then (w', addLink b ⟨.pod, p.key⟩) else (w', b)
  | .podDel k =>
    match w.findPod k with
    | none => (w, b)
    | some _ => ({ w with pods := w.pods.filter (·.key ≠ k) }, addLink b ⟨.pod, k⟩)

/-- the controller across reconciliations -/
structure Ctl where
  st : St := {}
  first : Bool := true                                 -- the first sync is a full sync (default certificate)
  cmCur : Option (List (String × String)) := none      -- GlobalConfigMapDataCur
deriving Repr, Inhabited

/-- does this reconciliation run `syncFull`? (`converters.Sync`: NeedFullSync of the batch, the
default certificate on the first run, a changed global ConfigMap) -/
def needFull (c : Ctl) (b : Batch) : Bool :=
  c.first || b.full || (match b.cmNew with | some n => c.cmCur ≠ some n | none => false)

def reconcile (w : World) (b : Batch) (c : Ctl) : Ctl :=
  { st := step w { b with full := needFull c b } c.st, first := false,
    cmCur := match b.cmNew with | some n => some n | none => c.cmCur }

/-- a whole history: batches of operations, one reconciliation after each batch -/
def runHistory (batches : List (List Op)) : World × Ctl :=
  batches.foldl (fun (wc : World × Ctl) ops =>
    let (w', b) := ops.foldl applyOp (wc.1, {})
    (w', reconcile w' b wc.2)) ({}, {})

end HapVerif.C01
