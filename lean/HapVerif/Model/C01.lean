/- Model for C01: not written yet -/
namespace HapVerif.C01
end HapVerif.C01
