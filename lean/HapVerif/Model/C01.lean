/-
C01 — incremental (partial) resync converges to the configuration of a full sync.  Core-only.

M-Tracker  : pkg/converters/tracker/tracker.go as an undirected edge list over typed nodes
             (`track`, `queryLinks … remove`, `clearLinks`) plus a mirror of the Go recursion
             (`goUpdate`, `goRemoveRef` over directed half edges, with fuel) used for the
             termination argument and cross-checked against the edge-list model on every run.
M-Sync     : the TRACKING CALLS and the control flow they depend on of
             pkg/converters/ingress/ingress.go (`syncFull`, `syncPartial`, `trackAddedIngress`,
             `syncIngressHTTP`, `addDefaultHostBackend`, `addHost`, `addBackendWithClass`, `addTLS`,
             `readIngressClass`, `addEndpoints` drain-support pod tracking) and of the watchers
             (pkg/controller/reconciler/watchers.go) that build the batch.
             Items (hosts, backends) carry a *trace*: the ordered list of touches, each with the
             declaring ingress object and the objects read for it.  "An item's content is a
             function of its trace" is the decomposition abstraction (modelling assumption,
             validated end-to-end by the long-lived-vs-fresh oracle of the harness).
             The controller option `--default-backend-service=<ns>/<svc>` (`syncDefaultBackend`) is modelled
             as ONE MORE DECLARATION SOURCE in the existing structures: the converter's pseudo source
             `defaultBackSource` (`annotations.Source{Name: "<default-backend>", Type: Ingress}`) is an
             `Ingress` value flagged `pseudo` (`optIngress`) that is a member of the cluster from the start,
             is never touched by an event, sorts first, and declares only a default backend whose port is
             "the first port of the service" (`firstPort`). Its declaration runs the `syncDefaultBackend`
             branch of `outcome` (pseudo ↔ default host tracked first and unconditionally, then
             `addBackend`; no host is acquired, no path added). Because it is an ordinary member of
             `World.ings`, `syncFull` (called first: lowest sort key), the dirty closure, the re-read step of
             `syncPartial` (a dirty name that the cache does not know and equals
             `defaultBackSource.FullName()` → `syncDefaultBackend`, before the sorted ingress list) and every
             theorem of Props/C01 (invariant, closure completeness, partial = full) cover it unchanged.
Not modelled (differentially tested only, the driver abstains): TCP-service ingresses, annotations
that track (auth-*, oauth, ssl-passthrough, redirect-to, path-type, header match, cert-signer),
cross-namespace names, `file://` secrets, Gateway API.
-/
namespace HapVerif.C01

/-! ## M-Tracker -/
section Tracker
variable {α : Type} [DecidableEq α]

/-- the tracker: undirected edges; `(a, b)` stands for `a ↔ b` -/
abbrev Tr (α : Type) := List (α × α)

/-- `TrackRefs(left, right)` -/
def track (a b : α) (t : Tr α) : Tr α := (a, b) :: t

/-- `ClearLinks()` -/
def clearLinks : Tr α := []

def touches (S : List α) (e : α × α) : Bool := decide (e.1 ∈ S) || decide (e.2 ∈ S)

/-- both ends of every edge -/
def ends (t : Tr α) : List α := t.flatMap fun e => [e.1, e.2]

/-- Sweep: move every edge that touches the frontier out of the edge list and add its ends to
the frontier, until no edge touches the frontier.  Each round removes at least one edge, so
`t.length + 1` rounds always suffice (`sweep_closed`). Returns (remaining edges, frontier). -/
def sweep : Nat → Tr α → List α → Tr α × List α
  | 0, t, fr => (t, fr)
  | f + 1, t, fr =>
    match t.filter (touches fr) with
    | [] => (t, fr)
    | h :: hs => sweep f (t.filter fun e => !touches fr e) (fr ++ ends (h :: hs))

def dedup : List α → List α
  | [] => []
  | a :: l => if a ∈ dedup l then dedup l else a :: dedup l

/-- everything connected to a seed (seeds included) -/
def reach (t : Tr α) (seeds : List α) : List α := (sweep (t.length + 1) t seeds).2

/-- edges left after the components of the seeds are removed -/
def rest (t : Tr α) (seeds : List α) : Tr α := (sweep (t.length + 1) t seeds).1

/-- `QueryLinks(seeds, _)` output: every node reachable from a seed in ≥ 1 step, i.e. the nodes
(with at least one edge) of the connected components of the seeds -/
def queryOut (t : Tr α) (seeds : List α) : List α := dedup ((ends t).filter (· ∈ reach t seeds))

/-- `QueryLinks(seeds, removeMatches)` -/
def queryLinks (t : Tr α) (seeds : List α) (remove : Bool) : List α × Tr α :=
  (queryOut t seeds, if remove then rest t seeds else t)

/-! ### mirror of the Go data structure and recursion

`tracking[ctx][name]` is a set of refs: directed half edges `(key, ref)`; `TrackRefs` adds both
directions.  Fuel bounds the recursion DEPTH (it is passed unchanged to siblings). -/

abbrev Half (α : Type) := List (α × α)

def goTrack (a b : α) (d : Half α) : Half α := (a, b) :: (b, a) :: d

def refsOf (d : Half α) (k : α) : List α := (d.filter (·.1 = k)).map (·.2)

/-- `updateOutput(ctx, namelist)` of QueryLinks; `none` = out of fuel -/
def goUpdate : Nat → List α → Half α → List α → Option (List α)
  | 0, _, _, _ => none
  | f + 1, names, d, out =>
    names.foldlM (fun out name =>
      (refsOf d name).foldlM (fun out ref =>
        if ref ∈ out then some out else goUpdate f [ref] d (ref :: out)) out) out

/-- `removeRef(ctx, name)`; `none` = out of fuel -/
def goRemoveRef : Nat → α → Half α → Option (Half α)
  | 0, _, _ => none
  | f + 1, name, d =>
    (refsOf d name).foldlM (fun d ref => goRemoveRef f ref d) (d.filter (·.1 ≠ name))

/-- `QueryLinks` as the Go code runs it -/
def goQuery (d : Half α) (seeds : List α) (remove : Bool) : Option (List α × Half α) := do
  let out ← goUpdate (d.length + 1) seeds d []
  if remove then
    let d' ← out.foldlM (fun d n => goRemoveRef (d.length + 1) n d) d
    pure (out, d')
  else pure (out, d)

end Tracker

/-! ## the cluster -/

structure PathDecl where
  path : String
  ptype : String        -- "Exact" | "Prefix" | anything else (ImplementationSpecific / nil)
  svc : String
  port : String
deriving DecidableEq, Repr, Inhabited

structure Rule where
  host : String
  paths : List PathDecl
deriving DecidableEq, Repr, Inhabited

structure TlsDecl where
  hosts : List String
  secret : String
deriving DecidableEq, Repr, Inhabited

structure Ingress where
  ns : String
  name : String
  created : Nat
  classAnn : Option String := none      -- kubernetes.io/ingress.class
  className : Option String := none     -- spec.ingressClassName
  ann : List (String × String) := []
  rules : List Rule := []
  tls : List TlsDecl := []
  defBackend : Option (String × String) := none
  /-- the pseudo source of `--default-backend-service` (`converter.defaultBackSource`): its
  `Source.Namespace` is empty (`FullName()` = "/<default-backend>"); `ns` holds the namespace part of the
  option value (`addBackend` splits the full service name), `defBackend` the service name and `firstPort` -/
  pseudo : Bool := false
deriving DecidableEq, Repr, Inhabited

/-- `Source.FullName()` / the cache key -/
def Ingress.key (i : Ingress) : String := (if i.pseudo then "" else i.ns) ++ "/" ++ i.name

structure SvcPort where
  name : String
  port : Nat
  target : String        -- TargetPort.String()
deriving DecidableEq, Repr, Inhabited

structure Service where
  key : String
  ports : List SvcPort
  ann : List (String × String) := []
deriving DecidableEq, Repr, Inhabited

structure Endpoints where
  key : String
  ready : List (String × String)       -- (ip, pod)
  notReady : List (String × String)
  ports : List (String × Nat)          -- (name, numeric target) snapshot of the service ports
deriving DecidableEq, Repr, Inhabited

structure Secret where
  key : String
  kind : String
  version : Nat
deriving DecidableEq, Repr, Inhabited

structure Pod where
  key : String
  ip : String
  labels : List (String × String)
  term : Bool
deriving DecidableEq, Repr, Inhabited

structure World where
  ings : List Ingress := []
  svcs : List Service := []
  eps : List Endpoints := []
  secs : List Secret := []
  clss : List (String × String) := []            -- name ↦ spec.controller
  pods : List Pod := []
  cm : Option (List (String × String)) := none   -- data of the global ConfigMap
deriving Repr, Inhabited

def ourController : String := "haproxy-ingress.github.io/controller"
def ourClass : String := "haproxy"
def defaultHost : String := "<default>"

def World.findIng (w : World) (k : String) : Option Ingress := w.ings.find? (·.key = k)
def World.findSvc (w : World) (k : String) : Option Service := w.svcs.find? (·.key = k)
def World.findEp (w : World) (k : String) : Option Endpoints := w.eps.find? (·.key = k)
def World.findSec (w : World) (k : String) : Option Secret := w.secs.find? (·.key = k)
def World.findCls (w : World) (k : String) : Option String := (w.clss.find? (·.1 = k)).map (·.2)
def World.findPod (w : World) (k : String) : Option Pod := w.pods.find? (·.key = k)

def lookupKV (l : List (String × String)) (k : String) : Option String := (l.find? (·.1 = k)).map (·.2)

/-- `drain-support` of the global config (mapper `.Bool()`) -/
def World.drain (w : World) : Bool :=
  match w.cm with
  | some d => lookupKV d "drain-support" == some "true"
  | none => false

/-- `IsValidIngress` with `--ingress-class=haproxy`, no `--watch-ingress-without-class`, no
`--ingress-class-precedence` -/
def World.valid (w : World) (i : Ingress) : Bool :=
  match i.classAnn with
  | some a => a == ourClass
  | none =>
    match i.className with
    | some c => w.findCls c == some ourController
    | none => false

def ingLE (a b : Ingress) : Bool :=
  a.created < b.created || (a.created == b.created && !(decide (b.key < a.key)))

def insertIng (a : Ingress) : List Ingress → List Ingress
  | [] => [a]
  | b :: l => if ingLE a b then a :: b :: l else b :: insertIng a l

/-- `sortIngress` (insertion sort: the order is total on distinct keys, so any sort gives this list) -/
def sortIngs (l : List Ingress) : List Ingress := l.foldr insertIng []

/-- `GetIngressList` + `sortIngress` -/
def World.validSorted (w : World) : List Ingress := sortIngs (w.ings.filter w.valid)

/-! ## typed tracker nodes -/

inductive Kind
  | ing | cls | cm | svc | ep | sec | pod | tcp | host | back | user | acme
deriving DecidableEq, Repr, Inhabited

structure Node where
  kind : Kind
  name : String
deriving DecidableEq, Repr, Inhabited

/-- the value of a kubernetes object as read through the cache -/
inductive ObjVal
  | svc (s : Option Service)
  | ep (e : Option Endpoints)
  | sec (s : Option Secret)
  | pod (p : Option Pod)
  | other
deriving DecidableEq, Repr, Inhabited

/-- the value of an object as far as the proved fragment reads it (IngressClass parameters and pods —
drain-support — are outside: they read as `other`) -/
def World.read (w : World) (n : Node) : ObjVal :=
  match n.kind with
  | .svc => .svc (w.findSvc n.name)
  | .ep => .ep (w.findEp n.name)
  | .sec => .sec (w.findSec n.name)
  | _ => .other

/-! ## controller state -/

/-- one touch of an item: who declared it (the object that was read), what was done, and the
objects that were read to do it -/
structure Touch where
  ing : Ingress
  what : String
  reads : List (Node × ObjVal) := []
deriving DecidableEq, Repr, Inhabited

structure HPath where
  path : String
  mtch : String
  back : String
deriving DecidableEq, Repr, Inhabited

/-- a host of the haproxy model with its trace. An entry that is not `live` only records failed
default-backend declarations (negative dependencies of the absent default host). -/
structure Host where
  name : String
  live : Bool := false           -- created by `Hosts().AcquireHost`
  paths : List HPath := []
  trace : List Touch := []
deriving DecidableEq, Repr, Inhabited

structure Back where
  id : String
  trace : List Touch := []
deriving DecidableEq, Repr, Inhabited

structure St where
  tr : Tr Node := []
  hosts : List Host := []
  backs : List Back := []
deriving Repr, Inhabited

def St.findHost (st : St) (h : String) : Option Host := st.hosts.find? (·.name = h)
def St.hostLive (st : St) (h : String) : Bool := (st.findHost h).any (·.live)
def St.findBack (st : St) (id : String) : Option Back := st.backs.find? (·.id = id)
def St.backLive (st : St) (id : String) : Bool := (st.findBack id).isSome

def Host.hasPath (x : Host) (path mtch : String) : Bool :=
  x.live && x.paths.any fun p => p.path = path ∧ p.mtch = mtch

def setHost (x : Host) : List Host → List Host
  | [] => [x]
  | y :: l => if y.name = x.name then x :: l else y :: setHost x l

def addBackTouch (id : String) (t : Touch) : List Back → List Back
  | [] => [{ id := id, trace := [t] }]
  | y :: l => if y.id = id then { y with trace := y.trace ++ [t] } :: l else y :: addBackTouch id t l

/-! ## one ingress, flattened into declarations (processing order of `syncIngressHTTP`) -/

inductive DK
  | defBack (svc port : String)     -- spec.defaultBackend → addDefaultHostBackend
  | ruleHost                        -- readIngressClass + addHost of one rule
  | path (p : PathDecl)             -- one path of the rule
  | tlsHost (secret : String)       -- one host of one tls block: addHost + addTLS
deriving DecidableEq, Repr, Inhabited

structure Decl where
  ing : Ingress
  host : String
  k : DK
deriving DecidableEq, Repr, Inhabited

def normHost (h : String) : String := if h = "" then defaultHost else h

def declsOf (i : Ingress) : List Decl :=
  (match i.defBackend with
    | some (s, p) => [{ ing := i, host := defaultHost, k := .defBack s p }]
    | none => [])
  ++ i.rules.flatMap (fun r =>
      { ing := i, host := normHost r.host, k := .ruleHost } ::
        r.paths.map fun p => { ing := i, host := normHost r.host, k := .path p })
  ++ i.tls.flatMap (fun t => t.hosts.map fun h => { ing := i, host := h, k := .tlsHost t.secret })

/-- decimal value of a list of digits (`none` if a character is not a digit). `String.toList` is used
instead of the `String` iterators so that the kernel can evaluate the model (`decide`). -/
def digitsVal (l : List Char) : Option Nat :=
  l.foldl (fun acc c =>
    match acc with
    | some n => if c.isDigit then some (n * 10 + (c.toNat - 48)) else none
    | none => none) (some 0)

def atoi (s : String) : Nat :=
  match s.toList with
  | [] => 0
  | l => (digitsVal l).getD 0

/-- `backendOf` of the world + `readServiceNamePort`: the port text the converter sees -/
def ingPort (p : String) : String :=
  let n := atoi p
  if n > 0 then toString n else if p = "" then "0" else p

/-- port text of the declaration of the pseudo source: `addBackendWithClass` with `svcPort == ""` takes
`svc.Spec.Ports[0].TargetPort.String()`, which `FindServicePort` resolves to the first port itself. (Not a
valid port name, so no ingress can carry it; a service without ports would panic in the Go code — the
world has none — and reads as "port not found" here.) -/
def firstPort : String := "<first>"

/-- `convutils.FindServicePort` -/
def findServicePort (s : Service) (port : String) : Option SvcPort :=
  match s.ports.find? (fun p => p.name = port ∨ p.target = port) with
  | some p => some p
  | none =>
    match port.toList with
    | [] => none
    | l =>
      match digitsVal l with
      | some n => s.ports.find? (fun p => p.port = n)
      | none => none

inductive Resolve
  | noSvc
  | noPort (s : Service)
  | ok (s : Service) (target : String)
deriving DecidableEq, Repr

/-- the service port a declaration resolves to -/
def portOf (s : Service) (port : String) : Option SvcPort :=
  if port = firstPort then s.ports.head? else findServicePort s (ingPort port)

def resolve (w : World) (ns svc port : String) : Resolve :=
  match w.findSvc (ns ++ "/" ++ svc) with
  | none => .noSvc
  | some s =>
    match portOf s port with
    | none => .noPort s
    | some p => .ok s p.target

def backID (ns svc target : String) : String := ns ++ "_" ++ svc ++ "_" ++ target

def matchOf (ptype : String) : String :=
  if ptype = "Exact" then "exact" else if ptype = "Prefix" then "prefix" else "begin"

/-- `GetTLSSecretPath` name resolution (`buildResourceName`, cross-namespace disabled). Names with a
namespace part (`ns/name`) are outside the modelled fragment (the driver abstains). -/
def secretKey (ns secret : String) : Option String :=
  if secret.toList.contains '/' then none else some (ns ++ "/" ++ secret)

def matchingPods (w : World) (svcName : String) : List Pod :=
  if w.drain then w.pods.filter fun p => lookupKV p.labels "app" == some svcName else []

/-- what one declaration does, as a function of the cluster and of the CURRENT ENTRY OF ITS HOST
only: the new entry, the backend it touches, the tracking calls (in call order) -/
structure Outcome where
  host : Host
  back : Option (String × Touch) := none
  edges : List (Node × Node) := []
deriving DecidableEq, Repr, Inhabited

/-- `addBackendWithClass` after the duplicate check: service/endpoints → host are tracked BEFORE
the service error is returned; then port resolution, `AcquireBackend`, ingress → backend,
`addEndpoints` (drain-support: every pod matched by the selector is tracked by the backend).
Returns the tracking calls, the reads and (on success) the backend id. -/
def addBackend (w : World) (d : Decl) (svc port : String) :
    List (Node × Node) × List (Node × ObjVal) × Option String :=
  let hN : Node := ⟨.host, d.host⟩
  let sk := d.ing.ns ++ "/" ++ svc
  let e0 : List (Node × Node) := [(⟨.svc, sk⟩, hN), (⟨.ep, sk⟩, hN)]
  match resolve w d.ing.ns svc port with
  | .noSvc => (e0, [(⟨.svc, sk⟩, .svc none)], none)
  | .noPort s => (e0, [(⟨.svc, sk⟩, .svc (some s))], none)
  | .ok s target =>
    let id := backID d.ing.ns svc target
    let pods := matchingPods w svc
    (e0 ++ [(⟨.ing, d.ing.key⟩, ⟨.back, id⟩)] ++ pods.map (fun p => (⟨.back, id⟩, ⟨.pod, p.key⟩)),
     [(⟨.svc, sk⟩, .svc (some s)), (⟨.ep, sk⟩, .ep (w.findEp sk))] ++
       pods.map (fun p => (⟨.pod, p.key⟩, .pod (some p))),
     some id)

/-- Revision of the converter code that is modelled:
  0 = before repair 0a95d71 (a skipped declaration tracks nothing; historical witness)
  1 = repair 0a95d71 (`trackSkippedService`: ingress → backend it resolves to, else ingress → service)
  2 = with the follow-up repair (ingress → service always, plus ingress → backend when it resolves) -/
abbrev Rev := Nat

/-- `trackSkippedService`: a declaration that lost its host/path is linked to the backend it would
use and/or to its service -/
def skippedEdges (rev : Rev) (w : World) (d : Decl) (svc port : String) : List (Node × Node) :=
  let iN : Node := ⟨.ing, d.ing.key⟩
  let sN : Node := ⟨.svc, d.ing.ns ++ "/" ++ svc⟩
  match rev with
  | 0 => []
  | 1 =>
    match resolve w d.ing.ns svc port with
    | .ok _ target => [(iN, ⟨.back, backID d.ing.ns svc target⟩)]
    | _ => [(iN, sN)]
  | _ =>
    match resolve w d.ing.ns svc port with
    | .ok _ target => [(iN, sN), (iN, ⟨.back, backID d.ing.ns svc target⟩)]
    | _ => [(iN, sN)]

/-- one declaration of `syncIngressHTTP` in revision `rev` of the code -/
def outcome (rev : Rev) (w : World) (cur : Option Host) (d : Decl) : Outcome :=
  let x := cur.getD { name := d.host }
  let iN : Node := ⟨.ing, d.ing.key⟩
  let hN : Node := ⟨.host, d.host⟩
  let touch (what : String) (reads : List (Node × ObjVal)) : Touch := { ing := d.ing, what := what, reads := reads }
  match d.k with
  | .ruleHost =>
    match d.ing.className with
    | some c =>
      -- readIngressClass: the class is tracked; what is read from it (Parameters) is outside the model
      { host := { x with live := true, trace := x.trace ++ [touch "host" []] },
        edges := [(⟨.cls, c⟩, iN), (iN, hN)] }
    | none => { host := { x with live := true, trace := x.trace ++ [touch "host" []] }, edges := [(iN, hN)] }
  | .tlsHost secret =>
    if secret = "" then
      { host := { x with live := true, trace := x.trace ++ [touch "tls-default" []] }, edges := [(iN, hN)] }
    else
      match secretKey d.ing.ns secret with
      | none =>
        { host := { x with live := true, trace := x.trace ++ [touch ("tls-badname:" ++ secret) []] }, edges := [(iN, hN)] }
      | some k =>
        { host := { x with live := true, trace := x.trace ++ [touch ("tls:" ++ k) [(⟨.sec, k⟩, .sec (w.findSec k))]] },
          edges := [(iN, hN), (iN, ⟨.sec, k⟩)] }
  | .path p =>
    let uri := if p.path = "" then "/" else p.path
    let m := matchOf p.ptype
    if x.hasPath uri m then
      -- "skipping redeclared path"
      { host := { x with trace := x.trace ++ [touch ("skip:" ++ uri ++ ":" ++ m) []] },
        edges := skippedEdges rev w d p.svc p.port }
    else
      match addBackend w d p.svc p.port with
      | (edges, reads, none) =>
        { host := { x with trace := x.trace ++ [touch ("nobackend:" ++ uri ++ ":" ++ m) reads] }, edges := edges }
      | (edges, reads, some id) =>
        { host := { x with paths := x.paths ++ [⟨uri, m, id⟩],
                           trace := x.trace ++ [touch ("path:" ++ uri ++ ":" ++ m ++ ":" ++ id) reads] },
          back := some (id, touch ("path:" ++ d.host ++ uri ++ ":" ++ m) reads),
          edges := edges }
  | .defBack svc port =>
    if d.ing.pseudo then
      -- `syncDefaultBackend` (option --default-backend-service): pseudo source ↔ default host is tracked
      -- first, also when the service cannot be read (bfa2c57); then `addBackend`; on success the backend
      -- becomes `Backends().DefaultBackend`. No host is acquired and no path is added: the entry of the
      -- default host only records the dependency (it stays not live unless an ingress declares it).
      match addBackend w d svc port with
      | (edges, reads, none) =>
        { host := { x with trace := x.trace ++ [touch "opt-nobackend" reads] }, edges := (iN, hN) :: edges }
      | (edges, reads, some id) =>
        { host := { x with trace := x.trace ++ [touch ("opt:" ++ id) reads] },
          back := some (id, touch "default-backend" reads),
          edges := (iN, hN) :: edges }
    else if x.hasPath "/" "begin" then
      -- the loser still tracks the host
      { host := { x with trace := x.trace ++ [touch "def-loser" []] },
        edges := (iN, hN) :: skippedEdges rev w d svc port }
    else
      match addBackend w d svc port with
      | (edges, reads, none) =>
        { host := { x with trace := x.trace ++ [touch "def-nobackend" reads] },
          edges := edges ++ [(iN, ⟨.svc, d.ing.ns ++ "/" ++ svc⟩)] }
      | (edges, reads, some id) =>
        { host := { x with live := true, paths := x.paths ++ [⟨"/", "begin", id⟩],
                           trace := x.trace ++ [touch ("def:" ++ id) reads] },
          back := some (id, touch ("path:" ++ defaultHost ++ "/:begin") reads),
          edges := edges ++ [(iN, hN)] }

def trackAll (edges : List (Node × Node)) (t : Tr Node) : Tr Node := edges.foldl (fun t e => track e.1 e.2 t) t

def St.apply (st : St) (o : Outcome) : St :=
  { tr := trackAll o.edges st.tr,
    hosts := setHost o.host st.hosts,
    backs := match o.back with
      | some (id, t) => addBackTouch id t st.backs
      | none => st.backs }

def procDecl (rev : Rev) (w : World) (st : St) (d : Decl) : St :=
  st.apply (outcome rev w (st.findHost d.host) d)

/-- `syncIngress` -/
def syncIngress (rev : Rev) (w : World) (st : St) (i : Ingress) : St := (declsOf i).foldl (procDecl rev w) st

/-- `syncFull` after `ClearLinks` + `haproxy.Clear` -/
def syncFull (rev : Rev) (w : World) : St := w.validSorted.foldl (syncIngress rev w) {}

/-! ## the batch of changes and the partial sync -/

structure Batch where
  links : List Node := []
  add : List Ingress := []       -- objects carried by the events
  upd : List Ingress := []
  del : List String := []
  full : Bool := false           -- NeedFullSync of the handlers (IngressClass events)
  cmNew : Option (List (String × String)) := none
deriving Repr, Inhabited

/-- `converter.findBackend` of trackAddedIngress: the LIVE backend a declaration resolves to -/
def findLiveBack (w : World) (st : St) (ns svc port : String) : Option String :=
  match resolve w ns svc port with
  | .ok _ target => if st.backLive (backID ns svc target) then some (backID ns svc target) else none
  | _ => none

/-- the tracking calls of `trackAddedIngress` for one added / updated object -/
def preEdges (w : World) (st : St) (i : Ingress) : List (Node × Node) :=
  let iN : Node := ⟨.ing, i.key⟩
  let back (s p : String) : List (Node × Node) :=
    match findLiveBack w st i.ns s p with
    | some id => [(iN, ⟨.back, id⟩)]
    | none => []
  (match i.defBackend with
    | some (s, p) => back s p ++ (if st.hostLive defaultHost then [(iN, ⟨.host, defaultHost⟩)] else [])
    | none => [])
  ++ i.tls.flatMap (fun t => t.hosts.map fun h => (iN, ⟨.host, h⟩))
  ++ i.rules.flatMap (fun r => (iN, ⟨.host, normHost r.host⟩) :: r.paths.flatMap fun p => back p.svc p.port)

def preTrack (w : World) (b : Batch) (st : St) : St :=
  { st with tr := trackAll ((b.add ++ b.upd).flatMap (preEdges w st)) st.tr }

def namesOf (k : Kind) (l : List Node) : List String := (l.filter (·.kind = k)).map (·.name)

/-- keys of the ingresses `syncPartial` reads again: dirty − IngressesDel + IngressesUpd + IngressesAdd -/
def resyncKeys (b : Batch) (dirtyIngs : List String) : List String :=
  (dirtyIngs.filter (· ∉ b.del)) ++ b.upd.map (·.key) ++ b.add.map (·.key)

/-- the state after pre-tracking and removal of the dirty items, and the tracker output -/
def afterRemove (w : World) (b : Batch) (st : St) : St × List Node :=
  let st1 := preTrack w b st
  let out := queryOut st1.tr b.links
  ({ tr := rest st1.tr b.links, hosts := st1.hosts.filter (fun h => h.name ∉ namesOf .host out),
     backs := st1.backs.filter (fun x => x.id ∉ namesOf .back out) }, out)

/-- the ingresses that are re-synced: read again from the cache (exists ∧ valid), sorted -/
def resyncList (w : World) (b : Batch) (out : List Node) : List Ingress :=
  w.validSorted.filter (·.key ∈ resyncKeys b (namesOf .ing out))

/-- `syncPartial` -/
def syncPartial (rev : Rev) (w : World) (b : Batch) (st : St) : St :=
  let r := afterRemove w b st
  (resyncList w b r.2).foldl (syncIngress rev w) r.1

/-- one reconciliation on the cluster state `w` (the state at the time of the sync) -/
def step (rev : Rev) (w : World) (b : Batch) (st : St) : St :=
  if b.full then syncFull rev w else syncPartial rev w b st

/-! ## side conditions (decidable on a run) -/

/-- backends that survive the removal (not dirty) and are touched by a re-synced ingress:
a *late reference* (root cause of finding 1) -/
def lateBacks (rev : Rev) (w : World) (b : Batch) (st : St) : List String :=
  let st2 := (afterRemove w b st).1
  let st3 := syncPartial rev w b st
  (st2.backs.filter fun x => (st3.findBack x.id).any fun y => y.trace.length ≠ x.trace.length).map (·.id)

/-- the same for hosts -/
def lateHosts (rev : Rev) (w : World) (b : Batch) (st : St) : List String :=
  let st2 := (afterRemove w b st).1
  let st3 := syncPartial rev w b st
  (st2.hosts.filter fun x => (st3.findHost x.name).any fun y => y.trace.length ≠ x.trace.length).map (·.name)

/-- `NoLateRef`: no re-synced ingress touches a surviving item -/
def noLateRef (rev : Rev) (w : World) (b : Batch) (st : St) : Bool :=
  (lateBacks rev w b st).isEmpty && (lateHosts rev w b st).isEmpty

/-! ## watchers: operations on the cluster and the batch they produce -/

inductive Op
  | ingSet (i : Ingress)
  | ingDel (key : String)
  | svcSet (s : Service)
  | svcDel (key : String)
  | epSet (key : String) (ready notReady : List (String × String))
  | epDel (key : String)
  | secSet (s : Secret)
  | secDel (key : String)
  | clsSet (name ctrl : String)
  | clsDel (name : String)
  | cmSet (data : List (String × String))
  | podSet (p : Pod)
  | podDel (key : String)
deriving Repr, Inhabited

def addLink (b : Batch) (n : Node) : Batch := if n ∈ b.links then b else { b with links := b.links ++ [n] }

def replaceBy {β : Type} (key : β → String) (x : β) : List β → List β
  | [] => [x]
  | y :: l => if key y = key x then x :: l else y :: replaceBy key x l

/-- numeric target of a service port in the world's Endpoints objects (`NamedTargets`) -/
def numericTarget (t : String) : Nat :=
  let n := atoi t
  if n > 0 then n else if t = "web" then 8080 else if t = "adm" then 9090 else if t = "alt" then 8081 else 0

/-- the Endpoints object the world builds (`BuildEndpoints`: ports follow the service; no subset without addresses) -/
def mkEndpoints (w : World) (k : String) (ready notReady : List (String × String)) : Endpoints :=
  if ready.isEmpty && notReady.isEmpty then ⟨k, [], [], []⟩
  else ⟨k, ready, notReady,
    match w.findSvc k with
    | some s => s.ports.map fun p => (p.name, numericTarget p.target)
    | none => []⟩

/-- apply one operation: the new cluster and the events as the real predicates/handlers see them
(validity depends on the IngressClasses only, which an Ingress event does not change) -/
def applyOp (wb : World × Batch) (op : Op) : World × Batch :=
  let (w, b) := wb
  match op with
  | .ingSet i0 =>
    match w.findIng i0.key with
    | none =>
      let w' := { w with ings := w.ings ++ [i0] }
      if w.valid i0 then (w', { addLink b ⟨.ing, i0.key⟩ with add := b.add ++ [i0] }) else (w', b)
    | some old =>
      let i := { i0 with created := old.created }
      let w' := { w with ings := replaceBy Ingress.key i w.ings }
      let ov := w.valid old
      let nv := w.valid i
      if ov || nv then
        let b := addLink b ⟨.ing, i.key⟩
        if ov && nv then (w', { b with upd := b.upd ++ [i] })
        else if nv then (w', { b with add := b.add ++ [i] })
        else (w', { b with del := b.del ++ [old.key] })
      else (w', b)
  | .ingDel k =>
    match w.findIng k with
    | none => (w, b)
    | some old =>
      let w' := { w with ings := w.ings.filter (·.key ≠ k) }
      if w.valid old then (w', { addLink b ⟨.ing, k⟩ with del := b.del ++ [k] }) else (w', b)
  | .svcSet s => ({ w with svcs := replaceBy Service.key s w.svcs }, addLink b ⟨.svc, s.key⟩)
  | .svcDel k =>
    match w.findSvc k with
    | none => (w, b)
    | some _ =>
      let b := addLink b ⟨.svc, k⟩
      let b := if (w.findEp k).isSome then addLink b ⟨.ep, k⟩ else b
      ({ w with svcs := w.svcs.filter (·.key ≠ k), eps := w.eps.filter (·.key ≠ k) }, b)
  | .epSet k ready notReady =>
    let w' := { w with eps := replaceBy Endpoints.key (mkEndpoints w k ready notReady) w.eps }
    match w.findEp k with
    | none => (w', addLink b ⟨.ep, k⟩)
    | some old => if old = mkEndpoints w k ready notReady then (w', b) else (w', addLink b ⟨.ep, k⟩)
  | .epDel k =>
    match w.findEp k with
    | none => (w, b)
    | some _ => ({ w with eps := w.eps.filter (·.key ≠ k) }, addLink b ⟨.ep, k⟩)
  | .secSet s => ({ w with secs := replaceBy Secret.key s w.secs }, addLink b ⟨.sec, s.key⟩)
  | .secDel k =>
    match w.findSec k with
    | none => (w, b)
    | some _ => ({ w with secs := w.secs.filter (·.key ≠ k) }, addLink b ⟨.sec, k⟩)
  | .clsSet n c =>
    let w' := { w with clss := replaceBy (·.1) (n, c) w.clss }
    let oldValid := w.findCls n == some ourController
    let newValid := c == ourController
    if oldValid || newValid then (w', { addLink b ⟨.cls, n⟩ with full := true }) else (w', b)
  | .clsDel n =>
    match w.findCls n with
    | none => (w, b)
    | some c =>
      let w' := { w with clss := w.clss.filter (·.1 ≠ n) }
      if c == ourController then (w', { addLink b ⟨.cls, n⟩ with full := true }) else (w', b)
  | .cmSet d =>
    ({ w with cm := some d }, { addLink b ⟨.cm, "ingress-controller/haproxy-ingress"⟩ with cmNew := some d })
  | .podSet p =>
    let w' := { w with pods := replaceBy Pod.key p w.pods }
    match w.findPod p.key with
    | none => (w', b)                                         -- create events are filtered
    | some old => if old.term || p.term then (w', addLink b ⟨.pod, p.key⟩) else (w', b)
  | .podDel k =>
    match w.findPod k with
    | none => (w, b)
    | some _ => ({ w with pods := w.pods.filter (·.key ≠ k) }, addLink b ⟨.pod, k⟩)

/-- the controller across reconciliations -/
structure Ctl where
  st : St := {}
  first : Bool := true                                 -- the first sync is a full sync (default certificate)
  cmCur : Option (List (String × String)) := none      -- GlobalConfigMapDataCur
deriving Repr, Inhabited

/-- does this reconciliation run `syncFull`? (`converters.Sync`: NeedFullSync of the batch, the
default certificate on the first run, a changed global ConfigMap) -/
def needFull (c : Ctl) (b : Batch) : Bool :=
  c.first || b.full || (match b.cmNew with | some n => c.cmCur ≠ some n | none => false)

def reconcile (rev : Rev) (w : World) (b : Batch) (c : Ctl) : Ctl :=
  { st := step rev w { b with full := needFull c b } c.st, first := false,
    cmCur := match b.cmNew with | some n => some n | none => c.cmCur }

/-- a whole history: batches of operations, one reconciliation after each batch -/
def runHistory (rev : Rev) (batches : List (List Op)) : World × Ctl :=
  batches.foldl (fun (wc : World × Ctl) ops =>
    let (w', b) := ops.foldl applyOp (wc.1, {})
    (w', reconcile rev w' b wc.2)) ({}, {})

/-! ## the option --default-backend-service -/

/-- `converter.defaultBackSource` for the option value `ns/svc`, as a member of the cluster: valid (the class
annotation stands for "is always read"), oldest possible creation time and a key below every `ns/name` with a
non-empty namespace, hence first in `sortIngs`; declares only the default backend `svc`, first port -/
def optIngress (ns svc : String) : Ingress :=
  { ns := ns, name := "<default-backend>", created := 0, classAnn := some ourClass, pseudo := true,
    defBackend := some (svc, firstPort) }

/-- the cluster a controller started with `--default-backend-service=ns/svc` sees before any event -/
def optWorld (db : Option (String × String)) : World :=
  match db with
  | some (ns, svc) => { ings := [optIngress ns svc] }
  | none => {}

/-- a whole history under the controller option -/
def runHistoryOpt (rev : Rev) (db : Option (String × String)) (batches : List (List Op)) : World × Ctl :=
  batches.foldl (fun (wc : World × Ctl) ops =>
    let (w', b) := ops.foldl applyOp (wc.1, {})
    (w', reconcile rev w' b wc.2)) (optWorld db, {})

end HapVerif.C01
