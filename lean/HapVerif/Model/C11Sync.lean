/-
C11, world level — the update cycle `SyncConfig ; Shrink` of `instance.HAProxyUpdate` on the store of hosts and
backends (core-only, executable).

The converters answer a batch of notifications by removing the dirty hosts and backends (`RemoveAll`) and creating
them again (`Acquire…`) from the cluster state: the store then holds, per kind, the items nobody touched (`keep`),
the re-created items (`add` = `ItemsAdd()`) and the committed versions they replace (`del` = `ItemsDel()`).
Two steps follow before the dynamic updater compares what is left:

* `derive` = `config.SyncConfig()`: attributes that are NOT written by the converters but derived from the host
  items, for the hosts of `ItemsAdd()` only.  Modelled: `backend.TLS.HasTLSAuth`, set on every backend a path of an
  added host points to when the host asks for a client certificate (`host.HasTLSAuth()`, annotation
  `auth-tls-secret`) and is not an ssl-passthrough host.  `FindBackend` looks into the current items, so a
  bystander backend is flagged in place.  (The second derivation of SyncConfig — with `strict-host` a host without
  root path borrows the root path of the default host — changes the HOST item; hosts are compared here on what the
  converter wrote, see the registry note.)
* `shrink` = `config.Shrink()` = `Hosts.Shrink` + `Backends.Shrink`: a re-created item equal to the committed one
  (`reflect.DeepEqual` / `backendsMatch`, which both cover `TLS.HasTLSAuth`) leaves the changed sets and the
  committed object goes back into the items.

What is left in the changed sets is what the dynamic updater looks at: a pair of hosts that differ, a backend pair
that differs outside its endpoints (here: in the derived flag), an added or a removed item ask for a reload.
`Order.deriveFirst` is the code; `Order.shrinkFirst` is the seeded defect C11f (Shrink moved before SyncConfig).
-/
namespace HapVerif.C11Sync

/-- a host item, as the converter writes it -/
structure Host where
  name : String
  auth : Bool                -- asks for a client certificate (`TLS.CAHash != ""`)
  pass : Bool                -- ssl-passthrough: SyncConfig skips the host
  own : List String          -- ids of the backends its paths point to
deriving DecidableEq, Repr

/-- a backend item: `body` stands for everything the converter writes, compared the way `backendsMatch` compares
it (endpoint order and empty slots ignored); `flag` = `TLS.HasTLSAuth`, written by SyncConfig only -/
structure Bk where
  id : String
  body : Nat := 0
  flag : Bool := false
deriving DecidableEq, Repr

/-- the committed store -/
structure Store where
  hosts : List Host
  backs : List Bk
deriving Repr

/-- what the converters did in one batch: the items removed (`RemoveAll`) and the items created -/
structure Recr where
  hostsDel : List String
  hosts : List Host
  backsDel : List String
  backs : List Bk
deriving Repr

/-- the store in the middle of `HAProxyUpdate`; the items are `keep ++ add` -/
structure Mid where
  hKeep : List Host
  hAdd : List Host
  hDel : List Host
  bKeep : List Bk
  bAdd : List Bk
  bDel : List Bk
deriving Repr

def Mid.hosts (m : Mid) : List Host := m.hKeep ++ m.hAdd
def Mid.backs (m : Mid) : List Bk := m.bKeep ++ m.bAdd

/-- `RemoveAll(dirty)` + `Acquire…` -/
def enter (s : Store) (r : Recr) : Mid :=
  { hKeep := s.hosts.filter (fun h => !r.hostsDel.contains h.name), hAdd := r.hosts,
    hDel := s.hosts.filter (fun h => r.hostsDel.contains h.name),
    bKeep := s.backs.filter (fun b => !r.backsDel.contains b.id), bAdd := r.backs,
    bDel := s.backs.filter (fun b => r.backsDel.contains b.id) }

/-- the host gives the derived attribute to the backend -/
def gives (h : Host) (id : String) : Bool := !h.pass && h.auth && h.own.contains id

def wants (hs : List Host) (id : String) : Bool := hs.any (gives · id)

def mark (hs : List Host) (b : Bk) : Bk := if wants hs b.id then { b with flag := true } else b

/-- `config.SyncConfig()`: the loop over `hosts.ItemsAdd()` -/
def derive (m : Mid) : Mid :=
  { m with bKeep := m.bKeep.map (mark m.hAdd), bAdd := m.bAdd.map (mark m.hAdd) }

/-- `config.Shrink()`: the maps are keyed by name, so "the committed item of the same name is equal" is
"the equal item is among the committed ones" -/
def shrink (m : Mid) : Mid :=
  { hKeep := m.hKeep ++ m.hAdd.filter (m.hDel.contains ·),
    hAdd := m.hAdd.filter (!m.hDel.contains ·),
    hDel := m.hDel.filter (!m.hAdd.contains ·),
    bKeep := m.bKeep ++ m.bAdd.filter (m.bDel.contains ·),
    bAdd := m.bAdd.filter (!m.bDel.contains ·),
    bDel := m.bDel.filter (!m.bAdd.contains ·) }

inductive Order | deriveFirst | shrinkFirst
deriving DecidableEq, Repr

def cycle (o : Order) (s : Store) (r : Recr) : Mid :=
  match o with
  | .deriveFirst => shrink (derive (enter s r))
  | .shrinkFirst => derive (shrink (enter s r))

/-- `config.Commit()` -/
def commit (m : Mid) : Store := { hosts := m.hosts, backs := m.backs }

/-- the names `instance.logChanged` prints -/
def changedHosts (m : Mid) : List String :=
  m.hAdd.map (·.name) ++ (m.hDel.map (·.name)).filter (fun n => !(m.hAdd.map (·.name)).contains n)
def changedBacks (m : Mid) : List String :=
  m.bAdd.map (·.id) ++ (m.bDel.map (·.id)).filter (fun n => !(m.bAdd.map (·.id)).contains n)

/-- the dynamic updater needs a reload for a reason that is NOT an endpoint change: an added / removed / different
host, an added / removed backend, a backend pair that differs in the derived attribute -/
def outsideDiff (m : Mid) : Bool :=
  m.hAdd.any (fun h => !m.hDel.contains h) || m.hDel.any (fun d => !(m.hAdd.map (·.name)).contains d.name) ||
  m.bAdd.any (fun b => match m.bDel.find? (·.id == b.id) with
    | none => true
    | some d => b.flag != d.flag) ||
  m.bDel.any (fun d => !(m.bAdd.map (·.id)).contains d.id)

/-- a FULL sync (IngressClass / Gateway-API notification, changed global ConfigMap): `config.Clear()` builds a
brand-new config and the converters create every item again.  `Backends.Clear` hands the committed items over as
`ItemsDel()` (so unchanged backends shrink); `Hosts` starts empty — `ItemsDel()` is empty, every rebuilt host is an
ADDED host — and the committed global is dropped (`globalOld = nil`). -/
def enterFull (s : Store) (r : Recr) : Mid :=
  { hKeep := [], hAdd := r.hosts, hDel := [], bKeep := [], bAdd := r.backs, bDel := s.backs }

def cycleFull (s : Store) (r : Recr) : Mid := shrink (derive (enterFull s r))

/-- `dynUpdater.update()` = `hasCommittedData() && checkConfigChange()`: without committed data (after `Clear`) the
update reloads whatever is in the changed sets; with it, a difference outside the endpoints reloads -/
def reloadDecision (committed : Bool) (m : Mid) : Bool := !committed || outsideDiff m

/-! ### premises of the world-level no-op statement -/

/-- the committed flags are the derived ones -/
def Inv (s : Store) : Prop := ∀ d ∈ s.backs, d.flag = wants s.hosts d.id

/-- names are keys -/
def Keyed (s : Store) : Prop :=
  (∀ h ∈ s.hosts, ∀ h' ∈ s.hosts, h.name = h'.name → h = h') ∧ (∀ b ∈ s.backs, ∀ b' ∈ s.backs, b.id = b'.id → b = b')

/-- a no-op re-creation: what is removed is created again, with the content the converter wrote before:
the hosts are the committed ones, the backends are the committed ones before derivation (flag unset) -/
def NoOp (s : Store) (r : Recr) : Prop :=
  (∀ h ∈ r.hosts, h ∈ s.hosts ∧ r.hostsDel.contains h.name = true) ∧
  (∀ h ∈ s.hosts, r.hostsDel.contains h.name = true → h ∈ r.hosts) ∧
  (∀ b ∈ r.backs, b.flag = false ∧ r.backsDel.contains b.id = true ∧ ∃ d ∈ s.backs, d.id = b.id ∧ d.body = b.body) ∧
  (∀ d ∈ s.backs, r.backsDel.contains d.id = true → ∃ b ∈ r.backs, b.id = d.id)

/-- the dirty set is closed under the tracker links host — backend: a host that gives the derived attribute to a
re-created backend is re-created with it -/
def Closed (s : Store) (r : Recr) : Prop :=
  ∀ b ∈ r.backs, ∀ h ∈ s.hosts, gives h b.id = true → r.hostsDel.contains h.name = true

/-- computable version of `Closed`, evaluated by the driver on every observed batch -/
def closedOk (s : Store) (r : Recr) : Bool :=
  r.backs.all fun b => s.hosts.all fun h => !gives h b.id || r.hostsDel.contains h.name

end HapVerif.C11Sync
