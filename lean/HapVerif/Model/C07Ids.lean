/-
C07 (part) — `server ... id <n>` of the annotation `assign-backend-server-id: "true"`.

Model of pkg/converters/ingress/ingress.go `syncBackendEndpointHashes`:

    eps := copy of backend.Endpoints, sort.SliceStable by TargetRef
    usedPUIDS := {}
    for ep in eps:
      if ep.TargetRef == "" { continue }                       -- PUID stays 0 = no `id` is written
      pod, err := cache.GetPod(ep.TargetRef)
      hash := fnv1a32(pod.UID) & 0x7fffffff   |   1 when err != nil
      for { if hash != 0 && hash ∉ usedPUIDS { break }; hash = (hash + 1) & 0x7fffffff }
      usedPUIDS += hash ; ep.PUID = int32(hash)

The Go `for {}` has no bound; the model's loop carries fuel `|used| + 2` and `Props/C07Ids.lean` proves that
the fuel is never exhausted (pigeonhole) as long as the backend has fewer than 2^31 - 1 endpoints.
`assignV` is the variant that resolves collisions on the untruncated 32 bit value and masks only the value
written (seed C07f) - it exists for the counter-example theorems only.  Core-only.
-/
namespace HapVerif.C07.Ids

/-- 2^31: ids are the values 1 .. M-1 (HAProxy: positive int32) -/
def M : Nat := 2147483648
/-- 2^32: range of the hash -/
def W : Nat := 4294967296

/-- hash/fnv New32a: offset basis 2166136261, prime 16777619, xor THEN multiply -/
def fnvStep (h b : Nat) : Nat := ((h ^^^ b) * 16777619) % W
def fnv1a (bytes : List Nat) : Nat := bytes.foldl fnvStep 2166136261

def uidBytes (uid : String) : List Nat := uid.toUTF8.toList.map (·.toNat)

/-- what `GetPod(TargetRef)` gave: the 32 bit hash of the pod's UID, or an error -/
inductive Src where
  | hash (h : Nat)
  | err
deriving DecidableEq, Repr, Inhabited

/-- one endpoint of the backend: `ref` = its TargetRef (`none` = ""; the number stands for the string, in
string order), `src` = the pod behind it -/
structure Ep where
  ref : Option Nat
  src : Src
deriving DecidableEq, Repr, Inhabited

/-- exit condition of the probing loop: `hash != 0 && !exists` -/
def free (used : List Nat) (h : Nat) : Bool := h != 0 && !used.contains h

/-- `hash = (hash + 1) & 0x7fffffff` -/
def next (h : Nat) : Nat := (h + 1) % M

/-- the probing loop with fuel -/
def probe (used : List Nat) : Nat → Nat → Nat
  | 0, h => h
  | fuel + 1, h => if free used h then h else probe used fuel (next h)

/-- number of loop iterations that are always enough: |used| + 2 -/
def fuelFor (used : List Nat) : Nat := used.length + 2

/-- value the loop starts with: `hasher.Sum32() & 0x7fffffff`, or 1 when the pod cannot be read -/
def start : Src → Nat
  | .hash h => h % M
  | .err => 1

/-- the loop over the endpoints in TargetRef order; one id per endpoint, 0 = none written -/
def assignSorted (used : List Nat) : List Ep → List Nat
  | [] => []
  | e :: es =>
    match e.ref with
    | none => 0 :: assignSorted used es
    | some _ =>
      let id := probe used (fuelFor used) (start e.src)
      id :: assignSorted (id :: used) es

/-- sort key: "" sorts before every TargetRef -/
def key (e : Ep) : Nat := match e.ref with | none => 0 | some k => k + 1

def leKey (a b : Ep) : Bool := key a ≤ key b

/-- stable sort (insertion sort: structurally recursive, so that the kernel can evaluate the witnesses): an
element goes before the first one that is not smaller, so equal keys keep the order of the input -/
def ins {α : Type} (le : α → α → Bool) (a : α) : List α → List α
  | [] => [a]
  | b :: t => if le a b then a :: b :: t else b :: ins le a t

def isort {α : Type} (le : α → α → Bool) : List α → List α
  | [] => []
  | a :: t => ins le a (isort le t)

/-- `sort.SliceStable(eps, TargetRef <)` on the endpoints tagged with their position in the backend -/
def sortEps (eps : List Ep) : List (Ep × Nat) := isort (fun a b => leKey a.1 b.1) eps.zipIdx

/-- (position in the backend, id) in the order of assignment -/
def assign (eps : List Ep) : List (Nat × Nat) :=
  let s := sortEps eps
  (s.map (·.2)).zip (assignSorted [] (s.map (·.1)))

/-- PUID of every endpoint, in the order of the backend -/
def ids (eps : List Ep) : List Nat :=
  (List.range eps.length).map fun i => ((assign eps).lookup i).getD 0

/-- the endpoints with the id each one got, in the order of assignment (position forgotten): what an
observer of two runs can compare -/
def assignByRef (eps : List Ep) : List (Ep × Nat) :=
  let s := isort leKey eps
  s.zip (assignSorted [] s)

/-! ### Spec: what HAProxy demands of the ids written in one backend -/

/-- the ids written: PUID 0 writes no `id` -/
def written (l : List Int) : List Int := l.filter (· ≠ 0)

/-- `none` = the `server` lines load: every written id is in 1 .. 2^31-1 and no id is written twice -/
def hasDup : List Int → Bool
  | [] => false
  | a :: t => t.contains a || hasDup t

def oracle (puids : List Int) : Option String :=
  let w := written puids
  if w.any (fun x => x < 1 || x ≥ (M : Int)) then some "server-id-out-of-range"
  else if hasDup w then some "duplicate-server-id"
  else none

/-! ### the variant of seed C07f: collisions resolved on the untruncated value -/

def freeV (used : List Nat) (h : Nat) : Bool := h % M != 0 && !used.contains h

def probeV (used : List Nat) : Nat → Nat → Nat
  | 0, h => h
  | fuel + 1, h => if freeV used h then h else probeV used fuel ((h + 1) % W)

def startV : Src → Nat
  | .hash h => h % W
  | .err => 1

def assignSortedV (used : List Nat) : List Ep → List Nat
  | [] => []
  | e :: es =>
    match e.ref with
    | none => 0 :: assignSortedV used es
    | some _ =>
      let h := probeV used (used.length + 3) (startV e.src)
      (h % M) :: assignSortedV (h :: used) es

def idsV (eps : List Ep) : List Nat :=
  let s := sortEps eps
  let a := (s.map (·.2)).zip (assignSortedV [] (s.map (·.1)))
  (List.range eps.length).map fun i => (a.lookup i).getD 0

end HapVerif.C07.Ids
