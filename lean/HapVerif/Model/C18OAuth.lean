import HapVerif.Model.C18
/-!
Model of the lookup of the oauth2-proxy backend (C18, `oa` lines of the driver):

* `pkg/converters/ingress/annotations/backend.go`
    `buildBackendOAuth`: `uriPrefix` (default `/oauth2`, `oauth-uri-prefix` when it has a source,
    `strings.TrimRight(.., "/")`), `namespace := oauth.Source.Namespace`        → `uriPrefix`, `oauthAnnOf`
    `findBackend(namespace, uriPrefix)`: hostnames of `Hosts().Items()` in `sort.Strings` order, each
    host's `Paths` in slice order, first path that passes the test returns       → `scanOrder`, `findBackend`
* `pkg/haproxy/types/host.go` `addLink`: `Host.Paths` is kept sorted by path, DESCENDING (ties by
  registration order)                                                             → `pubLe`, `insertPub`

In `Model/C18.lean` what `findBackend` answers is an abstract outcome of the oauth annotation
(`OAuthAnn.val implOk found pfx backend`); here it is computed from the list of published paths
(`Pub`: hostname, declared path, namespace and id of the backend), so that paths that merely SHARE
A PREFIX with the uri prefix, trailing slashes, several hosts and several namespaces are inside the
model.  `PathTest` selects the comparison of the inner loop: `eqTrim` is the code
(`strings.TrimRight(path.Path(), "/") == uriPrefix`), `hasPrefix` the seeded variant C18f
(`strings.HasPrefix(path.Path(), uriPrefix)`).

Spec (`oauthTargets`, `oaPathOk`): "the authentication service call configured for exactly that
path" of an oauth declaration is the documented oauth2-proxy location — a path of the SAME
namespace whose declared path equals the uri prefix up to trailing slashes; when no such path is
published every request to the protected path is denied.  Core-only.
-/
namespace HapVerif.C18

/-- one published path: an entry of `Hosts().Items()[host].Paths` -/
structure Pub where
  host : String       -- hostname
  path : String       -- `HostPath.Path()`: the declared path
  ns : String         -- `HostPath.Backend.Namespace`
  backend : String    -- `HostPath.Backend.ID`
deriving Repr, DecidableEq

def trimRL (l : List Char) : List Char := (l.reverse.dropWhile (· = '/')).reverse

/-- `strings.TrimRight(s, "/")` -/
def trimR (s : String) : String := String.ofList (trimRL s.toList)

/-- the comparison inside the loop of `findBackend` -/
inductive PathTest where
  | eqTrim      -- `strings.TrimRight(path.Path(), "/") == uriPrefix`   (the code)
  | hasPrefix   -- `strings.HasPrefix(path.Path(), uriPrefix)`          (seed C18f)
deriving Repr, DecidableEq

def PathTest.hit : PathTest → String → String → Pub → Bool
  | .eqTrim, ns, p, q => trimR q.path == p && q.ns == ns
  | .hasPrefix, ns, p, q => p.toList.isPrefixOf q.path.toList && q.ns == ns

/-- the order in which `findBackend` meets the published paths: hostnames ascending
(`sort.Strings(hostnames)`), inside a host the paths descending (`Host.addLink`); Go compares
strings byte-wise, which for the UTF-8 encoding is the lexicographic order of the characters -/
def pubLe (a b : Pub) : Bool :=
  decide (a.host < b.host) || (a.host == b.host && decide (b.path ≤ a.path))

/-- ordered insert; an element goes BEFORE the equal ones that were registered after it (the
list is folded from the right, `Host.addLink` breaks ties by registration order) -/
def insertPub (q : Pub) : List Pub → List Pub
  | [] => [q]
  | x :: xs => if pubLe q x then q :: x :: xs else x :: insertPub q xs

/-- all published paths in visiting order (an insertion sort: structurally recursive,
kernel-evaluable); `pubs` lists them in registration order -/
def scanOrder (pubs : List Pub) : List Pub := pubs.foldr insertPub []

/-- `updater.findBackend(namespace, uriPrefix)`: id of the backend of the first hit -/
def findBackend (t : PathTest) (pubs : List Pub) (ns p : String) : Option String :=
  ((scanOrder pubs).find? (t.hit ns p)).map (·.backend)

/-- what a path declares with `oauth` (the key has a source): the implementation name is one of
oauth2_proxy / oauth2-proxy, and the value of `oauth-uri-prefix` when that key has a source -/
structure OAuthDecl where
  implOk : Bool
  pfx : Option String
deriving Repr, DecidableEq

/-- `uriPrefix` of `buildBackendOAuth` -/
def uriPrefix (ann : Option String) : String := trimR (ann.getD "/oauth2")

/-- the abstract annotation outcome of `Model/C18.lean`, computed -/
def oauthAnnOf (t : PathTest) (pubs : List Pub) (ns : String) (d : OAuthDecl) : OAuthAnn :=
  match findBackend t pubs ns (uriPrefix d.pfx) with
  | some b => .val d.implOk true (uriPrefix d.pfx) b
  | none => .val d.implOk false (uriPrefix d.pfx) ""

/-! ## Spec -/

/-- `q` is published at the documented oauth2-proxy location of a declaration made in namespace
`ns` with uri prefix annotation `ann`: same namespace, same path up to trailing slashes -/
def atPrefix (ns : String) (ann : Option String) (q : Pub) : Bool :=
  q.ns == ns && trimR q.path == trimR (ann.getD "/oauth2")

/-- **oauthTarget**: the backends an oauth declaration may legitimately be authenticated by; `[]` =
dangling declaration, every request must be denied -/
def oauthTargets (pubs : List Pub) (ns : String) (ann : Option String) : List String :=
  (pubs.filter (atPrefix ns ann)).map (·.backend)

/-- the declaration side of one path: namespace of the declaring object and its oauth keys -/
structure OaDecl where
  ns : String
  oauth : Option OAuthDecl
deriving Repr, DecidableEq

/-- the calls a path may be intercepted with: its own auth-url (`wants` of Model/C18.lean) and,
for a well-formed oauth declaration, `<prefix>/auth` on a backend published at the prefix -/
def oaWants (pubs : List Pub) (w : World) (p : PathIn) (d : OaDecl) : List Want :=
  wants w { p with oauth := .absent } ++
  (match d.oauth with
   | some ⟨true, ann⟩ =>
     (oauthTargets pubs d.ns ann).map fun b => Want.backend b (uriPrefix ann ++ "/auth") (uriPrefix ann ++ "/")
   | _ => [])

def oaDeclared (p : PathIn) (d : OaDecl) : Bool := declaredUrl p || d.oauth.isSome

/-- **fail closed** for one path, the oauth2-proxy being whoever is published at the uri prefix -/
def oaPathOk (pubs : List Pub) (w : World) (binds : List Bind) (p : PathIn) (d : OaDecl) (o : Obs) : Bool :=
  !oaDeclared p d || covered binds (oaWants pubs w p d) o.rb ||
    (covered binds (oaWants pubs w p d) o.r0 && covered binds (oaWants pubs w p d) o.r1)

def sigForeignProxy : String := "oauth-intercept-by-backend-not-published-at-uri-prefix"
def sigDangling : String := "oauth-dangling-uri-prefix-not-denied"

/-- root cause of a violation; the clauses of Model/C18.lean apply when the path's own auth-url or
the globals decide -/
def oaSignature (pubs : List Pub) (w : World) (binds : List Bind) (p : PathIn) (d : OaDecl) (o : Obs) : String :=
  match d.oauth with
  | some ⟨true, ann⟩ =>
    if p.url.nonEmpty then signature w binds p o
    else if oauthTargets pubs d.ns ann = [] then sigDangling
    else if hasIcpt o.rb then sigForeignProxy
    else signature w binds p o
  | _ => signature w binds p o

def oaPick (l : List String) : Option String :=
  if l.contains sigForeignProxy then some sigForeignProxy
  else if l.contains sigDangling then some sigDangling
  else pickSig l

/-- Spec evaluated on observed rules and binds -/
def oaOracle (pubs : List Pub) (w : World) (binds : List Bind) (decls : List OaDecl) (obs : List Obs) : Option String :=
  oaPick (((w.paths.zip decls).zip obs).filterMap fun ((p, d), o) =>
    if oaPathOk pubs w binds p d o then none else some (oaSignature pubs w binds p d o))

end HapVerif.C18
