import HapVerif.Model.C18
/-!
Model of the DECLARATION SOURCES of a path (C18, `cls` lines of the driver):

* `pkg/converters/ingress/ingress.go` `addBackendWithClass`: the annotation mapper of the backend
  (service:port) receives, PER PATH LINK and in this order, the annotations of the Service, the
  annotations of the Ingress and — `if ingressClass != nil` — the data of the ConfigMap the
  IngressClass of the Ingress points at with `spec.parameters` (`readParameters`)   → `mergeOf`, `effPaths`
* `pkg/converters/ingress/annotations/mapper.go` `addAnnotation`: a key that the path link already
  has keeps its first value                                                          → `AnnSet.orElse`

`ClsMerge` selects when the class parameters are merged: `everyPath` is the code (the guard mentions
the class only), `firstOnly` the seeded variant C18g (`ingressClass != nil && !found`, `found` = the
mapper of the backend existed: an earlier path of the sync already reached the service:port).

Spec (`declOf`, `specPaths`): what a path declares is a function of ITS OWN sources only — the
Service it points at, the Ingress that declares it, the parameters of that Ingress's class —
whatever other paths share its backend and in whatever order the paths are read.  The fail-closed
Spec of Model/C18.lean (`pathOk`, `oracle`) is evaluated against these declarations.  Core-only.
-/
namespace HapVerif.C18

/-- the authentication keys of one annotation source, abstracted as in `PathIn` -/
structure AnnSet where
  url : UrlAnn := .absent
  plc : Plc := .absent
  oauth : OAuthAnn := .absent
  signin : Bool := false
deriving Repr, DecidableEq

def UrlAnn.orElse : UrlAnn → UrlAnn → UrlAnn
  | .absent, b => b
  | a, _ => a

def Plc.orElse : Plc → Plc → Plc
  | .absent, b => b
  | a, _ => a

def OAuthAnn.orElse : OAuthAnn → OAuthAnn → OAuthAnn
  | .absent, b => b
  | a, _ => a

/-- `AddAnnotations` of `b` on a path link that already holds `a`: per key the first value stays
(auth-signin has one value in the grammar: present or not) -/
def AnnSet.orElse (a b : AnnSet) : AnnSet :=
  { url := a.url.orElse b.url, plc := a.plc.orElse b.plc, oauth := a.oauth.orElse b.oauth,
    signin := a.signin || b.signin }

/-- one declared path with its sources -/
structure ClsPath where
  base : PathIn                 -- host, backend, ord, key, hamatch, sub (annotation fields unused)
  svcAnn : AnnSet               -- annotations of the Service of the path
  ingAnn : AnnSet               -- annotations of the Ingress that declares the path
  clsAnn : Option AnnSet        -- parameters of the class of that Ingress (`none`: no class, no parameters)
deriving Repr, DecidableEq

inductive ClsMerge where
  | everyPath     -- `if ingressClass != nil`            (the code)
  | firstOnly     -- `if ingressClass != nil && !found`  (seed C18g)
deriving Repr, DecidableEq

def withAnn (p : PathIn) (a : AnnSet) : PathIn :=
  { p with url := a.url, plc := a.plc, oauth := a.oauth, signin := a.signin }

/-- the class parameters `addBackendWithClass` merges for `q`; `seen` = the paths linked earlier in
the sync (the mapper of a backend exists iff one of them reached it) -/
def classPart (m : ClsMerge) (seen : List ClsPath) (q : ClsPath) : AnnSet :=
  match m with
  | .everyPath => q.clsAnn.getD {}
  | .firstOnly => if seen.any (·.base.backend == q.base.backend) then {} else q.clsAnn.getD {}

/-- the keys the path link of `q` ends with: Service, then Ingress, then class parameters -/
def mergeOf (m : ClsMerge) (seen : List ClsPath) (q : ClsPath) : AnnSet :=
  (q.svcAnn.orElse q.ingAnn).orElse (classPart m seen q)

def effGo (m : ClsMerge) : List ClsPath → List ClsPath → List PathIn
  | _, [] => []
  | seen, q :: r => withAnn q.base (mergeOf m seen q) :: effGo m (seen ++ [q]) r

/-- the per-path configuration the annotation updater reads, paths in reading order -/
def effPaths (m : ClsMerge) (l : List ClsPath) : List PathIn := effGo m [] l

/-! ## Spec -/

/-- **declaration of a path**: its own sources, Service over Ingress over class parameters -/
def declOf (q : ClsPath) : AnnSet := (q.svcAnn.orElse q.ingAnn).orElse (q.clsAnn.getD {})

def specPath (q : ClsPath) : PathIn := withAnn q.base (declOf q)

def specPaths (l : List ClsPath) : List PathIn := l.map specPath

/-- the class of the declaring Ingress has parameters that declare external authentication, and
neither the Service nor the Ingress overrides the key -/
def declaresByClass (q : ClsPath) : Bool :=
  match q.clsAnn with
  | some c =>
    (c.url.nonEmpty && q.svcAnn.url == .absent && q.ingAnn.url == .absent) ||
    (c.oauth != .absent && q.svcAnn.oauth == .absent && q.ingAnn.oauth == .absent)
  | none => false

def sigClassLost : String := "class-parameters-auth-not-applied-to-path-of-shared-backend"

/-- root cause of a violation on a path: when no more specific mechanism explains it and the class
parameters are what declares the path, yet the backend section carries nothing for it -/
def clsSignature (w : World) (binds : List Bind) (q : ClsPath) (o : Obs) : String :=
  let s := signature w binds (specPath q) o
  if s = "declared-path-no-rule" && declaresByClass q && o.rb = [] then sigClassLost else s

def clsPick (l : List String) : Option String :=
  if l.contains sigClassLost then some sigClassLost else pickSig l

/-- Spec evaluated on observed rules and binds; `w.paths = specPaths qs` -/
def clsOracle (w : World) (binds : List Bind) (qs : List ClsPath) (obs : List Obs) : Option String :=
  clsPick ((qs.zip obs).filterMap fun (q, o) =>
    if pathOk w binds (specPath q) o then none else some (clsSignature w binds q o))

end HapVerif.C18
