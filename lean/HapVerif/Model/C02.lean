/-
M-Dyn: model of pkg/haproxy/dynupdate.go `checkBackendPair`, `checkEndpointPair`,
`exec{Enable,Disable}Endpoint`, `cmdResponseOK`, `alignSlots`, and of
pkg/haproxy/types/backend.go `AddEndpoint`/`AddEmptyEndpoint`/`sanitizeName` as far as the
dynamic update uses them; plus the HAProxy runtime server table (`load` from rendered server
lines, `apply` of one `set server` command) — trusted HAProxy semantics.  Core-only.
Shared by C02 (running = disk), C11 (no needless reloads) and C07 (unique server names).
-/
namespace HapVerif.C02

structure EP where
  name : String
  ip : String
  port : Nat
  enabled : Bool
  weight : Int
  cookie : String
  label : String
  tref : String       -- TargetRef
  puid : Nat
deriving DecidableEq, Repr, Inhabited

def EP.target (e : EP) : String := e.ip ++ ":" ++ toString e.port

def emptyIP : String := "127.0.0.1"
def emptyPort : Nat := 1023

/-- `Endpoint.IsEmpty` -/
def EP.isEmpty (e : EP) : Bool := e.ip == emptyIP

/-- the parts of a backend that the dynamic update reads -/
structure Back where
  eps : List EP
  dynUpdate : Bool
  resolver : Bool
  cookiePreserve : Bool
  initialWeight : Int := 1
  naming : Nat := 0          -- 0 sequence, 1 pod (targetRef), 2 ip:port
deriving Repr

/-! ### responses -/

/-- `cmdResponseOK("set server", response)` -/
def setServerOK (r : String) : Bool :=
  r == "" || r.startsWith "IP changed from " || r.startsWith "no need to change "

/-- result of one `socket.Send` of three commands -/
inductive Resp
  | err
  | msgs (m : List String)
deriving Repr, DecidableEq

/-- the loop `for m in msg: if m != "" && !cmdResponseOK` -/
def Resp.ok : Resp → Bool
  | .err => false
  | .msgs m => m.all setServerOK

/-! ### commands -/

inductive Cmd
  | disable (name : String)
  | enable (name ip : String) (port : Nat) (weight : Int)
deriving Repr, DecidableEq

/-- `sanitizeName` with fuel (the Go recursion terminates because at most `len` names exist) -/
def sanitizeName (names : List String) (name : String) (n : Nat) : Nat → Nat → String
  | 0, idx => name ++ "__" ++ toString idx
  | fuel + 1, idx =>
    if name = "" then
      let s := toString (n + 1)
      "srv" ++ String.ofList (List.replicate (3 - s.length) '0') ++ s
    else
      let sname := if idx > 1 then name ++ "__" ++ toString idx else name
      if names.contains sname then sanitizeName names name n fuel (idx + 1) else sname

def mkEmpty (nm : String) (w : Int) : EP :=
  { name := nm, ip := emptyIP, port := emptyPort, enabled := false, weight := w, cookie := nm,
    label := "", tref := "", puid := 0 }

/-- `AddEmptyEndpoint` -/
def addEmpty (b : Back) : Back :=
  let nm := sanitizeName (b.eps.map (·.name)) "" b.eps.length (b.eps.length + 1) 1
  { b with eps := b.eps ++ [mkEmpty nm b.initialWeight] }

/-! ### checkBackendPair -/

/-- state of the pairing loop -/
structure PairSt where
  updated : Bool
  cur : List EP            -- current endpoints (names get assigned)
  cmds : List Cmd := []    -- commands sent so far
  script : List Resp       -- responses still to come (exhausted = all ok, empty message)
  nexec : Nat := 0
deriving Repr

def PairSt.exec (s : PairSt) (c : Cmd) : PairSt × Bool :=
  match s.script with
  | [] => ({ s with cmds := s.cmds ++ [c], nexec := s.nexec + 1 }, true)
  | r :: rest => ({ s with cmds := s.cmds ++ [c], script := rest, nexec := s.nexec + 1 }, r.ok)

/-- one old/cur association: the old endpoint and the index of the current one -/
structure Pair where
  target : String
  old : EP
  cur : Option Nat
deriving Repr

def setName (l : List EP) (i : Nat) (n : String) : List EP := l.modify i (fun e => { e with name := n })

/-- Go map assignment `endpoints[target] = &epPair{old: ep}` (a later duplicate replaces) -/
def putPair (ps : List Pair) (p : Pair) : List Pair :=
  if ps.any (·.target = p.target) then ps.map (fun q => if q.target = p.target then p else q) else ps ++ [p]

def insertStr (x : String) : List String → List String
  | [] => [x]
  | y :: ys => if x < y then x :: y :: ys else y :: insertStr x ys
def sortStrs (l : List String) : List String := l.foldl (fun acc x => insertStr x acc) []

/-- `checkEndpointPair` given the (already renamed) current endpoint -/
def checkEndpointPair (s : PairSt) (preserve : Bool) (old cur : EP) : PairSt × Bool :=
  if old = cur then (s, true)       -- reflect.DeepEqual (SourceIP is not modelled)
  else if preserve ∧ old.cookie ≠ cur.cookie then (s, false)
  else
    let (s, ok) := s.exec (.enable cur.name cur.ip cur.port cur.weight)
    (s, ok && old.label = "" && cur.label = "")

/-- stage 1: split the old endpoints into pairs (enabled, by target), the target list and the
empty (disabled) slots -/
structure Split where
  pairs : List Pair := []
  targets : List String := []
  empty : List EP := []
deriving Repr

def splitStep (a : Split) (e : EP) : Split :=
  if e.enabled then { a with pairs := putPair a.pairs ⟨e.target, e, none⟩, targets := a.targets ++ [e.target] }
  else { a with empty := a.empty ++ [e] }

def splitOld (old : List EP) : Split := old.foldl splitStep {}

/-- stage 2: current endpoints with a known target take the old name; the others are `added` -/
structure Assoc where
  pairs : List Pair
  cur : List EP
  added : List Nat := []
deriving Repr

def setCur (ps : List Pair) (t : String) (i : Nat) : List Pair :=
  ps.map fun q => if q.target = t then { q with cur := some i } else q

def assocStep (a : Assoc) (i : Nat) : Assoc :=
  let e := a.cur.getD i default
  match a.pairs.find? (·.target = e.target) with
  | some p => { a with pairs := setCur a.pairs e.target i, cur := setName a.cur i p.old.name }
  | none => { a with added := a.added ++ [i] }

def assocCur (pairs : List Pair) (cur : List EP) : Assoc :=
  (List.range cur.length).foldl assocStep { pairs := pairs, cur := cur }

/-- stage 3: walk the sorted old targets: reuse, update or disable -/
structure Walk where
  s : PairSt
  pairs : List Pair
  added : List Nat
  empty : List EP
deriving Repr

def walkStep (preserve : Bool) (w : Walk) (t : String) : Walk :=
  match w.pairs.find? (·.target = t) with
  | none => w
  | some p =>
    -- an old endpoint without successor takes the first added one
    let (w, p) : Walk × Pair :=
      match p.cur, w.added with
      | none, a :: rest =>
        ({ w with pairs := setCur w.pairs t a, s := { w.s with cur := setName w.s.cur a p.old.name }, added := rest },
         { p with cur := some a })
      | _, _ => (w, p)
    match p.cur with
    | none =>
      let (s, ok) := w.s.exec (.disable p.old.name)
      let s := if !ok || p.old.label ≠ "" then { s with updated := false } else s
      { w with s := s, empty := w.empty ++ [p.old] }
    | some ci =>
      let (s, ok) := checkEndpointPair w.s preserve p.old (w.s.cur.getD ci default)
      { w with s := if !ok then { s with updated := false } else s }

/-- stage 4: the remaining added endpoints take the empty slots in order -/
def addedStep (preserve : Bool) (empty : List EP) (acc : Option PairSt × Nat) (a : Nat) : Option PairSt × Nat :=
  match acc.1 with
  | none => (none, acc.2 + 1)
  | some s =>
    match empty[acc.2]? with
    | none => (none, acc.2 + 1)          -- Go: index out of range
    | some slot =>
      let s := { s with cur := setName s.cur a slot.name }
      let e := s.cur.getD a default
      if preserve ∧ e.cookie ≠ slot.cookie then (some { s with updated := false }, acc.2 + 1)
      else
        let (s, ok) := s.exec (.enable e.name e.ip e.port e.weight)
        (some (if !ok || e.label ≠ "" then { s with updated := false } else s), acc.2 + 1)

/-- name and cookie of a carried-over slot -/
def setSlot (l : List EP) (i : Nat) (n ck : String) : List EP := l.modify i (fun e => { e with name := n, cookie := ck })

/-- stage 5: remaining empty slots are copied to the current backend: `ep := curBack.AddEmptyEndpoint();
ep.Name = empty[i].Name; ep.CookieValue = empty[i].CookieValue` (the running server keeps the cookie it was loaded
with — repair 91faf0b; before it only the name was kept: `copyEmptyOld`) -/
def copyEmpty (preserve : Bool) (iw : Int) (cur : List EP) (slots : List EP) : List EP :=
  (slots.foldl (fun (b : Back) slot =>
      let b := addEmpty b
      { b with eps := setSlot b.eps (b.eps.length - 1) slot.name slot.cookie })
    ({ eps := cur, dynUpdate := true, resolver := false, cookiePreserve := preserve, initialWeight := iw } : Back)).eps

/-- stage 5 before repair 91faf0b (`curBack.AddEmptyEndpoint().Name = empty[i].Name`): the copied slot gets a NEW
placeholder cookie; kept for the witness `free_slot_cookie_drift` -/
def copyEmptyOld (preserve : Bool) (iw : Int) (cur : List EP) (slots : List EP) : List EP :=
  (slots.foldl (fun (b : Back) slot =>
      let b := addEmpty b
      { b with eps := setName b.eps (b.eps.length - 1) slot.name })
    ({ eps := cur, dynUpdate := true, resolver := false, cookiePreserve := preserve, initialWeight := iw } : Back)).eps

/-- the body of `checkBackendPair` after the early returns (DynUpdate on, no resolver,
`len old ≥ len cur`).  `none` = Go would panic (index out of range on `empty[i]`). -/
def pairLoop (old : List EP) (cur : List EP) (preserve : Bool) (iw : Int) (sameRest : Bool) (script : List Resp) :
    Option PairSt :=
  let sp := splitOld old
  let as := assocCur sp.pairs cur
  let w0 : Walk := { s := { updated := sameRest, cur := as.cur, script := script }, pairs := as.pairs,
                     added := as.added, empty := sp.empty }
  let w := (sortStrs sp.targets).foldl (walkStep preserve) w0
  match (w.added.foldl (addedStep preserve w.empty) (some w.s, 0)).1 with
  | none => none
  | some s => some { s with cur := copyEmpty preserve iw s.cur (w.empty.drop w.added.length) }

/-- outcome of `checkBackendPair` -/
structure Outcome where
  updated : Bool
  cur : List EP
  cmds : List Cmd
  panic : Bool := false
deriving Repr

/-- `hasDuplicatedTarget`: two enabled endpoints with the same target -/
def hasDupTarget (eps : List EP) : Bool :=
  let ts := (eps.filter (·.enabled)).map (·.target)
  ts.eraseDups.length ≠ ts.length

def checkBackendPair (old cur : Back) (sameRest : Bool) (script : List Resp) : Outcome :=
  if old.eps.length < cur.eps.length then ⟨false, cur.eps, [], false⟩
  else if cur.resolver then
    if sameRest then
      -- pad with empty endpoints up to the old size
      let b := (List.range (old.eps.length - cur.eps.length)).foldl (fun b _ => addEmpty b) cur
      ⟨true, b.eps, [], false⟩
    else ⟨false, cur.eps, [], false⟩
  else if !cur.dynUpdate then
    if sameRest ∧ old.eps ≠ cur.eps then ⟨false, cur.eps, [], false⟩ else ⟨sameRest, cur.eps, [], false⟩
  else if hasDupTarget old.eps || hasDupTarget cur.eps then ⟨false, cur.eps, [], false⟩
  else
    match pairLoop old.eps cur.eps cur.cookiePreserve cur.initialWeight sameRest script with
    | none => ⟨false, cur.eps, [], true⟩
    | some s => ⟨s.updated, s.cur, s.cmds, false⟩

/-! ### alignSlots (one backend) -/

def alignSlots (b : Back) (minFree blockSize : Nat) : Back :=
  if !b.dynUpdate then b else
  let bs := if blockSize < 1 then 1 else blockSize
  if minFree = 0 ∧ b.eps.length = 0 then
    (List.range bs).foldl (fun b _ => addEmpty b) b
  else
    let free := (b.eps.filter (·.isEmpty)).length
    let b := (List.range (minFree - free)).foldl (fun b _ => addEmpty b) b
    let n := bs - (((b.eps.length + bs - 1) % bs) + 1)
    (List.range n).foldl (fun b _ => addEmpty b) b

/-! ### HAProxy runtime server table (trusted semantics) -/

inductive SState | ready | drain | maint
deriving DecidableEq, Repr

structure Srv where
  name : String
  ip : String
  port : Nat
  state : SState
  weight : Int
deriving DecidableEq, Repr

/-- what HAProxy holds after loading `server <name> <ip>:<port> [disabled] weight <w>` -/
def loadSrv (e : EP) : Srv :=
  { name := e.name, ip := e.ip, port := e.port, weight := e.weight,
    state := if !e.enabled then .maint else if e.weight = 0 then .drain else .ready }

def load (eps : List EP) : List Srv := eps.map loadSrv

/-- `set server b/<name> …` (the three commands of one exec, all answered OK) -/
def applyCmd (t : List Srv) : Cmd → List Srv
  | .disable n => t.map fun s => if s.name = n then { s with state := .maint, ip := emptyIP, port := emptyPort, weight := 0 } else s
  | .enable n ip port w => t.map fun s =>
      if s.name = n then { s with ip := ip, port := port, weight := w, state := if w > 0 then .ready else .drain } else s

/-- observable normal form: a server in maintenance is only "name, maint" (the statement speaks of
address/port/weight of *enabled* slots); weight 0 and drain are the same thing -/
def normSrv (s : Srv) : String × Option (String × Nat × Int) :=
  match s.state with
  | .maint => (s.name, none)
  | _ => (s.name, some (s.ip, s.port, s.weight))

def norm (t : List Srv) : List (String × Option (String × Nat × Int)) := t.map normSrv

/-! ### Specification (oracle) on an implementation outcome -/

def namesNodup (eps : List EP) : Bool := (eps.map (·.name)).eraseDups.length = eps.length

/-- sort by name (server order inside a backend is irrelevant to HAProxy's behaviour) -/
def insertN (x : String × Option (String × Nat × Int)) :
    List (String × Option (String × Nat × Int)) → List (String × Option (String × Nat × Int))
  | [] => [x]
  | y :: ys => if x.1 < y.1 then x :: y :: ys else y :: insertN x ys
def sortN (l : List (String × Option (String × Nat × Int))) := l.foldl (fun acc x => insertN x acc) []

def oracle (old : Back) (allOk : Bool) (o : Outcome) : Option String :=
  if o.panic then some "panic-index-out-of-range" else
  if !namesNodup o.cur then some "duplicate-server-names" else
  if !o.updated then none else
  if !allOk then some "dynamic-update-despite-failed-command" else
  -- DNS resolver backends are rendered as `server-template srv <len>`: only the slot count is on disk
  if old.resolver then (if o.cur.length = old.eps.length ∧ o.cmds.isEmpty then none else some "server-template-size-differs") else
  if sortN (norm (o.cmds.foldl applyCmd (load old.eps))) ≠ sortN (norm (load o.cur)) then
    some "running-differs-from-disk" else none

/-! ### the cookie column of the runtime table (trusted HAProxy semantics)

haproxy.tmpl prints ` cookie <CookieValue>` on a `server` line iff `Backend.CookieAffinity()` (cookie name set, not
TCP, not `dynamic`) and `CookieValue ≠ ""` — with and without `preserve` the SAME value is printed; empty slots carry
the placeholder `AddEmptyEndpoint` gives them (their generated name).  HAProxy keeps the value it loaded:
`set server … addr/state/weight` does not touch it and no runtime command can change it. -/

/-- the cookie HAProxy loads from the server line of `e` (`""` = no `cookie` keyword) -/
def renderedCookie (aff : Bool) (e : EP) : String := if aff then e.cookie else ""

/-- The statement lists "preserved cookie values": the column is compared when the backend renders cookies AND
`session-cookie-preserve` is on.  (Without preserve the code lets the value drift on purpose — comment in
`AddEmptyEndpoint`, and C11 demands "fits ⇒ no reload" there; see `Props/C02Cookie.lean` `cookie_drifts_without_preserve`.) -/
def cookieScope (aff preserve : Bool) : Bool := aff && preserve

/-- a running server with the cookie it was loaded with -/
structure SrvC where
  srv : Srv
  cookie : String
deriving DecidableEq, Repr

def loadSrvC (ck : Bool) (e : EP) : SrvC := ⟨loadSrv e, renderedCookie ck e⟩

/-- the table HAProxy holds after loading the server lines of `eps` (`ck`: the backend renders cookies) -/
def loadC (ck : Bool) (eps : List EP) : List SrvC := eps.map (loadSrvC ck)

/-- what one exec of `set server` does to one server (`applyCmd t c = t.map (stepSrv c)`) -/
def stepSrv (c : Cmd) (s : Srv) : Srv :=
  match c with
  | .disable n => if s.name = n then { s with state := .maint, ip := emptyIP, port := emptyPort, weight := 0 } else s
  | .enable n ip port w =>
    if s.name = n then { s with ip := ip, port := port, weight := w, state := if w > 0 then .ready else .drain } else s

/-- `set server` on the table with cookies: the cookie column is left untouched -/
def applyCmdC (t : List SrvC) (c : Cmd) : List SrvC := t.map fun s => { s with srv := stepSrv c s.srv }

/-- the running table after the commands -/
def tableC (ck : Bool) (old : List EP) (cmds : List Cmd) : List SrvC := cmds.foldl applyCmdC (loadC ck old)

abbrev RowC := String × Option (String × Nat × Int × String)

/-- observable normal form with the cookie: as `normSrv`, a server in maintenance is only "name, maint" -/
def normSrvC (s : SrvC) : RowC :=
  match s.srv.state with
  | .maint => (s.srv.name, none)
  | _ => (s.srv.name, some (s.srv.ip, s.srv.port, s.srv.weight, s.cookie))

def normC (t : List SrvC) : List RowC := t.map normSrvC

def insertNC (x : RowC) : List RowC → List RowC
  | [] => [x]
  | y :: ys => if x.1 < y.1 then x :: y :: ys else y :: insertNC x ys
def sortNC (l : List RowC) : List RowC := l.foldl (fun acc x => insertNC x acc) []

/-- the cookie column of EVERY server, free slots (maintenance) included: rows `(name, cookie)` -/
def cookieRows (t : List SrvC) : List RowC := t.map fun s => (s.srv.name, some ("", 0, 0, s.cookie))

/-- Spec with the cookie column: the clauses of `oracle`, then "running table = loaded table, cookies included"
for the servers that take traffic, then the cookie of every server, free slots included — what the next update's
preserve guard relies on (`ck` = the cookie column is in scope, `cookieScope aff preserve`) -/
def oracleC (ck : Bool) (old : Back) (allOk : Bool) (o : Outcome) : Option String :=
  match oracle old allOk o with
  | some c => some c
  | none =>
    if !o.updated || old.resolver then none else
    if sortNC (normC (tableC ck old.eps o.cmds)) ≠ sortNC (normC (loadC ck o.cur)) then
      some "running-cookie-differs-from-disk" else
    if sortNC (cookieRows (tableC ck old.eps o.cmds)) ≠ sortNC (cookieRows (loadC ck o.cur)) then
      some "free-slot-cookie-differs-from-disk" else none

/-- the same clause on a running table reported by the implementation side (the harness' simulated HAProxy):
rows `(name, in maintenance, cookie)` against the written endpoints -/
def runRowsDiffer (ck : Bool) (run : List (String × Bool × String)) (cur : List EP) : Bool :=
  run.any fun (n, maint, cookie) =>
    !maint && cur.any (fun e => e.name = n && e.enabled && renderedCookie ck e != (if ck then cookie else ""))

/-- the seeded variant C02e: the preserve guard of the loop that fills empty slots is gone (stage 4 runs as if
preserve were off); used by the witnesses only -/
def pairLoopNoSlotGuard (old : List EP) (cur : List EP) (preserve : Bool) (iw : Int) (sameRest : Bool)
    (script : List Resp) : Option PairSt :=
  let sp := splitOld old
  let as := assocCur sp.pairs cur
  let w0 : Walk := { s := { updated := sameRest, cur := as.cur, script := script }, pairs := as.pairs,
                     added := as.added, empty := sp.empty }
  let w := (sortStrs sp.targets).foldl (walkStep preserve) w0
  match (w.added.foldl (addedStep false w.empty) (some w.s, 0)).1 with
  | none => none
  | some s => some { s with cur := copyEmpty preserve iw s.cur (w.empty.drop w.added.length) }

/-- the pairing loop before repair 91faf0b (free slots copied with `copyEmptyOld`); witnesses only -/
def pairLoopOld (old : List EP) (cur : List EP) (preserve : Bool) (iw : Int) (sameRest : Bool) (script : List Resp) :
    Option PairSt :=
  let sp := splitOld old
  let as := assocCur sp.pairs cur
  let w0 : Walk := { s := { updated := sameRest, cur := as.cur, script := script }, pairs := as.pairs,
                     added := as.added, empty := sp.empty }
  let w := (sortStrs sp.targets).foldl (walkStep preserve) w0
  match (w.added.foldl (addedStep preserve w.empty) (some w.s, 0)).1 with
  | none => none
  | some s => some { s with cur := copyEmptyOld preserve iw s.cur (w.empty.drop w.added.length) }

/-- `checkBackendPair` before repair 91faf0b for a dynamic backend that reaches the loop; witnesses only -/
def checkBackendPairOld (old cur : Back) (sameRest : Bool) (script : List Resp) : Outcome :=
  match pairLoopOld old.eps cur.eps cur.cookiePreserve cur.initialWeight sameRest script with
  | none => ⟨false, cur.eps, [], true⟩
  | some s => ⟨s.updated, s.cur, s.cmds, false⟩

end HapVerif.C02
