/- Model for C02: not written yet -/
namespace HapVerif.C02
end HapVerif.C02
