/-!
View of `types.Backends` as `Backends.Clear` (pkg/haproxy/types/backends.go) touches it, for its TRANSLATION
(Generated/CodeC05.lean): the three item maps as lists of names, the shards as a list (position = shard number) of
lists of names, `changedShards` (a `map[int]bool` only ever written with `true`) as the list of flagged shard numbers
(a set: membership is what the readers — `ChangedShards()` — look at).
Core-only.
-/
namespace HapVerif.C05Clear

structure BView where
  items : List String := []
  itemsAdd : List String := []
  itemsDel : List String := []
  shards : List (List String) := []
  changedShards : List Int := []
deriving DecidableEq, Repr

/-- `CreateBackends(shardCount)`: empty maps, `shardCount` empty shards, nothing flagged -/
def create (n : Int) : BView := { shards := List.replicate n.toNat [] }

/-- the slice `b.shards` as `for i := range b.shards` sees it: (index, shard) pairs in index order -/
def indexedFrom (k : Int) : List (List String) → List (Int × List String)
  | [] => []
  | s :: ss => (k, s) :: indexedFrom (k + 1) ss
def indexed (ss : List (List String)) : List (Int × List String) := indexedFrom 0 ss

/-- `b.shards[i]` (for an index the range produced) -/
def shardAt (ss : List (List String)) (i : Int) : List String := ((indexed ss).lookup i).getD []

/-- `nb.backendShardChanged(i)`: `nb.changedShards[i] = true` -/
def flagShard (nb : BView) (i : Int) : BView := { nb with changedShards := nb.changedShards ++ [i] }

end HapVerif.C05Clear
