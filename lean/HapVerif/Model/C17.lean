/- Model for C17: not written yet -/
namespace HapVerif.C17
end HapVerif.C17
