/-
Model for C17 — ACME: certificates requested exactly when needed, queue tracks Ingress changes.
Core-only.

(a) `pkg/acme/signer.go`: `Notify` / `verify` / `match` as control flow over
    * the secret state (`GetTLSSecretContent` error | certificate with `NotAfter` and DNS SANs),
    * `time.Now()` and the configured `expiring` window (Int nanoseconds),
    * the declared domains carried by the queue item (`name,chain,d1,d2,...`),
    * the result of `Client.Sign` (crt? key? err?) and of `SetTLSSecretContent` (err?).
    `match` uses `x509.Certificate.VerifyHostname`; for valid lower-case host names that is
    `coversOne`: exact label-wise equality, or a SAN whose *whole leftmost label* is `*`
    covering exactly one extra label; a declared name that itself starts with `*` is only
    covered by the identical SAN (Go treats it as an invalid candidate => exact match).
    The secret state is abstract here; `Model/C17Sec.lean` computes it from the Secret object (type,
    bytes under `tls.crt` / `tls.key` / `ca.crt`) as `cache.go GetTLSSecretContent` does.

(b) `pkg/haproxy/types/global.go` `AcmeStorages` (items / itemsAdd / itemsDel with the pointer
    sharing between `items` and `itemsAdd`, the snapshot `Acquire` takes of a committed storage,
    the `cleared` flag), `config.Clear()` (the storages object is carried over, its items become
    removal candidates), `config.Commit()`, `instance.AcmeUpdate()` on leader / non-leader, with
    and without an ACME account.  The code before the repairs is kept as `*Old` (witnesses only).
    The controller cycle around it (`Inst`, `ICycle`, `icycleP`): `AcmeUpdate` followed by
    `HAProxyUpdate`, whose reload may fail (`failedSince`, `reloadOwed` as `updateSuccessful`/`Reload`
    set them) and whose deferred `Commit` runs in every case; `AddPolicy` = whether the enqueue
    decision looks at `failedSince` (the code that exists: no).

(c) the part of `pkg/converters/ingress/ingress.go` that feeds (b): per partial sync the
    tracker closure (`trackAddedIngress` + `QueryLinks(..., true)`) decides which storages are
    `RemoveAll`ed and which ingresses are re-synced; `syncIngress` acquires a storage per TLS
    block of an ingress that has `cert-signer: acme`.
-/
namespace HapVerif.C17

/-! ## (a) signer -/

/-- a DNS name as its list of labels (`"*.dev.local"` = `["*","dev","local"]`) -/
abbrev Name := List String

def isWild (n : Name) : Bool := n.head? == some "*"

/-- `VerifyHostname`: does one SAN cover one candidate host name -/
def coversOne (san d : Name) : Bool :=
  if d == [""] then false                       -- empty candidate never matches
  else if isWild d then san == d                -- invalid candidate: exact comparison only
  else if isWild san then
    !san.tail.isEmpty && !d.isEmpty && d.tail == san.tail   -- `*` = exactly one label
  else san == d

def covered (sans : List Name) (d : Name) : Bool := sans.any (coversOne · d)

/-- signer.go `match` -/
def matchAll (domains : List Name) (sans : List Name) : Bool := domains.all (covered sans)

inductive Secret where
  | missing                                       -- GetTLSSecretContent returned an error
  | cert (notAfter : Int) (sans : List Name)
deriving Repr, DecidableEq

structure SignRes where
  crt : Bool
  key : Bool
  err : Bool
deriving Repr, DecidableEq

structure VIn where
  acct     : Bool            -- signer has a client (HasAccount)
  secret   : Secret
  now      : Int
  window   : Int             -- `expiring`
  declared : List Name       -- domain set of the storage the item was built from
  sign     : SignRes
  setErr   : Bool            -- SetTLSSecretContent fails
deriving Repr

inductive Reason where | missing | expiring | outdated
deriving Repr, DecidableEq

structure VOut where
  got     : Bool                       -- GetTLSSecretContent called
  signed  : Option (List Name)         -- Client.Sign called with these domains
  written : Bool                       -- SetTLSSecretContent called
  err     : Bool                       -- Notify returned an error
  metric  : Option (Reason × Bool)     -- which counter, success flag
deriving Repr, DecidableEq

/-- `buildAcmeStorages` joins the domains with "," and `Notify` splits the item again:
an empty domain set comes back as the single empty name. -/
def itemDomains (declared : List Name) : List Name :=
  if declared.isEmpty then [[""]] else declared

def reasonOf (i : VIn) (ds : List Name) : Option Reason :=
  match i.secret with
  | .missing => some .missing
  | .cert na sans =>
    if na < i.now + i.window then some .expiring          -- NotAfter.Before(now+expiring): strict
    else if !(matchAll ds sans) then some .outdated
    else none

/-- `signer.Notify` -/
def notify (i : VIn) : VOut :=
  if !i.acct then { got := false, signed := none, written := false, err := true, metric := none } else
  let ds := itemDomains i.declared
  match reasonOf i ds with
  | none => { got := true, signed := none, written := false, err := false, metric := none }
  | some r =>
    if i.sign.crt && i.sign.key then
      { got := true, signed := some ds, written := true, err := i.setErr, metric := some (r, !i.setErr) }
    else
      { got := true, signed := some ds, written := false, err := i.sign.err, metric := some (r, !i.sign.err) }

/-! ### Spec (a) -/

/-- what the property calls "needed" -/
def needed (i : VIn) : Bool :=
  match i.secret with
  | .missing => true
  | .cert na sans => na < i.now + i.window || !(i.declared.all (covered sans))

def oracleVerify (i : VIn) (o : VOut) : Option String :=
  if !i.acct then
    (if o.signed.isSome || o.written then some "no-account-but-requested" else none)
  else if o.signed.isSome && !needed i then
    some (if i.declared.isEmpty then "empty-domain-set-requested" else "valid-certificate-re-requested")
  else if o.signed.isNone && needed i then some "needed-certificate-not-requested"
  else if o.written && !(o.signed.isSome && i.sign.crt && i.sign.key) then
    some "secret-written-without-crt-and-key"
  else if (match o.signed with
      | some ds => !i.declared.isEmpty && ds != i.declared
      | none => false) then some "requested-wrong-domains"
  else none

/-! ## (b) AcmeStorages / AcmeUpdate -/

/-- `AcmeCerts`: preferred chain + the set of domains (sorted, no duplicates: `reflect.DeepEqual`
on the Go map is set equality) -/
structure Cert where
  chain : String
  doms  : List String
deriving Repr, DecidableEq

def addDom (l : List String) (d : String) : List String :=
  match l with
  | [] => [d]
  | x :: t => if d = x then l else if d < x then d :: l else x :: addDom t d

def addDoms (l : List String) (ds : List String) : List String := ds.foldl addDom l

/-- `AssignPreferredChain` (called only with a non-empty chain); the error case keeps the old one -/
def assignChain (cur chain : String) : String :=
  if chain = "" then cur else if cur ≠ "" ∧ cur ≠ chain then cur else chain

abbrev SMap := List (String × Cert)

def find (m : SMap) (n : String) : Option Cert :=
  match m with
  | [] => none
  | (k, v) :: t => if k = n then some v else find t n

def erase (m : SMap) (n : String) : SMap := m.filter (fun e => e.1 ≠ n)
def insert (m : SMap) (n : String) (c : Cert) : SMap := (n, c) :: erase m n

structure Storages where
  items : SMap := []
  add   : SMap := []
  del   : SMap := []
  cleared : Bool := false     -- between `Clear()` and `Commit()`
deriving Repr, DecidableEq

/-- queue facade calls -/
inductive QOp where
  | add (n : String) (c : Cert)
  | remove (n : String) (c : Cert)
deriving Repr, DecidableEq

/-- `Acquire(n)` + `AddDomains(doms)` + (`chain ≠ ""` → `AssignPreferredChain(chain)`).
The object in `itemsAdd` is the one in `items` (same pointer), so it sees the mutation. A
committed storage (in `items`, not in `itemsAdd`) is registered in `itemsAdd` and a clone of its
former state in `itemsDel`, unless one is there already. -/
def acquire (s : Storages) (n chain : String) (doms : List String) : Storages :=
  match find s.items n with
  | none =>
    let c : Cert := { chain := assignChain "" chain, doms := addDoms [] doms }
    { s with items := insert s.items n c, add := insert s.add n c }
  | some cur =>
    let c : Cert := { chain := assignChain cur.chain chain, doms := addDoms cur.doms doms }
    if (find s.add n).isSome then { s with items := insert s.items n c, add := insert s.add n c }
    else { s with items := insert s.items n c, add := insert s.add n c,
                  del := if (find s.del n).isSome then s.del else insert s.del n cur }

/-- `Acquire` before the repair: a committed storage was mutated in place and nothing recorded -/
def acquireOld (s : Storages) (n chain : String) (doms : List String) : Storages :=
  match find s.items n with
  | none =>
    let c : Cert := { chain := assignChain "" chain, doms := addDoms [] doms }
    { s with items := insert s.items n c, add := insert s.add n c }
  | some cur =>
    let c : Cert := { chain := assignChain cur.chain chain, doms := addDoms cur.doms doms }
    { s with items := insert s.items n c,
             add := if (find s.add n).isSome then insert s.add n c else s.add }

def removeOne (s : Storages) (n : String) : Storages :=
  match find s.items n with
  | some c => { s with items := erase s.items n, del := insert s.del n c }
  | none => s

def removeAll (s : Storages) (ns : List String) : Storages := ns.foldl removeOne s

/-- `shrink`: a name whose removed and (re)added objects are deep-equal is dropped from the
removals, and — unless a `Clear()` is pending: a full sync enqueues everything — from the additions -/
def shrink (s : Storages) : Storages :=
  let same (n : String) : Bool := (find s.add n).isSome && find s.add n == find s.del n
  { s with add := if s.cleared then s.add else s.add.filter (fun e => !same e.1),
           del := s.del.filter (fun e => !same e.1) }

def commit (s : Storages) : Storages := { s with add := [], del := [], cleared := false }

/-- `config.Clear()` -> `AcmeData.ClearStorages()` -> `AcmeStorages.Clear()`: the storages object
survives, all its items become removal candidates -/
def clear (s : Storages) : Storages :=
  { items := [], add := [],
    del := s.items ++ s.del.filter (fun e => (find s.items e.1).isNone), cleared := true }

/-- `instance.AcmeUpdate()`; `acct` = `acmeEnsureConfig` (signer.HasAccount) -/
def acmeUpdate (leader acct : Bool) (s : Storages) : Storages × List QOp :=
  if leader then
    if !acct then (s, [])
    else
      let s' := shrink s
      (s', s'.add.map (fun e => QOp.add e.1 e.2) ++ s'.del.map (fun e => QOp.remove e.1 e.2))
  else (shrink s, [])          -- `storages.Updated()` shrinks, nothing is enqueued

/-! the code before the repairs (historical witnesses only) -/

def shrinkOld (s : Storages) : Storages :=
  let same (n : String) : Bool := (find s.add n).isSome && find s.add n == find s.del n
  { s with add := s.add.filter (fun e => !same e.1), del := s.del.filter (fun e => !same e.1) }

/-- `config.Clear()` used to make a new `AcmeData{}`: the old storages object was dropped -/
def clearOld (_ : Storages) : Storages := {}

def acmeUpdateOld (leader acct : Bool) (s : Storages) : Storages × List QOp :=
  if leader then
    if !acct then (s, [])
    else
      let s' := shrinkOld s
      (s', s'.add.map (fun e => QOp.add e.1 e.2) ++ s'.del.map (fun e => QOp.remove e.1 e.2))
  else (shrinkOld s, [])

inductive Op where
  | clear
  | removeAll (ns : List String)
  | acq (n chain : String) (doms : List String)
  | update (leader acct : Bool)
  | commit
deriving Repr, DecidableEq

def step (s : Storages) : Op → Storages × Option (List QOp)
  | .clear => (clear s, none)
  | .removeAll ns => (removeAll s ns, none)
  | .acq n ch ds => (acquire s n ch ds, none)
  | .update l a => let r := acmeUpdate l a s; (r.1, some r.2)
  | .commit => (commit s, none)

/-- run raw operations; one output per `update` -/
def run (s : Storages) : List Op → Storages × List (List QOp)
  | [] => (s, [])
  | o :: os =>
    let r := step s o
    let rest := run r.1 os
    (rest.1, match r.2 with | some q => q :: rest.2 | none => rest.2)

/-! ### reconciliation cycles (what `ReconcileIngress` does around the storages) -/

structure Acq where
  name  : String
  chain : String
  doms  : List String
deriving Repr, DecidableEq

structure Cycle where
  full   : Bool            -- full sync: `Clear()`; partial: `RemoveAll(dirty)`
  leader : Bool
  acct   : Bool
  dirty  : List String
  acqs   : List Acq
deriving Repr, DecidableEq

def applyAcqs (s : Storages) (as : List Acq) : Storages :=
  as.foldl (fun s a => acquire s a.name a.chain a.doms) s

/-- state just before `AcmeUpdate` -/
def preUpdate (s : Storages) (c : Cycle) : Storages :=
  applyAcqs (if c.full then clear s else removeAll s c.dirty) c.acqs

/-- one cycle: sync, `AcmeUpdate`, `Commit` (deferred in `HAProxyUpdate`) -/
def cycle (s : Storages) (c : Cycle) : Storages × List QOp :=
  let r := acmeUpdate c.leader c.acct (preUpdate s c)
  (commit r.1, r.2)

def cycleOps (c : Cycle) : List Op :=
  (if c.full then [Op.clear] else [Op.removeAll c.dirty]) ++
  c.acqs.map (fun a => Op.acq a.name a.chain a.doms) ++ [Op.update c.leader c.acct, Op.commit]

def runCycles (s : Storages) : List Cycle → Storages × List (List QOp)
  | [] => (s, [])
  | c :: cs =>
    let r := cycle s c
    let rest := runCycles r.1 cs
    (rest.1, r.2 :: rest.2)

/-- one cycle of the code before the repairs -/
def cycleOld (s : Storages) (c : Cycle) : Storages × List QOp :=
  let pre := c.acqs.foldl (fun s a => acquireOld s a.name a.chain a.doms)
    (if c.full then clearOld s else removeAll s c.dirty)
  let r := acmeUpdateOld c.leader c.acct pre
  (commit r.1, r.2)

/-! ### the controller cycle around the instance

`ReconcileIngress` runs, per reconciliation, the converter (writes the storages), then
`instance.AcmeUpdate()`, then `instance.HAProxyUpdate()`. `HAProxyUpdate` starts with
`defer i.config.Commit()` — the storages are committed whatever happens next — and, when the
configuration cannot be applied at run time, reloads HAProxy. A reload that fails sets
`failedSince` (`updateSuccessful(false)`) and `reloadOwed`; one that succeeds clears both.
`AcmeUpdate` runs BEFORE `HAProxyUpdate`: what it can see of the instance is the state the
previous reconciliations left behind. -/

/-- the instance fields a reconciliation reads and writes next to the storages -/
structure Inst where
  st        : Storages := {}
  failing   : Bool := false     -- `failedSince != nil`
  owed      : Bool := false     -- `reloadOwed`: the last reload failed, the next update retries it
  committed : Bool := false     -- `config.hasCommittedData()` (`globalOld != nil`)
deriving Repr, DecidableEq

/-- how `AcmeUpdate` treats the additions while `failedSince` is set. The code that exists never
looks at `failedSince` (`always`); `skipWhileFailing` is the variant that "postpones" them
(witness only: the deferred `Commit` then forgets them). -/
inductive AddPolicy where
  | always
  | skipWhileFailing
deriving Repr, DecidableEq

def isAdd : QOp → Bool
  | .add _ _ => true
  | .remove _ _ => false

/-- `instance.AcmeUpdate()` with the instance state in view -/
def acmeUpdateP (p : AddPolicy) (failing leader acct : Bool) (s : Storages) : Storages × List QOp :=
  let r := acmeUpdate leader acct s
  match p with
  | .always => r
  | .skipWhileFailing => if failing then (r.1, r.2.filter (fun o => !isAdd o)) else r

structure ICycle where
  c     : Cycle
  chg   : Bool      -- the sync changed the HAProxy configuration in a way that needs a reload
  rfail : Bool      -- a reload attempted in this cycle fails
deriving Repr, DecidableEq

/-- what `HAProxyUpdate` did about the reload -/
inductive Reload where
  | none      -- "old and new configurations match"
  | ok
  | failed
deriving Repr, DecidableEq

/-- `HAProxyUpdate`: a reload is attempted when nothing was committed yet (first update, or a full
sync: `config.Clear()` drops `globalOld`), when the configuration changed, or when the last reload
failed (`updated && i.reloadOwed`) -/
def reloadOf (i : Inst) (c : ICycle) : Reload :=
  if c.c.full || !i.committed || c.chg || i.owed then (if c.rfail then .failed else .ok) else .none

/-- `updateSuccessful` / `reloadOwed` after the update -/
def afterReload (cur : Bool) : Reload → Bool
  | .none => cur
  | .ok => false
  | .failed => true

/-- one reconciliation: sync, `AcmeUpdate`, `HAProxyUpdate` (deferred `Commit` in every case) -/
def icycleP (p : AddPolicy) (i : Inst) (c : ICycle) : Inst × List QOp × Reload :=
  let r := acmeUpdateP p i.failing c.c.leader c.c.acct (preUpdate i.st c.c)
  let rl := reloadOf i c
  ({ st := commit r.1, failing := afterReload i.failing rl, owed := afterReload i.owed rl,
     committed := true }, r.2, rl)

def runI (p : AddPolicy) (i : Inst) : List ICycle → Inst × List (List QOp × Reload × Bool)
  | [] => (i, [])
  | c :: cs =>
    let r := icycleP p i c
    let rest := runI p r.1 cs
    (rest.1, (r.2.1, r.2.2, r.1.failing) :: rest.2)

/-- the code that exists -/
abbrev icycle := icycleP .always

/-! ### Spec (b): what the queue must see in one cycle, given the storages before and after -/

def keys (m : SMap) : List String := m.map (·.1)

/-- entries of `a` that `b` does not have with the same value -/
def diff (a b : SMap) : SMap := a.filter (fun e => find b e.1 != some e.2)

def sameSet (a b : SMap) : Bool := a.all (fun e => b.contains e) && b.all (fun e => a.contains e)

def splitOps (ops : List QOp) : SMap × SMap :=
  (ops.filterMap (fun | .add n c => some (n, c) | _ => none),
   ops.filterMap (fun | .remove n c => some (n, c) | _ => none))

/-- `prev`/`new`: storages (name ↦ chain, domains) before and after the cycle -/
def oracleCycle (full leader acct : Bool) (prev new : SMap) (ops : List QOp) : Option String :=
  let (adds, rems) := splitOps ops
  if !(leader && acct) then (if ops.isEmpty then none else some "non-leader-enqueued") else
  if !((diff new prev).all adds.contains) then some "changed-storage-not-enqueued" else
  if !(adds.all new.contains) then some "stale-item-enqueued" else
  if !full && adds.any prev.contains then some "unchanged-storage-re-enqueued" else
  if rems.any new.contains then some "live-item-removed" else
  if !(rems.all prev.contains) then some "unknown-item-removed" else
  if !((diff prev new).all rems.contains) then
    some (if full then "full-sync-vanished-storage-not-removed" else "vanished-storage-not-removed")
  else none

/-- Spec over controller cycles: what the queue must see in a cycle is decided by the storages before
and after it alone — the reload outcomes (`chg`, `rfail`, `failing`) play no part. The storages
themselves do not depend on the `AddPolicy`. -/
def oracleICycles : Inst → List ICycle → List (List QOp) → Option String
  | _, [], _ => none
  | _, _ :: _, [] => some "missing-output"
  | i, c :: cs, o :: os =>
    let i' := (icycle i c).1
    match oracleCycle c.c.full c.c.leader c.c.acct i.st.items i'.st.items o with
    | some e => some e
    | none => oracleICycles i' cs os

/-! ## (c) ingress converter: which storages are rebuilt -/

structure Tls where
  secret : String
  hosts  : List String
deriving Repr, DecidableEq

structure Ing where
  name  : String
  rule  : String        -- host of the single rule
  acme  : Bool          -- annotation cert-signer: acme (or kubernetes.io/tls-acme: "true")
  chain : String        -- annotation acme-preferred-chain
  tls   : List Tls
  viaTlsAcme : Bool := false   -- which of the two annotations (only makes two objects differ)
deriving Repr, DecidableEq

abbrev World := List Ing      -- sorted by name, names unique

inductive Node where
  | host (h : String) | sec (s : String) | acme (s : String)
deriving Repr, DecidableEq

/-- tracker links of one ingress after `syncIngress` -/
def ingNodes (i : Ing) : List Node :=
  Node.host i.rule ::
  i.tls.flatMap (fun t =>
    t.hosts.map Node.host ++ (if t.hosts.isEmpty || t.secret = "" then [] else [Node.sec t.secret]) ++
    (if i.acme && t.secret ≠ "" && !t.hosts.isEmpty then [Node.acme t.secret] else []))

/-- a TLS block of an acme ingress declares a storage when it names a secret and at least one host -/
def ingAcqs (i : Ing) : List Acq :=
  if i.acme then
    i.tls.filterMap (fun t =>
      if t.secret ≠ "" && !t.hosts.isEmpty then some ⟨t.secret, i.chain, t.hosts⟩ else none)
  else []

/-- before the repair a block without hosts declared a storage without domains -/
def ingAcqsOld (i : Ing) : List Acq :=
  if i.acme then
    i.tls.filterMap (fun t => if t.secret ≠ "" then some ⟨t.secret, i.chain, t.hosts⟩ else none)
  else []

abbrev Tracker := List (String × List Node)

def adj (T : Tracker) (k : String) : List Node :=
  (T.filter (fun e => e.1 = k)).flatMap (·.2)

/-- ingresses reachable from `ings` through shared nodes (`QueryLinks`) -/
def closure (T : Tracker) : Nat → List String → List String
  | 0, ings => ings
  | f + 1, ings =>
    let nodes := ings.flatMap (adj T)
    let more := (T.filter (fun e => !ings.contains e.1 && e.2.any nodes.contains)).map (·.1)
    if more.isEmpty then ings else closure T f (ings ++ more.eraseDups)

def findIng (w : World) (n : String) : Option Ing := w.find? (·.name = n)

def insertSorted (l : List String) (x : String) : List String :=
  match l with
  | [] => [x]
  | y :: t => if x = y then l else if x < y then x :: l else y :: insertSorted t x

def sortNames (l : List String) : List String := l.foldl insertSorted []

structure ConvSt where
  world   : World := []
  tracker : Tracker := []
  st      : Storages := {}
deriving Repr

structure ConvCycle where
  full   : Bool
  leader : Bool
  acct   : Bool
  world  : World
deriving Repr

/-- names added / updated / deleted between two worlds -/
def changedNames (old new : World) : List String × List String × List String :=
  (new.filter (fun i => (findIng old i.name).isNone) |>.map (·.name),
   new.filter (fun i => match findIng old i.name with | some o => o != i | none => false) |>.map (·.name),
   old.filter (fun i => (findIng new i.name).isNone) |>.map (·.name))

/-- the storages-level cycle the converter produces -/
def convPlan (s : ConvSt) (c : ConvCycle) : Cycle × Tracker :=
  if c.full then
    ({ full := true, leader := c.leader, acct := c.acct, dirty := [],
       acqs := c.world.flatMap ingAcqs },
     c.world.map (fun i => (i.name, ingNodes i)))
  else
    let (added, updated, deleted) := changedNames s.world c.world
    -- trackAddedIngress: rule hosts and TLS hosts of added and updated ingresses
    let pre : Tracker := (added ++ updated).filterMap (fun n =>
      (findIng c.world n).map (fun i => (n, Node.host i.rule :: i.tls.flatMap (fun t => t.hosts.map Node.host))))
    let T := s.tracker ++ pre
    let seeds := added ++ updated ++ deleted
    let dirtyIngs := closure T (T.length + 1) seeds
    let dirtyStor := (dirtyIngs.flatMap (adj T)).filterMap (fun | .acme x => some x | _ => none)
    let resync := sortNames ((dirtyIngs.filter (fun n => !deleted.contains n)) ++ added)
    let ings := resync.filterMap (findIng c.world)
    let T' := (s.tracker.filter (fun e => !dirtyIngs.contains e.1)) ++
              ings.map (fun i => (i.name, ingNodes i))
    ({ full := false, leader := c.leader, acct := c.acct, dirty := dirtyStor.eraseDups,
       acqs := ings.flatMap ingAcqs }, T')

def convCycle (s : ConvSt) (c : ConvCycle) : ConvSt × List QOp :=
  let (cy, T') := convPlan s c
  let r := cycle s.st cy
  ({ world := c.world, tracker := T', st := r.1 }, r.2)

def runConv (s : ConvSt) : List ConvCycle → ConvSt × List (List QOp)
  | [] => (s, [])
  | c :: cs =>
    let r := convCycle s c
    let rest := runConv r.1 cs
    (rest.1, r.2 :: rest.2)

/-- Spec: the storages an ingress world declares (independent of any tracking) -/
def declared (w : World) : SMap :=
  (applyAcqs {} (w.flatMap ingAcqs)).items

/-- per cycle Spec verdict on observed queue operations -/
def oracleConv : World → List ConvCycle → List (List QOp) → Option String
  | _, [], _ => none
  | _, _ :: _, [] => some "missing-output"
  | w, c :: cs, o :: os =>
    -- an item without domains makes the signer ask for the empty name
    if (splitOps o).1.any (fun e => e.2.doms.isEmpty) then some "empty-domain-set-requested" else
    match oracleCycle c.full c.leader c.acct (declared w) (declared c.world) o with
    | some e => some e
    | none => oracleConv c.world cs os

end HapVerif.C17
