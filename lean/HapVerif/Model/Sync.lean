import HapVerif.Model.C04
/-!
# M-Sync — the FULL sync of the ingress converter, the frontend maps and the routing chain

Shared by C03 (routing / endpoints), C15 (certificates) and C06 (order independence).

Transcribed from
* `pkg/converters/ingress/ingress.go`: `syncFull`, `sortIngress`, `syncIngressHTTP`
  (default backend -> `<default>` host `/` begin; rules/paths; tls loop), `addDefaultHostBackend`,
  `addBackendWithClass` (backend id `ns_svc_targetPort`, endpoints only when the backend is created),
  `addEndpoints`, `readPathType`, `addTLS`;
* `pkg/converters/utils/services.go`: `FindServicePort`, `createEndpoints`, `matchPort`,
  `FindContainerPort`;
* `pkg/haproxy/types/host.go`: `FindPathWithLink` (key = host, path, match), `addLink`
  (`Paths` kept sorted by path descending, then creation order), `BuildSortedItems`, `HasTLS`;
* `pkg/haproxy/config.go` `WriteFrontendMaps`: which path goes to the HTTP / HTTPS / default-host
  map, crt-list construction;
* `haproxy.tmpl`: `req.backend` / `req.hostbackend` lookups, default-host lookup guarded by
  "not found", `use_backend` chain, `default_backend`.

The maps themselves (`rebuildMatchFiles`) and HAProxy's `map_str/beg/dir` are `HapVerif.C04`.
Strings are `List Char`.  Core-only, executable.
-/
namespace HapVerif.Sync
open HapVerif.C04 (Str MT lower ltStr)

/-! ## generic insertion sort (the comparators used are total on the lists they sort) -/

def insertBy {α : Type} (lt : α → α → Bool) (x : α) : List α → List α
  | [] => [x]
  | y :: ys => if lt x y then x :: y :: ys else y :: insertBy lt x ys

def sortBy {α : Type} (lt : α → α → Bool) (l : List α) : List α := l.foldr (insertBy lt) []

/-! ## cluster state -/

/-- `pathType` of an ingress path: Exact, Prefix, ImplementationSpecific (or nil / unknown) -/
inductive PType | exact | pfx | impl
deriving DecidableEq, Repr, Inhabited

structure PathSpec where
  path : Str
  ptype : PType
  svc : Str
  port : Str          -- name or number as written in the Ingress
deriving DecidableEq, Repr

structure RuleSpec where
  host : Str
  paths : List PathSpec
deriving DecidableEq, Repr

structure TLSSpec where
  hosts : List Str
  secret : Str
deriving DecidableEq, Repr

structure Ingress where
  ns : Str
  name : Str
  created : Nat                      -- creation second
  valid : Bool                       -- class check of the cache (C08), an input here
  pathType : Str := []               -- value of the `path-type` annotation (lower-cased), `[]` = absent
  ann : List (Str × Str) := []       -- other annotations (not interpreted by the routing model)
  rules : List RuleSpec := []
  tls : List TLSSpec := []
  dflt : Option (Str × Str) := none  -- spec.defaultBackend (service, port)
deriving DecidableEq, Repr

structure SvcPort where
  name : Str
  port : Nat
  target : Str        -- targetPort.String()
deriving DecidableEq, Repr

structure Service where
  ns : Str
  name : Str
  ports : List SvcPort
deriving DecidableEq, Repr

structure Addr where
  ip : Str
  ready : Bool
  pod : Str
deriving DecidableEq, Repr

structure EpPort where
  name : Str
  num : Nat
deriving DecidableEq, Repr

/-- one subset: every address is listed for every port -/
structure Endpoints where
  ns : Str
  name : Str
  addrs : List Addr
  ports : List EpPort
deriving DecidableEq, Repr

structure Secret where
  ns : Str
  name : Str
  isTLS : Bool        -- has tls.crt / tls.key
  version : Nat       -- content version
deriving DecidableEq, Repr

structure Pod where
  ns : Str
  name : Str
  ip : Str
  app : Str           -- value of the `app` label (services select on it)
  terminating : Bool
deriving DecidableEq, Repr

structure Options where
  drain : Bool := false                          -- ConfigMap `drain-support`
  defaultBackend : Option (Str × Str) := none    -- --default-backend-service ns/name
  crossNsSecret : Bool := false                  -- allow-cross-namespace for certificates
deriving DecidableEq, Repr

structure World where
  ings : List Ingress := []
  svcs : List Service := []
  eps : List Endpoints := []
  secs : List Secret := []
  pods : List Pod := []
  opts : Options := {}
deriving Repr

/-! ### operations on the cluster state (`world/ops.go`) -/

/-- container ports of the pods and numeric value of named target ports (`world.NamedTargets`) -/
def namedTarget (s : Str) : Nat :=
  if s = "web".toList then 8080 else if s = "adm".toList then 9090 else if s = "alt".toList then 8081 else 0

def isDigits (s : Str) : Bool := !s.isEmpty && s.all Char.isDigit

/-- decimal value of a digit string (0 otherwise), `world.atoi` -/
def atoi (s : Str) : Nat :=
  if isDigits s then s.foldl (fun n c => n * 10 + (c.toNat - '0'.toNat)) 0 else 0

def itoa (n : Nat) : Str := (toString n).toList

inductive Op
  | ingPut (i : Ingress)                 -- `ing+` / `ing~` (an update keeps the creation time)
  | ingDel (ns name : Str)
  | svcPut (s : Service)
  | svcDel (ns name : Str)               -- also deletes its Endpoints
  | epPut (ns name : Str) (addrs : List Addr)   -- ports follow the service as it is now
  | epDel (ns name : Str)
  | secPut (s : Secret)
  | secDel (ns name : Str)
  | podPut (p : Pod)
  | podDel (ns name : Str)
  | setDrain (b : Bool)
  | nop

def upsert {α : Type} (same : α → Bool) (upd : α → α) (new : α) : List α → List α
  | [] => [new]
  | x :: xs => if same x then upd x :: xs else x :: upsert same upd new xs

def World.findSvc (w : World) (ns name : Str) : Option Service :=
  w.svcs.find? fun s => s.ns = ns ∧ s.name = name

def epPortsOf (s : Service) : List EpPort :=
  s.ports.map fun p => ⟨p.name, if atoi p.target > 0 then atoi p.target else namedTarget p.target⟩

def World.apply (w : World) : Op → World
  | .ingPut i =>
    { w with ings := upsert (fun x => x.ns = i.ns ∧ x.name = i.name) (fun old => { i with created := old.created }) i w.ings }
  | .ingDel ns name => { w with ings := w.ings.filter fun x => !(x.ns = ns ∧ x.name = name) }
  | .svcPut s => { w with svcs := upsert (fun x => x.ns = s.ns ∧ x.name = s.name) (fun _ => s) s w.svcs }
  | .svcDel ns name =>
    { w with svcs := w.svcs.filter (fun x => !(x.ns = ns ∧ x.name = name)),
             eps := w.eps.filter (fun x => !(x.ns = ns ∧ x.name = name)) }
  | .epPut ns name addrs =>
    let ports := match w.findSvc ns name with | some s => epPortsOf s | none => []
    let e : Endpoints := ⟨ns, name, addrs, ports⟩
    { w with eps := upsert (fun x => x.ns = ns ∧ x.name = name) (fun _ => e) e w.eps }
  | .epDel ns name => { w with eps := w.eps.filter fun x => !(x.ns = ns ∧ x.name = name) }
  | .secPut s => { w with secs := upsert (fun x => x.ns = s.ns ∧ x.name = s.name) (fun _ => s) s w.secs }
  | .secDel ns name => { w with secs := w.secs.filter fun x => !(x.ns = ns ∧ x.name = name) }
  | .podPut p => { w with pods := upsert (fun x => x.ns = p.ns ∧ x.name = p.name) (fun _ => p) p w.pods }
  | .podDel ns name => { w with pods := w.pods.filter fun x => !(x.ns = ns ∧ x.name = name) }
  | .setDrain b => { w with opts := { w.opts with drain := b } }
  | .nop => w

def World.applyAll (w : World) (ops : List Op) : World := ops.foldl World.apply w

/-! ## the generated configuration (what the routing, the servers and the certificates depend on) -/

def dfltHost : Str := "<default>".toList

/-- backend id `ns_svc_port` -/
structure BKey where
  ns : Str
  svc : Str
  port : Str
deriving DecidableEq, Repr

def BKey.id (k : BKey) : Str := k.ns ++ '_' :: k.svc ++ '_' :: k.port

/-- a host path (`HostPath`) with the backend it links to; the list position is its creation order -/
structure HPath where
  host : Str
  path : Str
  mt : MT
  bk : BKey
deriving DecidableEq, Repr

structure Server where
  ip : Str
  port : Nat
  weight : Nat        -- 1 = initial-weight default, 0 = draining
deriving DecidableEq, Repr

structure Backend where
  key : BKey
  servers : List Server
deriving DecidableEq, Repr

/-- certificate of a host: the default (fake) one or the file of a secret at a content version -/
inductive Crt
  | dflt
  | secret (ns name : Str) (version : Nat)
deriving DecidableEq, Repr

structure Cfg where
  paths : List HPath := []            -- all host paths in creation order
  hosts : List Str := []              -- hosts acquired by rules and tls blocks, in creation order
  tls : List (Str × Crt) := []        -- hosts with a tls entry and the certificate assigned first
  backends : List Backend := []       -- in creation order
  dfltBackend : Option BKey := none
deriving Repr

/-! ### `FindServicePort`, endpoints -/

/-- the port string the converter sees (`readServiceNamePort` after `world.backendOf`): a positive
number is re-printed, the empty name becomes `0` -/
def normPort (p : Str) : Str :=
  if atoi p > 0 then itoa (atoi p) else if p.isEmpty then "0".toList else p

/-- `FindServicePort`: by name or by targetPort string, else by port number -/
def findPort (s : Service) (sp : Str) : Option SvcPort :=
  match s.ports.find? (fun p => p.name = sp ∨ p.target = sp) with
  | some p => some p
  | none => if isDigits sp then s.ports.find? (fun p => p.port = atoi sp) else none

def World.findEps (w : World) (ns name : Str) : Option Endpoints :=
  w.eps.find? fun e => e.ns = ns ∧ e.name = name

/-- `matchPort` (all ports are TCP here) -/
def matchPort (sp : SvcPort) (ep : EpPort) : Bool := sp.name.isEmpty || sp.name = ep.name

/-- `AcquireEndpoint`: an existing target is reused -/
def acquire (l : List Server) (ip : Str) (port weight : Nat) : List Server :=
  if l.any (fun s => s.ip = ip ∧ s.port = port) then l else l ++ [⟨ip, port, weight⟩]

/-- `ep := AcquireEndpoint(..); ep.Weight = 0` -/
def acquireDrain (l : List Server) (ip : Str) (port : Nat) : List Server :=
  if l.any (fun s => s.ip = ip ∧ s.port = port) then
    l.map fun s => if s.ip = ip ∧ s.port = port then { s with weight := 0 } else s
  else l ++ [⟨ip, port, 0⟩]

/-- addresses × matching ports, in `createEndpoints` order -/
def targetsOf (e : Endpoints) (sp : SvcPort) (ready : Bool) : List (Str × Nat) :=
  (e.ports.filter (matchPort sp)).flatMap fun p => (e.addrs.filter (·.ready = ready)).map fun a => (a.ip, p.num)

/-- terminating pods selected by the service (`GetTerminatingPods` + `FindContainerPort`; the pods of
the harness declare no protocol on their container ports, so named target ports do not resolve) -/
def terminatingTargets (w : World) (s : Service) (sp : SvcPort) : List (Str × Nat) :=
  (w.pods.filter fun p => p.ns = s.ns ∧ p.app = s.name ∧ p.terminating ∧ !p.ip.isEmpty).filterMap fun p =>
    if atoi sp.target > 0 then some (p.ip, atoi sp.target) else none

/-- `addEndpoints` -/
def mkServers (w : World) (s : Service) (sp : SvcPort) : List Server :=
  match w.findEps s.ns s.name with
  | none => []
  | some e =>
    let l := (targetsOf e sp true).foldl (fun l t => acquire l t.1 t.2 1) []
    if w.opts.drain then
      let l := (targetsOf e sp false).foldl (fun l t => acquireDrain l t.1 t.2) l
      (terminatingTargets w s sp).foldl (fun l t => acquireDrain l t.1 t.2) l
    else l

/-! ### `syncIngress` -/

/-- a declared path after `normalizeHostname`, `uri == "" -> "/"`, `readPathType` -/
structure Decl where
  host : Str
  path : Str
  mt : MT
  ns : Str
  svc : Str
  port : Str
deriving DecidableEq, Repr

def normHost (h : Str) : Str := if h.isEmpty then dfltHost else h
def normPath (p : Str) : Str := if p.isEmpty then "/".toList else p

/-- `readPathType`; `none` = regex (outside this model) -/
def matchOf (ann : Str) : PType → Option MT
  | .exact => some .exact
  | .pfx => some .pfx
  | .impl =>
    if ann = "prefix".toList then some .pfx
    else if ann = "exact".toList then some .exact
    else if ann = "regex".toList then none
    else some .beg

/-- declarations of one ingress in processing order: spec.defaultBackend first (`<default>` host,
`/`, begin), then rules and paths as listed -/
def declsOf (i : Ingress) : List Decl :=
  (match i.dflt with
   | some (s, p) => [⟨dfltHost, "/".toList, .beg, i.ns, s, normPort p⟩]
   | none => []) ++
  i.rules.flatMap fun r => r.paths.filterMap fun p =>
    (matchOf i.pathType p.ptype).map fun mt => ⟨normHost r.host, normPath p.path, mt, i.ns, p.svc, normPort p.port⟩

/-- service and port a declaration designates (`GetService` + `FindServicePort`) -/
def resolve (w : World) (ns svc port : Str) : Option (Service × SvcPort) :=
  match w.findSvc ns svc with
  | none => none
  | some s => (findPort s port).map fun p => (s, p)

def sameKey (d : Decl) (p : HPath) : Bool := p.host = d.host && p.path = d.path && p.mt = d.mt

/-- `AcquireBackend` + endpoints when the backend is new -/
def acquireBackend (w : World) (bs : List Backend) (s : Service) (sp : SvcPort) : List Backend :=
  let k : BKey := ⟨s.ns, s.name, sp.target⟩
  if bs.any (·.key = k) then bs else bs ++ [⟨k, mkServers w s sp⟩]

/-- one path of `syncIngressHTTP` / `addDefaultHostBackend`: a redeclared (host, path, type) is
skipped, a missing service or port is skipped, otherwise the backend is acquired and the path added -/
def addDecl (w : World) (c : Cfg) (d : Decl) : Cfg :=
  if c.paths.any (sameKey d) then c else
  match resolve w d.ns d.svc d.port with
  | none => c
  | some (s, sp) =>
    { c with backends := acquireBackend w c.backends s sp,
             paths := c.paths ++ [⟨d.host, d.path, d.mt, ⟨s.ns, s.name, sp.target⟩⟩] }

/-- `strings.Split(s, sep)` for a one-character separator -/
def splitOnC (sep : Char) : Str → List Str
  | [] => [[]]
  | c :: cs =>
    if c = sep then [] :: splitOnC sep cs
    else match splitOnC sep cs with
      | [] => [[c]]
      | x :: xs => (c :: x) :: xs

/-- `buildResourceName` for a certificate secret: `name` is read in the namespace of the ingress,
`ns/name` only in that namespace unless cross-namespace reading is allowed -/
def secretRef (w : World) (ns secret : Str) : Option (Str × Str) :=
  match splitOnC '/' secret with
  | [n] => some (ns, n)
  | [a, n] => if a.isEmpty then some (ns, n) else if a = ns ∨ w.opts.crossNsSecret then some (a, n) else none
  | _ => none

/-- `addTLS` + `GetTLSSecretPath`; any error = default certificate -/
def crtOf (w : World) (ns secret : Str) : Crt :=
  if secret.isEmpty then .dflt else
  match secretRef w ns secret with
  | none => .dflt
  | some (a, n) =>
    match w.secs.find? (fun s => s.ns = a ∧ s.name = n) with
    | some s => if s.isTLS then .secret s.ns s.name s.version else .dflt
    | none => .dflt

/-- the tls loop: the first assignment of a host wins -/
def addTLSHost (crt : Crt) (t : List (Str × Crt)) (h : Str) : List (Str × Crt) :=
  if t.any (·.1 = h) then t else t ++ [(h, crt)]

def addTLS (w : World) (ns : Str) (t : List (Str × Crt)) (b : TLSSpec) : List (Str × Crt) :=
  b.hosts.foldl (addTLSHost (crtOf w ns b.secret)) t

/-- `AcquireHost` -/
def addHost (l : List Str) (h : Str) : List Str := if l.contains h then l else l ++ [h]

/-- hosts an ingress acquires: one per rule (also when none of its paths is accepted), then the
hosts of the tls blocks.  (The `<default>` host acquired by an accepted `spec.defaultBackend` is not
listed: it never gets a crt-list line.) -/
def hostsOfIng (i : Ingress) : List Str := i.rules.map (fun r => normHost r.host) ++ i.tls.flatMap (·.hosts)

def syncIngress (w : World) (c : Cfg) (i : Ingress) : Cfg :=
  let c := (declsOf i).foldl (addDecl w) c
  { c with tls := i.tls.foldl (addTLS w i.ns) c.tls, hosts := (hostsOfIng i).foldl addHost c.hosts }

/-- `sortIngress`: creation time, then `namespace/name` -/
def ingKey (i : Ingress) : Str := i.ns ++ '/' :: i.name
def ingLt (a b : Ingress) : Bool :=
  a.created < b.created || (a.created = b.created && ltStr (ingKey a) (ingKey b))

def sortIngs (l : List Ingress) : List Ingress := sortBy ingLt l

/-- `syncDefaultBackend`: `--default-backend-service`, port = first port of the service -/
def initCfg (w : World) : Cfg :=
  match w.opts.defaultBackend with
  | none => {}
  | some (ns, name) =>
    match w.findSvc ns name with
    | none => {}
    | some s =>
      match s.ports.head? with
      | none => {}
      | some p0 =>
        match findPort s p0.target with
        | none => {}
        | some sp => { backends := acquireBackend w [] s sp, dfltBackend := some ⟨s.ns, s.name, sp.target⟩ }

def fullSync (w : World) : Cfg :=
  (sortIngs (w.ings.filter (·.valid))).foldl (syncIngress w) (initCfg w)

/-! ## frontend maps and routing -/

def Cfg.hasTLS (c : Cfg) (h : Str) : Bool := c.tls.any (·.1 = h)

/-- the paths that `WriteFrontendMaps` puts into `_front_http_host`, `_front_https_host`
(hosts with TLS only) and `_front_defaulthost`, each in creation order -/
def httpPaths (c : Cfg) : List HPath := c.paths.filter (·.host ≠ dfltHost)
def httpsPaths (c : Cfg) : List HPath := c.paths.filter fun p => p.host ≠ dfltHost ∧ c.hasTLS p.host
def dfltPaths (c : Cfg) : List HPath := c.paths.filter (·.host = dfltHost)

/-- map rules of a path list: the target is the position in the list -/
def rulesOf (l : List HPath) : List C04.Rule :=
  (l.zip (List.range l.length)).map fun (p, i) => ⟨p.host, p.path, p.mt, i⟩

/-- order in which `WriteFrontendMaps` inserts: hosts by name, `Host.Paths` order inside a host
(path descending, then creation) -/
def insLt (a b : C04.Rule × Nat) : Bool :=
  if a.1.host = b.1.host then
    (if a.1.path = b.1.path then a.2 < b.2 else ltStr b.1.path a.1.path)
  else ltStr a.1.host b.1.host

/-- the entries of a map in insertion order; `order` = creation order (`HostPath.order` is the
creation order inside the host, which compares the same way) -/
def insEntries (rules : List C04.Rule) : List C04.Entry :=
  (sortBy insLt (rules.zip (List.range rules.length))).map fun (r, i) => C04.addTarget r i

def matchOrder : List MT := [.exact, .pfx, .beg]

/-- the match files of a map for a Go-map iteration order `π` over its hosts -/
def mapFiles (l : List HPath) (π : List Str) : List C04.MFile :=
  C04.rebuild matchOrder (insEntries (rulesOf l)) π

/-- `var(req.base),map_*` over the files of one map: the backend of the answering path -/
def lookupIn (fs : List C04.MFile) (l : List HPath) (host path : Str) : Option BKey :=
  match C04.lookupFiles fs (C04.sampleOf host path) with
  | none => none
  | some i => (l[i]?).map (·.bk)

structure Req where
  tls : Bool
  host : Str
  path : Str
deriving DecidableEq, Repr

def error404 : Str := "_error404".toList

/-- iteration orders of the three maps -/
structure Iter where
  http : List Str
  https : List Str
  dflt : List Str

/-- the three frontend maps as written -/
structure Maps where
  http : List C04.MFile
  https : List C04.MFile
  dflt : List C04.MFile

def buildMaps (c : Cfg) (π : Iter) : Maps :=
  ⟨mapFiles (httpPaths c) π.http, mapFiles (httpsPaths c) π.https, mapFiles (dfltPaths c) π.dflt⟩

/-- `default_backend`: the `--default-backend-service` or `_error404` -/
def Cfg.dfltId (c : Cfg) : Str := match c.dfltBackend with | some b => b.id | none => error404

/-- the frontends: host map found -> that backend; else default-host map; else `default_backend` -/
def routeM (c : Cfg) (m : Maps) (r : Req) : Str :=
  let hostAns := if r.tls then lookupIn m.https (httpsPaths c) r.host r.path
                 else lookupIn m.http (httpPaths c) r.host r.path
  match hostAns with
  | some b => b.id
  | none =>
    match lookupIn m.dflt (dfltPaths c) dfltHost r.path with
    | some b => b.id
    | none => c.dfltId

def route (c : Cfg) (π : Iter) (r : Req) : Str := routeM c (buildMaps c π) r

/-- hosts of a map in first-insertion order (a deterministic representative of Go's map order) -/
def hostsOfPaths (l : List HPath) : List Str := C04.hostsOf (insEntries (rulesOf l))

def Cfg.iter0 (c : Cfg) : Iter :=
  ⟨hostsOfPaths (httpPaths c), hostsOfPaths (httpsPaths c), hostsOfPaths (dfltPaths c)⟩

/-- the iteration order of `rebuildMatchFiles` after repair 8cccd42: hostnames sorted -/
def sortedHosts (l : List HPath) : List Str := sortBy ltStr (hostsOfPaths l)

def Cfg.iterSorted (c : Cfg) : Iter :=
  ⟨sortedHosts (httpPaths c), sortedHosts (httpsPaths c), sortedHosts (dfltPaths c)⟩

/-- the routing of the generated configuration (code after 8cccd42: the layout of the map files is a
function of the configuration alone) -/
def routeS (c : Cfg) (r : Req) : Str := route c c.iterSorted r

/-! ## crt-list (C15) -/

/-- one line of `_front_bind_crt.list` after the default line: certificate and SNI filter -/
structure CrtLine where
  crt : Crt
  filter : Str
deriving DecidableEq, Repr

/-- certificate assigned to a host (`TLSFilename`, the default one when there is no tls entry) -/
def Cfg.crtOfHost (c : Cfg) (h : Str) : Crt := ((c.tls.find? (·.1 = h)).map (·.2)).getD .dflt

/-- `*.rest` for `label.rest` (`none`: no dot, or the name starts with a dot) -/
def wildOf (s : Str) : Option Str :=
  let rest := s.dropWhile (· ≠ '.')
  if rest.isEmpty ∨ s.head? = some '.' then none else some ('*' :: rest)

/-- `"*" + hostname[pos:]` of `wildcardHasCustomCrt` (`none` also when the host is itself a wildcard) -/
def wildHost (h : Str) : Option Str := if h.head? = some '*' then none else wildOf h

/-- `config.wildcardHasCustomCrt` (repair c836d74): the host is covered by a wildcard host that has
its own certificate (such a wildcard host is in the host list because it has a tls entry) -/
def Cfg.wildcardHasCustomCrt (c : Cfg) (h : Str) : Bool :=
  match wildHost h with
  | none => false
  | some wc => c.crtOfHost wc ≠ .dflt

/-- `WriteFrontendMaps` (after the default line `!*`): one line per host (sorted by name,
`<default>` excluded) whose certificate is not the default one or which is covered by a wildcard
host with its own certificate -/
def crtList (c : Cfg) : List CrtLine :=
  ((sortBy ltStr (c.hosts.filter (· ≠ dfltHost))).filter
    (fun h => c.crtOfHost h ≠ .dflt || c.wildcardHasCustomCrt h)).map fun h => ⟨c.crtOfHost h, h⟩

/-- the code before repair c836d74: lines only for hosts with a certificate of their own -/
def crtListBefore (c : Cfg) : List CrtLine :=
  ((sortBy (fun (a b : Str × Crt) => ltStr a.1 b.1) (c.tls.filter fun t => t.1 ≠ dfltHost)).filter
    (fun t => t.2 ≠ .dflt)).map fun t => ⟨t.2, t.1⟩

def isWild (f : Str) : Bool := f.head? = some '*'

/-- HAProxy's SNI lookup in a crt-list (trusted): exact filter, then the wildcard of the name with its
first label replaced, then the first line (the default certificate, filter `!*`) -/
def sniCrt (l : List CrtLine) (sni : Str) : Crt :=
  let s := lower sni
  match l.find? (fun e => !isWild e.filter && lower e.filter = s) with
  | some e => e.crt
  | none =>
    match wildOf s with
    | none => .dflt
    | some wc =>
      match l.find? (fun e => lower e.filter = wc) with
      | some e => e.crt
      | none => .dflt

end HapVerif.Sync
