/- Model for C18: not written yet -/
namespace HapVerif.C18
end HapVerif.C18
