/-
Model of external authentication in the ingress converter and the template (C18):

* `pkg/haproxy/types/frontend.go`   `AcquireAuthBackendName`, `RemoveAuthBackendExcept`,
  `RemoveAuthBackendByTarget`                                   → `scan`, `acquire`, `removeExcept`
* `pkg/converters/ingress/annotations/backend.go`
    `setAuthExternal`                                           → `resolveTarget`, `setAuth`
    `buildBackendAuthExternal`                                  → `authStep`
    `buildBackendOAuth`                                         → `oauthRec`, `oauthStep`
* `pkg/converters/ingress/annotations/host.go` `buildHostAuthExternal` → `hostPhase`, `frontStep`
* `pkg/converters/ingress/annotations/mapper.go` `Mapper.Get` / `KeyConfig.Get` for the keys
  auth-url, auth-external-placement, auth-signin           → `firstUrl`, `firstPlc`, `ownPlc`
* `pkg/converters/ingress/ingress.go` `fullSyncAnnotations` (hosts, then backends)  → `run`
* `pkg/haproxy/types/backend.go` `createPathConfig`, `PathIDs`  → `addGroup`, `groupsOf`
* `rootfs/etc/templates/haproxy/haproxy.tmpl` `authExternal`, `authExternalFrontend` and the
  backend block that calls it                                   → `rulesOf`, `backendRules`, `frontRules`

The validation of one auth-url is abstracted to its outcomes (`Url`); everything after that is
the control flow of the Go code on the shared per-path record.  A `Variant` selects between the
code as first found and its repairs: `oauthOwn` — `buildBackendOAuth`: `false` = precedence test on
the backend-wide `d.mapper.Get(auth-url)` that clears `AlwaysDeny`; `true` = precedence test on
the path's own value that restores what auth-url left on the record; `usedFront` — the clean-up
of `setAuthExternal` also keeps the names in use by `HostPath.AuthExt`.  Core-only.
-/
namespace HapVerif.C18

/-! ## auth-proxy ports (`Frontend.AuthProxy`) -/

/-- `AuthProxyBind`: `LocalPort` (the name is `_auth_<port>`, the socket id `10000+port`) and the
backend the helper frontend forwards to -/
structure Bind where
  port : Int
  target : Nat
deriving Repr, DecidableEq

inductive Scan where
  | found (port : Int)
  | free (port : Int)
deriving Repr, DecidableEq

/-- the loop of `AcquireAuthBackendName` over `proxy.BindList` -/
def scan (t : Nat) : List Bind → Int → Scan
  | [], free => .free free
  | b :: bs, free =>
    if b.target = t then .found b.port
    else scan t bs (if free = b.port then free + 1 else free)

/-- `append` + `sort.Slice(LocalPort <)` on a list that is strictly sorted and does not hold the
new port (every reachable list is, `acquire_sorted`) -/
def insertBind (n : Bind) : List Bind → List Bind
  | [] => [n]
  | b :: bs => if n.port < b.port then n :: b :: bs else b :: insertBind n bs

/-- `AcquireAuthBackendName`: `none` = error "auth proxy list is full" -/
def acquire (binds : List Bind) (rs re : Int) (t : Nat) : Option Int × List Bind :=
  match scan t binds rs with
  | .found p => (some p, binds)
  | .free f => if f > re then (none, binds) else (some f, insertBind ⟨f, t⟩ binds)

/-- `RemoveAuthBackendExcept(used)` (names and ports correspond one to one) -/
def removeExcept (used : List Int) (binds : List Bind) : List Bind :=
  binds.filter fun b => used.contains b.port

/-- `RemoveAuthBackendByTarget(backends)` -/
def removeByTarget (ts : List Nat) (binds : List Bind) : List Bind :=
  binds.filter fun b => !ts.contains b.target

/-! ## annotation values, abstracted -/

inductive Proto where
  | http | https | svc | other
deriving Repr, DecidableEq

/-- what `setAuthExternal` learns about one non-empty auth-url value -/
structure Url where
  parseOk : Bool      -- `ingutils.ParseURL` succeeds
  proto : Proto       -- http | https | service/svc | anything else
  isIP : Bool         -- http(s): host is an IP literal (no lookup)
  dnsOk : Bool        -- http(s): `lookupHost` succeeds
  hasPort : Bool      -- svc: port present
  hasNs : Bool        -- svc: namespace given or taken from the source object
  nsOk : Bool         -- svc: same namespace as the source, or cross-namespace-services allows it
  svcFound : Bool     -- svc: `FindBackend` finds the service backend
  target : Nat        -- identity of the backend the URL designates (auth backend key / service backend)
  path : String       -- urlPath ("" is replaced by "/")
deriving Repr, DecidableEq

inductive UrlAnn where
  | absent            -- key not registered for the path
  | empty             -- registered with the empty string
  | val (u : Url)
deriving Repr, DecidableEq

def UrlAnn.nonEmpty : UrlAnn → Bool
  | .val _ => true
  | _ => false

/-- auth-external-placement after `ToLower` -/
inductive Plc where
  | absent | backend | frontend | other
deriving Repr, DecidableEq

/-- oauth annotation: implementation name accepted?, `findBackend(namespace, uriPrefix)` found a
backend?, the uri prefix and the id of that backend -/
inductive OAuthAnn where
  | absent
  | val (implOk found : Bool) (pfx : String) (backend : String)
deriving Repr, DecidableEq

structure PathIn where
  host : Nat
  backend : Nat
  ord : Nat           -- position of the path in `Backend.Paths` order (hostname, path)
  key : String        -- `PathLink.Key()` = `<host>#<path>`; also the request base equal to the path
  hamatch : String    -- `PathLink.HAMatch()`: str | dir | beg
  sub : String        -- a request base below the path (= key for an exact path)
  url : UrlAnn
  plc : Plc
  oauth : OAuthAnn
  signin : Bool       -- auth-signin present (and valid)
deriving Repr, DecidableEq

structure World where
  isExternal : Bool
  hasLua : Bool
  rangeStart : Int
  rangeEnd : Int
  paths : List PathIn   -- in the order the ingresses register them
deriving Repr

/-! ## the per-path record -/

inductive AuthName where
  | none
  | proxy (port : Int)       -- `_auth_<port>`
  | backend (id : String)    -- oauth: id of the oauth2-proxy backend
deriving Repr, DecidableEq

/-- `hatypes.AuthExternal`, fields that decide the rendered rules (headers and method follow
from which branch filled the record) -/
structure AuthRec where
  alwaysDeny : Bool := false
  name : AuthName := .none
  authPath : String := ""
  allowedPath : String := ""
  redirect : Bool := false
deriving Repr, DecidableEq

/-! ## `setAuthExternal` -/

/-- everything between `auth.AlwaysDeny = true` and `AcquireAuthBackendName`: the backend the
URL resolves to, `none` on any early return -/
def resolveTarget (ext lua : Bool) (u : Url) : Option Nat :=
  if ext && !lua then none
  else if !u.parseOk then none
  else match u.proto with
    | .http | .https => if u.isIP || u.dnsOk then some u.target else none
    | .svc =>
      if !u.hasPort then none
      else if !u.hasNs then none
      else if !u.nsOk then none
      else if !u.svcFound then none
      else some u.target
    | .other => none

def normPath (s : String) : String := if s = "" then "/" else s

def denyRec (r : AuthRec) : AuthRec := { r with alwaysDeny := true }

def okRec (r : AuthRec) (p : Int) (u : Url) (signin : Bool) : AuthRec :=
  { r with alwaysDeny := false, name := .proxy p, authPath := normPath u.path, redirect := signin }

/-- result: record, bind list, "the clean-up branch ran" -/
def setAuth (ext lua : Bool) (rs re : Int) (used : List Int) (binds : List Bind) (r0 : AuthRec)
    (u : Url) (signin : Bool) : AuthRec × List Bind × Bool :=
  match resolveTarget ext lua u with
  | none => (denyRec r0, binds, false)
  | some t =>
    match acquire binds rs re t with
    | (some p, b') => (okRec r0 p u signin, b', false)
    | (none, _) =>
      -- clean up and try again
      let b1 := removeExcept used binds
      match acquire b1 rs re t with
      | (some p, b2) => (okRec r0 p u signin, b2, true)
      | (none, _) => (denyRec r0, b1, true)

/-! ## mapper reads -/

/-- first registered value of auth-url among the given paths (`Mapper.Get`) -/
def firstUrl : List PathIn → UrlAnn
  | [] => .absent
  | p :: r => if p.url = .absent then firstUrl r else p.url

def firstPlc : List PathIn → Plc
  | [] => .absent
  | p :: r => if p.plc = .absent then firstPlc r else p.plc

/-- default of auth-external-placement is `backend` -/
def plcDefault : Plc → Plc
  | .absent => .backend
  | x => x

def ownPlc (p : PathIn) : Plc := plcDefault p.plc

def backendUrl (w : World) (b : Nat) : UrlAnn := firstUrl (w.paths.filter (·.backend = b))
def hostUrl (w : World) (h : Nat) : UrlAnn := firstUrl (w.paths.filter (·.host = h))
def hostPlc (w : World) (h : Nat) : Plc := plcDefault (firstPlc (w.paths.filter (·.host = h)))
def hostSignin (w : World) (h : Nat) : Bool := (w.paths.filter (·.host = h)).any (·.signin)

/-! ## state and steps -/

def upd {α} (f : Nat → α) (i : Nat) (a : α) : Nat → α := fun j => if j = i then a else f j

structure St where
  binds : List Bind := []
  brec : Nat → AuthRec := fun _ => {}          -- `BackendPath.AuthExternal` per path index
  frec : Nat → Option AuthRec := fun _ => none -- `HostPath.AuthExt` per path index
  cleaned : Bool := false

/-- which code is modelled -/
structure Variant where
  oauthOwn : Bool     -- `buildBackendOAuth` tests the path's own auth-url and restores the deny
  usedFront : Bool    -- the clean-up keeps the names used by frontend placed paths too
deriving Repr, DecidableEq

/-- `Backends.BuildUsedAuthBackends`: only the records of backend paths are looked at -/
def usedPorts (n : Nat) (brec : Nat → AuthRec) : List Int :=
  (List.range n).filterMap fun i =>
    match (brec i).name with
    | .proxy p => some p
    | _ => none

/-- names in use by `HostPath.AuthExt` -/
def usedFrontPorts (n : Nat) (frec : Nat → Option AuthRec) : List Int :=
  (List.range n).filterMap fun i =>
    match frec i with
    | some r => (match r.name with | .proxy p => some p | _ => none)
    | none => none

/-- the `used` set of the clean-up in `setAuthExternal` -/
def usedOf (v : Variant) (w : World) (st : St) : List Int :=
  usedPorts w.paths.length st.brec ++
    (if v.usedFront then usedFrontPorts w.paths.length st.frec else [])

def frontStep (v : Variant) (w : World) (u : Url) (signin : Bool) (st : St) (i : Nat) : St :=
  let res := setAuth w.isExternal w.hasLua w.rangeStart w.rangeEnd
    (usedOf v w st) st.binds {} u signin
  { st with binds := res.2.1, frec := upd st.frec i (some res.1), cleaned := st.cleaned || res.2.2 }

def idxsWhere (w : World) (f : PathIn → Bool) : List Nat :=
  (List.range w.paths.length).filter fun i =>
    match w.paths[i]? with
    | some p => f p
    | none => false

/-- `buildHostAuthExternal` of one host: placement and URL are the host mapper's -/
def hostPhase (v : Variant) (w : World) (st : St) (h : Nat) : St :=
  match hostPlc w h, hostUrl w h with
  | .frontend, .val u => (idxsWhere w (·.host = h)).foldl (frontStep v w u (hostSignin w h)) st
  | _, _ => st

/-- one iteration of `buildBackendAuthExternal` -/
def authStep (v : Variant) (w : World) (st : St) (i : Nat) : St :=
  match w.paths[i]? with
  | none => st
  | some p =>
    match ownPlc p, p.url with
    | .backend, .val u =>
      let res := setAuth w.isExternal w.hasLua w.rangeStart w.rangeEnd
        (usedOf v w st) st.binds (st.brec i) u p.signin
      { st with binds := res.2.1, brec := upd st.brec i res.1, cleaned := st.cleaned || res.2.2 }
    | _, _ => st

/-- one iteration of `buildBackendOAuth` on the record `r` left by the earlier builders -/
def oauthRec (fixed : Bool) (w : World) (p : PathIn) (r : AuthRec) : AuthRec :=
  match p.oauth with
  | .absent => r                                        -- `oauth.Source == nil`
  | .val implOk found pfx backend =>
    if !implOk then denyRec r
    else if w.isExternal && !w.hasLua then denyRec r
    else if (if fixed then p.url.nonEmpty else (backendUrl w p.backend).nonEmpty) then
      -- "auth-url was configured and has precedence"
      (if fixed then r else { r with alwaysDeny := false })
    else if !found then denyRec r
    else
      { alwaysDeny := false, name := .backend backend, allowedPath := pfx ++ "/",
        authPath := pfx ++ "/auth", redirect := true }

def oauthStep (v : Variant) (w : World) (st : St) (i : Nat) : St :=
  match w.paths[i]? with
  | none => st
  | some p => { st with brec := upd st.brec i (oauthRec v.oauthOwn w p (st.brec i)) }

def ordOf (w : World) (i : Nat) : Nat :=
  match w.paths[i]? with
  | some p => p.ord
  | none => 0

def insertBy (key : Nat → Nat) (i : Nat) : List Nat → List Nat
  | [] => [i]
  | j :: r => if key i ≤ key j then i :: j :: r else j :: insertBy key i r

/-- `sortPaths` (the keys hostname, path are distinct inside a backend) -/
def sortBy (key : Nat → Nat) : List Nat → List Nat
  | [] => []
  | i :: r => insertBy key i (sortBy key r)

/-- `Backend.Paths` of backend `b` (sorted by hostname, path) as path indices -/
def backendIdxs (w : World) (b : Nat) : List Nat :=
  sortBy (ordOf w) (idxsWhere w (·.backend = b))

/-- `UpdateBackendConfig`: `buildBackendAuthExternal` over all paths, later `buildBackendOAuth` -/
def backendPhase (v : Variant) (w : World) (st : St) (b : Nat) : St :=
  (backendIdxs w b).foldl (oauthStep v w) ((backendIdxs w b).foldl (authStep v w) st)

/-- `fullSyncAnnotations`: every host, then every backend.  `Hosts().Items()` and
`Backends().Items()` are Go maps: both orders are arbitrary (`hostOrder`, `backendOrder` list
each host / backend once) -/
def run (v : Variant) (w : World) (hostOrder backendOrder : List Nat) : St :=
  backendOrder.foldl (backendPhase v w) (hostOrder.foldl (hostPhase v w) {})

/-- the code as first found / with `buildBackendOAuth` repaired / with both repairs -/
def vFound : Variant := ⟨false, false⟩
def vOAuth : Variant := ⟨true, false⟩
def vBoth : Variant := ⟨true, true⟩

/-! ## rendering -/

inductive Rule where
  | deny                                             -- `http-request deny [if <scope>]`
  | icpt (name : AuthName) (path allowed : String)   -- `http-request lua.auth-intercept ...`
  | unless (redir : Bool) (allowed : String)         -- deny / redirect `if !{ var(txn.auth_response_successful) -m bool }`
deriving Repr, DecidableEq

/-- template `authExternal` -/
def rulesOf (r : AuthRec) : List Rule :=
  if r.alwaysDeny then [.deny]
  else match r.name with
    | .none => []
    | n => [.icpt n r.authPath r.allowedPath, .unless r.redirect r.allowedPath]

/-- `createPathConfig` for the field AuthExternal: a path joins the first item with an equal
config, else opens a new item -/
def addGroup : List (AuthRec × List Nat) → Nat → AuthRec → List (AuthRec × List Nat)
  | [], i, r => [(r, [i])]
  | (r', ids) :: rest, i, r =>
    if r' = r then (r', ids ++ [i]) :: rest else (r', ids) :: addGroup rest i r

def groupsOf (brec : Nat → AuthRec) (idxs : List Nat) : List (AuthRec × List Nat) :=
  idxs.foldl (fun gs i => addGroup gs i (brec i)) []

/-- rules of the backend section that apply to path `i`: `PathIDs` is "" (no guard) unless the
config needs an ACL (more than one item), else the ids of the item; `-m str` = membership -/
def backendRules (brec : Nat → AuthRec) (idxs : List Nat) (i : Nat) : List Rule :=
  let gs := groupsOf brec idxs
  gs.flatMap fun g => if !(decide (gs.length > 1)) || g.2.contains i then rulesOf g.1 else []

def isInfix (p s : List Char) : Bool :=
  match s with
  | [] => p.isEmpty
  | c :: r => p.isPrefixOf (c :: r) || isInfix p r

def trimSlash (s : String) : String :=
  String.ofList ((s.toList.dropWhile (· = '/')).reverse.dropWhile (· = '/')).reverse

/-- HAProxy ACL `<sample> -m <method> <pattern>...`: true when some pattern matches -/
def aclMatch (meth : String) (pats : List String) (s : String) : Bool :=
  if meth = "str" then pats.contains s
  else if meth = "beg" then pats.any fun p => p.toList.isPrefixOf s.toList
  else if meth = "dir" then pats.any fun p =>
    isInfix ("/" ++ trimSlash p ++ "/").toList ("/" ++ trimSlash s ++ "/").toList
  else false

/-- `printf "{ var(req.base) -m str %s '%s' }" $path.Link.HAMatch $path.Link.Key` -/
def frontCond (p : PathIn) : String × List String := ("str", [p.hamatch, p.key])

/-- rules of the http frontends that apply to a request with base `s` -/
def frontRules (w : World) (frec : Nat → Option AuthRec) (s : String) : List Rule :=
  (List.range w.paths.length).flatMap fun i =>
    match w.paths[i]?, frec i with
    | some p, some r => if aclMatch (frontCond p).1 (frontCond p).2 s then rulesOf r else []
    | _, _ => []

/-- what the configuration does to path `i` -/
structure Obs where
  rb : List Rule     -- backend section, resolved for the path id
  r0 : List Rule     -- frontends, request base = the path
  r1 : List Rule     -- frontends, request base below the path
deriving Repr, DecidableEq

def obsOf (w : World) (st : St) (i : Nat) : Obs :=
  match w.paths[i]? with
  | none => ⟨[], [], []⟩
  | some p =>
    { rb := backendRules st.brec (backendIdxs w p.backend) i
      r0 := frontRules w st.frec p.key
      r1 := frontRules w st.frec p.sub }

/-! ## Spec -/

/-- the authentication call a path may legitimately be intercepted with -/
inductive Want where
  | proxy (target : Nat) (path : String)
  | backend (id path allowed : String)
deriving Repr, DecidableEq

def placed (p : PathIn) : Bool := ownPlc p = .backend || ownPlc p = .frontend

def declaredUrl (p : PathIn) : Bool := p.url.nonEmpty && placed p
def declaredOAuth (p : PathIn) : Bool := p.oauth != .absent
def declared (p : PathIn) : Bool := declaredUrl p || declaredOAuth p

/-- the service of the path's own auth-url when it can be honoured, and of its own oauth
declaration when the oauth2-proxy backend exists -/
def wants (w : World) (p : PathIn) : List Want :=
  (match p.url with
   | .val u =>
     if placed p then
       match resolveTarget w.isExternal w.hasLua u with
       | some t => [Want.proxy t (normPath u.path)]
       | none => []
     else []
   | _ => []) ++
  (match p.oauth with
   | .val true true pfx b => [Want.backend b (pfx ++ "/auth") (pfx ++ "/")]
   | _ => [])

def targetOf (binds : List Bind) (port : Int) : Option Nat :=
  (binds.find? fun b => b.port = port).map (·.target)

/-- the rule list denies every request, or intercepts with one of the wanted services and
denies/redirects unless the call succeeded (same exemption on both rules) -/
def covered (binds : List Bind) (ws : List Want) : List Rule → Bool
  | [.deny] => true
  | [.icpt n path allowed, .unless _ allowed'] =>
    allowed == allowed' &&
    (match n with
     | .proxy port =>
       allowed == "" &&
       (match targetOf binds port with
        | some t => ws.contains (.proxy t path)
        | none => false)
     | .backend id => ws.contains (.backend id path allowed)
     | .none => false)
  | _ => false

/-- **fail closed** for one path -/
def pathOk (w : World) (binds : List Bind) (p : PathIn) (o : Obs) : Bool :=
  !declared p || covered binds (wants w p) o.rb ||
    (covered binds (wants w p) o.r0 && covered binds (wants w p) o.r1)

def hasIcpt (rs : List Rule) : Bool := rs.any fun | .icpt .. => true | _ => false

/-- root cause of a violation on path `p` (the key under which a finding is tracked), read off
the mechanism the path relies on first: its own auth-url (backend, then frontend placement),
else its oauth declaration -/
def signature (w : World) (binds : List Bind) (p : PathIn) (o : Obs) : String :=
  let ws := wants w p
  if hasIcpt o.rb && !covered binds ws o.rb then "backend-intercept-by-foreign-auth-service"
  else if p.url.nonEmpty && ownPlc p = .backend then
    (if declaredOAuth p then "oauth-resets-deny-after-bad-auth-url" else "declared-path-no-rule")
  else if p.url.nonEmpty && ownPlc p = .frontend then
    (if o.r0 = [] then "frontend-placement-lost-on-host-conflict"
     else if !covered binds ws o.r0 then
       (if p.url = hostUrl w p.host then "frontend-intercept-through-reassigned-auth-proxy-port"
        else "frontend-intercept-by-auth-url-of-another-ingress")
     else if !covered binds ws o.r1 then "frontend-rule-misses-subpath-requests"
     else "declared-path-no-rule")
  else if p.url.nonEmpty then "oauth-skipped-for-auth-url-with-invalid-placement"
  else if (backendUrl w p.backend).nonEmpty then "oauth-shared-backend-unprotected"
  else "declared-path-no-rule"

/-- priority of the signatures when several paths of one scenario fail (rarest root cause first) -/
def sigRank (s : String) : Nat :=
  if s = "backend-intercept-by-foreign-auth-service" then 0
  else if s = "declared-path-no-rule" then 1
  else if s = "frontend-intercept-through-reassigned-auth-proxy-port" then 2
  else if s = "frontend-intercept-by-auth-url-of-another-ingress" then 3
  else if s = "oauth-skipped-for-auth-url-with-invalid-placement" then 4
  else if s = "frontend-placement-lost-on-host-conflict" then 5
  else if s = "oauth-shared-backend-unprotected" then 6
  else if s = "oauth-resets-deny-after-bad-auth-url" then 7
  else 8

def pickSig : List String → Option String
  | [] => none
  | s :: r =>
    match pickSig r with
    | none => some s
    | some t => if sigRank t < sigRank s then some t else some s

/-- Spec evaluated on observed rules and binds -/
def oracle (w : World) (binds : List Bind) (obs : List Obs) : Option String :=
  pickSig ((w.paths.zip obs).filterMap fun (p, o) =>
    if pathOk w binds p o then none else some (signature w binds p o))

/-- no port serves two targets, every port inside the range — on an observed bind list -/
def bindsOk (rs re : Int) (binds : List Bind) : Bool :=
  binds.all (fun b => rs ≤ b.port && b.port ≤ re) &&
  (binds.map (·.port)).Nodup

end HapVerif.C18
