/-!
# C06 (annotations) — one object declared under several annotation prefixes

`--annotations-prefix` may list several prefixes; the first listed prefix wins.  `readConfigKeys`
(`pkg/converters/ingress/ingress.go`) turns the annotations of ONE object (an Ingress or a Service) into
configuration keys.  The annotations are a Go map: the code visits them in an arbitrary order, a different one on
every `range`.  Here the annotations are a LIST in the order of one particular visit; `Props/C06Ann.lean` proves
that the result is the same for every permutation of that list.

* `readConfigKeys`   the code: outer loop over the prefixes in the listed order, inner loop over the annotations,
                     the first writer of a key keeps it (a later, different value is only logged);
* `specWinner`       the Spec (documented precedence): the value declared under the FIRST listed prefix that
                     declares the key; nothing if no listed prefix declares it;
* `readConfigKeysStale` the single-pass variant (outer loop over the annotations, inner loop over the prefixes,
                     an `owner` index per key that is set by the first writer only) — seed C06g, used by the
                     kernel-checked witness.
-/
namespace HapVerif.C06Ann

abbrev Str := List Char

/-- one annotation of the object: `prefix/key: value` -/
structure Ann where
  pre : Str
  key : Str
  val : Str
  deriving DecidableEq, Repr

/-- Go `map[string]string` under construction: insertion-ordered association list, first entry of a key is the entry -/
abbrev KV := List (Str × Str)

def lookup (m : KV) (k : Str) : Option Str := (m.find? (·.1 = k)).map (·.2)

/-- body of the inner loop for the prefix `p`: `if strings.HasPrefix(annKey, prefix+"/")`, then
`if _, found := keys[key]; !found { keys[key] = annValue }` (else: a warning, no write) -/
def visit (p : Str) (keys : KV) (a : Ann) : KV :=
  if a.pre = p then
    (if (lookup keys a.key).isSome then keys else keys ++ [(a.key, a.val)])
  else keys

/-- ingress.go readConfigKeys: `for _, prefix := range c.options.AnnotationPrefix { for annKey, annValue := range ann {…} }`;
`ann` is the annotation map in the order of the visit -/
def readConfigKeys (prefixes : List Str) (ann : List Ann) : KV :=
  prefixes.foldl (fun keys p => ann.foldl (visit p) keys) []

/-- value of `key` declared by the object under prefix `p` -/
def declared (ann : List Ann) (p key : Str) : Option Str :=
  (ann.find? fun a => a.pre = p ∧ a.key = key).map (·.val)

/-- the Spec: first listed prefix that declares the key -/
def specWinner (prefixes : List Str) (ann : List Ann) (key : Str) : Option Str :=
  prefixes.findSome? fun p => declared ann p key

/-- a Go map holds one value per annotation name -/
def UniqueNames (ann : List Ann) : Prop :=
  ann.Pairwise fun a b => ¬ (a.pre = b.pre ∧ a.key = b.key)

instance (ann : List Ann) : Decidable (UniqueNames ann) := by unfold UniqueNames; infer_instance

/-! ## the single-pass variant with an owner index that goes stale (seed C06g) -/

structure Stale where
  keys : KV := []
  owner : List (Str × Nat) := []

def ownerOf (o : List (Str × Nat)) (k : Str) : Nat := ((o.find? (·.1 = k)).map (·.2)).getD 0

def setKey (m : KV) (k v : Str) : KV := m.map fun e => if e.1 = k then (k, v) else e

/-- inner loop body: the annotation `a` against the `i`-th prefix -/
def staleStep (a : Ann) (st : Stale) (ip : Str × Nat) : Stale :=
  if a.pre = ip.1 then
    match lookup st.keys a.key with
    | none => { keys := st.keys ++ [(a.key, a.val)], owner := st.owner ++ [(a.key, ip.2)] }
    | some cur =>
      -- the value is replaced when the prefix has a lower index than the recorded owner; the owner is NOT updated
      if cur ≠ a.val ∧ ip.2 < ownerOf st.owner a.key then { st with keys := setKey st.keys a.key a.val } else st
  else st

def readConfigKeysStale (prefixes : List Str) (ann : List Ann) : KV :=
  (ann.foldl (fun st a => (prefixes.zipIdx).foldl (staleStep a) st) ({} : Stale)).keys

/-! ## run-time helpers of the driver -/

/-- the tracer keys the harness observes in the haproxy model, per kind of object (`i` Ingress, `s` Service) -/
def tracers (obj : Str) : List Str :=
  let back := ["balance-algorithm".toList, "maxconn-server".toList, "timeout-server".toList]
  if obj = ['s'] then back else back ++ ["app-root".toList, "allowlist-source-range".toList]

/-- the tracer keys this object declares under any prefix, in tracer order -/
def observedKeys (obj : Str) (ann : List Ann) : List Str :=
  (tracers obj).filter fun k => ann.any (·.key = k)

def render (r : List (Str × Option Str)) : String :=
  if r.isEmpty then "-" else
  ",".intercalate (r.map fun (k, v) => String.ofList k ++ "=" ++ (match v with | some x => String.ofList x | none => "-"))

/-- model output: what the code leaves for every observed key -/
def modelOut (obj : Str) (prefixes : List Str) (ann : List Ann) : List (Str × Option Str) :=
  let keys := readConfigKeys prefixes ann
  (observedKeys obj ann).map fun k => (k, lookup keys k)

/-- Spec on the implementation's output: `obs` = per key the SET of values seen over the runs (`-` = unset) -/
def oracle (prefixes : List Str) (ann : List Ann) (obs : List (Str × List Str)) : Option String :=
  if obs.any (fun o => o.2.length ≠ 1) then some "order-dependent-annotation-prefix"
  else if obs.any (fun o => o.2 ≠ [(specWinner prefixes ann o.1).getD ['-']]) then some "prefix-precedence-violated"
  else none

/-- at least two listed prefixes declare the same observed key with different values -/
def conflict (obj : Str) (prefixes : List Str) (ann : List Ann) : Bool :=
  (observedKeys obj ann).any fun k =>
    ((prefixes.filterMap fun p => declared ann p k).eraseDups).length ≥ 2

end HapVerif.C06Ann
