import HapVerif.GoLib
/-!
Views of the Kubernetes structs `createEndpoints` / `matchPort` (pkg/converters/utils/services.go) touch, for their
TRANSLATION (Generated/CodeC03.lean).  Core-only.
-/
namespace HapVerif.C03V

structure AddrView where
  IP : List Char
  TargetRef : List Char
deriving DecidableEq, Repr, Inhabited

structure EpPortView where
  Name : List Char
  Port : Int
  Protocol : List Char
deriving DecidableEq, Repr, Inhabited

/-- `api.EndpointSubset` -/
structure SubsetView where
  Addresses : List AddrView
  NotReadyAddresses : List AddrView
  Ports : List EpPortView
deriving DecidableEq, Repr, Inhabited

/-- `api.Endpoints`: the annotations (nil or a map) and the subsets -/
structure EndpointsView where
  Annotations : Option (List (List Char × List Char))
  Subsets : List SubsetView
deriving Repr

structure SvcPortView where
  Name : List Char
deriving DecidableEq, Repr

/-- `utils.Endpoint` as `newEndpoint(ip, port, targetRef)` builds it -/
structure EndpointOut where
  ip : List Char
  port : Int
  ref : List Char
deriving DecidableEq, Repr

def newEndpoint (ip : List Char) (port : Int) (ref : List Char) : EndpointOut := ⟨ip, port, ref⟩

/-- `ann[key]` on a possibly nil Go map: the zero value when the key is absent -/
def mapGet (m : Option (List (List Char × List Char))) (k : List Char) : List Char := ((m.getD []).lookup k).getD []

/-- `api.ServicePort` as `FindServicePort` reads it: name, `TargetPort.String()`, port number -/
structure SvcPortFull where
  Name : List Char
  TargetPortString : List Char
  Port : Int
deriving DecidableEq, Repr

end HapVerif.C03V
