import HapVerif.Model.C01
/-
C01, ConfigMap based tcp services (`--tcp-services-configmap`).  Core-only.

M-TcpConv : `pkg/converters/configmap/tcpservices.go` `tcpSvcConverter.Sync`: `TCPBackends().RemoveAll()`, then one
            tcp backend per entry of the ConfigMap whose Service, service port, Endpoints object, crt secret (TLS
            offload, `GetTLSSecretPath`) and CA secret (client verification, `GetCASecretPath`) can all be read; an
            entry with an unreadable object is skipped ("skipping TCP service on public port ...").  The converter
            passes no tracking reference: NOTHING it reads is tracked.
M-TcpSync : the part of `converters.Sync` that decides WHEN that converter runs.  The code runs it on every
            reconciliation once the ConfigMap was seen (`TCPConfigMapDataCur != nil || TCPConfigMapDataNew != nil`,
            tie `convertersSync_tie`); the decision is a parameter (`Policy`) so that the theorem can say which
            decisions are sound; `haproxy.Clear()` of a full sync empties the tcp backends.
-/
namespace HapVerif.C01Tcp
open HapVerif.C01

/-- one entry `<port>: <ns>/<svc>:<port>:<in>:<out>:<crt secret>:<check>:<ca secret>` (`parseService`) -/
structure Entry where
  port : String
  svc : String
  svcPort : String
  inProxy : String := ""
  outProxy : String := ""
  crt : String := ""
  check : String := ""
  ca : String := ""
deriving DecidableEq, Repr, Inhabited

abbrev Data := List Entry

/-- one item of `TCPBackends` -/
structure TcpBack where
  port : Nat
  name : String
  eps : List String          -- ready addresses `ip:port` (insertion order of `createEndpoints`)
  decode : Bool
  encode : String            -- "" | "v1" | "v2"
  check : String
  crt : String               -- key of the secret the certificate file was written from ("" = no TLS offload)
  ca : String
deriving DecidableEq, Repr, Inhabited

/-- the objects an entry makes the converter read (a service key names the Endpoints object too) -/
def entryReads (e : Entry) : List Node :=
  [⟨.svc, e.svc⟩, ⟨.ep, e.svc⟩] ++ (if e.crt = "" then [] else [⟨.sec, e.crt⟩]) ++
    (if e.ca = "" then [] else [⟨.sec, e.ca⟩])

def reads (d : Data) : List Node := d.flatMap entryReads

def lower (s : String) : String := String.ofList (s.toList.map Char.toLower)

/-- `regexValidTime` = `^[0-9]+(us|ms|s|m|h|d)$` -/
def validTime (s : String) : Bool :=
  let l := s.toList
  let ds := l.takeWhile Char.isDigit
  let u := String.ofList (l.dropWhile Char.isDigit)
  !ds.isEmpty && (u ∈ ["us", "ms", "s", "m", "h", "d"])

def checkInterval (c : String) : String :=
  if c = "" then "2s" else if c = "-" then "" else if validTime c then c else "2s"

/-- `createEndpoints`: the ready addresses on every Endpoints port that matches the service port -/
def endpointsOf (ep : Endpoints) (p : SvcPort) : List String :=
  (ep.ports.filter fun q => p.name = "" || q.1 = p.name).flatMap fun q =>
    ep.ready.map fun a => a.1 ++ ":" ++ toString q.2

/-- `namespace_name` of the service -/
def backName (svc : String) : String := String.ofList (svc.toList.map fun c => if c = '/' then '_' else c)

/-- can the secret `key` be used as `kind`? ("" = the entry names no secret) -/
def secOk (rd : Node → ObjVal) (key kind : String) : Bool :=
  key = "" || (match rd ⟨.sec, key⟩ with | .sec (some x) => x.kind == kind | _ => false)

/-- one entry, given the VALUES of the objects it reads -/
def convertEntryV (e : Entry) (sv ev : ObjVal) (crtOk caOk : Bool) : Option TcpBack :=
  match digitsVal e.port.toList with
  | none => none
  | some port =>
    if e.port = "" ∨ e.svc = "" then none else
    match sv with
    | .svc (some s) =>
      match findServicePort s e.svcPort with
      | none => none
      | some p =>
        match ev with
        | .ep (some ep) =>
          if crtOk && caOk then
            some { port := port, name := backName e.svc, eps := endpointsOf ep p,
                   decode := lower e.inProxy == "proxy",
                   encode := (let o := lower e.outProxy
                              if o = "proxy" ∨ o = "proxy-v2" then "v2" else if o = "proxy-v1" then "v1" else ""),
                   check := checkInterval e.check, crt := e.crt, ca := e.ca }
          else none
        | _ => none
    | _ => none

/-- one entry as a function of the read function ONLY (the cache facade) -/
def convertEntryR (rd : Node → ObjVal) (e : Entry) : Option TcpBack :=
  convertEntryV e (rd ⟨.svc, e.svc⟩) (rd ⟨.ep, e.svc⟩) (secOk rd e.crt "tls") (secOk rd e.ca "ca")

def convertEntry (w : World) (e : Entry) : Option TcpBack := convertEntryR w.read e

/-- `tcpSvcConverter.Sync` on the cluster `w` with the ConfigMap data `d` (`RemoveAll` first: from scratch) -/
def tcpConvert (w : World) (d : Data) : List TcpBack := d.filterMap (convertEntry w)

/-! ## when the converter runs -/

/-- what `converters.Sync` knows when it decides: the full-sync flag, whether the batch carries the tcp ConfigMap,
the links of the batch -/
abbrev Policy := Bool → Bool → List Node → Bool

/-- the code: once configured, always -/
def always : Policy := fun _ _ _ => true

/-- a decision that only looks at Service / Endpoints notifications (what the converter is "built from" at first
sight; the seeded variant C01g) -/
def svcEpOnly : Policy := fun full cmNew links =>
  full || cmNew || links.any fun n => n.kind == .svc || n.kind == .ep

/-- the weakest sound decision: run iff something that is read may have changed -/
def readsOnly (d : Data) : Policy := fun full cmNew links =>
  full || cmNew || links.any fun n => decide (n ∈ reads d)

structure Ctl where
  cur : Option Data := none      -- TCPConfigMapDataCur (watchers.initCh carries New over)
  st : List TcpBack := []        -- TCPBackends items
deriving Repr, Inhabited

def dataOf (new cur : Option Data) : Option Data := match new with | some n => some n | none => cur

/-- one reconciliation: `full` = needFullSync (haproxy.Clear empties the tcp backends), `new` = TCPConfigMapDataNew,
`links` = the batch -/
def reconcile (pol : Option Data → Policy) (w : World) (full : Bool) (new : Option Data) (links : List Node)
    (c : Ctl) : Ctl :=
  let data := dataOf new c.cur
  let base := if full then [] else c.st
  { cur := data,
    st := match data with
      | none => base      -- the option is not in use / the ConfigMap was never seen: the converter is not called
      | some d => if pol c.cur full new.isSome links then tcpConvert w d else base }

/-- what a freshly started controller holds on the cluster `w` whose ConfigMap has the data `d` -/
def fresh (w : World) (d : Option Data) : List TcpBack :=
  match d with
  | some d => tcpConvert w d
  | none => []

end HapVerif.C01Tcp
