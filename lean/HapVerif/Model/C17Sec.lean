import HapVerif.Model.C17
/-!
Model for C17, the Secret behind the signer's decision. Core-only.

`Model/C17.lean` (a) takes the outcome of `GetTLSSecretContent` as an input (`Secret.missing` |
`Secret.cert`). Here that outcome is computed from the Secret object, as
`pkg/controller/services/cache.go` `GetTLSSecretContent` computes it, and next to it what the rest of
the controller makes of the same object (`GetTLSSecretPath` → `getCertificate` →
`ssl.go buildCertFromCrtAndKey`: the file HAProxy is given):

* the Secret as a structure: `.type`, the state of the bytes under `tls.crt`, under `tls.key`,
  under `ca.crt`, presence of an unrelated key;
* `validate` = `ssl.go validateCrtAndKey(crt, key, ca)` (repair d4cef7d): certificate sequence (`checkValidCertPEM`),
  key bytes nothing but private-key PEM blocks (`checkValidPEM`), `tls.X509KeyPair` accepts the pair, and a
  `ca.crt`, when there is one, parses and verifies the certificate (at the current time);
* `readP`   = `GetTLSSecretContent`: `tls.crt` present and `validate` accepts `tls.crt`/`tls.key`/`ca.crt`; `.type`
  and other keys are never read. `ReadPolicy` keeps the former and seeded behaviours as parameters (witnesses
  only): `tlsTypeOnly` (seed C17f: anything but kubernetes.io/tls is an error), `nilOnEmpty` (before bae2aa9:
  zero bytes under `tls.crt` gave `(nil, nil)` and the signer dereferenced the nil certificate), `check` =
  `.none` (before bffe88a: only `tls.crt` was read) | `.pair` (bffe88a: `tls.X509KeyPair` only) | `.full` (the code);
* `usable`  = `GetTLSSecretPath` succeeds: `getCertificate` wants `tls.crt` and `tls.key` non-empty, then
  `buildCertFromCrtAndKey` → `validate`;
* `notifySecP` = `signer.Notify` on top of `readP` (`none` = the signer panics on a nil certificate: only
  with `nilOnEmpty`);
* what `SetTLSSecretContent` leaves behind (`After`).

Spec: the property's "missing or unreadable" is "the controller could not use the secret as a
certificate either" — `usable` is false — whatever the Secret's type.
-/
namespace HapVerif.C17

/-- `.type` of the Secret -/
inductive SType where
  | tls        -- kubernetes.io/tls
  | opaque     -- Opaque (`kubectl create secret generic`)
  | empty      -- no type
  | other      -- any other type
deriving Repr, DecidableEq

/-- the bytes under `tls.crt` -/
inductive CrtSt where
  | absent                                       -- no such key in `.data`
  | empty                                        -- the key is there, zero bytes
  | bad                                          -- rejected by `checkValidCertPEM` (not PEM, a block that is not
                                                 -- CERTIFICATE, broken DER, stray text after the last block)
  | cert (notAfter : Int) (sans : List Name)     -- a well-formed CERTIFICATE sequence; its first certificate
deriving Repr, DecidableEq

/-- the bytes under `tls.key` -/
inductive KeySt where
  | absent
  | empty
  | bad        -- not PEM, or a block whose type is not a private key type
  | other      -- a well-formed private key that does not belong to the certificate
  | stray      -- the private key of the certificate followed by stray text: `tls.X509KeyPair` takes the first key
               -- block, `checkValidPEM` (`buildCertFromCrtAndKey`) wants nothing but PEM blocks
  | ok         -- the private key of the certificate (EC PRIVATE KEY, with EC PARAMETERS, PKCS#8)
deriving Repr, DecidableEq

/-- the bytes under `ca.crt` -/
inductive CaSt where
  | absent
  | bad        -- not a certificate
  | self       -- the certificate itself: the chain verifies as long as the certificate has not expired
deriving Repr, DecidableEq

structure Sec where
  type  : SType
  crt   : CrtSt
  key   : KeySt
  ca    : CaSt := .absent
  extra : Bool := false          -- an unrelated key next to them
deriving Repr, DecidableEq

/-- how much of the Secret the reader validates -/
inductive KeyCheck where
  | none       -- before bffe88a: `checkValidCertPEM(tls.crt)` only
  | pair       -- bffe88a: + `tls.X509KeyPair(tls.crt, tls.key)`
  | full       -- d4cef7d: `validateCrtAndKey(tls.crt, tls.key, ca.crt)`, what the controller's loader runs
deriving Repr, DecidableEq

/-- variants of the `acme.Cache` reader; the defaults = the code that exists -/
structure ReadPolicy where
  tlsTypeOnly : Bool := false     -- seed C17f: anything but kubernetes.io/tls is an error
  nilOnEmpty  : Bool := false     -- before bae2aa9: zero bytes under tls.crt → `TLSSecret{Crt: nil}`, no error
  check       : KeyCheck := .full
deriving Repr, DecidableEq

/-- cache.go as it is -/
def ReadPolicy.code : ReadPolicy := {}

/-- outcome of `GetTLSSecretContent` -/
inductive Read where
  | err                                        -- an error: the signer says "certificate does not exist"
  | nilCrt                                     -- no error and `TLSSecret{Crt: nil}`
  | crt (notAfter : Int) (sans : List Name)
deriving Repr, DecidableEq

/-- `checkValidPEM(tls.key, private key types…)`: every block a private-key block, nothing else (zero bytes
run no iteration) -/
def keyPemOk : KeySt → Bool
  | .absent => true
  | .empty => true
  | .bad => false
  | .other => true
  | .stray => false
  | .ok => true

/-- `tls.X509KeyPair(tls.crt, tls.key)` accepts (for a `tls.crt` that is a certificate sequence) -/
def keyPairOk : KeySt → Bool
  | .ok => true
  | .stray => true
  | _ => false

/-- the `ca.crt` part of `validateCrtAndKey` (`now`: `x509.Verify` looks at the clock) -/
def caOk (now na : Int) : CaSt → Bool
  | .absent => true                               -- `len(ca) > 0` fails: nothing to verify
  | .bad => false
  | .self => !(na < now)                          -- expired: `now.After(NotAfter)`

/-- ssl.go `validateCrtAndKey(tls.crt, tls.key, ca.crt)`: the first certificate, or an error -/
def validate (now : Int) (s : Sec) : Option (Int × List Name) :=
  match s.crt with
  | .cert na sans => if keyPemOk s.key && keyPairOk s.key && caOk now na s.ca then some (na, sans) else none
  | _ => none                                     -- `checkValidCertPEM`: no PEM block / not a certificate / none found

/-- cache.go `GetTLSSecretContent` -/
def readP (p : ReadPolicy) (now : Int) : Option Sec → Read
  | none => .err                                 -- `c.get` failed: no such Secret
  | some s =>
    if p.tlsTypeOnly && s.type != .tls then .err else
    match s.crt with
    | .absent => .err                            -- `!foundCrt`
    | .empty => if p.nilOnEmpty then .nilCrt else .err   -- `checkValidCertPEM`: "no certificate found"
    | .bad => .err
    | .cert na sans =>
      match p.check with
      | .none => .crt na sans
      | .pair => if keyPairOk s.key then .crt na sans else .err
      | .full => if (validate now s).isSome then .crt na sans else .err

/-- `GetTLSSecretPath` succeeds: `getCertificate` (`len(crt) > 0 && len(key) > 0`, else the ca-only branch whose
result has no certificate) → `buildCertFromCrtAndKey` → `validateCrtAndKey` -/
def usable (now : Int) : Option Sec → Bool
  | none => false
  | some s =>
    (s.crt != .absent && s.crt != .empty) && (s.key != .absent && s.key != .empty) && (validate now s).isSome

structure SIn where
  acct     : Bool
  sec      : Option Sec       -- `none`: no such Secret
  now      : Int
  window   : Int
  declared : List Name
  sign     : SignRes
  setErr   : Bool             -- the API refuses the write (`createOrUpdate` fails)
deriving Repr

/-- the input of the abstract signer model once the Secret was read -/
def SIn.toVIn (i : SIn) (s : Secret) : VIn :=
  { acct := i.acct, secret := s, now := i.now, window := i.window, declared := i.declared,
    sign := i.sign, setErr := i.setErr }

/-- the Secret object after `Notify` -/
inductive After where
  | none      -- still no such object
  | old       -- untouched
  | new       -- type kubernetes.io/tls, data = exactly tls.crt and tls.key as issued
deriving Repr, DecidableEq

structure SOut where
  usable : Bool           -- `GetTLSSecretPath` accepted the secret (before `Notify`)
  out    : VOut
  after  : After
deriving Repr, DecidableEq

def afterOf (i : SIn) (o : VOut) : After :=
  if o.written && !i.setErr then .new else if i.sec.isSome then .old else .none

/-- the `Secret` the abstract model sees for a `Read` that is not `nilCrt` -/
def Read.toSecret : Read → Secret
  | .crt na sans => .cert na sans
  | _ => .missing

/-- `signer.Notify` over the cache facade; `none` = nil pointer dereference in `verify` -/
def notifySecP (p : ReadPolicy) (i : SIn) : Option SOut :=
  let r := readP p i.now i.sec
  if i.acct && r == .nilCrt then none else       -- without an account `Notify` returns before reading
  let o := notify (i.toVIn r.toSecret)
  some { usable := usable i.now i.sec, out := o, after := afterOf i o }

/-- the code that exists -/
abbrev notifySec := notifySecP .code

/-! ### Spec -/

/-- the certificate bytes on their own: parsed, not expiring, covering -/
def certLooksValid (i : SIn) : Bool :=
  match i.sec with
  | some s =>
    (match s.crt with
     | .cert na sans => !(na < i.now + i.window) && i.declared.all (covered sans)
     | _ => false)
  | none => false

/-- "needed": missing or unreadable (`use` = could the controller load it as a certificate), expiring,
or not covering. The Secret's type plays no part. -/
def neededSec (i : SIn) (use : Bool) : Bool := !use || !certLooksValid i

/-- the clause for "valid looking certificate, not loadable by the controller, not requested", by the part of
the Secret that spoils it: a `ca.crt` that does not verify next to a usable pair, stray text after a usable key
(both invisible to `tls.X509KeyPair`: the reader between bffe88a and d4cef7d), or the key pair itself -/
def unusableClause (i : SIn) : String :=
  match i.sec with
  | some s =>
    if s.key == .ok && s.ca != .absent then "secret-with-unverifiable-ca-not-requested"
    else if s.key == .stray then "secret-with-stray-text-after-key-not-requested"
    else "unusable-secret-not-requested"
  | none => "unusable-secret-not-requested"

def oracleSec (i : SIn) (o : Option SOut) : Option String :=
  match o with
  | none =>
    some (if (i.sec.map (·.crt)) == some .empty then "panic-on-empty-tls-crt" else "panic-verify")
  | some o =>
    let need := neededSec i o.usable
    if !i.acct then
      (if o.out.signed.isSome || o.out.written then some "no-account-but-requested" else none)
    else if o.out.signed.isSome && !need then some "valid-certificate-re-requested"
    else if o.out.signed.isNone && need then
      -- the reader is content although HAProxy cannot be given the secret: which part of the secret does it miss
      some (if !o.usable && certLooksValid i then unusableClause i
            else "needed-certificate-not-requested")
    else if o.out.written && !(o.out.signed.isSome && i.sign.crt && i.sign.key) then
      some "secret-written-without-crt-and-key"
    else if (match o.out.signed with
        | some ds => ds != i.declared
        | none => false) then some "requested-wrong-domains"
    else if o.out.written && !i.setErr && o.after != .new then some "issued-certificate-not-stored"
    else if !(o.out.written && !i.setErr) && o.after != (if i.sec.isSome then .old else .none) then
      some "secret-changed-without-successful-write"
    else none

end HapVerif.C17
