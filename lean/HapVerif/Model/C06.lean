/- Model for C06: not written yet -/
namespace HapVerif.C06
end HapVerif.C06
