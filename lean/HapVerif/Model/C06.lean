import HapVerif.Model.C03
import HapVerif.Model.C15
/-!
# C06 — same cluster state, same behaviour, whatever the processing order

The model of the full sync (`Sync.fullSync`) takes the object lists of the cluster state in the order
the API returned them; `Sync.route` takes the iteration order of Go's maps over the hosts of each
frontend map as the parameter `π`.  This file adds

* `permute`: the same cluster state with every object list reversed (used by the driver as a run-time
  instance of the permutation theorems of `Props/C06.lean`);
* `annOf`: the resolution of a backend-scoped annotation conflict (mapper.go: the first writer of a
  key wins; writers arrive in the order of the accepted path declarations of the sorted ingresses);
* `iterDependent`: whether the answer to a request depends on `π`.
-/
namespace HapVerif.C06
open HapVerif.Sync
open HapVerif.C04 (Str)

def permute (w : World) : World :=
  { w with ings := w.ings.reverse, svcs := w.svcs.reverse, eps := w.eps.reverse, secs := w.secs.reverse }

/-- the parts of the configuration that behaviour depends on are equal -/
def sameCfg (a b : Cfg) : Bool :=
  a.paths = b.paths && a.tls = b.tls && a.hosts = b.hosts && a.backends = b.backends && a.dfltBackend = b.dfltBackend

/-- accepted declarations with the annotations of their ingress, first-created first -/
def effectiveAnn (w : World) : List (HPath × List (Str × Str)) :=
  (((sortIngs (w.ings.filter (·.valid))).flatMap fun i => (declsOf i).map fun d => (d, i.ann)).filterMap
    fun (d, a) => (C03.toHPath w d).map fun p => (p, a)).eraseDupsBy fun x y => C03.sameHP x.1 y.1

/-- value of a backend-scoped configuration key: the first accepted declaration that links to the
backend and whose ingress sets the key -/
def annOf (w : World) (k : BKey) (key : Str) : Option Str :=
  ((effectiveAnn w).filter fun x => x.1.bk = k).findSome? fun x => (x.2.find? (·.1 = key)).map (·.2)

def perms {α} : List α → List (List α)
  | [] => [[]]
  | x :: xs => (perms xs).flatMap fun p => (List.range (p.length + 1)).map fun i => p.take i ++ x :: p.drop i

/-- the answers to a request over all iteration orders of the map of its frontend -/
def routesOverIter (c : Cfg) (r : Req) : List Str :=
  let l := if r.tls then httpsPaths c else httpPaths c
  let dfl := mapFiles (dfltPaths c) (hostsOfPaths (dfltPaths c))
  (((perms (hostsOfPaths l)).take 720).map fun π =>
    let fs := mapFiles l π
    routeM c (if r.tls then ⟨[], fs, dfl⟩ else ⟨fs, [], dfl⟩) r).eraseDups

def iterDependent (c : Cfg) (r : Req) : Bool := (routesOverIter c r).length > 1

end HapVerif.C06
