import HapVerif.Model.C02
/-
C11 — no needless reloads.  Re-uses M-Dyn (`HapVerif.C02`): `alignSlots`, `checkBackendPair`.
Spec: after `alignSlots` a dynamic backend has at least `minFree` empty slots, a slot count that
is a positive multiple of the block size; an endpoint-only change that fits in the existing slots
(no label, resolver, preserved cookie; all responses OK) is applied without reload; a no-op
re-notification is neither a reload nor a command.
-/
namespace HapVerif.C11
open HapVerif.C02

def blockOf (b : Nat) : Nat := if b < 1 then 1 else b

/-- post-condition of `alignSlots` for a dynamic backend -/
def alignPost (eps : List EP) (minFree blockSize : Nat) : Bool :=
  minFree ≤ (eps.filter (·.isEmpty)).length && eps.length % blockOf blockSize = 0 && 0 < eps.length

def alignOracle (dyn : Bool) (before after : List EP) (minFree blockSize : Nat) : Option String :=
  if !dyn then (if after = before then none else some "slots-added-to-static-backend") else
  if after.take before.length ≠ before then some "align-changed-existing-endpoints" else
  if !(alignPost after minFree blockSize) then some "align-postcondition" else
  if !(namesNodup after) then some "duplicate-server-names" else none

/-- hypotheses of "fits in the existing slots" -/
def fits (old cur : List EP) : Bool :=
  cur.length ≤ old.length && cur.all (fun e => e.enabled && e.label = "") && old.all (fun e => e.label = "") &&
  !hasDupTarget old && !hasDupTarget cur

/-- `backendsMatch(add, del)` of backends.go: equal apart from empty endpoints and endpoint order -/
def backendsMatch (sameRest : Bool) (add del : List EP) : Bool :=
  sameRest &&
    ((add.filter (!·.isEmpty)).all (fun e => (del.filter (!·.isEmpty)).contains e) &&
     (del.filter (!·.isEmpty)).all (fun e => (add.filter (!·.isEmpty)).contains e))

/-- `Backends.Shrink` for one re-created backend: the pair is dropped and the old object stays -/
def shrinks (sameRest : Bool) (old cur : List EP) : Bool :=
  cur.length ≤ old.length && backendsMatch sameRest cur old

end HapVerif.C11
