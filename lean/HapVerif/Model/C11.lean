import HapVerif.Model.C02
/-
C11 — no needless reloads.  Re-uses M-Dyn (`HapVerif.C02`): `alignSlots`, `checkBackendPair`.
Spec: after `alignSlots` a dynamic backend has at least `minFree` empty slots, a slot count that
is a positive multiple of the block size; an endpoint-only change that fits in the existing slots
(no label, resolver, preserved cookie; all responses OK) is applied without reload; a no-op
re-notification is neither a reload nor a command.
-/
namespace HapVerif.C11
open HapVerif.C02

def blockOf (b : Nat) : Nat := if b < 1 then 1 else b

/-- post-condition of `alignSlots` for a dynamic backend -/
def alignPost (eps : List EP) (minFree blockSize : Nat) : Bool :=
  minFree ≤ (eps.filter (·.isEmpty)).length && eps.length % blockOf blockSize = 0 && 0 < eps.length

def alignOracle (dyn : Bool) (before after : List EP) (minFree blockSize : Nat) : Option String :=
  if !dyn then (if after = before then none else some "slots-added-to-static-backend") else
  if after.take before.length ≠ before then some "align-changed-existing-endpoints" else
  if !(alignPost after minFree blockSize) then some "align-postcondition" else
  if !(namesNodup after) then some "duplicate-server-names" else none

/-- hypotheses of "fits in the existing slots" -/
def fits (old cur : List EP) : Bool :=
  cur.length ≤ old.length && cur.all (fun e => e.enabled && e.label = "") && old.all (fun e => e.label = "") &&
  !hasDupTarget old && !hasDupTarget cur

/-- `backendsMatch(add, del)` of backends.go: equal apart from empty endpoints and endpoint order -/
def backendsMatch (sameRest : Bool) (add del : List EP) : Bool :=
  sameRest &&
    ((add.filter (!·.isEmpty)).all (fun e => (del.filter (!·.isEmpty)).contains e) &&
     (del.filter (!·.isEmpty)).all (fun e => (add.filter (!·.isEmpty)).contains e))

/-- `Backends.Shrink` for one re-created backend: the pair is dropped and the old object stays -/
def shrinks (sameRest : Bool) (old cur : List EP) : Bool :=
  cur.length ≤ old.length && backendsMatch sameRest cur old

/-! ## The store: several backends, whole histories

`Backends` holds every backend (`items`); an update batch re-creates a subset of them (the converters
`RemoveAll` the dirty ones and `AcquireBackend` them again, with a new endpoint list that has no empty
slot) and leaves the others alone (bystanders).  `HAProxyUpdate` then runs `Shrink` (a re-created
backend that matches the old one is dropped from the change tracker and the old object stays),
`checkBackendPair` for every remaining pair, reloads iff some pair asks for it or something outside the
backends changed, and on a reload `alignSlots` pads EVERY item — re-created or not — and flags the
shard of a padded bystander (`BackendChanged`) so that its file is rewritten. -/

/-- one backend of the store: the M-Dyn part, its `Dynamic` settings and its shard -/
structure SB where
  back : Back
  minFree : Nat
  block : Nat
  shard : Nat := 0
deriving Repr

def SB.slots (b : SB) : Nat := b.back.eps.length
def SB.free (b : SB) : Nat := (b.back.eps.filter (·.isEmpty)).length

/-- the body of the `alignSlots` loop for one item -/
def alignSB (b : SB) : SB := { b with back := alignSlots b.back b.minFree b.block }

/-- a backend of the store and its section in the configuration files HAProxy loads -/
structure Cell where
  sb : SB
  file : List EP
deriving Repr

abbrev Sys := List Cell

/-- one update batch: per backend `none` (bystander) or the re-created endpoint list; `other` = a change
outside the backends (global, host, …) in the same batch -/
structure Step where
  recr : List (Option (List EP))
  other : Bool := false
deriving Repr

def Step.at (st : Step) (i : Nat) : Option (List EP) := st.recr.getD i none

/-- the converters never emit a disabled endpoint (`AddEmptyEndpoint` is only called by the updater) -/
def Step.wf (st : Step) : Bool :=
  st.recr.all fun r => match r with | none => true | some l => l.all (·.enabled)

/-- `real` = the code; `onlyRecreated` = seeded defect C11e (alignSlots walks `ItemsAdd()`);
`noFlag` = alignSlots without `BackendChanged` -/
inductive Variant | real | onlyRecreated | noFlag
deriving DecidableEq, Repr

/-- a backend in the middle of an update -/
structure Mid where
  sb : SB
  file : List EP
  ok : Bool            -- the pair does not ask for a reload
  cmds : List Cmd
  flag : Bool          -- its shard is flagged changed (still in itemsAdd/itemsDel, or `BackendChanged`)
  panic : Bool := false
deriving Repr

/-- Shrink + checkBackendPair for one backend (every command answered OK) -/
def pairCell (c : Cell) : Option (List EP) → Mid
  | none => { sb := c.sb, file := c.file, ok := true, cmds := [], flag := false }
  | some cur =>
    if shrinks true c.sb.back.eps cur then { sb := c.sb, file := c.file, ok := true, cmds := [], flag := false }
    else
      let o := checkBackendPair c.sb.back { c.sb.back with eps := cur } true []
      { sb := { c.sb with back := { c.sb.back with eps := o.cur } }, file := c.file, ok := o.updated,
        cmds := o.cmds, flag := true, panic := o.panic }

def pairAll : Sys → List (Option (List EP)) → List Mid
  | [], _ => []
  | c :: cs, [] => pairCell c none :: pairAll cs []
  | c :: cs, r :: rs => pairCell c r :: pairAll cs rs

/-- `alignSlots` for one item of the walk -/
def alignMid (v : Variant) (m : Mid) : Mid :=
  if v = .onlyRecreated ∧ m.flag = false then m
  else
    let sb := alignSB m.sb
    { m with sb := sb, flag := m.flag || (decide (v = .real) && sb.slots != m.sb.slots) }

/-- writeConfig: the main file holds every backend; with shards only the flagged shard files are written -/
def writeCell (sharded wrote : Bool) (flagged : List Nat) (m : Mid) : Cell :=
  { sb := m.sb, file := if wrote && (!sharded || flagged.contains m.sb.shard) then m.sb.back.eps else m.file }

structure StepOut where
  reload : Bool
  mids : List Mid
  sys : Sys
deriving Repr

/-- `!dynUpdater.update()`: something outside the backends changed, or some pair asks for a reload -/
def needReload (s : Sys) (st : Step) : Bool := st.other || !((pairAll s st.recr).all (·.ok))

/-- the backends after `dynUpdater.update()`: `alignSlots` runs iff a reload is needed -/
def mids (v : Variant) (s : Sys) (st : Step) : List Mid :=
  if needReload s st then (pairAll s st.recr).map (alignMid v) else pairAll s st.recr

def flaggedShards (ms : List Mid) : List Nat := (ms.filter (·.flag)).map (·.sb.shard)

/-- one `HAProxyUpdate` on committed data -/
def step (v : Variant) (sharded : Bool) (s : Sys) (st : Step) : StepOut :=
  let ms := mids v s st
  { reload := needReload s st, mids := ms,
    sys := ms.map (writeCell sharded (needReload s st || ms.any (·.flag)) (flaggedShards ms)) }

/-- the first update: nothing is committed, every backend is new: reload, align, write everything -/
def boot (bs : List SB) : Sys := bs.map fun b => { sb := alignSB b, file := (alignSB b).back.eps }

def runFrom (v : Variant) (sharded : Bool) (s : Sys) (steps : List Step) : Sys :=
  steps.foldl (fun s st => (step v sharded s st).sys) s

def run (v : Variant) (sharded : Bool) (bs : List SB) (steps : List Step) : Sys := runFrom v sharded (boot bs) steps

/-- slot counts of the store -/
def slotsOf (s : Sys) : List Nat := s.map (·.sb.slots)

/-- the history with a ghost: the slot counts the last reload left -/
def runG (v : Variant) (sharded : Bool) (acc : Sys × List Nat) (steps : List Step) : Sys × List Nat :=
  steps.foldl (fun acc st =>
    let o := step v sharded acc.1 st
    (o.sys, if o.reload then slotsOf o.sys else acc.2)) acc

/-- a converter names fresh endpoints srv001.. (sequence naming) -/
def srvName (i : Nat) : String :=
  let t := toString (i + 1); "srv" ++ String.ofList (List.replicate (3 - t.length) '0') ++ t
def fresh (l : List EP) : List EP := (l.zip (List.range l.length)).map fun (e, i) => { e with name := srvName i }

/-! ### Spec on what the implementation did in one step -/

/-- what a `server` line of the configuration file says -/
def proj (e : EP) : EP := { e with cookie := "", label := "", tref := "", puid := 0 }

/-- the re-created content is the old effective content.  A backend with dynamic scaling pairs the
endpoints by target: names and order do not matter.  A static backend is rendered in the order given:
"did not change" means the same endpoints in the same order (a re-ordered static backend is reloaded; the
code carries a TODO for it — reported, not part of the property). -/
def sameContent (dyn : Bool) (prev cur : List EP) : Bool :=
  let r (l : List EP) := (l.filter (·.enabled)).map fun e => { e with name := "" }
  cur.all (·.enabled) &&
  (if dyn then (r prev).all ((r cur).contains ·) && (r cur).all ((r prev).contains ·) &&
      !hasDupTarget prev && !hasDupTarget cur
   else r prev == r cur)

/-- the Spec allows a reload for this re-created backend -/
def needsReload (b : SB) (prev cur : List EP) : Bool :=
  !(sameContent (b.back.dynUpdate && !b.back.resolver) prev cur) &&
  !(b.back.dynUpdate && !b.back.resolver && !b.back.cookiePreserve && fits prev cur)

structure Obs where
  reload : Bool
  mem : List (List EP)
  file : List (List EP)

/-- post-condition of a reload on the files: every dynamic backend -/
def reloadPost (cfg : List SB) (o : Obs) : Option String :=
  (List.range cfg.length).findSome? fun i =>
    match cfg[i]? with
    | none => none
    | some b =>
      if !b.back.dynUpdate || b.back.resolver then none else
      let f := o.file.getD i []
      if (f.filter (·.isEmpty)).length < b.minFree then some "after-reload-min-free"
      else if !(f.length % blockOf b.block = 0 && 0 < f.length) then some "after-reload-multiple" else none

/-- `first`: the very first update; `prev`: the observation of the step before -/
def stepOracle (cfg : List SB) (prev : Option Obs) (st : Step) (o : Obs) : Option String :=
  if o.mem.length ≠ cfg.length ∨ o.file.length ≠ cfg.length then some "unparsable-implementation-output" else
  if ((List.range cfg.length).any fun i =>
      match cfg[i]? with
      | some b => !b.back.resolver && (o.mem.getD i []).map proj != o.file.getD i []
      | none => false) then some "file-differs-from-model" else
  match prev with
  | none => if !o.reload then some "first-update-without-reload" else reloadPost cfg o
  | some p =>
    if o.reload then
      let need := st.other || (List.range cfg.length).any fun i =>
        match cfg[i]?, st.at i with
        | some b, some cur => needsReload b (p.mem.getD i []) cur
        | _, _ => false
      if !need then some "reload-without-need" else reloadPost cfg o
    else if ((List.range cfg.length).any fun i => (o.file.getD i []).length != (p.file.getD i []).length) then
      some "slots-changed-without-reload"
    else none

end HapVerif.C11
