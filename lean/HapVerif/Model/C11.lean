/- Model for C11: not written yet -/
namespace HapVerif.C11
end HapVerif.C11
