/-
C11, auth proxy ports (after seed C11g): the allocator of the local ports of the auth proxy frontend,
pkg/haproxy/types/frontend.go

  func (f *Frontend) AcquireAuthBackendName(backend BackendID) (string, error)
  func (f *Frontend) RemoveAuthBackendExcept(used map[string]bool)
  func (f *Frontend) RemoveAuthBackendByTarget(backends []string)
  func (f *Frontend) Changed() / Commit()

`auth-url` (external authentication) maps the backend of an authentication service to a port of the `auth-proxy`
range and names it `_auth_<port>`.  Every parse of a backend that carries `auth-url` calls
`AcquireAuthBackendName`; a new bind sets `Frontend.changed`, and a changed frontend makes the dynamic updater ask
for a reload.  C11 demands that a re-parse which changes nothing (a no-op re-notification, an in-capacity endpoint
change) does not reload: acquiring the name of a backend that already holds a bind must find that bind and leave the
list and the flag alone - WHATEVER holes the list has (binds are released out of order by the two Remove functions).

Core-only (linked into the driver).
-/
namespace HapVerif.C11AuthP

/-- `AuthProxyBind`: `AuthBackendName = _auth_<port>` and `SocketID = 10000 + port` are functions of the port -/
structure Bind where
  port : Nat
  back : Nat
  deriving DecidableEq, Repr, Inhabited

/-- the `Frontend` as far as the allocator goes: `AuthProxy.{RangeStart,RangeEnd,BindList}` and `changed` -/
structure Front where
  lo : Nat
  hi : Nat
  binds : List Bind
  changed : Bool
  deriving DecidableEq, Repr, Inhabited

/-- the result of the walk over `BindList`: the bind of the backend, or the candidate port -/
inductive Walk where
  | found (port : Nat)
  | free (port : Nat)
  deriving DecidableEq, Repr

/-- the loop of `AcquireAuthBackendName`:
`if bind.Backend == backend { return bind.AuthBackendName }; if freePort == bind.LocalPort { freePort++ }` -/
def walk (b : Nat) : Nat → List Bind → Walk
  | fp, [] => .free fp
  | fp, x :: rest => if x.back = b then .found x.port else walk b (if fp = x.port then fp + 1 else fp) rest

/-- the candidate port alone (the second half of the loop) -/
def freeFrom : Nat → List Nat → Nat
  | fp, [] => fp
  | fp, p :: rest => freeFrom (if fp = p then fp + 1 else fp) rest

/-- `append` + `sort.Slice` by `LocalPort` on a list that is sorted already: the new bind goes before the first
bind with a greater port -/
def ins (n : Bind) : List Bind → List Bind
  | [] => [n]
  | x :: rest => if n.port < x.port then n :: x :: rest else x :: ins n rest

/-- `AcquireAuthBackendName`: the port handed out (`none` = "auth proxy list is full") and the frontend after -/
def acquire (f : Front) (b : Nat) : Option Nat × Front :=
  match walk b f.lo f.binds with
  | .found p => (some p, f)
  | .free p =>
    if p > f.hi then (none, f)
    else (some p, { f with binds := ins { port := p, back := b } f.binds, changed := true })

/-- `RemoveAuthBackendExcept(used)`: keeps the binds whose name is in `used` (names = ports) -/
def removeExcept (f : Front) (used : List Nat) : Front :=
  { f with binds := f.binds.filter fun x => used.contains x.port }

/-- `RemoveAuthBackendByTarget(backends)`: drops the binds of the given backends -/
def removeByTarget (f : Front) (bs : List Nat) : Front :=
  { f with binds := f.binds.filter fun x => !bs.contains x.back }

def commit (f : Front) : Front := { f with changed := false }

inductive Op where
  | acq (b : Nat)
  | except (used : List Nat)
  | target (bs : List Nat)
  | commit
  deriving DecidableEq, Repr

def step (f : Front) : Op → Front
  | .acq b => (acquire f b).2
  | .except u => removeExcept f u
  | .target bs => removeByTarget f bs
  | .commit => commit f

def run (f : Front) (ops : List Op) : Front := ops.foldl step f

def empty (lo hi : Nat) : Front := { lo := lo, hi := hi, binds := [], changed := false }

/-- the seeded variant (C11g): the walk leaves the loop at the first unused port
`if freePort < bind.LocalPort { break }; freePort++` - the same candidate port on a sorted list, but the binds
placed after the hole are not looked at any more -/
def walkBreak (b : Nat) : Nat → List Bind → Walk
  | fp, [] => .free fp
  | fp, x :: rest => if x.back = b then .found x.port else if fp < x.port then .free fp else walkBreak b (fp + 1) rest

def acquireBreak (f : Front) (b : Nat) : Option Nat × Front :=
  match walkBreak b f.lo f.binds with
  | .found p => (some p, f)
  | .free p =>
    if p > f.hi then (none, f)
    else (some p, { f with binds := ins { port := p, back := b } f.binds, changed := true })

/-! ## Spec, evaluated on the implementation's own observations

One observation = the answer of one operation (`some port`, `none` = full / not an acquire) and the frontend after it. -/

structure Obs where
  op : Op
  ans : Option Nat
  binds : List Bind
  changed : Bool

def sortedStrict : List Nat → Bool
  | [] => true
  | [_] => true
  | a :: b :: rest => a < b && sortedStrict (b :: rest)

def nodupNat : List Nat → Bool
  | [] => true
  | a :: rest => !rest.contains a && nodupNat rest

/-- what the property demands of one operation, given the frontend before it -/
def invOracle (lo hi : Nat) (binds : List Bind) : Option String :=
  -- at every point: a port names one backend, a backend holds one bind, ports sorted and in the range
  if !nodupNat (binds.map (·.port)) then some "auth-proxy-port-shared-by-two-backends" else
  if !nodupNat (binds.map (·.back)) then some "auth-proxy-backend-bound-twice" else
  if !sortedStrict (binds.map (·.port)) then some "auth-proxy-bind-list-not-sorted" else
  if binds.any (fun x => x.port < lo ∨ x.port > hi) then some "auth-proxy-port-outside-range" else none

def opOracle (lo hi : Nat) (before : List Bind) (chBefore : Bool) (o : Obs) : Option String :=
  let spec : Option String :=
    match o.op with
    | .acq b =>
      match before.find? (·.back = b) with
      | some x =>
        -- the no-op acquire: same name, same list, the flag untouched
        if o.changed ≠ chBefore then some "frontend-changed-by-noop-acquire" else
        if o.ans ≠ some x.port then some "auth-proxy-name-of-bound-backend-changed" else
        if o.binds ≠ before then some "auth-proxy-bind-list-changed-by-noop-acquire" else none
      | none =>
        match o.ans with
        | some p =>
          if before.any (·.port = p) then some "auth-proxy-port-shared-by-two-backends" else
          if !o.binds.contains { port := p, back := b } then some "auth-proxy-acquired-bind-missing" else
          if !o.changed then some "frontend-not-flagged-after-new-bind" else none
        | none =>
          -- full only when every port of the range is taken
          if (List.range (hi + 1 - lo)).all (fun k => before.any (·.port = lo + k)) then
            (if o.binds ≠ before then some "auth-proxy-bind-list-changed-by-failed-acquire" else none)
          else some "auth-proxy-full-although-port-free"
    | .except u => if o.binds ≠ before.filter (fun x => u.contains x.port) then some "auth-proxy-remove-except-wrong" else none
    | .target bs => if o.binds ≠ before.filter (fun x => !bs.contains x.back) then some "auth-proxy-remove-by-target-wrong" else none
    | .commit => if o.changed then some "frontend-changed-after-commit" else none
  match spec with
  | some c => some c
  | none => invOracle lo hi o.binds

end HapVerif.C11AuthP
