import HapVerif.Model.C05
/-!
M-Store, backend maps: model of `config.WriteBackendMaps` (pkg/haproxy/config.go) on top of the C05
backends store, and of the DECLARED state next to the stored one.  Core-only.

`WriteBackendMaps` is guarded by `backends.Changed() || rewriteAll` and visits `ItemsAdd()` only
(`Items()` when everything is rewritten, see Model/C12): for every visited backend with
`NeedACL()` it renders the file set `_back_<id>_idpath*.map`.  A backend that `Shrink` puts back
(`b.items[name] = del`) is not visited: its files are the ones written when the DELETED object was
itself new.  That is sound for two reasons, kept apart here:

* the files hold the rendering of the object that is in `items` (no hypothesis needed:
  `backmaps_eq_items`), and
* the object in `items` renders like the one the converter just DECLARED (the discarded `add`
  object), because everything the rendering reads is compared by `backendsMatch`
  (`reflect.DeepEqual` of the two backends with `Endpoints`, `PathsMap`, `pathConfig` levelled:
  `Paths` with their `Link` (hostname, path, match, headers), their `ID` and the values behind the
  `Host` resolver pointers are all compared).  This is the explicit hypothesis `MapDep` of
  `backmaps_eq_declared`; the harness checks it on the real code by comparing every file with the
  rendering of a fresh instance that was fed the declared state only.

`decl` is ghost state: the content the last batch declared for each name (`AcquireBackend` of a
name that exists is a lookup, the content passed is ignored).
-/
namespace HapVerif.C05
variable {p : Nat}

/-- `Backends.Changed()` -/
def storeChanged (s : Store p) : Bool := anyFin fun x => (s.add x).isSome || (s.del x).isSome

/-- one pass of `WriteBackendMaps` over the visited backends: `mp c = some v` = the backend needs
ACLs and its file set renders as `v`; `none` = no file is written for it (an older file set stays
on disk, no backend section refers to it) -/
def bmWriteOf (mp : Content → Option Nat) (vis : Map p) (bm : Fin p → Option Nat) : Fin p → Option Nat :=
  fun x => match vis x with
    | some c => (match mp c with | some v => some v | none => bm x)
    | none => bm x

structure BWorld (p : Nat) where
  w : World p := {}
  bm : Fin p → Option Nat := fun _ => none     -- `_back_<id>_idpath*.map`, none = never written
  decl : Map p := emp                          -- ghost: what the converter declared last

/-- `update` = `Shrink; WriteBackendMaps; writeConfig; Commit` -/
def bstep (mp : Content → Option Nat) (sh : Sh p) (b : BWorld p) : Op p → BWorld p
  | .acquire x c =>
    { b with w := step sh b.w (.acquire x c)
             decl := if b.w.store.items x = none then setM b.decl x (some c) else b.decl }
  | .removeAll xs =>
    { b with w := step sh b.w (.removeAll xs)
             decl := fun y => if xs.contains y then none else b.decl y }
  | .clear => { b with w := step sh b.w .clear, decl := emp }
  | .update =>
    let s := shrink sh b.w.store
    { b with w := step sh b.w .update
             bm := if storeChanged s then bmWriteOf mp s.add b.bm else b.bm }
  | op => { b with w := step sh b.w op }

def brun (mp : Content → Option Nat) (sh : Sh p) (b : BWorld p) (ops : List (Op p)) : BWorld p :=
  ops.foldl (bstep mp sh) b

/-- everything the map rendering reads is compared by `Shrink`'s match -/
def MapDep (mp : Content → Option Nat) : Prop := ∀ a d : Content, a.matches d = true → mp a = mp d

/-- the stored object is the declared one up to what `Shrink` ignores (more empty slots) -/
def declMatches (items decl : Map p) (x : Fin p) : Bool :=
  match items x, decl x with
  | none, none => true
  | some c, some a => a.matches c
  | _, _ => false

end HapVerif.C05
