import HapVerif.Model.C15
/-!
# C15 — the running side: which certificate the RUNNING HAProxy presents

`Model/C15.lean` judges the FILES a reconciliation writes (crt-list + one pem file per Secret).  A running HAProxy
does not read files: it holds, per certificate FILE PATH, the certificate it loaded at the last reload, and the
crt-list of that reload.  Between reloads the controller replaces certificates in memory with
`set ssl cert <path> <<payload` + `commit ssl cert <path>` (`dynUpdater.checkHostPair` → `execUpdateCert`).

State `RState` = (crt-list loaded at the last reload, as filter ↦ path; certificate in memory per path).
* `reload c`: the running state becomes the disk state of configuration `c` (`diskFiles`).
* `step`: one `HAProxyUpdate` after the first: `changes prev cur` = the host pairs `checkHostPair` finds with the same
  certificate file and another certificate hash; `pushAll` sends one `set ssl cert` per change unless the memo of the
  update says a change with the same KEY was already handled (`Memo`; the code has none: `perHost`; `byPath` is the
  harmless optimisation; `byContent` is the memo keyed by the certificate hash).  The update is applied without a
  reload iff nothing else asks for one (`forced`: any other difference the updater finds — opaque here), the crt-list
  is the same at path level (`sameLayout`: no host added or removed, no host moved to another file — the model of
  "diff outside server certificate" for what this property needs) and every command was accepted (`set ssl cert`
  is refused for a path the running configuration does not reference).
* `servedRun st sni`: HAProxy's SNI lookup in the LOADED list, then the certificate in memory at that path.

Certificates are compared by CONTENT (`contentOf`): Secrets may hold byte-identical certificates (harness:
versions from `sharedFrom` on are "one certificate replicated into several Secrets").  The file PATH is the identity
of the Secret (`pathOf`: `<ns>_<name>.pem`).
-/
namespace HapVerif.C15.Run
open HapVerif.Sync
open HapVerif.C04 (Str lower)

/-- versions from here on: the content is a function of the version alone (harness: `world.SharedVersion`) -/
def sharedFrom : Nat := 1000

/-- a certificate file: the default certificate or the pem file of Secret `ns/name` -/
inductive Path
  | dflt
  | sec (ns name : Str)
deriving DecidableEq, Repr

/-- what a certificate file holds -/
inductive Content
  | dflt
  | own (ns name : Str) (v : Nat)
  | shared (v : Nat)
deriving DecidableEq, Repr

def pathOf : Crt → Path
  | .dflt => .dflt
  | .secret ns n _ => .sec ns n

def contentOf : Crt → Content
  | .dflt => .dflt
  | .secret ns n v => if sharedFrom ≤ v then .shared v else .own ns n v

/-! ## certificates in memory, per path -/

abbrev Files := List (Path × Content)

def Files.get (f : Files) (p : Path) : Option Content := (f.find? (fun e => e.1 = p)).map (·.2)

def Files.has (f : Files) (p : Path) : Bool := f.any (fun e => e.1 = p)

/-- `set ssl cert p` + `commit ssl cert p`: replaces the certificate held for `p`; a path the running configuration
does not reference is refused (nothing changes) -/
def Files.set (f : Files) (p : Path) (c : Content) : Files := f.map fun e => if e.1 = p then (p, c) else e

/-! ## one dynamic update -/

/-- a host pair of `checkHostPair` whose certificate hash changed within the same file -/
structure Chg where
  host : Str
  path : Path
  content : Content      -- the content of the file on disk when the command is sent
deriving DecidableEq, Repr

/-- the memo of one update: `memo a b` = a change `a` handled earlier answers for `b` (nothing is sent for `b`) -/
abbrev Memo := Chg → Chg → Bool

/-- the code: no memo, one `set ssl cert` per changed host -/
def perHost : Memo := fun _ _ => false
/-- one command per certificate file -/
def byPath : Memo := fun a b => a.path = b.path
/-- one command per certificate hash (seed C15f) -/
def byContent : Memo := fun a b => a.content = b.content

structure PushSt where
  mem : Files
  done : List Chg := []       -- the changes whose command was sent
  pushed : List Path := []    -- the commands, in order
  ok : Bool := true           -- every command was accepted
deriving Repr

def pushOne (memo : Memo) (s : PushSt) (c : Chg) : PushSt :=
  match s.done.find? (fun d => memo d c) with
  | some _ => s      -- remembered outcome (a refused command already cleared `ok`)
  | none => { mem := s.mem.set c.path c.content, done := c :: s.done, pushed := s.pushed ++ [c.path],
              ok := s.ok && s.mem.has c.path }

def pushAll (memo : Memo) (mem : Files) (cs : List Chg) : PushSt := cs.foldl (pushOne memo) { mem := mem }

/-- host pairs with the same file and another hash (`oldHost.TLS.TLSFilename == curHost.TLS.TLSFilename &&
oldHost.TLS.TLSHash != curHost.TLS.TLSHash`), hosts in the order of the new configuration -/
def changes (prev cur : Cfg) : List Chg :=
  (cur.hosts.filter fun h => prev.hosts.contains h).filterMap fun h =>
    let c := prev.crtOfHost h
    let c' := cur.crtOfHost h
    if pathOf c = pathOf c' ∧ contentOf c ≠ contentOf c' then some ⟨h, pathOf c', contentOf c'⟩ else none

/-! ## running state -/

/-- filter and file of a crt-list line: all a running HAProxy keeps of the list besides the certificates -/
def pl (l : CrtLine) : Str × Path := (l.filter, pathOf l.crt)

structure RState where
  loaded : List (Str × Path) := []
  mem : Files := []
deriving Repr

/-- the certificate files a reload reads: the default certificate and the file of every line -/
def diskFiles (c : Cfg) : Files := (.dflt, .dflt) :: (crtList c).map fun l => (pathOf l.crt, contentOf l.crt)

def reload (c : Cfg) : RState := ⟨(crtList c).map pl, diskFiles c⟩

def sameLayout (prev cur : Cfg) : Bool := (crtList prev).map pl = (crtList cur).map pl

structure StepOut where
  st : RState
  reloaded : Bool
  pushed : List Path
deriving Repr

/-- one `HAProxyUpdate` with committed data: every changed pair is handled first ("fully verified even if a restart
should be made"), then reload or not -/
def step (memo : Memo) (st : RState) (prev cur : Cfg) (forced : Bool) : StepOut :=
  let r := pushAll memo st.mem (changes prev cur)
  if forced || !sameLayout prev cur || !r.ok then ⟨reload cur, true, r.pushed⟩
  else ⟨⟨st.loaded, r.mem⟩, false, r.pushed⟩

/-- HAProxy's SNI lookup (`Sync.sniCrt`, trusted) in the loaded list -/
def sniPath (l : List (Str × Path)) (sni : Str) : Path :=
  let s := lower sni
  match l.find? (fun e => !isWild e.1 && lower e.1 = s) with
  | some e => e.2
  | none =>
    match wildOf s with
    | none => .dflt
    | some wc =>
      match l.find? (fun e => lower e.1 = wc) with
      | some e => e.2
      | none => .dflt

/-- the certificate a client that sends `sni` is presented (`none`: the file is not in memory) -/
def servedRun (st : RState) (sni : Str) : Option Content := st.mem.get (sniPath st.loaded sni)

/-! ## histories -/

/-- one reconciliation after the first: the cluster state it ends with and whether anything besides the
certificates asks for a reload -/
structure Sync where
  w : World
  forced : Bool

/-- the first update has no committed data: it always reloads and sends nothing -/
def start (w : World) : RState × Cfg := (reload (fullSync w), fullSync w)

def next (memo : Memo) (s : RState × Cfg) (y : Sync) : RState × Cfg :=
  ((step memo s.1 s.2 (fullSync y.w) y.forced).st, fullSync y.w)

def runHist (memo : Memo) (w0 : World) (ys : List Sync) : RState × Cfg := ys.foldl (next memo) (start w0)

/-- the cluster state a history ends with -/
def lastWorld (w0 : World) (ys : List Sync) : World := ys.foldl (fun _ y => y.w) w0

end HapVerif.C15.Run
