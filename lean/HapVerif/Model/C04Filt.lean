import HapVerif.Model.C04
/-!
Extension of the C04 model to entries that carry a header filter (`HostsMapEntry.headers`), and to the
two producers of that value.  Core-only.

* `Hdrs = Option (List HMatch)`: Go's `HTTPHeaderMatch` (`[]HTTPMatch`); `none` = nil slice, `some l` = non-nil
  slice.  maps.go: `hasFilter()` is `headers != nil`; `equals` / `hasSameFilter` is `reflect.DeepEqual`, for which
  an empty non-nil slice differs from nil.
* producers: `gatewayHeaders` (gateway.go `createHTTPHosts`), `ingressHeaders` (ingress.go `addHeaderMatch` +
  `PathLink.AddHeadersMatch`), and the order in which config.go `WriteFrontendMaps` feeds the map
  (`Hosts.BuildSortedItems` × `Host.Paths`, which `addLink` keeps sorted by path descending, then insertion).
* `rebuildFV`: `rebuildMatchFiles` with the filter branches: the pre-sort comparator (`e1.hasFilter()` when the
  filters differ), the single-entry case, `findOrCreateMatchFile(listWithFilters, …)` and
  `order.PushFrontList(listWithFilters)`.
* `lookupFilesF`: haproxy.tmpl, `httpFilters`: a map file with a non-empty `Headers()` is consulted only
  `if … { hdr(<name>) [-m reg] -- <value> }…` (all conditions); an empty or nil list adds no condition.
-/
namespace HapVerif.C04

/-- `hatypes.HTTPMatch` -/
structure HMatch where
  name : Str
  value : Str
  regex : Bool
deriving DecidableEq, Repr

abbrev Hdrs := Option (List HMatch)

/-- a map entry with its header filter -/
structure FEntry where
  e : Entry
  headers : Hdrs
deriving DecidableEq, Repr

/-- `hasFilter()`: `he.headers != nil` -/
def FEntry.hasFilter (x : FEntry) : Bool := x.headers.isSome

/-! ## the producers of `headers` -/

/-- Go's `append(s, h)` on a possibly nil slice: the result is never nil -/
def goAppend (s : Hdrs) (h : HMatch) : Hdrs := some (s.getD [] ++ [h])

/-- gateway.go `createHTTPHosts`: `var haheaders hatypes.HTTPHeaderMatch; for _, header := range match.Headers
{ haheaders = append(haheaders, …) }; pathlink.WithHeadersMatch(haheaders)`.  `decl` is `match.Headers`:
`none` = field absent (nil), `some []` = `headers: []`; ranging over either runs no iteration. -/
def gatewayHeaders (decl : Option (List HMatch)) : Hdrs := (decl.getD []).foldl goAppend none

/-- the seeded variant C04e: `if match.Headers != nil { haheaders = make(HTTPHeaderMatch, 0, len(match.Headers)) }` -/
def gatewayHeadersSeeded (decl : Option (List HMatch)) : Hdrs :=
  (decl.getD []).foldl goAppend (decl.map fun _ => [])

/-- `PathLink.AddHeadersMatch` guarded by `if len(headers) > 0` (ingress.go `addHeaderMatch`) -/
def addHeadersMatch (cur : Hdrs) (hs : List HMatch) : Hdrs :=
  if hs.isEmpty then cur else some (cur.getD [] ++ hs)

/-- ingress.go `syncIngressHTTP`: the lines of `http-header-match`, then those of `http-header-match-regex` -/
def ingressHeaders (decl : Option (List HMatch)) : Hdrs :=
  let l := decl.getD []
  addHeadersMatch (addHeadersMatch none (l.filter (!·.regex))) (l.filter (·.regex))

inductive Producer | gateway | ingress | seeded
deriving DecidableEq, Repr

def produce : Producer → Option (List HMatch) → Hdrs
  | .gateway => gatewayHeaders
  | .ingress => ingressHeaders
  | .seeded => gatewayHeadersSeeded

/-- a rule as declared: `decl` is the declared list of header conditions (`none` absent, `some []` empty) -/
structure FRule where
  rule : Rule
  decl : Option (List HMatch)
deriving DecidableEq, Repr

/-- the conditions a declared rule puts on the request: an empty list is no condition -/
def FRule.conds (r : FRule) : List HMatch := r.decl.getD []

def entriesOfF (p : Producer) (rules : List FRule) : List FEntry :=
  (rules.zip (List.range rules.length)).map fun (r, i) => ⟨addTarget r.rule i, produce p r.decl⟩

/-! ### the order in which config.go feeds the map -/

/-- generic insertion from the left (as `insertBy`) -/
def insertG {α} (lt : α → α → Bool) (x : α) : List α → List α
  | [] => [x]
  | y :: ys => if lt x y then x :: y :: ys else y :: insertG lt x ys

def sortG {α} (lt : α → α → Bool) (l : List α) : List α := l.foldl (fun acc x => insertG lt x acc) []

/-- `Hosts.BuildSortedItems` (ascending hostnames) × `Host.Paths` (`addLink`: `p1.path > p2.path`, ties by
`order` = position of the declaration inside the host); `rules` carry their declaration index -/
def feedOrder (rules : List FRule) : List FRule :=
  let idx := rules.zip (List.range rules.length)
  let hosts := sortG ltStr ((rules.map (·.rule.host)).eraseDups)
  hosts.flatMap fun h =>
    (sortG (fun (a b : FRule × Nat) => if a.1.rule.path = b.1.rule.path then a.2 < b.2 else ltStr b.1.rule.path a.1.rule.path)
      (idx.filter (·.1.rule.host = h))).map (·.1)

/-! ## `rebuildMatchFiles` with filters -/

/-- the pre-sort comparator: `if e1.headers.equals(e2.headers) { lower(e1.path) > lower(e2.path) }; return e1.hasFilter()` -/
def ltF (gt : Entry → Entry → Bool) (a b : FEntry) : Bool :=
  if a.headers = b.headers then gt a.e b.e else a.hasFilter

/-- one step of Go's `insertionSort` (`for j := i; j > a && less(j, j-1); j-- { swap(j, j-1) }`): `x` is swapped
towards the front while it is `less` than its left neighbour, so it ends in front of the longest suffix of the
sorted prefix all of whose elements `y` satisfy `less(x, y)`.  (The comparator above is not transitive when two
filters differ, so this is not the same as inserting from the left.) -/
def insGo {α} (lt : α → α → Bool) (x : α) : List α → List α
  | [] => [x]
  | y :: ys => if (y :: ys).all (lt x ·) then x :: y :: ys else y :: insGo lt x ys

def sortGo {α} (lt : α → α → Bool) (l : List α) : List α := l.foldl (fun acc x => insGo lt x acc) []

/-- a file of `listWithFilters` -/
structure FPFile where
  mt : MT
  headers : Hdrs
  entries : List FEntry
deriving Repr

/-- `findOrCreateMatchFile(listWithFilters, e)`: `_upper` of an entry with filter is never set, so the search
starts at the front; a file matches when `match` and `headers` (DeepEqual) agree -/
def findOrCreateF : List FPFile → FEntry → List FPFile
  | [], x => [⟨x.e.mt, x.headers, [x]⟩]
  | f :: fs, x =>
    if f.mt = x.e.mt ∧ f.headers = x.headers then { f with entries := f.entries ++ [x] } :: fs
    else f :: findOrCreateF fs x

/-- state of the scan: `order` (priority files of entries without filter) with the `_upper` marks,
`listWithFilters`, and the entries whose `_elem` was set by a filter file -/
structure FSt where
  prio : List PFile
  upper : Nat → Option Nat
  fl : List FPFile
  done : List Nat

/-- `if f && e._elem == nil { findOrCreateMatchFile(listWithFilters, e) }` -/
def placeF (st : FSt) (x : FEntry) : FSt :=
  if st.done.contains x.e.order then st
  else { st with fl := findOrCreateF st.fl x, done := x.e.order :: st.done }

def placeFilt (st : FSt) (l : List FEntry) : FSt :=
  l.foldl (fun s y => if y.hasFilter then placeF s y else s) st

/-- the double loop over the sorted entries of one host.  `e1` with filter: `e1` and every later entry with
filter are moved to `listWithFilters`.  `e1` without filter: later entries with filter are moved, later entries
without filter go through `findOrCreateMatchFileIfOverlaps(order, e1, e2)` (as `processHost`; both filters
are nil, so `!e1.hasSameFilter(e2)` is false). -/
def hostLoopF (v : Variant) (st : FSt) : List FEntry → FSt
  | [] => st
  | e1 :: rest =>
    if e1.hasFilter then
      hostLoopF v (placeFilt (if rest.isEmpty then st else placeF st e1) rest) rest
    else
      let st1 := placeFilt st rest
      let us := (rest.filter (!·.hasFilter)).map (·.e)
      if us.any (v.ov e1.e ·) then
        let r := findOrCreate st1.prio e1.e (st1.upper e1.e.order)
        hostLoopF v
          { st1 with
            prio := r.1
            upper := fun o => if us.any (fun e2 => e2.order = o ∧ v.ov e1.e e2) then v.upd (st1.upper o) r.2 else st1.upper o }
          rest
      else hostLoopF v st1 rest

/-- one host: sort, `if len(entryList) == 1 { if e1.hasFilter() { findOrCreateMatchFile(listWithFilters, e1) } }`, scan -/
def hostF (v : Variant) (st : FSt) (l : List FEntry) : FSt :=
  let s := sortGo (ltF v.gt) l
  let st0 := match s with
    | [x] => if x.hasFilter then placeF st x else st
    | _ => st
  hostLoopF v { st0 with upper := fun _ => none } s

def buildF (v : Variant) (es : List FEntry) (hostOrder : List Str) : FSt :=
  hostOrder.foldl (fun st h => hostF v st (es.filter (·.e.host = h))) ⟨[], fun _ => none, [], []⟩

/-- an emitted map file and its `Headers()` -/
structure FFile where
  file : MFile
  headers : Hdrs
deriving DecidableEq, Repr

def plain (f : MFile) : FFile := ⟨f, none⟩

/-- `rebuildMatchFiles`: `listWithFilters` (pushed to the front), the exact default file, the priority files,
the other default files in `matchOrder`.  Default files hold whatever was not moved (`shrink`). -/
def rebuildFV (v : Variant) (matchOrder : List MT) (es : List FEntry) (hostOrder : List Str) : List FFile :=
  let st := buildF v es hostOrder
  let placed := (st.prio.flatMap (·.entries)).map (·.order) ++ (st.fl.flatMap (·.entries)).map (·.e.order)
  let rest := (es.filter fun x => !placed.contains x.e.order).map (·.e)
  let dflt (mt : MT) : List MFile :=
    let l := rest.filter (·.mt = mt)
    if l.isEmpty then [] else [mkFile mt l]
  st.fl.map (fun f => ⟨mkFile f.mt (f.entries.map (·.e)), f.headers⟩) ++
  ((if matchOrder.contains .exact then dflt .exact else []) ++
   st.prio.map (fun f => mkFile f.mt f.entries) ++
   (matchOrder.filter (· ≠ .exact)).flatMap dflt).map plain

/-- the current code -/
def rebuildF (matchOrder : List MT) (es : List FEntry) (hostOrder : List Str) : List FFile :=
  rebuildFV current matchOrder es hostOrder

/-! ## the frontend with header conditions -/

/-- `httpFilters`: every header of the file is a condition; `sat` says which conditions the request satisfies -/
def fileApplies (sat : HMatch → Bool) (f : FFile) : Bool := (f.headers.getD []).all sat

def lookupFilesF (sat : HMatch → Bool) (fs : List FFile) (sample : Str) : Option Nat :=
  fs.findSome? fun f => if fileApplies sat f then lookupFile f.file sample else none

def isInfix (p s : Str) : Bool := (List.range (s.length + 1)).any fun i => p.isPrefixOf (s.drop i)

/-- ACL `hdr(<name>) -- <value>` (string equality, header names are case-insensitive) and
`hdr(<name>) -m reg -- <value>` (regex search; trusted only for metacharacter-free patterns, where it is a
substring test) on a request with the given header lines -/
def reqSat (hdrs : List (Str × Str)) (m : HMatch) : Bool :=
  hdrs.any fun nv => lower nv.1 = lower m.name && (if m.regex then isInfix m.value nv.2 else m.value = nv.2)

/-- a request without headers satisfies no condition -/
def noHeaders : HMatch → Bool := fun _ => false

/-! ## Specification with header conditions: among the rules whose conditions the request satisfies, the exact
rule equal to the path, else the longest declared path. -/

def FRule.applies (sat : HMatch → Bool) (r : FRule) : Bool := r.conds.all sat

def applicable (rules : List FRule) (sat : HMatch → Bool) : List Rule :=
  (rules.filter (·.applies sat)).map (·.rule)

/-- the verdict of `checkReq` for a given answer -/
def judge (rules : List Rule) (got : Option Nat) (host path : Str) : Option String :=
  let ok := best rules host path
  match got with
  | none => if ok.isEmpty then none else some "rule-applies-but-no-match"
  | some t =>
    if ok.contains t then none
    else if ok.isEmpty then
      (if rules.any (fun r => r.target = t ∧ lower r.host ≠ lower host) then some "cross-host-capture" else some "match-without-rule")
    else if (rules.filter (ruleMatches · host path)).any (fun r => r.mt = .exact) then some "exact-not-selected"
    else if rules.any (fun r => r.target = t ∧ lower r.host ≠ lower host) then some "cross-host-capture"
    else some "shorter-path-wins"

def checkReqF (rules : List FRule) (sat : HMatch → Bool) (fs : List FFile) (host path : Str) : Option String :=
  judge (applicable rules sat) (lookupFilesF sat fs (sampleOf host path)) host path

end HapVerif.C04
