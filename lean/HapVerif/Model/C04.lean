/- Model for C04: not written yet -/
namespace HapVerif.C04
end HapVerif.C04
