/-
Model of pkg/haproxy/types/maps.go for entries without header filters and without regex /
wildcard hosts: `addTarget`, `buildMapKey`, `rebuildMatchFiles` (priority files created by
`overlaps`, `_elem` / `_upper` as indices into the append-only priority list), per-file `sort`,
and HAProxy's lookup semantics for `map_str`, `map_beg`, `map_dir` (trusted, from pattern.c).
Strings are `List Char` (ASCII; Go's byte-wise comparison = code point comparison).  Core-only.
-/
namespace HapVerif.C04

abbrev Str := List Char

inductive MT | exact | pfx | beg
deriving DecidableEq, Repr, Inhabited

def lowerC (c : Char) : Char := if 'A' ≤ c ∧ c ≤ 'Z' then Char.ofNat (c.toNat + 32) else c
def lower (s : Str) : Str := s.map lowerC

/-- a rule as declared: host, path, path type, target id -/
structure Rule where
  host : Str
  path : Str
  mt : MT
  target : Nat
deriving DecidableEq, Repr

structure Entry where
  host : Str
  path : Str          -- lower-cased for `begin`
  mt : MT
  order : Nat         -- insertion index (unique)
  target : Nat
  key : Str
deriving DecidableEq, Repr

def buildMapKey (host path : Str) : Str :=
  if host ≠ [] ∧ path ≠ [] then host ++ '#' :: path else host ++ path

def addTarget (r : Rule) (order : Nat) : Entry :=
  let host := lower r.host
  let path := if r.mt = .beg then lower r.path else r.path
  { host, path, mt := r.mt, order, target := r.target, key := buildMapKey host path }

def ltStr : Str → Str → Bool
  | [], [] => false
  | [], _ :: _ => true
  | _ :: _, [] => false
  | a :: as, b :: bs => if a.toNat < b.toNat then true else if b.toNat < a.toNat then false else ltStr as bs

/-- `overlaps(e1, e2)` of maps.go -/
def overlaps (e1 e2 : Entry) : Bool :=
  e1.mt ≠ e2.mt && e1.path ≠ e2.path && e1.mt ≠ .exact && e2.mt ≠ .exact &&
    (lower e2.path).isPrefixOf (lower e1.path)

/-- the path comparison used to order the entries of one host before the overlap scan -/
def pathGt (e1 e2 : Entry) : Bool := ltStr (lower e2.path) (lower e1.path)

/-- the code before the repairs (historical witnesses only): case-preserving comparison -/
def overlapsOld (e1 e2 : Entry) : Bool :=
  e1.mt ≠ e2.mt && e1.path ≠ e2.path && e1.mt ≠ .exact && e2.mt ≠ .exact &&
    e2.path.isPrefixOf e1.path
def pathGtOld (e1 e2 : Entry) : Bool := ltStr e2.path e1.path

/-- Go's insertion sort (what sort.Slice runs for n ≤ 12): stable -/
def insertBy (lt : Entry → Entry → Bool) (x : Entry) : List Entry → List Entry
  | [] => [x]
  | y :: ys => if lt x y then x :: y :: ys else y :: insertBy lt x ys

def sortBy (lt : Entry → Entry → Bool) (l : List Entry) : List Entry :=
  l.foldl (fun acc x => insertBy lt x acc) []

/-- a priority file: match type and its entries (in insertion order) -/
structure PFile where
  mt : MT
  entries : List Entry
deriving Repr

/-- first index `≥ start` of a priority file with match type `mt` -/
def findFrom (prio : List PFile) (mt : MT) (start : Nat) : Option Nat :=
  ((List.range prio.length).drop start).find? fun j => (prio.getD j ⟨.exact, []⟩).mt = mt

/-- `findOrCreateMatchFile(order, e1)`: returns the new list and the index used -/
def findOrCreate (prio : List PFile) (e : Entry) (upper : Option Nat) : List PFile × Nat :=
  match findFrom prio e.mt (upper.getD 0) with
  | some j => (prio.modify j (fun f => { f with entries := f.entries ++ [e] }), j)
  | none => (prio ++ [⟨e.mt, [e]⟩], prio.length)

/-- `e2._upper = el1` — the repaired code keeps the later element -/
def updUpper (old : Option Nat) (j : Nat) : Option Nat :=
  match old with
  | none => some j
  | some u => if u ≤ j then some j else some u

/-- before the repair: overwritten by the last overlapping entry -/
def updUpperOld (_old : Option Nat) (j : Nat) : Option Nat := some j

/-- the three places the repairs touched, as parameters -/
structure Variant where
  ov : Entry → Entry → Bool
  gt : Entry → Entry → Bool
  upd : Option Nat → Nat → Option Nat

def current : Variant := ⟨overlaps, pathGt, updUpper⟩
def beforeCaseFix : Variant := ⟨overlapsOld, pathGtOld, updUpper⟩
def beforeUpperFix : Variant := ⟨overlaps, pathGt, updUpperOld⟩

/-- the overlap scan of one host; `upper o` is the `_upper` of the entry with insertion index `o` -/
def processHost (v : Variant) (prio : List PFile) (upper : Nat → Option Nat) : List Entry → List PFile
  | [] => prio
  | e1 :: rest =>
    if rest.any (v.ov e1 ·) then
      let r := findOrCreate prio e1 (upper e1.order)
      processHost v r.1
        (fun o => if rest.any (fun e2 => e2.order = o ∧ v.ov e1 e2) then v.upd (upper o) r.2 else upper o)
        rest
    else processHost v prio upper rest

/-- hosts in first-insertion order -/
def hostsOf (es : List Entry) : List Str := (es.map (·.host)).eraseDups

/-- scan all hosts in the given iteration order (Go map order = any permutation) -/
def buildPrio (v : Variant) (es : List Entry) (hostOrder : List Str) : List PFile :=
  hostOrder.foldl (fun prio h =>
    processHost v prio (fun _ => none) (sortBy v.gt (es.filter (·.host = h)))) []

inductive Method | str | beg | dir
deriving DecidableEq, Repr

def methodOf : MT → Method
  | .exact => .str | .pfx => .dir | .beg => .beg

/-- an emitted map file -/
structure MFile where
  method : Method
  lower : Bool
  entries : List (Str × Nat)   -- key, target — in file order
deriving DecidableEq, Repr

/-- per-file sort of maps.go -/
def fileLt (mt : MT) (a b : Entry) : Bool :=
  match mt with
  | .exact => if a.key = b.key then a.order < b.order else ltStr a.key b.key
  | _ =>
    if a.host = b.host then
      (if a.path = b.path then a.order < b.order else ltStr b.path a.path)
    else ltStr a.key b.key

def mkFile (mt : MT) (es : List Entry) : MFile :=
  { method := methodOf mt, lower := mt = .beg, entries := (sortBy (fileLt mt) es).map fun e => (e.key, e.target) }

/-- `rebuildMatchFiles`: exact default file, priority files, default files in `matchOrder` -/
def rebuildV (v : Variant) (matchOrder : List MT) (es : List Entry) (hostOrder : List Str) : List MFile :=
  let prio := buildPrio v es hostOrder
  let placed := prio.flatMap (·.entries) |>.map (·.order)
  let rest := es.filter fun e => !placed.contains e.order
  let dflt (mt : MT) : List MFile :=
    let l := rest.filter (·.mt = mt)
    if l.isEmpty then [] else [mkFile mt l]
  (if matchOrder.contains .exact then dflt .exact else []) ++
  prio.map (fun f => mkFile f.mt f.entries) ++
  (matchOrder.filter (· ≠ .exact)).flatMap dflt

/-- the current code -/
def rebuild (matchOrder : List MT) (es : List Entry) (hostOrder : List Str) : List MFile :=
  rebuildV current matchOrder es hostOrder

def entriesOf (rules : List Rule) : List Entry :=
  (rules.zip (List.range rules.length)).map fun (r, i) => addTarget r i

/-! ## HAProxy lookup semantics (trusted: pattern.c `pat_match_str`, `pat_match_beg` with the
longest-prefix tree used by `map_beg`, `pat_match_dir` = `match_word` with delimiter `/`) -/

def stripSlash (p : Str) : Str := ((p.dropWhile (· = '/')).reverse.dropWhile (· = '/')).reverse

/-- `match_word(sample, pattern, '/')` -/
def wordMatchAux (p : Str) : Str → Bool → Bool
  | [], _ => false
  | c :: cs, may =>
    if c = '/' then wordMatchAux p cs true
    else if may then
      (p.isPrefixOf (c :: cs) && (match (c :: cs).drop p.length with | [] => true | d :: _ => d = '/'))
        || wordMatchAux p cs false
    else wordMatchAux p cs false

def wordMatch (pat sample : Str) : Bool :=
  let p := stripSlash pat
  if p.isEmpty then false else wordMatchAux p sample true

def lookupFile (f : MFile) (sample : Str) : Option Nat :=
  let s := if f.lower then lower sample else sample
  match f.method with
  | .str => (f.entries.find? fun e => e.1 = s).map (·.2)
  | .dir => (f.entries.find? fun e => wordMatch e.1 s).map (·.2)
  | .beg =>
    (f.entries.foldl (fun (best : Option (Str × Nat)) e =>
      if e.1.isPrefixOf s then
        match best with
        | some b => if b.1.length < e.1.length then some e else best
        | none => some e
      else best) none).map (·.2)

/-- the frontend: first file that answers wins -/
def lookupFiles (fs : List MFile) (sample : Str) : Option Nat :=
  fs.findSome? (fun f => lookupFile f sample)

def sampleOf (host path : Str) : Str := lower host ++ '#' :: path

/-! ## Specification: exact first, then the longest declared path among the rules that match by
their own type. -/

/-- `path` lies under directory `dir` (ingress Prefix semantics; trailing `/` of `dir` ignored) -/
def dirPrefix (dir path : Str) : Bool :=
  let d := (dir.reverse.dropWhile (· = '/')).reverse
  d.isPrefixOf path && (match path.drop d.length with | [] => true | c :: _ => c = '/')

def ruleMatches (r : Rule) (host path : Str) : Bool :=
  lower r.host = lower host &&
  match r.mt with
  | .exact => r.path = path
  | .pfx => dirPrefix r.path path
  | .beg => (lower r.path).isPrefixOf (lower path)

/-- targets the property allows for a request; `[]` = no rule applies -/
def best (rules : List Rule) (host path : Str) : List Nat :=
  let ms := rules.filter (ruleMatches · host path)
  let ex := ms.filter (·.mt = .exact)
  if !ex.isEmpty then ex.map (·.target) else
  let mx := (ms.map (·.path.length)).foldl max 0
  (ms.filter (·.path.length = mx)).map (·.target)

/-- verdict for one request against a layout -/
def checkReq (rules : List Rule) (fs : List MFile) (host path : Str) : Option String :=
  let got := lookupFiles fs (sampleOf host path)
  let ok := best rules host path
  match got with
  | none => if ok.isEmpty then none else some "rule-applies-but-no-match"
  | some t =>
    if ok.contains t then none
    else if ok.isEmpty then
      (if rules.any (fun r => r.target = t ∧ lower r.host ≠ lower host) then some "cross-host-capture" else some "match-without-rule")
    else if (rules.filter (ruleMatches · host path)).any (fun r => r.mt = .exact) then some "exact-not-selected"
    else if rules.any (fun r => r.target = t ∧ lower r.host ≠ lower host) then some "cross-host-capture"
    else some "shorter-path-wins"

end HapVerif.C04
