import HapVerif.GoLib
/-!
Views of the structs `updater.findBackend` (pkg/converters/ingress/annotations/backend.go) touches, for its
TRANSLATION (Generated/CodeC18.lean): the hosts map as a list of (hostname, host), a host as its paths in the order
`host.Paths` keeps them, a path as its declared path and its backend (namespace, id).  Core-only.
-/
namespace HapVerif.C18V

structure BackendRef where
  Namespace : List Char
  ID : List Char
deriving DecidableEq, Repr, Inhabited

structure PathView where
  path : List Char
  Backend : BackendRef
deriving DecidableEq, Repr, Inhabited

structure HostView where
  Paths : List PathView
deriving DecidableEq, Repr, Inhabited

/-- `path.Path()` -/
def pathOf (p : PathView) : List Char := p.path

end HapVerif.C18V
