/-!
C12, satellite: the ROTATED write of one output file (`template.writeToDisk` with `rotate > 0`, i.e.
`InstanceOptions.MaxOldConfigFiles` / `--max-old-config-files` > 0: haproxy.cfg and the shard files) inside
the fault cycle of `instance.HAProxyUpdate`.

    if t.rotate > 0 {
        if f, err := os.Stat(output); f != nil {                 -- the file exists
            os.Rename(output, output+"."+mtime)   -> "cannot rotate"      (fault `rename`)
            t.configFiles = append(t.configFiles, rotateTo)
        }
        for len(t.configFiles) > t.rotate {
            os.Remove(t.configFiles[0])           -> "cannot remove old config file"   (fault `remove`)
            t.configFiles = t.configFiles[1:]
        }
    }
    os.WriteFile(output, t.rawConfig.Bytes())     -> "cannot write"       (fault `write`)

The main model (Model/C12.lean) has ONE fault point for the file (`Fault.mainCfg`, `Fault.shard k`): the write
fails, the file keeps what it had.  Here the three steps are separate, each can fail, and a failure after the
rename leaves NO file under the output name.  The cycle around it is the one of `HAProxyUpdate`: the change
trackers are emptied on every return path (deferred `Commit()`), so the only thing that makes the next update
write again is `instance.rewriteOwed`, set at entry and cleared once `writeConfig` returned no error.

`memo = true` is NOT the code that exists: a writer that remembers the content it rendered BEFORE rotation and
write are known to have succeeded and skips the file when the next rendering is the same (only used by the
kernel-checked witnesses in Props/C12Rot.lean).

Core-only (linked into the driver).
-/
namespace HapVerif.C12Rot

/-- which step of the rotated write fails -/
inductive RotFault where
  | none
  | rename     -- the current file cannot be renamed to its rotated name
  | remove     -- the oldest rotated copy cannot be removed
  | write      -- the new content cannot be written
deriving DecidableEq, Repr

/-- one output file of a template; contents are numbers -/
structure Out where
  disk : Option Nat := none      -- the file under the output name (`none`: no such file)
  olds : List Nat := []          -- `template.configFiles`: rotated copies, oldest first
  last : Option Nat := none      -- memo of the last content (unused unless `memo`)
deriving DecidableEq, Repr

/-- `for len(configFiles) > rotate { Remove(configFiles[0]); configFiles = configFiles[1:] }`: with `fail`
the first removal fails -/
def trim (rotate : Nat) (fail : Bool) (olds : List Nat) : List Nat × Bool :=
  if olds.length ≤ rotate then (olds, true)
  else if fail then (olds, false)
  else (olds.drop (olds.length - rotate), true)

/-- the rotation block: rename the current file if there is one, then remove what is too old -/
def rotateStep (rotate : Nat) (f : RotFault) (o : Out) : Out × Bool :=
  if rotate = 0 then (o, true) else
  match o.disk with
  | some c =>
    if f = .rename then (o, false) else
    let t := trim rotate (f = .remove) (o.olds ++ [c])
    ({ o with disk := none, olds := t.1 }, t.2)
  | none =>
    let t := trim rotate (f = .remove) o.olds
    ({ o with olds := t.1 }, t.2)

/-- `template.writeToDisk`; the Bool is "no error" -/
def writeToDisk (memo : Bool) (rotate : Nat) (f : RotFault) (o : Out) (buf : Nat) : Out × Bool :=
  if memo && decide (0 < rotate) && o.last == some buf then (o, true) else
  let o := if memo && decide (0 < rotate) then { o with last := some buf } else o
  let r := rotateStep rotate f o
  if !r.2 then r
  else if f = .write then (r.1, false)
  else ({ r.1 with disk := some buf }, true)

/-- the fault cycle around the file -/
structure St where
  want : Nat := 0                  -- rendering of the in-memory model
  dirty : Bool := true             -- a change is tracked (a fresh controller starts with a full sync)
  owed : Bool := false             -- `instance.rewriteOwed`
  out : Out := {}
  running : Option Nat := none     -- what HAProxy read at its last reload
deriving DecidableEq, Repr

inductive Ev where
  | change (c : Nat)               -- an event changes what the file has to say
  | upd (f : RotFault)             -- HAProxyUpdate
deriving DecidableEq, Repr

/-- one `HAProxyUpdate`: nothing tracked and nothing owed = nothing to do; otherwise render and write; the
trackers are emptied whatever happens (deferred Commit), a failed write leaves the rewrite owed, a good one
clears it and reloads.  The Bool is the error flag. -/
def upd (memo : Bool) (rotate : Nat) (f : RotFault) (s : St) : St × Bool :=
  if !s.dirty && !s.owed then (s, false) else
  let r := writeToDisk memo rotate f s.out s.want
  if r.2 then ({ s with dirty := false, owed := false, out := r.1, running := r.1.disk }, false)
  else ({ s with dirty := false, owed := true, out := r.1 }, true)

def step (memo : Bool) (rotate : Nat) (s : St) : Ev → St
  | .change c => if c = s.want then s else { s with want := c, dirty := true }
  | .upd f => (upd memo rotate f s).1

def run (memo : Bool) (rotate : Nat) (s : St) (evs : List Ev) : St := evs.foldl (step memo rotate) s

/-- Spec of the cycle at a settled point (a fault-free update just returned): no error, the file holds the
rendering of the model, HAProxy read it, nothing is owed, at most `rotate` old copies are kept -/
def settled (rotate : Nat) (r : St × Bool) : Bool :=
  !r.2 && r.1.out.disk == some r.1.want && r.1.running == some r.1.want && !r.1.owed &&
    decide (r.1.out.olds.length ≤ rotate)

/-- the oracle clause the driver evaluates on the implementation's own observation after a successful
update: `copies` rotated files are on disk -/
def rotClause (rotate copies : Nat) : Option String :=
  if copies ≤ rotate then none else some "rotated-copies-exceed-max-old-config-files"

/-- does this fault make a rotated write of a file with `copies` rotated copies fail?  (what the harness
relies on when it arms the fault) -/
def fires (rotate : Nat) (f : RotFault) (exists_ : Bool) (copies : Nat) : Bool :=
  match f with
  | .none => false
  | .write => true
  | .rename => decide (0 < rotate) && exists_
  | .remove => decide (0 < rotate) && decide (rotate < copies + (if exists_ then 1 else 0))

end HapVerif.C12Rot
