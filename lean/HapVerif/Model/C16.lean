/-
Model of pkg/converters/utils/lbweight.go (RebalanceWeight) and of the two callers'
weight handling (blue/green clamp+zeroing in annotations/backend.go, base 128 in
gateway.go).  Core-only.

Go `int` is modelled as unbounded `Int` (assumption: 256 * lcm(lengths) < 2^63, stated
in the trusted base); `float32` is modelled exactly: a value is a rational, every
arithmetic result is rounded to the nearest binary32 value, ties to even (`f32`).
Subnormals/overflow cannot occur for the magnitudes reachable here (assumption).
A zero-length cluster divides by zero (+Inf/NaN); Go's `int()` of that is
implementation defined, the callers never read it: modelled as `none`.
-/
namespace HapVerif.C16

def pow2 (e : Int) : Rat :=
  if e ≥ 0 then ((2 ^ e.toNat : Nat) : Rat) else 1 / ((2 ^ (-e).toNat : Nat) : Rat)

/-- exponent `e` with `2^e ≤ x < 2^(e+1)` for `x > 0`. -/
def ilog2 (x : Rat) : Int :=
  let e0 : Int := (Nat.log2 x.num.natAbs : Int) - (Nat.log2 x.den : Int)
  if pow2 e0 ≤ x then e0 else e0 - 1

/-- round-half-even of a non-negative rational to an integer -/
def roundEven (q : Rat) : Int :=
  let n := q.floor
  let r := q - (n : Rat)
  if r < 1/2 then n
  else if 1/2 < r then n + 1
  else if n % 2 = 0 then n else n + 1

/-- IEEE-754 binary32 round-to-nearest-even of a rational (normal range). -/
def f32 (x : Rat) : Rat :=
  if x = 0 then 0
  else
    let a := if x < 0 then -x else x
    let ulp := pow2 (ilog2 a - 23)
    let r : Rat := (roundEven (a / ulp) : Rat) * ulp
    if x < 0 then -r else r

structure Cluster where
  weight : Int
  length : Int
deriving Repr, DecidableEq

def gcdI (a b : Int) : Int := (Nat.gcd a.natAbs b.natAbs : Int)
/-- Go: a * (b / gcd(a, b)) -/
def lcmI (a b : Int) : Int := a * (b / gcdI a b)

def lcmCount (cls : List Cluster) : Int :=
  cls.foldl (fun acc cl => if cl.length = 0 then acc else if acc > 0 then lcmI acc cl.length else cl.length) 0

/-- Go integer division (truncation; operands are non-negative here) -/
def clusterWeight (lcm : Int) (cl : Cluster) : Int := (cl.weight * lcm).tdiv cl.length

structure Acc where
  g : Int := 0
  mn : Int := -1
  mx : Int := 0

def accStep (lcm : Int) (a : Acc) (cl : Cluster) : Acc :=
  if cl.length = 0 ∨ cl.weight = 0 then a else
    let cw := clusterWeight lcm cl
    { g := if a.g > 0 then gcdI a.g cw else cw
      mn := if cw < a.mn ∨ a.mn < 0 then cw else a.mn
      mx := if cw > a.mx then cw else a.mx }

def accAll (lcm : Int) (cls : List Cluster) : Acc := cls.foldl (accStep lcm) {}

/-- Go `int(f)` for a finite non-negative float -/
def truncI (x : Rat) : Int := if x < 0 then -((-x).floor) else x.floor

/-- the body of the last loop for one cluster; `rnd` is the float rounding -/
def newWeight (rnd : Rat → Rat) (lcm g : Int) (wfm wf : Rat) (cl : Cluster) : Option Int :=
  if cl.length = 0 then none else
  let weight := rnd (rnd (wfm * rnd (cl.weight * lcm)) / rnd (cl.length * g))
  if wf > 1 then
    let pw := truncI (rnd (weight / wf))
    some (if pw = 0 ∧ cl.weight > 0 then 1 else pw)
  else
    let pw := truncI weight
    some (if pw = 0 ∧ cl.weight > 0 then 1 else pw)

/-- `RebalanceWeight`: result per cluster; `some w` = new weight, `none` = unspecified
(zero-length cluster after a rebalance took place).  When the function returns early the
weights are unchanged. -/
def rebalanceWith (rnd : Rat → Rat) (cls : List Cluster) (initial : Int) : List (Option Int) :=
  let lcm := lcmCount cls
  if lcm = 0 then cls.map (fun c => some c.weight) else
  let a := accAll lcm cls
  if a.g = 0 then cls.map (fun c => some c.weight) else
  let wfm := rnd (rnd (initial * a.g) / rnd a.mn)
  let wf := rnd (rnd (wfm * rnd a.mx) / rnd (256 * a.g))
  cls.map (newWeight rnd lcm a.g wfm wf)

def rebalance (cls : List Cluster) (initial : Int) : List (Option Int) :=
  rebalanceWith f32 cls initial

/-- idealised version: exact rational arithmetic, no rounding -/
def rebalanceExact (cls : List Cluster) (initial : Int) : List (Option Int) :=
  rebalanceWith id cls initial

/-- blue/green clamp of a parsed annotation weight (backend.go:396-403) -/
def clampWeight (w : Int) : Int := if w < 0 then 0 else if w > 256 then 256 else w

end HapVerif.C16

namespace HapVerif.C16

/-! ## Specification (oracle): what the property demands of an output vector.
It is evaluated both on the model's output (theorems) and on the implementation's
output (search for a failing input). -/

def ratio (c : Cluster) : Rat := (c.weight : Rat) / (c.length : Rat)

/-- clusters that carry replicas, paired with the weight written for them -/
def live (cls : List Cluster) (out : List (Option Int)) : List (Cluster × Int) :=
  (cls.zip out).filterMap fun (c, o) => if c.length > 0 then o.map (fun w => (c, w)) else none

def specRange (p : Cluster × Int) : Bool := 0 ≤ p.2 ∧ p.2 ≤ 256
def specZero (p : Cluster × Int) : Bool := (p.2 = 0) = (p.1.weight = 0)
/-- strictly smaller configured share per replica never gets a larger server weight -/
def specOrder (p q : Cluster × Int) : Bool := ratio p.1 < ratio q.1 → p.2 ≤ q.2
/-- proportionality up to integer rounding: the weight of the group with the smaller
per-replica share is within `1 + 1/1024` units of the proportional value: one unit of
integer rounding (truncation) plus the binary32 error of the at most 15 roundings of the
float expression (proved: `f32_share_partial`, Props/C16).  The bound of exactly one unit
holds for exact arithmetic (`exact_share`) but is false for binary32
(`strict_unit_share_fails`: 250 instead of 251 on 229:157,241:162,17:162 initial 75). -/
def specShare (p q : Cluster × Int) : Bool :=
  (0 < ratio p.1 ∧ ratio p.1 ≤ ratio q.1) →
    let d := (p.2 : Rat) * ratio q.1 - (q.2 : Rat) * ratio p.1
    (if d < 0 then -d else d) ≤ ratio q.1 * (1 + 1 / 1024)

def oracle (cls : List Cluster) (out : List (Option Int)) : Option String :=
  let l := live cls out
  if cls.length ≠ out.length then some "length" else
  if !(l.all specRange) then some "range" else
  if !(l.all specZero) then some "zero-iff" else
  if !(l.all fun p => l.all fun q => specOrder p q) then some "order" else
  if !(l.all fun p => l.all fun q => specShare p q) then some "share" else none

end HapVerif.C16
