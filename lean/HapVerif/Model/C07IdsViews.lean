import HapVerif.Model.C07Ids
import HapVerif.GoLib
/-!
Views of the repository structs `converter.syncBackendEndpointHashes` touches, for its TRANSLATION
(Generated/CodeC07.lean).  `TargetRef` strings are natural numbers in string order, 0 = the empty string (as in
Model/C07Ids.lean); the pod read `c.cache.GetPod(ref)` is a field of the view (result: the pod, error or nil);
`hasher.Sum32()` after `hasher.Write([]byte(pod.UID))` is the field `uidHash` of the pod (the FNV-1a model and its
golden vectors are in Model/C07Ids.lean); `sort.SliceStable(eps, TargetRef <)` is the model's stable insertion sort.
Core-only.
-/
namespace HapVerif.C07.IdsV

structure PodView where
  uidHash : Int
deriving Inhabited, Repr

structure EpView where
  TargetRef : Nat
  PUID : Int
deriving Inhabited, Repr, DecidableEq

structure BackendEpsView where
  Endpoints : List EpView

structure PodCacheView where
  getPod : Nat → PodView × Option String

/-- `sort.SliceStable(eps, func(i, j) bool { return eps[i].TargetRef < eps[j].TargetRef })` -/
def sortByTargetRef (_cur eps : List EpView) : List EpView :=
  Ids.isort (fun a b => decide (a.TargetRef ≤ b.TargetRef)) eps

end HapVerif.C07.IdsV
