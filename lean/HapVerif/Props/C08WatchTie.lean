import HapVerif.Model.C08
import HapVerif.Generated.CodeC08
/-!
# C08 — tie of the Ingress handler of the watchers (`handlersIngress`, reconciler/watchers.go)

The six function literals of the Ingress handler — the callbacks `add`, `upd`, `del` and the predicates
`CreateFunc`, `DeleteFunc`, `UpdateFunc` — are REGENERATED on every run (Generated/CodeC08.lean; `IsValidIngress` is the
parameter `valid`, objects are identifiers, the three Ingress lists of the batch are explicit state).  The theorems
state that predicate + callback together are the model's `C08.classify` — the function the history theorems of
Props/C08.lean (`contrib` = exactly the selected ingresses after every history) are about: an event is listed under
add / upd / del exactly as `classify` says, and in no other list.
-/
namespace HapVerif.C08WatchTie
open HapVerif

/-- what an action does to the three lists of the batch -/
def applyAct (old new : Nat) (upd add del : List Nat) : C08.Act → List Nat × List Nat × List Nat
  | .upd => (upd ++ [new], add, del)
  | .add => (upd, add ++ [new], del)
  | .del => (upd, add, del ++ [old])
  | .none => (upd, add, del)

/-- **update events**: the update predicate (after the annotation/generation predicate let the event through)
followed by the `upd` callback is `classify` -/
theorem update_event_tie (cfg : C08.Cfg) (o n : C08.Obj) (valid : Nat → Bool) (old new : Nat)
    (ho : valid old = o.valid cfg) (hn : valid new = n.valid cfg) (hc : C08.changed o n = true)
    (upd add del : List Nat) :
    (if CodeC08.ingressUpdatePred valid old new then CodeC08.ingressUpd valid old new upd add del else (upd, add, del))
      = applyAct old new upd add del (C08.classify cfg (.update o n)) := by
  unfold CodeC08.ingressUpdatePred CodeC08.ingressUpd C08.classify
  simp only [ho, hn, hc, GoLib.append1]
  cases o.valid cfg <;> cases n.valid cfg <;> simp [applyAct]

/-- an update the annotation/generation predicate filters out is listed nowhere (the predicates are a conjunction) -/
theorem update_unchanged (cfg : C08.Cfg) (o n : C08.Obj) (hc : C08.changed o n = false) :
    C08.classify cfg (.update o n) = .none := by
  simp [C08.classify, hc]

/-- **create events** -/
theorem create_event_tie (cfg : C08.Cfg) (n : C08.Obj) (valid : Nat → Bool) (new : Nat)
    (hn : valid new = n.valid cfg) (upd add del : List Nat) :
    (if CodeC08.ingressCreatePred valid new then (upd, CodeC08.ingressAdd new add, del) else (upd, add, del))
      = applyAct new new upd add del (C08.classify cfg (.create n)) := by
  unfold CodeC08.ingressCreatePred CodeC08.ingressAdd C08.classify
  simp only [hn, GoLib.append1]
  cases n.valid cfg <;> simp [applyAct]

/-- **delete events** -/
theorem delete_event_tie (cfg : C08.Cfg) (o : C08.Obj) (valid : Nat → Bool) (old : Nat)
    (ho : valid old = o.valid cfg) (upd add del : List Nat) :
    (if CodeC08.ingressDeletePred valid old then (upd, add, CodeC08.ingressDel old del) else (upd, add, del))
      = applyAct old old upd add del (C08.classify cfg (.delete o)) := by
  unfold CodeC08.ingressDeletePred CodeC08.ingressDel C08.classify
  simp only [ho, GoLib.append1]
  cases o.valid cfg <;> simp [applyAct]

/-- an ingress that is not valid before and after an update never enters the batch — whatever changed -/
theorem foreign_update_listed_nowhere (valid : Nat → Bool) (old new : Nat) (h1 : valid old = false) (h2 : valid new = false)
    (upd add del : List Nat) :
    CodeC08.ingressUpdatePred valid old new = false ∧
    CodeC08.ingressUpd valid old new upd add del = (upd, add, del) := by
  simp [CodeC08.ingressUpdatePred, CodeC08.ingressUpd, h1, h2]

/-- an ingress that STOPS being valid is handed over as a deletion of the OLD object (the one that was configured) -/
theorem invalidated_is_deleted (valid : Nat → Bool) (old new : Nat) (h1 : valid old = true) (h2 : valid new = false)
    (upd add del : List Nat) :
    CodeC08.ingressUpd valid old new upd add del = (upd, add, del ++ [old]) := by
  simp [CodeC08.ingressUpd, h1, h2, GoLib.append1]

example : CodeC08.ingressUpd (fun i => i == 7) 7 8 [] [] [] = ([], [], [7]) := by decide
example : CodeC08.ingressUpd (fun i => i == 8) 7 8 [] [] [] = ([], [8], []) := by decide

end HapVerif.C08WatchTie
