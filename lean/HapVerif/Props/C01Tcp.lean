import HapVerif.Model.C01Tcp
import HapVerif.Props.C01Tie
/-!
# C01 — ConfigMap based tcp services: WHEN the tcp converter must run

The tcp converter (`pkg/converters/configmap`) tracks nothing, so no tracker closure can make it dirty: the only
protection is the decision of `converters.Sync` to call it.  `tcp_fresh_history`: for EVERY history of reconciliations
whose batches describe the changes of the cluster (the hypothesis `Describes.obj` of the C01 step theorems, proved for
the watchers model), a controller whose decision is *sound* — it runs on a full sync, on a changed ConfigMap and
whenever the batch names an object an entry READS (Service, Endpoints, crt secret, CA secret) — holds after every
reconciliation exactly the tcp backends a freshly started controller computes.  The code's decision (`always`, tie
`tcp_runs_when_configured` to the regenerated `converters.Sync`) is sound; a decision that looks only at
Service/Endpoints notifications is not (`svcEpOnly_unsound`, `svcEpOnly_stale`: a crt secret created after the
ConfigMap was applied never exposes the port).
-/
namespace HapVerif.C01Tcp
open HapVerif HapVerif.C01

/-- a decision is sound when it runs the converter on a full sync (the model was cleared), on a new ConfigMap and
whenever the batch names something the current entries read -/
structure Sound (pol : Option Data → Policy) : Prop where
  cm : ∀ cur full links, pol cur full true links = true
  full : ∀ cur links, pol cur true false links = true
  read : ∀ d links, (∃ n ∈ links, n ∈ reads d) → pol (some d) false false links = true

theorem secOk_congr {rd rd' : Node → ObjVal} {key kind : String}
    (h : key ≠ "" → rd ⟨.sec, key⟩ = rd' ⟨.sec, key⟩) : secOk rd key kind = secOk rd' key kind := by
  unfold secOk
  by_cases hk : key = ""
  · simp [hk]
  · rw [h hk]

/-- **the converter is a function of what it reads**: two clusters that agree on the objects named by the entry give
the same tcp backend -/
theorem convertEntryR_congr {rd rd' : Node → ObjVal} (e : Entry)
    (h : ∀ n ∈ entryReads e, rd n = rd' n) : convertEntryR rd e = convertEntryR rd' e := by
  unfold convertEntryR
  have h1 : rd ⟨.svc, e.svc⟩ = rd' ⟨.svc, e.svc⟩ := h _ (by simp [entryReads])
  have h2 : rd ⟨.ep, e.svc⟩ = rd' ⟨.ep, e.svc⟩ := h _ (by simp [entryReads])
  have h3 : secOk rd e.crt "tls" = secOk rd' e.crt "tls" :=
    secOk_congr fun hk => h _ (by simp [entryReads, hk])
  have h4 : secOk rd e.ca "ca" = secOk rd' e.ca "ca" :=
    secOk_congr fun hk => h _ (by simp [entryReads, hk])
  rw [h1, h2, h3, h4]

theorem tcpConvert_congr {w w' : World} (d : Data)
    (h : ∀ n ∈ reads d, w.read n = w'.read n) : tcpConvert w d = tcpConvert w' d := by
  unfold tcpConvert
  induction d with
  | nil => rfl
  | cons e d ih =>
    have he : convertEntry w e = convertEntry w' e :=
      convertEntryR_congr e fun n hn => h n (by simp [reads]; exact Or.inl hn)
    have hd := ih fun n hn => h n (by simp [reads] at hn ⊢; exact Or.inr hn)
    simp only [List.filterMap_cons, he, hd]

/-- the invariant: the controller holds what a fresh controller computes -/
def Inv (w : World) (c : Ctl) : Prop := c.st = fresh w c.cur

/-- **one reconciliation**: under a sound decision, and a batch that names every object whose value changed, the
long-lived controller ends with the tcp backends of a fresh one — whatever the batch is made of -/
theorem reconcile_fresh {pol : Option Data → Policy} (hs : Sound pol) {w w' : World} {c : Ctl}
    (full : Bool) (new : Option Data) (links : List Node)
    (hinv : Inv w c) (hobj : ∀ n : Node, w.read n ≠ w'.read n → n ∈ links) :
    Inv w' (reconcile pol w' full new links c) := by
  unfold Inv at *
  unfold reconcile
  cases new with
  | some n =>
    simp only [dataOf, Option.isSome_some, hs.cm, if_true, fresh]
  | none =>
    cases hc : c.cur with
    | none =>
      rw [hc] at hinv
      simp only [dataOf, fresh] at hinv ⊢
      cases full <;> simp [hinv]
    | some d =>
      rw [hc] at hinv
      simp only [dataOf, fresh, Option.isSome_none] at hinv ⊢
      by_cases hp : pol (some d) full false links = true
      · simp [hp]
      · have hfull : full = false := by
          cases full with
          | false => rfl
          | true => exact absurd (hs.full (some d) links) hp
        subst hfull
        have hno : ∀ n ∈ reads d, w.read n = w'.read n := by
          intro n hn
          by_cases hne : w.read n = w'.read n
          · exact hne
          · exact absurd (hs.read d links ⟨n, hobj n hne, hn⟩) hp
        rw [if_neg hp]
        simp only [Bool.false_eq_true, if_false]
        rw [hinv]
        exact tcpConvert_congr d hno

/-- a history: the cluster at each reconciliation, the full-sync flag, the ConfigMap data if the batch carries it,
the links of the batch -/
structure Step where
  w : World
  full : Bool
  new : Option Data
  links : List Node

def runFrom (pol : Option Data → Policy) (c : Ctl) : List Step → Ctl
  | [] => c
  | s :: l => runFrom pol (reconcile pol s.w s.full s.new s.links c) l

/-- every batch names every object whose value changed since the previous reconciliation -/
def Described : World → List Step → Prop
  | _, [] => True
  | w, s :: l => (∀ n : Node, w.read n ≠ s.w.read n → n ∈ s.links) ∧ Described s.w l

def lastWorld : World → List Step → World
  | w, [] => w
  | _, s :: l => lastWorld s.w l

/-- **every history**: a controller with a sound decision holds, after any sequence of full and partial
reconciliations, the tcp backends of a controller freshly started on the final cluster -/
theorem tcp_fresh_history {pol : Option Data → Policy} (hs : Sound pol) (w : World) (c : Ctl) (l : List Step)
    (hinv : Inv w c) (hd : Described w l) :
    (runFrom pol c l).st = fresh (lastWorld w l) (runFrom pol c l).cur := by
  induction l generalizing w c with
  | nil => exact hinv
  | cons s l ih =>
    simp only [runFrom, lastWorld]
    exact ih s.w _ (reconcile_fresh hs s.full s.new s.links hinv hd.1) hd.2

/-- the empty controller on any cluster satisfies the invariant (nothing configured yet) -/
theorem inv_init (w : World) : Inv w {} := rfl

/-- the decision of the code is sound … -/
theorem always_sound : Sound (fun _ => always) := ⟨fun _ _ _ => rfl, fun _ _ => rfl, fun _ _ _ => rfl⟩

/-- … and so is the weakest one (run iff something that is read is named by the batch) -/
theorem readsOnly_sound : Sound (fun cur => readsOnly (cur.getD [])) := by
  refine ⟨fun _ _ _ => by simp [readsOnly], fun _ _ => by simp [readsOnly], ?_⟩
  intro d links ⟨n, hl, hr⟩
  simp only [readsOnly, Option.getD_some, Bool.false_or, List.any_eq_true, decide_eq_true_eq]
  exact ⟨n, hl, hr⟩

/-- **the code runs the tcp converter whenever it is configured** (regenerated `converters.Sync`): the step
`tcpconfigmap.Sync` is taken iff `TCPConfigMapDataCur != nil || TCPConfigMapDataNew != nil` — independent of the
full-sync flag and of the content of the batch, i.e. the decision `always` -/
theorem tcp_runs_when_configured (env : GoLib.Env) (c : GoLib.ConvView) :
    "tcpconfigmap.Sync" ∈ CodeC01.convertersSync env c [] ↔ (c.tcpCur || c.tcpNew) = true := by
  rw [C01Tie.convertersSync_tie]
  unfold C01Tie.clearing C01Tie.gatewaySteps
  cases c.changedNil <;> cases C01Tie.needFull env c <;> cases c.hasGatewayV1 <;> cases c.hasGatewayB1 <;>
    cases c.hasGatewayA2 <;> cases c.tcpCur <;> cases c.tcpNew <;> decide

/-! ## the decision "only Service / Endpoints notifications" is not sound -/

def wSvc : World :=
  { svcs := [{ key := "d/app", ports := [⟨"http", 80, "8080"⟩] }],
    eps := [{ key := "d/app", ready := [("10.0.1.1", "app-1")], notReady := [], ports := [("http", 8080)] }] }

def wSec : World := { wSvc with secs := [{ key := "d/pgtls", kind := "tls", version := 1 }] }

def dPg : Data := [{ port := "5432", svc := "d/app", svcPort := "80", crt := "d/pgtls" }]

/-- the batch of the second reconciliation names the secret the entry reads, the decision says "do not run" -/
theorem svcEpOnly_unsound : ¬ Sound (fun _ => svcEpOnly) := by
  intro h
  have := h.read dPg [⟨.sec, "d/pgtls"⟩] ⟨_, List.mem_singleton.mpr rfl, by decide +kernel⟩
  revert this
  decide +kernel

/-- replay on the model: ConfigMap applied while the crt secret does not exist (port 5432 skipped), then a batch with
the single notification "Secret d/pgtls created": the seeded decision keeps no tcp backend, a fresh controller (and
the code's decision) exposes the port -/
theorem svcEpOnly_stale :
    (runFrom (fun _ => svcEpOnly) {} [⟨wSvc, true, some dPg, [⟨.cm, "ingress-controller/tcp-services"⟩]⟩,
        ⟨wSec, false, none, [⟨.sec, "d/pgtls"⟩]⟩]).st = [] ∧
    (runFrom (fun _ => always) {} [⟨wSvc, true, some dPg, [⟨.cm, "ingress-controller/tcp-services"⟩]⟩,
        ⟨wSec, false, none, [⟨.sec, "d/pgtls"⟩]⟩]).st = fresh wSec (some dPg) ∧
    fresh wSec (some dPg) =
      [{ port := 5432, name := "d_app", eps := ["10.0.1.1:8080"], decode := false, encode := "", check := "2s",
         crt := "d/pgtls", ca := "" }] := by
  decide +kernel

/-- non-vacuity of `tcp_fresh_history`: the same history satisfies `Described` -/
example : Described {} [⟨wSvc, true, some dPg, [⟨.svc, "d/app"⟩, ⟨.ep, "d/app"⟩, ⟨.cm, "ingress-controller/tcp-services"⟩]⟩] := by
  refine ⟨?_, trivial⟩
  intro n hn
  rcases n with ⟨k, name⟩
  cases k <;> simp [World.read, World.findSvc, World.findEp, World.findSec, wSvc] at hn ⊢
  all_goals (by_cases h : name = "d/app" <;> simp_all)

end HapVerif.C01Tcp
