import HapVerif.Props.C10
import HapVerif.Model.C10Hist
/-!
# C10 — histories: the result of a sync is a function of the CURRENT cluster only

`Model/C10Hist.lean` runs the attachment model over histories on ONE long-lived cache facade; what the
facade carries between `isValidGateway` calls is a parameter (`Facade σ`).

* `history_memoryless`: for EVERY facade whose answer is a function of the current GatewayClass objects
  (`Memoryless`), every start state, every history (any number of steps, any clusters, any watcher
  probes), every sync of the history gives exactly what a fresh controller gives on that step's cluster
  (attachments and configuration) — in particular after the last step (`history_last`).
* `history_attach_iff`: hence, for the current code, after any history a (route, parentRef, gateway,
  listener) is attached iff the Spec `Admitted` holds on the LAST cluster — nothing that was true earlier
  counts.
* `pure_memoryless`: the code as it is (`pureFacade`) is such a facade; `facts_c10_facade` pins the
  source shape this rests on (the calls and returns of `isValidGateway`/`getGatewayClass`/`GetGateway*`,
  and the fields of the facade struct, regenerated from `pkg/controller/services/cache.go` on every run).
* `memo_sound_fixed_classes`: a memo of the classes that once matched (`memoFacade`, seed C10f) is
  indistinguishable from the code as long as the GatewayClass objects never change — why no check on a
  single snapshot, or on histories without GatewayClass changes, can see it;
* `memo_attaches_through_foreign_class`, `memo_attaches_through_deleted_class`,
  `memo_set_by_watcher_probe` (`decide`): with the memo, a route stays attached through a Gateway whose
  GatewayClass was re-created with a foreign controllerName / deleted, and the Spec oracle reports
  `attached-through-foreign-class-gateway`; `memo_not_memoryless`.
* `atts` is tied to `Model/C10.lean`: `mem_atts_iff` (an attachment of the list ⇔ `attaches`),
  `events_eq_atts` / `sync_eq_atts` (the configuration is the one the attachments give).
-/
namespace HapVerif.C10

/-! ## the attachment list of a fresh controller vs `events` / `attaches` -/

theorem resolveParent_eq (w : World) (r : Route) (pr : ParentRef) :
    resolveParent w r pr =
      if refersGateway pr then
        match findGateway w (parentNs r pr) pr.name with
        | some g => if classOursIn w.classes g.cls then some g else none
        | none => none
      else none := rfl

theorem gatewayEvents_eq (fx : Bool) (w : World) (r : Route) (pr : ParentRef) (gw : Gateway) :
    gatewayEvents fx w r pr gw = attEvents w (gatewayAtts fx w r pr gw) := by
  unfold gatewayEvents attEvents gatewayAtts
  induction gw.listeners with
  | nil => rfl
  | cons l ls ih =>
    by_cases h : (sectionOK pr l && protoGuard fx r l && listenerAllowed w gw r l) = true
    · simp only [List.flatMap_cons, h, ↓reduceIte, List.filter_cons_of_pos, List.map_cons, ih]
    · simp only [List.flatMap_cons, h, Bool.false_eq_true, ↓reduceIte, List.nil_append, ih,
        List.filter_cons_of_neg (p := fun l => sectionOK pr l && protoGuard fx r l && listenerAllowed w gw r l) h]

theorem routeEvents_eq (fx : Bool) (w : World) (r : Route) :
    routeEvents fx w r = attEvents w (r.parents.flatMap fun pr =>
      match resolveParent w r pr with
      | none => []
      | some gw => gatewayAtts fx w r pr gw) := by
  unfold routeEvents attEvents
  rw [List.flatMap_assoc]
  congr 1
  funext pr
  cases resolveParent w r pr with
  | none => rfl
  | some gw => exact gatewayEvents_eq fx w r pr gw

/-- the declarations of `events` are the ones of the attachment list -/
theorem events_eq_atts (fx : Bool) (w : World) : events fx w = attEvents w (atts fx w) := by
  unfold events atts attEvents syncOrder
  rw [← List.flatMap_append, List.flatMap_assoc]
  congr 1
  funext r
  exact routeEvents_eq fx w r

theorem sync_eq_stateOf (fx : Bool) (w : World) : sync fx w = stateOf (events fx w) := rfl

/-- the configuration of a fresh controller is the one its attachments give -/
theorem sync_eq_atts (fx : Bool) (w : World) : stateOf (attEvents w (atts fx w)) = sync fx w := by
  rw [sync_eq_stateOf, events_eq_atts]

theorem mem_syncOrder (w : World) (r : Route) : r ∈ syncOrder w ↔ r ∈ w.routes := by
  unfold syncOrder
  simp only [List.mem_append, mem_sortRoutes, List.mem_filter]
  constructor
  · rintro (⟨h, _⟩ | ⟨h, _⟩) <;> exact h
  · intro h
    cases ht : r.tcp
    · exact Or.inl ⟨h, by simp⟩
    · exact Or.inr ⟨h, by simp⟩

/-- an element of the attachment list is a (route, parentRef, gateway, listener) of the cluster that
the code's decision `attaches` accepts, and conversely -/
theorem mem_atts_iff (fx : Bool) (w : World) (a : Att) :
    a ∈ atts fx w ↔ a.r ∈ w.routes ∧ a.pr ∈ a.r.parents ∧ attaches fx w a.r a.pr a.gw a.l = true := by
  unfold atts
  simp only [List.mem_flatMap, mem_syncOrder]
  constructor
  · rintro ⟨r, hr, pr, hpr, ha⟩
    cases hg : resolveParent w r pr with
    | none => rw [hg] at ha; cases ha
    | some gw =>
      rw [hg] at ha
      unfold gatewayAtts at ha
      obtain ⟨l, hl, rfl⟩ := List.mem_map.1 ha
      obtain ⟨hl, hc⟩ := List.mem_filter.1 hl
      simp only [Bool.and_eq_true] at hc
      exact ⟨hr, hpr, (attaches_iff ..).2 ⟨hg, hl, hc.1.1, hc.1.2, hc.2⟩⟩
  · rintro ⟨hr, hpr, ha⟩
    obtain ⟨hg, hl, h1, h2, h3⟩ := (attaches_iff ..).1 ha
    refine ⟨a.r, hr, a.pr, hpr, ?_⟩
    rw [hg]
    unfold gatewayAtts
    exact List.mem_map.2 ⟨a.l, List.mem_filter.2 ⟨hl, by simp [h1, h2, h3]⟩, rfl⟩

/-! ## memoryless facades -/

/-- the facade's answer is a function of the GatewayClass objects of the cluster at the time of the call -/
def Memoryless {σ : Type} (f : Facade σ) : Prop :=
  ∀ s classes cls, (f.valid s classes cls).1 = classOursIn classes cls

/-- invariant form, relative to one GatewayClass table: in every state satisfying `I` the answer is
the one the table gives, and `I` is kept -/
structure Inv {σ : Type} (f : Facade σ) (classes : List (String × Bool)) (I : σ → Prop) : Prop where
  answer : ∀ s cls, I s → (f.valid s classes cls).1 = classOursIn classes cls
  keep : ∀ s cls, I s → I (f.valid s classes cls).2

/-- the code as it is -/
theorem pure_memoryless : Memoryless pureFacade := fun _ _ _ => rfl

theorem inv_of_memoryless {σ : Type} {f : Facade σ} (h : Memoryless f) (classes : List (String × Bool)) :
    Inv f classes (fun _ => True) :=
  ⟨fun s cls _ => h s classes cls, fun _ _ _ => trivial⟩

section
variable {σ : Type} (f : Facade σ) (fx : Bool)

theorem routeAttsF_inv (w : World) (I : σ → Prop) (hinv : Inv f w.classes I) (r : Route) :
    ∀ (prs : List ParentRef) (s : σ), I s →
      (routeAttsF f fx w r s prs).1 = (prs.flatMap fun pr =>
        match resolveParent w r pr with
        | none => []
        | some gw => gatewayAtts fx w r pr gw) ∧ I (routeAttsF f fx w r s prs).2 := by
  intro prs
  induction prs with
  | nil => intro s hs; exact ⟨rfl, hs⟩
  | cons pr prs ih =>
    intro s hs
    simp only [routeAttsF, List.flatMap_cons]
    rw [resolveParent_eq w r pr]
    by_cases hr : refersGateway pr = true
    · simp only [hr, ↓reduceIte]
      cases hf : findGateway w (parentNs r pr) pr.name with
      | none => simpa using ih s hs
      | some gw =>
        simp only []
        have ha := hinv.answer s gw.cls hs
        have hk := hinv.keep s gw.cls hs
        obtain ⟨h1, h2⟩ := ih _ hk
        rw [ha, h1]
        refine ⟨?_, h2⟩
        cases classOursIn w.classes gw.cls <;> simp
    · simp only [hr, Bool.false_eq_true, ↓reduceIte]
      simpa using ih s hs

theorem routesAttsF_inv (w : World) (I : σ → Prop) (hinv : Inv f w.classes I) :
    ∀ (rs : List Route) (s : σ), I s →
      (routesAttsF f fx w s rs).1 = (rs.flatMap fun r => r.parents.flatMap fun pr =>
        match resolveParent w r pr with
        | none => []
        | some gw => gatewayAtts fx w r pr gw) ∧ I (routesAttsF f fx w s rs).2 := by
  intro rs
  induction rs with
  | nil => intro s hs; exact ⟨rfl, hs⟩
  | cons r rs ih =>
    intro s hs
    obtain ⟨h1, h2⟩ := routeAttsF_inv f fx w I hinv r r.parents s hs
    obtain ⟨h3, h4⟩ := ih _ h2
    simp only [routesAttsF, List.flatMap_cons]
    exact ⟨by rw [h1, h3], h4⟩

/-- one full sync through a facade in a state satisfying the invariant: the attachments of a fresh controller -/
theorem attsF_inv (w : World) (I : σ → Prop) (hinv : Inv f w.classes I) (s : σ) (hs : I s) :
    (attsF f fx w s).1 = atts fx w ∧ I (attsF f fx w s).2 :=
  routesAttsF_inv f fx w I hinv (syncOrder w) s hs

theorem probeF_inv (classes : List (String × Bool)) (I : σ → Prop) (hinv : Inv f classes I) :
    ∀ (cs : List String) (s : σ), I s → I (probeF f classes s cs) := by
  intro cs
  induction cs with
  | nil => intro s hs; exact hs
  | cons c cs ih => intro s hs; exact ih _ (hinv.keep s c hs)

theorem stepF_inv (I : σ → Prop) (st : Step) (hinv : Inv f st.world.classes I) (s : σ) (hs : I s) :
    (stepF f fx s st).1 = fresh fx st.world ∧ I (stepF f fx s st).2 := by
  obtain ⟨h1, h2⟩ := attsF_inv f fx st.world I hinv _ (probeF_inv f st.world.classes I hinv st.probes s hs)
  unfold stepF fresh
  simp only []
  exact ⟨by rw [h1, sync_eq_atts], h2⟩

/-- a whole life under an invariant: every sync gives what a fresh controller gives on that cluster -/
theorem runF_inv (I : σ → Prop) :
    ∀ (steps : List Step) (s : σ), I s → (∀ st ∈ steps, Inv f st.world.classes I) →
      runF f fx s steps = steps.map fun st => fresh fx st.world := by
  intro steps
  induction steps with
  | nil => intro s _ _; rfl
  | cons st rest ih =>
    intro s hs hinv
    obtain ⟨h1, h2⟩ := stepF_inv f fx I st (hinv st (List.mem_cons_self ..)) s hs
    simp only [runF, List.map_cons]
    rw [h1, ih _ h2 (fun st' h' => hinv st' (List.mem_cons_of_mem _ h'))]

end

/-- **history_memoryless**: for every facade whose answer depends on the current GatewayClass objects
only, from every state it may be in, along every history (any clusters, any watcher probes), every
full sync gives exactly the attachments and the configuration of a fresh controller started on that
step's cluster. -/
theorem history_memoryless {σ : Type} (f : Facade σ) (h : Memoryless f) (fx : Bool) (s : σ) (steps : List Step) :
    runF f fx s steps = steps.map fun st => fresh fx st.world :=
  runF_inv f fx (fun _ => True) steps s trivial (fun st _ => inv_of_memoryless h st.world.classes)

/-- … in particular the attachment after the LAST step equals the attachment of a fresh controller on
the last cluster, whatever came before -/
theorem history_last {σ : Type} (f : Facade σ) (h : Memoryless f) (fx : Bool) (pre : List Step) (st : Step) :
    (history f fx (pre ++ [st])).getLast? = some (fresh fx st.world) ∧
    (history f fx (pre ++ [st])).getLast? = (history pureFacade fx [{ probes := [], world := st.world }]).getLast? := by
  unfold history
  rw [history_memoryless f h, history_memoryless pureFacade pure_memoryless]
  simp

/-- the code as it is, along any history -/
theorem history_pure (fx : Bool) (steps : List Step) :
    history pureFacade fx steps = steps.map fun st => fresh fx st.world :=
  history_memoryless pureFacade pure_memoryless fx () steps

/-- **history_attach_iff** (current code, any memoryless facade): after any history a (route,
parentRef, gateway, listener) is attached iff it is one of the LAST cluster and the Spec admits it there -/
theorem history_attach_iff {σ : Type} (f : Facade σ) (h : Memoryless f) (pre : List Step) (st : Step)
    (hwf : WF st.world) (out : Outcome) (ho : (history f cur (pre ++ [st])).getLast? = some out) (a : Att) :
    a ∈ out.1 ↔ a.r ∈ st.world.routes ∧ a.pr ∈ a.r.parents ∧ Admitted st.world a.r a.pr a.gw a.l := by
  rw [(history_last f h cur pre st).1] at ho
  cases ho
  simp only [fresh]
  rw [mem_atts_iff, attach_iff st.world hwf]

/-- … and the configuration after any history is `sync` of the last cluster, to which
`nothing_else_*` / `produced_*` of Props/C10.lean apply -/
theorem history_config {σ : Type} (f : Facade σ) (h : Memoryless f) (fx : Bool) (pre : List Step) (st : Step)
    (out : Outcome) (ho : (history f fx (pre ++ [st])).getLast? = some out) : out.2 = sync fx st.world := by
  rw [(history_last f h fx pre st).1] at ho
  cases ho
  rfl

/-! ## the memo of the classes that once matched (seed C10f) -/

/-- every remembered class is ours in this table -/
def MemoSound (classes : List (String × Bool)) (memo : List String) : Prop :=
  ∀ c ∈ memo, classOursIn classes c = true

theorem memo_inv (classes : List (String × Bool)) : Inv memoFacade classes (MemoSound classes) := by
  constructor
  · intro memo cls hm
    unfold memoFacade
    simp only []
    by_cases hc : memo.contains cls = true
    · rw [if_pos hc]; exact (hm cls (List.contains_iff_mem.1 hc)).symm
    · rw [if_neg hc]
      cases ho : classOursIn classes cls <;> simp
  · intro memo cls hm
    unfold memoFacade
    simp only []
    by_cases hc : memo.contains cls = true
    · rw [if_pos hc]; exact hm
    · rw [if_neg hc]
      cases ho : classOursIn classes cls
      · simpa using hm
      · simp only [↓reduceIte]
        intro c hcm
        rcases List.mem_cons.1 hcm with rfl | h
        · exact ho
        · exact hm c h

/-- **memo_sound_fixed_classes**: while the GatewayClass objects do not change, the memo is invisible —
whatever else changes (Gateways, listeners, namespaces, routes), from a new facade every sync equals the
fresh controller's.  A check on one snapshot, or on histories that never touch a GatewayClass, cannot
tell `memoFacade` from the code. -/
theorem memo_sound_fixed_classes (fx : Bool) (classes : List (String × Bool)) (steps : List Step)
    (hc : ∀ st ∈ steps, st.world.classes = classes) :
    history memoFacade fx steps = steps.map fun st => fresh fx st.world :=
  runF_inv memoFacade fx (MemoSound classes) steps [] (fun _ h => by cases h)
    (fun st hst => by rw [hc st hst]; exact memo_inv classes)

/-- the memo answers from what was true earlier -/
theorem memo_not_memoryless : ¬ Memoryless memoFacade := by
  intro h
  have := h ["public"] [] "public"
  revert this
  decide

/-! ### witnesses: the class is handed over to another controller -/

def lHand : Listener :=
  { name := "http", host := none, proto := "HTTP", port := 80,
    allowed := some { kinds := [], nss := some { frm := some "Same", sel := none } } }
def gwHand : Gateway := { ns := "default", name := "web", cls := "public", listeners := [lHand] }
def prHand : ParentRef := { group := none, kind := none, ns := none, name := "web", sect := none }
def rHand : Route :=
  { tcp := false, ns := "default", name := "web", ts := 1, parents := [prHand], hostnames := ["app.local"],
    rules := [{ mts := [], refs := [{ svc := "echoserver", port := some 8080, weight := none }] }] }
/-- GatewayClass `public` is ours -/
def wHand1 : World :=
  { classes := [("public", true)], nss := [("default", [])], gws := [gwHand], routes := [rHand],
    svcs := [{ ns := "default", name := "echoserver", ports := [(8080, ["172.17.0.11:8080"])] }] }
/-- `public` deleted and created again with a foreign controllerName -/
def wHand2 : World := { wHand1 with classes := [("public", false)] }
/-- `public` deleted -/
def wHand3 : World := { wHand1 with classes := [] }
/-- `public` ours, the route not yet referencing the Gateway -/
def wHand0 : World := { wHand1 with routes := [{ rHand with parents := [] }] }

def published : String := "app.local{/~prefix~->default_web__rule0}#default_web__rule0~0{srv001=172.17.0.11:8080*128}#-"

theorem wHand_wf : WF wHand1 ∧ WF wHand2 ∧ WF wHand3 := by
  refine ⟨?_, ?_, ?_⟩ <;> constructor <;> simp [wHand1, wHand2, wHand3]

/-- the code: published while the class is ours, nothing once it is foreign;
the memo: still published, and the Spec oracle on the current cluster names the root cause -/
theorem memo_attaches_through_foreign_class :
    (history pureFacade cur [⟨[], wHand1⟩, ⟨[], wHand2⟩]).map (fun o => render o.2) = [published, "-#-#-"] ∧
    (history memoFacade cur [⟨[], wHand1⟩, ⟨[], wHand2⟩]).map (fun o => render o.2) = [published, published] ∧
    (history memoFacade cur [⟨[], wHand1⟩, ⟨[], wHand2⟩]).getLast?.map (fun o => oracle wHand2 o.2.obs) =
      some (some "attached-through-foreign-class-gateway") ∧
    (history pureFacade cur [⟨[], wHand1⟩, ⟨[], wHand2⟩]).getLast?.map (fun o => oracle wHand2 o.2.obs) = some none ∧
    ((history memoFacade cur [⟨[], wHand1⟩, ⟨[], wHand2⟩]).map (·.1)).getLast? =
      some [{ r := rHand, pr := prHand, gw := gwHand, l := lHand }] ∧
    ¬ Admitted wHand2 rHand prHand gwHand lHand := by
  refine ⟨by decide +kernel, by decide +kernel, by decide +kernel, by decide +kernel, by decide +kernel, ?_⟩
  intro h
  have := h.1.classOurs
  simp [ClassOurs, wHand2, wHand1, gwHand] at this

/-- the same when the class is simply deleted (the Gateway then references a missing class) -/
theorem memo_attaches_through_deleted_class :
    (history pureFacade cur [⟨[], wHand1⟩, ⟨[], wHand3⟩]).map (fun o => render o.2) = [published, "-#-#-"] ∧
    (history memoFacade cur [⟨[], wHand1⟩, ⟨[], wHand3⟩]).map (fun o => render o.2) = [published, published] ∧
    (history memoFacade cur [⟨[], wHand1⟩, ⟨[], wHand3⟩]).getLast?.map (fun o => oracle wHand3 o.2.obs) =
      some (some "attached-through-foreign-class-gateway") := by
  refine ⟨by decide +kernel, by decide +kernel, by decide +kernel⟩

/-- the memo can be set by a watcher alone: no sync ever validated the Gateway while the class was
ours (the route had no parentRef), a Gateway update event did -/
theorem memo_set_by_watcher_probe :
    (history memoFacade cur [⟨[], wHand0⟩, ⟨["public", "public"], wHand0⟩, ⟨[], wHand2⟩]).map (fun o => render o.2) =
      ["-#-#-", "-#-#-", published] ∧
    (history pureFacade cur [⟨[], wHand0⟩, ⟨["public", "public"], wHand0⟩, ⟨[], wHand2⟩]).map (fun o => render o.2) =
      ["-#-#-", "-#-#-", "-#-#-"] := by
  refine ⟨by decide +kernel, by decide +kernel⟩

/-! ## the source shape `pureFacade` rests on (regenerated facts) -/

/-- `isValidGateway` is: read the class name, call `getGatewayClass` (no statement before it that could
answer), return false on the two error branches, otherwise return `IsValidGatewayClass` of the object just
read; `getGatewayClass` reads through `c.get` in each of its three API branches; `GetGateway{,A2,B1}` read
the Gateway from the client and ask `IsValidGateway*`; the facade struct has exactly the eight fields of
/repo (no place to remember an answer).  Any structural change here (a memo, a short-circuit) changes a
regenerated constant and breaks this obligation. -/
theorem facts_c10_facade :
    Facts.c10ValidGatewayCalls = ["c.getGatewayClass", "string", "client.IgnoreNotFound", "c.log.Error",
      "c.log.Error", "c.IsValidGatewayClass"] ∧
    Facts.c10ValidGatewayReturns = ["false", "false", "c.IsValidGatewayClass(gwClass)"] ∧
    Facts.c10ValidGatewayStmts = ["assign", "assign", "if", "return"] ∧
    Facts.c10ValidGatewayWrappers = ["c.isValidGateway(gatewayv1alpha2.GroupVersion.Version, (*gatewayv1.Gateway)(gw))",
      "c.isValidGateway(gatewayv1beta1.GroupVersion.Version, (*gatewayv1.Gateway)(gw))",
      "c.isValidGateway(gatewayv1.GroupVersion.Version, gw)"] ∧
    Facts.c10GetGatewayClassCalls = ["c.validateGatewayAPI", "c.get", "c.get", "c.get"] ∧
    Facts.c10GetGatewayCalls = ["c.client.Get", "c.IsValidGatewayA2", "c.client.Get", "c.IsValidGatewayB1",
      "c.client.Get", "c.IsValidGateway"] ∧
    Facts.c10FacadeFields = ["ctx", "log", "config", "client", "tracker", "sslCerts", "dynconfig", "status"] ∧
    Facts.c10ValidClassCmps = ["gwClass.Spec.ControllerName == gatewayv1alpha2.GatewayController(c.config.ControllerName)",
      "gwClass.Spec.ControllerName == gatewayv1beta1.GatewayController(c.config.ControllerName)",
      "gwClass.Spec.ControllerName == gatewayv1.GatewayController(c.config.ControllerName)"] := by decide

/-! ## non-vacuity -/

/-- a history where the attachment comes and goes with the current cluster only: ours → foreign → ours
again → Gateway moved to a missing class -/
example : (history pureFacade cur [⟨[], wHand1⟩, ⟨[], wHand2⟩, ⟨["public"], wHand1⟩,
      ⟨["public", "gone"], { wHand1 with gws := [{ gwHand with cls := "gone" }] }⟩]).map (fun o => render o.2) =
    [published, "-#-#-", published, "-#-#-"] := by decide +kernel
/-- `history_attach_iff` has an inhabitant on both sides -/
example : ({ r := rHand, pr := prHand, gw := gwHand, l := lHand } : Att) ∈ (fresh cur wHand1).1 := by decide +kernel
example : (fresh cur wHand2).1 = [] := by decide +kernel
/-- `memo_sound_fixed_classes` is not vacuous: a history that changes the listener and the route only -/
example : history memoFacade cur [⟨[], wHand0⟩, ⟨[], wHand1⟩] = [fresh cur wHand0, fresh cur wHand1] :=
  memo_sound_fixed_classes cur [("public", true)] _ (by simp [wHand0, wHand1])

end HapVerif.C10
