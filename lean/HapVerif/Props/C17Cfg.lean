import HapVerif.Props.C17
import HapVerif.Model.C17Cfg
import HapVerif.Generated.Facts
/-!
# C17 — "the configured window" on a live signer

`Props/C17.lean` proves `sign_iff` for ONE `Notify` with the window as an input. The signer is a long lived
object that is re-configured (`AcmeConfig`, `AcmeAccount`) before every `AcmeUpdate`/`AcmeCheck`; this file
proves, for ALL histories of configurations and checks (`Model/C17Cfg.lean`), that the window of the
property is the one configured LAST — for every integer window, `0` and negative values included:

* `srun_window`, `srun_account`: after any history the window is `lastWindow` (a function of the `config` steps
  alone), account and client are `accountAfter` (a function of the `account` steps alone, whatever the policy).
* `decision_uses_last_config`: a check after any history is `notify` with the last configured window.
* `live_agrees_with_fresh`: a signer that went through any history and a freshly created one that were given the
  same last configuration take the same decision.
* `sign_iff_history`: after any history `Sign` is called iff account and (missing, or
  `NotAfter < now + last configured window`, or a declared name is not covered).
* `spec_holds_verify`, `spec_holds_history`: full strength — the Spec holds on every history.
* `stale_window_rerequests_valid_certificate` (kernel-checked witness): the setter that ignores non-positive windows
  (seed C17g) re-requests a covering certificate with 10 days left after 30 days -> 0;
  `positive_only_same_while_positive`: it cannot be told from the code while every configured window is positive.
-/
namespace HapVerif.C17

/-! ## the state after a history -/

theorem srunP_append (p : ConfigPolicy) (s : Signer) (h1 h2 : List SStep) :
    srunP p s (h1 ++ h2) =
      ((srunP p (srunP p s h1).1 h2).1, (srunP p s h1).2 ++ (srunP p (srunP p s h1).1 h2).2) := by
  induction h1 generalizing s with
  | nil => simp [srunP]
  | cons st rest ih => simp [srunP, ih, List.append_assoc]

theorem acmeAccount_window (s : Signer) (e m : String) (t ok : Bool) :
    (acmeAccount s e m t ok).window = s.window := by
  unfold acmeAccount; simp only; repeat' split
  all_goals rfl

theorem acmeConfigP_account (p : ConfigPolicy) (s : Signer) (w : Int) :
    (acmeConfigP p s w).account = s.account ∧ (acmeConfigP p s w).client = s.client := by
  cases p
  · simp [acmeConfigP]
  · unfold acmeConfigP; simp only; split <;> simp

/-- what `acmeAccount` does depends on account and client alone -/
theorem acmeAccount_congr (s s' : Signer) (e m : String) (t ok : Bool)
    (ha : s.account = s'.account) (hc : s.client = s'.client) :
    (acmeAccount s e m t ok).account = (acmeAccount s' e m t ok).account ∧
    (acmeAccount s e m t ok).client = (acmeAccount s' e m t ok).client := by
  unfold acmeAccount; simp only [ha]; repeat' split
  all_goals simp [ha, hc]

/-- **srun_window**: after ANY history the window of the signer is the one configured last (the one it was
created with if none was) — whatever its sign. -/
theorem srun_window (s : Signer) (h : List SStep) : (srun s h).1.window = lastWindow s.window h := by
  induction h generalizing s with
  | nil => rfl
  | cons st rest ih =>
    cases st with
    | config w => simp only [srun, srunP, sstepP, lastWindow]; exact ih _
    | account e m t ok =>
      simp only [srun, srunP, sstepP, lastWindow]
      rw [← acmeAccount_window s e m t ok]; exact ih _
    | check c => simp only [srun, srunP, sstepP, lastWindow]; exact ih _

theorem accountAfter_congr (s s' : Signer) (h : List SStep)
    (ha : s.account = s'.account) (hc : s.client = s'.client) :
    (accountAfter s h).account = (accountAfter s' h).account ∧
    (accountAfter s h).client = (accountAfter s' h).client := by
  induction h generalizing s s' with
  | nil => exact ⟨ha, hc⟩
  | cons st rest ih =>
    cases st with
    | config w => exact ih _ _ ha hc
    | account e m t ok =>
      have := acmeAccount_congr s s' e m t ok ha hc
      exact ih _ _ this.1 this.2
    | check c => exact ih _ _ ha hc

/-- **srun_account**: account and client after a history are decided by the `account` steps alone, whatever
`AcmeConfig` does with the windows. -/
theorem srun_account (p : ConfigPolicy) (s : Signer) (h : List SStep) :
    (srunP p s h).1.account = (accountAfter s h).account ∧ (srunP p s h).1.client = (accountAfter s h).client := by
  induction h generalizing s with
  | nil => exact ⟨rfl, rfl⟩
  | cons st rest ih =>
    cases st with
    | config w =>
      simp only [srunP, sstepP, accountAfter]
      have h1 := ih (acmeConfigP p s w)
      have h2 := accountAfter_congr (acmeConfigP p s w) s rest (acmeConfigP_account p s w).1 (acmeConfigP_account p s w).2
      exact ⟨h1.1.trans h2.1, h1.2.trans h2.2⟩
    | account e m t ok => simp only [srunP, sstepP, accountAfter]; exact ih _
    | check c => simp only [srunP, sstepP, accountAfter]; exact ih _

/-! ## the decision of a check -/

/-- **decision_uses_last_config**: for ALL histories `pre` (configurations, account changes, earlier checks) from
any initial signer, the check that follows is `notify` — the decision function of `Props/C17.lean` — evaluated
with the window configured LAST and the account the `account` steps leave. -/
theorem decision_uses_last_config (s : Signer) (pre : List SStep) (c : Check) :
    (srun s (pre ++ [.check c])).2 =
      (srun s pre).2 ++ [notify (c.toVIn (accountAfter s pre).client (lastWindow s.window pre))] := by
  have hw : (srunP .always s pre).1.window = lastWindow s.window pre := srun_window s pre
  have ha : (srunP .always s pre).1.client = (accountAfter s pre).client := (srun_account .always s pre).2
  simp [srun, srunP_append, srunP, sstepP, hw, ha]

/-- **live_agrees_with_fresh**: a signer with any past (`pre` from `s`) and another one (`s'`, e.g. just created)
that are handed the same window and have a client or not alike take the same decision on the same check. -/
theorem live_agrees_with_fresh (s s' : Signer) (pre : List SStep) (w : Int) (c : Check)
    (hc : (accountAfter s pre).client = s'.client) :
    (srun s (pre ++ [.config w, .check c])).2 = (srun s pre).2 ++ (srun s' [.config w, .check c]).2 := by
  have ha : (srunP .always s pre).1.client = (accountAfter s pre).client := (srun_account .always s pre).2
  simp [srun, srunP_append, srunP, sstepP, acmeConfigP, ha, hc]

/-- **sign_iff_history**: after ANY history, for an item that carries a domain, `Client.Sign` is called iff the
signer has a client and the secret is missing/unreadable, or `NotAfter < now + w` with `w` the window configured
last (strict; any integer `w`), or a declared domain is not covered. -/
theorem sign_iff_history (s : Signer) (pre : List SStep) (c : Check) (hd : c.declared ≠ []) :
    (∃ o, (srun s (pre ++ [.check c])).2 = (srun s pre).2 ++ [o] ∧
      (o.signed.isSome = true ↔ (accountAfter s pre).client = true ∧
        (c.secret = .missing ∨ ∃ na sans, c.secret = .cert na sans ∧
          (na < c.now + lastWindow s.window pre ∨ ∃ d ∈ c.declared, covered sans d = false)))) := by
  refine ⟨_, decision_uses_last_config s pre c, ?_⟩
  exact sign_iff (c.toVIn (accountAfter s pre).client (lastWindow s.window pre)) hd

example : lastWindow 7 [.config 30, .config 0] = 0 := by decide
example : lastWindow 7 [.config 30, .config (-1), .account "v2" "m" true false] = -1 := by decide

/-! ## the Spec holds on every history -/

/-- the Spec of one check holds on the model's own outcome, for every input with a declared name -/
theorem spec_holds_verify (i : VIn) (hd : i.declared ≠ []) : oracleVerify i (notify i) = none := by
  have hne : i.declared.isEmpty = false := by cases h : i.declared with | nil => exact absurd h hd | cons _ _ => rfl
  have hdom := itemDomains_of_ne hd
  unfold oracleVerify
  by_cases ha : i.acct = true
  · have hs := sign_iff i hd
    rw [← needed_iff] at hs
    simp only [ha, true_and] at hs
    cases hn : needed i with
    | true =>
      have h1 : (notify i).signed.isSome = true := hs.2 hn
      obtain ⟨ds, hds⟩ := Option.isSome_iff_exists.1 h1
      have h2 := signed_domains i ds hds
      have h3 := store_only_both i
      simp only [ha, hne, hds, Bool.not_true, Bool.false_eq_true, if_false, Option.isSome_some, Bool.and_false,
        Option.isNone_some, Bool.true_and, Bool.and_true]
      rw [hdom] at h2
      by_cases hw : (notify i).written = true
      · have := h3.1 hw
        simp [hw, this, h2]
      · simp [hw, h2]
    | false =>
      have h1 : (notify i).signed.isSome = false := by
        cases h : (notify i).signed.isSome with
        | false => rfl
        | true => rw [hs.1 h] at hn; cases hn
      have h3 := store_only_both i
      have hw : (notify i).written = false := by
        cases h : (notify i).written with
        | false => rfl
        | true => have := (h3.1 h); simp [h1] at this
      have hnone : (notify i).signed = none := by
        cases h : (notify i).signed with
        | none => rfl
        | some _ => rw [h] at h1; cases h1
      simp [ha, hw, hnone]
  · have ha' : i.acct = false := by cases h : i.acct with | false => rfl | true => exact absurd h ha
    simp [notify, ha']

/-- **spec_holds_history**: full strength — for every initial signer and every history of configurations,
account changes and checks, every check satisfies the Spec with the window configured last before it. -/
theorem spec_holds_history (s : Signer) (h : List SStep) : oracleHistory s h (srun s h).2 = none := by
  induction h generalizing s with
  | nil => rfl
  | cons st rest ih =>
    cases st with
    | config w => simp only [srun, srunP, sstepP, oracleHistory, acmeConfigP, List.nil_append]; exact ih _
    | account e m t ok => simp only [srun, srunP, sstepP, oracleHistory, List.nil_append]; exact ih _
    | check c =>
      simp only [srun, srunP, sstepP, oracleHistory, List.singleton_append]
      by_cases hd : c.declared = []
      · simp only [hd, List.isEmpty_nil, if_true]; exact ih _
      · have hne : c.declared.isEmpty = false := by
          cases h : c.declared with | nil => exact absurd h hd | cons _ _ => rfl
        have := spec_holds_verify (c.toVIn s.client s.window) hd
        simp only [hne, Bool.false_eq_true, if_false, this]; exact ih _

/-! ## the setter that keeps a stale window (seed C17g) -/

def day : Int := 86400000000000

def demoCheck : Check :=
  { secret := .cert (10 * day) [["app", "x"]], now := 0, declared := [["app", "x"]],
    sign := ⟨true, true, false⟩, setErr := false }

/-- **stale_window_rerequests_valid_certificate**: default window of 30 days, then the operator configures `0`; a
covering certificate with 10 days left is checked. The code leaves it alone; the setter that ignores non-positive
windows decides with the 30 days of before, asks the ACME server again and overwrites the secret — the Spec
reports `valid-certificate-re-requested`; a freshly created signer with the same configuration does not. -/
theorem stale_window_rerequests_valid_certificate :
    let s0 : Signer := { client := true }
    let h := [SStep.config (30 * day), .config 0, .check demoCheck]
    (srun s0 h).2.map (·.signed) = [none] ∧
    oracleHistory s0 h (srun s0 h).2 = none ∧
    (srunP .positiveOnly s0 h).2.map (·.signed) = [some [["app", "x"]]] ∧
    (srunP .positiveOnly s0 h).2.map (·.written) = [true] ∧
    oracleHistory s0 h (srunP .positiveOnly s0 h).2 = some "valid-certificate-re-requested" ∧
    (srunP .positiveOnly s0 [.config 0, .check demoCheck]).2.map (·.signed) = [none] := by
  decide +kernel

/-- the same for a negative window -/
theorem stale_window_negative :
    let s0 : Signer := { client := true }
    let h := [SStep.config (30 * day), .config (-1), .check demoCheck]
    oracleHistory s0 h (srun s0 h).2 = none ∧
    oracleHistory s0 h (srunP .positiveOnly s0 h).2 = some "valid-certificate-re-requested" := by
  decide +kernel

def allPositive : List SStep → Prop
  | [] => True
  | .config w :: rest => 0 < w ∧ allPositive rest
  | _ :: rest => allPositive rest

/-- **positive_only_same_while_positive**: why a harness with positive windows only cannot see it — on every
history whose configured windows are all positive the stale setter and the code are the same function. -/
theorem positive_only_same_while_positive (s : Signer) (h : List SStep) (hp : allPositive h) :
    srunP .positiveOnly s h = srun s h := by
  induction h generalizing s with
  | nil => rfl
  | cons st rest ih =>
    cases st with
    | config w =>
      have hw : ¬ w ≤ 0 := by have := hp.1; omega
      simp only [srun, srunP, sstepP, acmeConfigP, hw, if_false]
      have : srunP .positiveOnly _ rest = srunP .always _ rest := ih { s with window := w } hp.2
      rw [this]
    | account e m t ok =>
      simp only [srun, srunP, sstepP]
      have : srunP .positiveOnly _ rest = srunP .always _ rest := ih (acmeAccount s e m t ok) hp
      rw [this]
    | check c =>
      simp only [srun, srunP, sstepP]
      have : srunP .positiveOnly _ rest = srunP .always _ rest := ih s hp
      rw [this]

example : allPositive [.config 1, .check demoCheck, .config 5] := by simp [allPositive]

/-! ## regenerated facts: the shape of the two setters -/

/-- `AcmeConfig` is one unconditional assignment; `AcmeAccount`: the conditions in source order (same account ->
nothing; all empty -> forgotten; client creation failed -> forgotten) and its assignments -/
theorem facts_c17cfg :
    Facts.c17AcmeConfigBody = ["s.expiring = expiring"] ∧
    Facts.c17AcmeConfigConds = [] ∧
    Facts.c17AcmeAccountConds = ["reflect.DeepEqual(s.account, account)", "endpoint == \"\" && emails == \"\" && !termsAgreed", "err != nil"] ∧
    Facts.c17ExpiringWrites = ["AcmeConfig: s.expiring = expiring"] :=
  ⟨rfl, rfl, rfl, rfl⟩

end HapVerif.C17
