import HapVerif.Props.C02Pair
/-!
# C07 (dynamic part) — server names stay unique through `checkBackendPair` and `alignSlots`

Proved in `Props/C02Pair.lean` on the shared model M-Dyn; restated here for the C07 audit.
`dense` = every name of the form `srvNNN` has `NNN ≤` number of servers (what `sanitizeName` with
an empty name produces), the condition under which `AddEmptyEndpoint` cannot collide.
-/
namespace HapVerif.C07
open HapVerif.C02

/-- `checkBackendPair`: unique and dense names in the old and in the new backend give unique and
dense names in the endpoint list that is kept (old names are handed to the current endpoints) -/
theorem server_names_nodup_pair (old cur : Back) (same : Bool) (sc : List Resp)
    (hE : cur.eps.all (·.enabled) = true)
    (ho : namesNodup old.eps = true ∧ dense old.eps = true) (hc : namesNodup cur.eps = true ∧ dense cur.eps = true) :
    namesNodup (checkBackendPair old cur same sc).cur = true ∧ dense (checkBackendPair old cur same sc).cur = true :=
  C02Pair.pair_names_ok old cur same sc hE ho hc

/-- `alignSlots`: the names added are `srv(len+1)`, `srv(len+2)`, … which are fresh under `dense` -/
theorem server_names_nodup_align (b : Back) (minFree blockSize : Nat)
    (h : namesNodup b.eps = true ∧ dense b.eps = true) :
    namesNodup (alignSlots b minFree blockSize).eps = true ∧ dense (alignSlots b minFree blockSize).eps = true :=
  C02Pair.alignSlots_names_ok b minFree blockSize h

/-- both together: whatever `dynUpdater.update()` leaves in the backend has unique, dense names -/
theorem server_names_nodup (old cur : Back) (same : Bool) (sc : List Resp) (minFree blockSize : Nat)
    (hE : cur.eps.all (·.enabled) = true)
    (ho : namesNodup old.eps = true ∧ dense old.eps = true) (hc : namesNodup cur.eps = true ∧ dense cur.eps = true) :
    let o := checkBackendPair old cur same sc
    namesNodup (alignSlots { cur with eps := o.cur } minFree blockSize).eps = true ∧
    dense (alignSlots { cur with eps := o.cur } minFree blockSize).eps = true :=
  C02Pair.alignSlots_names_ok _ minFree blockSize (C02Pair.pair_names_ok old cur same sc hE ho hc)

/-- non-vacuity -/
example : namesNodup C02Pair.exOld = true ∧ dense C02Pair.exOld = true ∧
    namesNodup C02Pair.exCur = true ∧ dense C02Pair.exCur = true ∧ C02Pair.exCur.all (·.enabled) = true := by
  decide +kernel

end HapVerif.C07
