import HapVerif.Lemmas.C01Tracker
import HapVerif.Props.C01
import HapVerif.Generated.CodeC01
/-!
# C01 — tie between the source and the tracker model: `trackStrictHosts`

With `strict-host` the haproxy model (`config.SyncConfig`) gives every added host without a root path the
root path of the DEFAULT host — a dependency between two host entries that no Ingress object declares.
`converter.trackStrictHosts` (repair de67e1a, widened by the second strict-host repair: the borrowed root path
is ALSO added to the backend of the default host's root, so a host that STARTS to borrow — a new host, or one that
loses its own root — needs the default host and that backend rebuilt; every non-default host is therefore linked,
borrowing or not, and `trackAddedIngress` pre-tracks the default host for added/updated ingresses) records it in the tracker.  `HapVerif.CodeC01.trackStrictHosts`
is REGENERATED from `pkg/converters/ingress/ingress.go` on every run; the theorems below state what it
tracks and, through the M-Tracker theorem `tracker_output`, that a partial sync whose closure reaches the
default host also rebuilds every borrowing host.
-/
namespace HapVerif.C01Tie
open HapVerif HapVerif.C01 HapVerif.GoLib

abbrev Node := String × String

def dflt : String := Facts.c04DefaultHost

/-- a host that borrows the root path of the default host under strict-host (the condition of
`config.SyncConfig`: `host.FindPath("/", MatchBegin) == nil`; the default host itself is not a borrower) -/
def borrows (h : HostView) : Bool := h.Hostname != dflt && h.rootBegin == none

/-- a host the default host is linked with: every added host but the default host itself — a borrower now
(`borrows`) or a host that may start to borrow when it loses its own root path -/
def linked (h : HostView) : Bool := h.Hostname != dflt

theorem borrows_linked {h : HostView} (hb : borrows h = true) : linked h = true := by
  simp only [borrows, Bool.and_eq_true] at hb; exact hb.1

/-- what the function is specified to track: one link default host — host, in iteration order -/
def strictLinks (strict : Bool) (hosts : List HostView) : List TrackCall :=
  if strict then (hosts.filter linked).map fun h => ⟨"H", dflt, "H", h.Hostname⟩ else []

theorem forRange_next {α σ ρ : Type} (xs : List α) (s : σ) (g : α → σ → σ) :
    GoLib.forRange (ρ := ρ) xs s (fun x s => .next (g x s)) = .done (xs.foldl (fun s x => g x s) s) := by
  induction xs generalizing s with
  | nil => rfl
  | cons x xs ih => simp only [GoLib.forRange, List.foldl_cons]; exact ih _

def stepFx (h : HostView) (fx : List TrackCall) : List TrackCall :=
  if linked h then fx ++ [⟨"H", dflt, "H", h.Hostname⟩] else fx

theorem foldl_stepFx (hosts : List HostView) (fx : List TrackCall) :
    hosts.foldl (fun s x => stepFx x s) fx = fx ++ strictLinks true hosts := by
  induction hosts generalizing fx with
  | nil => simp [strictLinks]
  | cons h hs ih =>
    rw [List.foldl_cons, ih]
    by_cases hb : linked h = true <;> simp [stepFx, strictLinks, hb]

theorem loop_eq (hosts : List HostView) (fx : List TrackCall) :
    GoLib.forRange (ρ := List TrackCall) hosts fx (fun host fx =>
        if ((host).Hostname != Facts.c04DefaultHost) then
          let fx := (GoLib.trackNames fx "H" Facts.c04DefaultHost "H" (host).Hostname)
          GoLib.Step.next fx
        else
          GoLib.Step.next fx) = .done (fx ++ strictLinks true hosts) := by
  have hbody : (fun (host : HostView) (fx : List TrackCall) =>
        if ((host).Hostname != Facts.c04DefaultHost) then
          let fx := (GoLib.trackNames fx "H" Facts.c04DefaultHost "H" (host).Hostname)
          (GoLib.Step.next fx : GoLib.Step (List TrackCall) (List TrackCall))
        else
          GoLib.Step.next fx) = fun host fx => .next (stepFx host fx) := by
    funext host fx
    simp only [stepFx, linked, dflt, GoLib.trackNames]
    exact (apply_ite GoLib.Step.next _ _ _).symm
  rw [hbody, forRange_next, foldl_stepFx]

/-- the translated function appends exactly the specified links to the tracker calls made so far -/
theorem trackStrictHosts_tie (strict : Bool) (hosts : List HostView) (fx : List TrackCall) :
    CodeC01.trackStrictHosts strict hosts fx = fx ++ strictLinks strict hosts := by
  unfold CodeC01.trackStrictHosts
  cases strict with
  | false => simp [strictLinks]
  | true =>
    simp only [Bool.not_true, Bool.false_eq_true, if_false]
    rw [loop_eq]

/-- tracker after a list of `TrackNames` calls (M-Tracker: one undirected edge per call) -/
def applyCalls (t : Tr Node) (cs : List TrackCall) : Tr Node :=
  cs.foldl (fun t c => track (c.lt, c.ln) (c.rt, c.rn) t) t

theorem applyCalls_mono (cs : List TrackCall) (t : Tr Node) : ∀ e ∈ t, e ∈ applyCalls t cs := by
  induction cs generalizing t with
  | nil => intro e he; exact he
  | cons c cs ih =>
    intro e he
    exact ih _ e (List.mem_cons_of_mem _ he)

theorem applyCalls_mem (cs : List TrackCall) (t : Tr Node) (c : TrackCall) (hc : c ∈ cs) :
    ((c.lt, c.ln), (c.rt, c.rn)) ∈ applyCalls t cs := by
  induction cs generalizing t with
  | nil => cases hc
  | cons d ds ih =>
    rcases List.mem_cons.mp hc with rfl | h
    · exact applyCalls_mono ds _ _ (List.mem_cons_self ..)
    · exact ih _ h

/-- **closure completeness for the strict-host dependency.**  After `trackStrictHosts` ran on the added hosts,
any tracker query (the `QueryLinks` of the next partial sync) whose seeds are connected to the default host
returns every borrowing host: it is removed and rebuilt together with the default host. -/
theorem strict_borrower_dirty (t : Tr Node) (hosts : List HostView) (fx : List TrackCall) (seeds : List Node)
    (h : HostView) (hh : h ∈ hosts) (hb : borrows h = true)
    (hs : ∃ s ∈ seeds, Conn (applyCalls t (CodeC01.trackStrictHosts true hosts fx)) s ("H", dflt)) :
    ("H", h.Hostname) ∈ (queryLinks (applyCalls t (CodeC01.trackStrictHosts true hosts fx)) seeds true).1 := by
  have hc : (⟨"H", dflt, "H", h.Hostname⟩ : TrackCall) ∈ CodeC01.trackStrictHosts true hosts fx := by
    rw [trackStrictHosts_tie]
    apply List.mem_append_right
    simp only [strictLinks, if_true]
    exact List.mem_map.mpr ⟨h, List.mem_filter.mpr ⟨hh, borrows_linked hb⟩, rfl⟩
  have he := applyCalls_mem _ t _ hc
  have hadj : Adj (applyCalls t (CodeC01.trackStrictHosts true hosts fx)) ("H", dflt) ("H", h.Hostname) := Or.inl he
  refine (tracker_output _ seeds _).mpr ⟨⟨("H", dflt), hadj.symm⟩, ?_⟩
  obtain ⟨s, hs1, hs2⟩ := hs
  exact ⟨s, hs1, hs2.trans (Conn.single hadj)⟩

/-- **the converse dependency (second strict-host repair).**  A query whose seeds are connected to ANY non-default
host that `trackStrictHosts` has seen returns the default host: the default host — and with it, through the links of
its own ingresses, the backend of its root path, which `SyncConfig` extends with the borrowed path — is rebuilt
whenever such a host is rebuilt, in particular when it loses its own root path and starts to borrow. -/
theorem strict_default_dirty (t : Tr Node) (hosts : List HostView) (fx : List TrackCall) (seeds : List Node)
    (h : HostView) (hh : h ∈ hosts) (hl : linked h = true)
    (hs : ∃ s ∈ seeds, Conn (applyCalls t (CodeC01.trackStrictHosts true hosts fx)) s ("H", h.Hostname)) :
    ("H", dflt) ∈ (queryLinks (applyCalls t (CodeC01.trackStrictHosts true hosts fx)) seeds true).1 := by
  have hc : (⟨"H", dflt, "H", h.Hostname⟩ : TrackCall) ∈ CodeC01.trackStrictHosts true hosts fx := by
    rw [trackStrictHosts_tie]
    apply List.mem_append_right
    simp only [strictLinks, if_true]
    exact List.mem_map.mpr ⟨h, List.mem_filter.mpr ⟨hh, hl⟩, rfl⟩
  have he := applyCalls_mem _ t _ hc
  have hadj : Adj (applyCalls t (CodeC01.trackStrictHosts true hosts fx)) ("H", dflt) ("H", h.Hostname) := Or.inl he
  refine (tracker_output _ seeds _).mpr ⟨⟨("H", h.Hostname), hadj⟩, ?_⟩
  obtain ⟨s, hs1, hs2⟩ := hs
  exact ⟨s, hs1, hs2.trans (Conn.single hadj.symm)⟩

/-- strict-host off: nothing is tracked (no dependency exists: `SyncConfig` adds no path) -/
theorem strict_off (hosts : List HostView) (fx : List TrackCall) :
    CodeC01.trackStrictHosts false hosts fx = fx := by
  rw [trackStrictHosts_tie]; simp [strictLinks]

/-- non-vacuity: c.local (borrows) and a.local (own root path: may start to borrow) are linked, the default host is not -/
example : CodeC01.trackStrictHosts true
    [⟨"c.local", none⟩, ⟨"a.local", some ()⟩, ⟨"<default>", none⟩] [] =
    [⟨"H", "<default>", "H", "c.local"⟩, ⟨"H", "<default>", "H", "a.local"⟩] := by
  decide

/-- the code before repair de67e1a tracked nothing: with an empty call list the default host and the borrower
are not connected, so a change of the default host did not rebuild the borrower (replay in the C01 / C07 corpus) -/
example : ¬ Adj (applyCalls ([] : Tr Node) []) ("H", "<default>") ("H", "c.local") := by
  simp [applyCalls, Adj]

/-! ## `converters.Sync`: the order of clearing and converting -/

/-- the flag every converter is called with -/
def needFull (env : Env) (c : ConvView) : Bool :=
  c.batchFull || GoLib.readB env "gateway.NeedFullSync" || GoLib.readB env "ingress.NeedFullSync"

def clearing (full : Bool) : List String := if full then ["ClearLinks", "haproxy.Clear"] else []
def gatewaySteps (c : ConvView) (full : Bool) : List String :=
  (if c.hasGatewayV1 then ["gateway.Sync" ++ ":" ++ toString full ++ ":" ++ "v1"] else []) ++
  (if c.hasGatewayB1 then ["gateway.Sync" ++ ":" ++ toString full ++ ":" ++ "v1beta1"] else []) ++
  (if c.hasGatewayA2 then ["gateway.Sync" ++ ":" ++ toString full ++ ":" ++ "v1alpha2"] else [])

/-- **`converters.Sync` is: (swap the batch,) clear tracker AND model iff a full sync is needed — before any converter
runs —, the gateway converters, the ingress converter, the ConfigMap TCP converter; every converter is handed the same
full-sync flag.**  (M-Sync's `fullSync` starts from the empty tracker and model, `partialSync` from the committed
ones: C01; the Gateway flow runs before the ingress converter parses the global config: known finding C18.) -/
theorem convertersSync_tie (env : Env) (c : ConvView) :
    CodeC01.convertersSync env c [] =
      (if c.changedNil then ["SwapChangedObjects"] else []) ++ clearing (needFull env c) ++
      gatewaySteps c (needFull env c) ++ ["ingress.Sync" ++ ":" ++ toString (needFull env c)] ++
      (if c.tcpCur || c.tcpNew then ["tcpconfigmap.Sync"] else []) := by
  unfold CodeC01.convertersSync clearing gatewaySteps needFull
  simp only [GoLib.callU, GoLib.eff, GoLib.effBS, GoLib.effB]
  cases c.changedNil <;> cases (c.batchFull || GoLib.readB env "gateway.NeedFullSync" || GoLib.readB env "ingress.NeedFullSync") <;>
    cases c.hasGatewayV1 <;> cases c.hasGatewayB1 <;> cases c.hasGatewayA2 <;> cases c.tcpCur <;> cases c.tcpNew <;> rfl

example : CodeC01.convertersSync ⟨fun _ => false, fun n => n == "ingress.NeedFullSync", fun _ => 0⟩
    ⟨false, false, true, false, false, false, false⟩ [] =
    ["ClearLinks", "haproxy.Clear", "gateway.Sync:true:v1", "ingress.Sync:true"] := by decide

end HapVerif.C01Tie
