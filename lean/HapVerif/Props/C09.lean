import HapVerif.Model.C09
import HapVerif.Generated.Facts
/-!
C09 — cross-namespace isolation.

  * `resolve_own_ns`: `buildResourceName` with the permission off and a default namespace never
    leaves that namespace (all strings).
  * `getter_reads_only_own`, `bits_independent`, `getter_bit_*`: each getter consults exactly
    its own permission.
  * `dyn_*`: `buildGlobalDynamic` — default deny, anything but `allow` denies, a key opens only
    its kind, `--allow-cross-namespace` opens the three secret kinds and not services.
  * `site_reads_only_own`: tls secretName, Gateway certificateRefs, auth-tls-secret, auth-secret
    and the auth-url pre-build only read the annotated object's namespace while their kind is denied.
  * FULL STRENGTH `isolation` is FALSE for the code as it is; the refutations are theorems
    (`secure_crt_bypass`, `secure_ca_bypass`, `auth_secret_reuse_bypass`,
    `auth_url_findbackend_bypass`, `gateway_stale_permission`), and `isolation_partial` proves it
    under the explicit side conditions that exclude exactly those five paths.
-/
namespace HapVerif.C09

/-! ### buildResourceName -/

theorem resolve_own_ns (dns : Str) (key : Option (Str × Str)) (ns n : Str)
    (hd : dns ≠ []) (h : buildResourceNameK dns key false = .obj ns n) : ns = dns := by
  cases key with
  | none => simp [buildResourceNameK] at h
  | some p =>
    rcases p with ⟨kns, kn⟩
    simp only [buildResourceNameK, hd, if_false, Bool.false_or] at h
    by_cases h1 : kns = []
    · simp [h1] at h; exact h.1.symm
    · by_cases h2 : kns = dns
      · subst h2; simp [h1] at h; exact h.1.symm
      · simp [h1, h2] at h

/-- … for every value string -/
theorem resolve_own_ns_str (dns value ns n : Str) (hd : dns ≠ [])
    (h : buildResourceName dns value false = .obj ns n) : ns = dns :=
  resolve_own_ns dns (splitKey value) ns n hd h

/-- with an empty default namespace nothing is checked (operator level references: global
ConfigMap keys, command-line defaults) -/
theorem no_default_no_check (ns n : Str) (allow : Bool) :
    buildResourceNameK [] (some (ns, n)) allow = .obj ns n := by simp [buildResourceNameK]

/-- denial does not depend on whether the object exists: the result is a function of the names only
(no existence oracle) — by construction `buildResourceNameK` has no world argument. -/
example : buildResourceName ['a'] ['b', '/', 'n'] false = .denied ∧
          buildResourceName ['a'] ['b', '/', 'n'] true = .obj ['b'] ['n'] ∧
          buildResourceName ['a'] ['a', '/', 'n'] false = .obj ['a'] ['n'] ∧
          buildResourceName ['a'] ['n'] false = .obj ['a'] ['n'] ∧
          buildResourceName ['a'] ['a', '/', 'b', '/', 'n'] true = .invalid := by decide

/-! ### getters -/

theorem getter_reads_only_own (g : Getter) (b : Bits) (dns value ns n : Str)
    (hb : getterAllow b g = false) (hd : dns ≠ [])
    (h : getterResolve g b dns value = .obj ns n) : ns = dns := by
  cases g with
  | svc =>
    simp only [getterResolve] at h
    simp only [getterAllow] at hb
    rw [hb] at h
    exact resolve_own_ns_str dns value ns n hd h
  | dh => simp [getterAllow] at hb
  | tls =>
    simp only [getterResolve] at h
    split at h
    · split at h <;> simp at h
    · split at h
      · simp at h
      · rw [hb] at h; exact resolve_own_ns_str dns _ ns n hd h
  | ca =>
    simp only [getterResolve] at h
    split at h
    · split at h <;> simp at h
    · split at h
      · simp at h
      · rw [hb] at h; exact resolve_own_ns_str dns _ ns n hd h
  | pw =>
    simp only [getterResolve] at h
    split at h
    · split at h <;> simp at h
    · split at h
      · simp at h
      · rw [hb] at h; exact resolve_own_ns_str dns _ ns n hd h

/-- a getter's answer depends on the settings only through ITS permission -/
theorem bits_independent (g : Getter) (b b' : Bits) (dns value : Str)
    (h : getterAllow b g = getterAllow b' g) :
    getterResolve g b dns value = getterResolve g b' dns value := by
  cases g <;> simp_all [getterResolve, getterAllow]

/-- which field that is: crt → tls, ca → ca, passwd → pw, services → svc (and none for dh) -/
theorem getter_bit_fields (b b' : Bits) (dns value : Str) :
    (b.crt = b'.crt → getterResolve .tls b dns value = getterResolve .tls b' dns value) ∧
    (b.ca = b'.ca → getterResolve .ca b dns value = getterResolve .ca b' dns value) ∧
    (b.pw = b'.pw → getterResolve .pw b dns value = getterResolve .pw b' dns value) ∧
    (b.svc = b'.svc → getterResolve .svc b dns value = getterResolve .svc b' dns value) ∧
    getterResolve .dh b dns value = getterResolve .dh b' dns value :=
  ⟨fun h => bits_independent _ _ _ _ _ (by simpa [getterAllow] using h),
   fun h => bits_independent _ _ _ _ _ (by simpa [getterAllow] using h),
   fun h => bits_independent _ _ _ _ _ (by simpa [getterAllow] using h),
   fun h => bits_independent _ _ _ _ _ (by simpa [getterAllow] using h),
   bits_independent _ _ _ _ _ (by simp [getterAllow])⟩

/-- opening the three other kinds opens nothing for a getter whose own kind is denied -/
example : getterResolve .tls ⟨false, true, true, true⟩ ['a'] ['b', '/', 'n'] = .denied ∧
          getterResolve .ca ⟨true, false, true, true⟩ ['a'] ['b', '/', 'n'] = .denied ∧
          getterResolve .pw ⟨true, true, false, true⟩ ['a'] ['b', '/', 'n'] = .denied ∧
          getterResolve .svc ⟨true, true, true, false⟩ ['a'] ['b', '/', 'n'] = .denied ∧
          getterResolve .tls ⟨true, false, false, false⟩ ['a'] ['b', '/', 'n'] = .obj ['b'] ['n'] := by decide

/-- `secret://ns/name` is the same reference as `ns/name`; `file://` reads no object -/
example : getterResolve .tls Bits.none ['a'] ("secret://b/n".toList) = .denied ∧
          getterResolve .tls Bits.none ['a'] ['s','e','c','r','e','t',':','/','/','a','/','n'] = .obj ['a'] ['n'] ∧
          getterResolve .ca Bits.none ['a'] ['f','i','l','e',':','/','/','/','x'] = .file ['/','x'] := by
  refine ⟨?_, ?_, ?_⟩ <;> decide

/-! ### buildGlobalDynamic -/

theorem dyn_default_deny : buildGlobalDynamic false {} = Bits.none := by decide

theorem dyn_allow_iff (static : Bool) (cm : GlobalCM) (k : Kind) :
    (buildGlobalDynamic static cm).get k = true ↔
      (k ≠ .svc ∧ static = true) ∨
      allowOf (match k with | .crt => cm.crt | .ca => cm.ca | .pw => cm.pw | .svc => cm.svc) = true := by
  cases k <;> cases static <;> simp [buildGlobalDynamic, Bits.get]

/-- only a value that lower-cases to `allow` opens; `deny`, an empty or missing value and every
other text deny -/
theorem allowOf_iff (v : Str) : allowOf v = true ↔ v.map lowerChar = sAllow := by simp [allowOf]

example : allowOf "deny".toList = false ∧ allowOf [] = false ∧ allowOf "yes".toList = false ∧
          allowOf "allowed".toList = false ∧ allowOf " allow".toList = false ∧
          allowOf ['a','l','l','o','w'] = true ∧ allowOf ['A','l','l','O','W'] = true := by
  refine ⟨?_, ?_, ?_, ?_, ?_, ?_, ?_⟩ <;> decide

/-- each key opens only its own kind: a key's value does not influence the three other bits -/
theorem dyn_key_opens_only_its_kind (static : Bool) (cm : GlobalCM) (v : Str) :
    (∀ k, k ≠ .crt → (buildGlobalDynamic static { cm with crt := v }).get k = (buildGlobalDynamic static cm).get k) ∧
    (∀ k, k ≠ .ca → (buildGlobalDynamic static { cm with ca := v }).get k = (buildGlobalDynamic static cm).get k) ∧
    (∀ k, k ≠ .pw → (buildGlobalDynamic static { cm with pw := v }).get k = (buildGlobalDynamic static cm).get k) ∧
    (∀ k, k ≠ .svc → (buildGlobalDynamic static { cm with svc := v }).get k = (buildGlobalDynamic static cm).get k) := by
  refine ⟨?_, ?_, ?_, ?_⟩ <;> intro k hk <;> cases k <;> simp_all [buildGlobalDynamic, Bits.get]

/-- the command-line override opens the three secret kinds and never services -/
theorem dyn_static (cm : GlobalCM) :
    (buildGlobalDynamic true cm).crt = true ∧ (buildGlobalDynamic true cm).ca = true ∧
    (buildGlobalDynamic true cm).pw = true ∧
    (buildGlobalDynamic true cm).svc = (buildGlobalDynamic false cm).svc := by
  simp [buildGlobalDynamic]

/-! ### reference sites -/

/-- sites that hand the annotated object's namespace to the getter -/
def Site.direct : Site → Bool
  | .tls | .gwCert | .authTLS | .authSecret | .authURL => true
  | .secureCrt | .secureCA => false

theorem site_reads_only_own (s : Site) (hs : s.direct = true) (b : Bits) (src value ns n : Str)
    (hb : b.get s.kind = false) (hsrc : src ≠ [])
    (h : siteResolve s b src value = .obj ns n) : ns = src := by
  cases s <;> simp [Site.direct] at hs <;>
    simp only [siteResolve, siteArgs] at h <;>
    exact getter_reads_only_own _ b src value ns n (by simpa [Site.getter, getterAllow, Site.kind, Bits.get] using hb) hsrc h

/-! values without a slash -/

theorem splitSlash_noslash (v : Str) (hv : ∀ c ∈ v, c ≠ '/') : splitSlash v = [v] := by
  induction v with
  | nil => rfl
  | cons c cs ih =>
    have hcs : ∀ x ∈ cs, x ≠ '/' := fun x hx => hv x (List.mem_cons_of_mem _ hx)
    have hc : c ≠ '/' := hv c List.mem_cons_self
    simp [splitSlash, ih hcs, hc]

theorem gcp_noslash (v : Str) (hv : ∀ c ∈ v, c ≠ '/') : getContentProtocol v = (sSecret, v) := by
  unfold getContentProtocol
  have : ¬ ((v.drop (v.takeWhile isLowerAZ).length).take 3 = sSep) := by
    intro h
    have hm : '/' ∈ (v.drop (v.takeWhile isLowerAZ).length).take 3 := by rw [h]; decide
    exact hv '/' (List.mem_of_mem_drop (List.mem_of_mem_take hm)) rfl
  simp [this]

/-- the two secure-* keys stay in the annotated object's namespace for a value without a slash … -/
theorem secure_site_bare_name (s : Site) (hs : s = .secureCrt ∨ s = .secureCA) (b : Bits)
    (src value : Str) (hv : ∀ c ∈ value, c ≠ '/') (hsrc : src ≠ []) :
    siteResolve s b src value = .obj src value := by
  have hss : sSecret ≠ sFile := by decide
  rcases hs with rfl | rfl <;>
    simp [siteResolve, siteArgs, namespacedName, splitSlash_noslash value hv, getterResolve, Site.getter,
      gcp_noslash value hv, hss, buildResourceName, buildResourceNameK, splitKey, hsrc]

/- FULL STRENGTH (what the property asks of every site):

     theorem isolation (s : Site) (b : Bits) (ex : Existing) (fi : Bool) (src value ns n : Str) :
         b.get s.kind = false → src ≠ [] → siteUses s b ex fi src value = .obj ns n → ns = src

   is FALSE for the code as it is.  The refutations follow; each one is a replayable harness
   case and has its own oracle signature. -/

/-- (a) `secure-crt-secret: b/crt` on an object of namespace `a`, every permission denied: the
cache is asked for `b/crt` with default namespace `b`, so the check compares `b` with `b`.
Oracle signature `foreign-secret-read:secure-crt-secret`. -/
theorem secure_crt_bypass :
    siteResolve .secureCrt Bits.none ['a'] ['b', '/', 'c', 'r', 't'] = .obj ['b'] ['c', 'r', 't'] := by decide

/-- same for `secure-verify-ca-secret` (`foreign-secret-read:secure-verify-ca-secret`) -/
theorem secure_ca_bypass :
    siteResolve .secureCA Bits.none ['a'] ['b', '/', 'c', 'a'] = .obj ['b'] ['c', 'a'] := by decide

/-- what the table does: the namespace written in the value becomes the default namespace -/
theorem secure_site_any_namespace (s : Site) (hs : s = .secureCrt ∨ s = .secureCA) (b : Bits)
    (src ns n : Str) (hns : ∀ c ∈ ns, c ≠ '/') (hn : ∀ c ∈ n, c ≠ '/') (hne : ns ≠ []) :
    siteResolve s b src (ns ++ '/' :: n) = .obj ns n := by
  have hsp : splitSlash (ns ++ '/' :: n) = [ns, n] := by
    induction ns with
    | nil => simp [splitSlash, splitSlash_noslash n hn]
    | cons c cs ih =>
      have hc : c ≠ '/' := hns c List.mem_cons_self
      have hcs : ∀ x ∈ cs, x ≠ '/' := fun x hx => hns x (List.mem_cons_of_mem _ hx)
      by_cases hcsn : cs = []
      · subst hcsn; simp [splitSlash, splitSlash_noslash n hn, hc]
      · simp [splitSlash, ih hcs hcsn, hc]
  have hss : sSecret ≠ sFile := by decide
  rcases hs with rfl | rfl <;>
    simp [siteResolve, siteArgs, namespacedName, hsp, getterResolve, Site.getter,
      gcp_noslash n hn, hss, buildResourceName, buildResourceNameK, splitKey,
      splitSlash_noslash n hn, hne]

def exUserlistB : Existing :=
  { userlist := fun ns n => ns == ['b'] && n == ['p', 'w'], backend := fun _ _ => false }
def exBackendB : Existing :=
  { userlist := fun _ _ => false, backend := fun ns n => ns == ['b'] && n == ['s', 'v', 'c'] }

/-- (c) `auth-secret: b/pw` while namespace b's own ingress already built the userlist `b_pw`:
`Userlists().Find` answers before the cache is asked. Signature `foreign-secret-used:auth-secret`. -/
theorem auth_secret_reuse_bypass :
    siteUses .authSecret Bits.none exUserlistB true ['a'] ['b', '/', 'p', 'w'] = .obj ['b'] ['p', 'w'] ∧
    siteReads .authSecret Bits.none exUserlistB true ['a'] ['b', '/', 'p', 'w'] = none ∧
    siteUses .authSecret Bits.none Existing.none true ['a'] ['b', '/', 'p', 'w'] = .denied := by
  refine ⟨?_, ?_, ?_⟩ <;> decide

/-- (b) `auth-url: svc://b/svc:port` while a backend for `b/svc:port` exists: the pre-build is
refused (`GetService` is checked) but `FindBackend` finds the other tenant's backend.
Signature `foreign-service-used:auth-url-svc`. -/
theorem auth_url_findbackend_bypass :
    siteReads .authURL Bits.none exBackendB true ['a'] ['b', '/', 's', 'v', 'c'] = some .denied ∧
    siteUses .authURL Bits.none exBackendB true ['a'] ['b', '/', 's', 'v', 'c'] = .obj ['b'] ['s', 'v', 'c'] ∧
    siteUses .authURL Bits.none Existing.none true ['a'] ['b', '/', 's', 'v', 'c'] = .denied := by
  refine ⟨?_, ?_, ?_⟩ <;> decide

/-- (e) Gateway certificateRefs are evaluated with the permissions of the PREVIOUS reconciliation:
after the operator turns `cross-namespace-secrets-crt` from allow to deny the reference to
`b/crt` is still followed.  Signature `foreign-secret-read:gateway-certificate-ref`. -/
theorem gateway_stale_permission :
    let prev := buildGlobalDynamic false { crt := sAllow }
    let cur := buildGlobalDynamic false {}
    cur.crt = false ∧
    siteResolve .gwCert (bitsSeenBy .gwCert prev cur) ['a'] ['b', '/', 'c', 'r', 't'] = .obj ['b'] ['c', 'r', 't'] ∧
    siteResolve .tls (bitsSeenBy .tls prev cur) ['a'] ['b', '/', 'c', 'r', 't'] = .denied := by
  refine ⟨?_, ?_, ?_⟩ <;> decide

/-- auth-url: when the pre-build (`GetService`, checked) succeeds with services denied, the
namespace `setAuthExternal` looks the backend up in is the annotated object's -/
theorem authURL_prebuilt_own (b : Bits) (src value tns tn rns rn : Str)
    (hb : b.get Site.authURL.kind = false) (hsrc : src ≠ [])
    (hnn : namespacedName src value = some (tns, tn)) (htns : ¬ tns = [])
    (hr : siteResolve .authURL b src value = .obj rns rn) : tns = src := by
  have hsvc : b.svc = false := by simpa [Site.kind, Bits.get] using hb
  simp only [siteResolve, siteArgs, getterResolve, Site.getter, buildResourceName, splitKey, hsvc] at hr
  simp only [namespacedName] at hnn
  split at hnn
  · simp only [Option.some.injEq, Prod.mk.injEq] at hnn; exact hnn.1.symm
  · rename_i x y hxy
    simp only [Option.some.injEq, Prod.mk.injEq] at hnn
    obtain ⟨rfl, rfl⟩ := hnn
    simp only [hxy, buildResourceNameK, hsrc, if_false, htns, Bool.false_or] at hr
    by_cases hx : x = src
    · exact hx
    · simp [hx] at hr
  · simp at hnn

/-- the side conditions that exclude exactly the paths above -/
structure SafeUse (s : Site) (ex : Existing) (src value : Str) : Prop where
  /-- secure-* keys: the value has no slash -/
  secure : (s = .secureCrt ∨ s = .secureCA) → ∀ c ∈ value, c ≠ '/'
  /-- auth-secret: no userlist of another namespace exists -/
  userlist : s = .authSecret → ∀ ns n, ex.userlist ns n = true → ns = src
  /-- auth-url: no backend of another namespace exists -/
  backend : s = .authURL → ∀ ns n, ex.backend ns n = true → ns = src

/-- **isolation, partial**: while the kind of a site is denied (permissions as seen by the site
— for Gateway references see `gateway_stale_permission`), under `SafeUse` whatever object
reaches the configuration lives in the namespace of the annotated object -/
theorem isolation_partial (s : Site) (b : Bits) (ex : Existing) (fi : Bool) (src value ns n : Str)
    (hb : b.get s.kind = false) (hsrc : src ≠ []) (hsafe : SafeUse s ex src value)
    (h : siteUses s b ex fi src value = .obj ns n) : ns = src := by
  cases s with
  | tls => exact site_reads_only_own .tls rfl b src value ns n hb hsrc h
  | gwCert => exact site_reads_only_own .gwCert rfl b src value ns n hb hsrc h
  | authTLS => exact site_reads_only_own .authTLS rfl b src value ns n hb hsrc h
  | secureCrt =>
    have := secure_site_bare_name .secureCrt (Or.inl rfl) b src value (hsafe.secure (Or.inl rfl)) hsrc
    simp only [siteUses, this, Res.obj.injEq] at h
    exact h.1.symm
  | secureCA =>
    have := secure_site_bare_name .secureCA (Or.inr rfl) b src value (hsafe.secure (Or.inr rfl)) hsrc
    simp only [siteUses, this, Res.obj.injEq] at h
    exact h.1.symm
  | authSecret =>
    simp only [siteUses] at h
    split at h
    · rename_i kns kn _
      split at h
      · rename_i hex
        simp only [Res.obj.injEq] at h
        rw [← h.1]; exact hsafe.userlist rfl kns kn hex
      · exact site_reads_only_own .authSecret rfl b src value ns n hb hsrc h
    · exact site_reads_only_own .authSecret rfl b src value ns n hb hsrc h
  | authURL =>
    simp only [siteUses] at h
    split at h
    · simp at h
    · rename_i tns tn hnn
      split at h
      · simp at h
      · rename_i htns
        cases hr : siteResolve .authURL b src value with
        | obj rns rn =>
          have htn := authURL_prebuilt_own b src value tns tn rns rn hb hsrc hnn htns hr
          simp only [hr] at h
          split at h
          · simp only [Res.obj.injEq] at h; rw [← h.1]; exact htn
          · simp at h
        | file p =>
          simp only [hr, Bool.and_false, Bool.false_or] at h
          split at h
          · rename_i hex; simp only [Res.obj.injEq] at h; rw [← h.1]; exact hsafe.backend rfl tns tn hex
          · simp at h
        | denied =>
          simp only [hr, Bool.and_false, Bool.false_or] at h
          split at h
          · rename_i hex; simp only [Res.obj.injEq] at h; rw [← h.1]; exact hsafe.backend rfl tns tn hex
          · simp at h
        | invalid =>
          simp only [hr, Bool.and_false, Bool.false_or] at h
          split at h
          · rename_i hex; simp only [Res.obj.injEq] at h; rw [← h.1]; exact hsafe.backend rfl tns tn hex
          · simp at h

/-! ### noninterference -/

/-- what reaches the configuration, given which objects exist -/
def effect (exist : Str → Str → Bool) : Res → Res
  | .obj ns n => if exist ns n then .obj ns n else .invalid
  | r => r

/-- **noninterference, partial**: two clusters that hold the same objects in the annotated
object's namespace give the same result, whatever else differs (in particular: with and without
any foreign object), while the site's kind is denied and under `SafeUse` -/
theorem noninterference_partial (s : Site) (b : Bits) (ex : Existing) (fi : Bool) (src value : Str)
    (hb : b.get s.kind = false) (hsrc : src ≠ []) (hsafe : SafeUse s ex src value)
    (w w' : Str → Str → Bool) (hagree : ∀ n, w src n = w' src n) :
    effect w (siteUses s b ex fi src value) = effect w' (siteUses s b ex fi src value) := by
  cases hu : siteUses s b ex fi src value with
  | obj ns n =>
    have := isolation_partial s b ex fi src value ns n hb hsrc hsafe hu
    subst this
    simp [effect, hagree n]
  | file p => rfl
  | denied => rfl
  | invalid => rfl

/-- and it fails without the side condition: the secure-crt-secret bypass distinguishes a
cluster with `b/crt` from one without -/
theorem noninterference_fails :
    ∃ (w w' : Str → Str → Bool), (∀ n, w ['a'] n = w' ['a'] n) ∧
      effect w (siteUses .secureCrt Bits.none Existing.none true ['a'] ['b', '/', 'c', 'r', 't']) ≠
      effect w' (siteUses .secureCrt Bits.none Existing.none true ['a'] ['b', '/', 'c', 'r', 't']) :=
  ⟨fun _ _ => true, fun ns _ => ns == ['a'], fun _ => rfl, by decide⟩

/-- non-vacuity of `isolation_partial`: own references resolve, foreign ones are refused -/
example :
    siteUses .tls Bits.none Existing.none true ['a'] ['c', 'r', 't'] = .obj ['a'] ['c', 'r', 't'] ∧
    siteUses .tls Bits.none Existing.none true ['a'] ['b', '/', 'c', 'r', 't'] = .denied ∧
    siteUses .authTLS ⟨true, false, true, true⟩ Existing.none true ['a'] ['b', '/', 'c', 'a'] = .denied ∧
    siteUses .authSecret ⟨true, true, false, true⟩ Existing.none true ['a'] ['b', '/', 'p', 'w'] = .denied ∧
    siteUses .authURL ⟨true, true, true, false⟩ Existing.none true ['a'] ['b', '/', 's', 'v', 'c'] = .denied ∧
    siteUses .authURL Bits.none Existing.none true ['a'] ['s', 'v', 'c'] = .obj ['a'] ['s', 'v', 'c'] ∧
    siteUses .secureCrt Bits.none Existing.none true ['a'] ['c', 'r', 't'] = .obj ['a'] ['c', 'r', 't'] := by
  refine ⟨?_, ?_, ?_, ?_, ?_, ?_, ?_⟩ <;> decide

/-! ### facts regenerated from the Go source -/

set_option maxRecDepth 10000 in
/-- every getter passes its own permission; the name helpers, the regex, buildGlobalDynamic and
validateAllowDeny have the modelled shape; THE TABLE of reference sites; Userlists().Find comes
before the cache; the Gateway converter runs before the ingress converter and only `syncFull`
calls UpdateGlobalConfig.  (A fix of one of the findings changes a fact: the model is then revisited.) -/
theorem facts_c09 :
    Facts.c09GetterPermission =
      ["GetService: defaultNamespace, \"service\", serviceName, c.dynconfig.CrossNamespaceServices",
       "GetTLSSecretPath: defaultNamespace, \"secret\", content, c.dynconfig.CrossNamespaceSecretCertificate",
       "GetCASecretPath: defaultNamespace, \"secret\", content, c.dynconfig.CrossNamespaceSecretCA",
       "GetDHSecretPath: defaultNamespace, \"secret\", content, true",
       "GetPasswdSecretContent: defaultNamespace, \"secret\", content, c.dynconfig.CrossNamespaceSecretPasswd"] ∧
    Facts.c09BuildResourceName.take 9 =
      ["ns, name, err := cache.SplitMetaNamespaceKey(resourceName)", "if err != nil", "return \"\", \"\", err",
       "if defaultNamespace == \"\"", "return ns, name, nil", "if ns == \"\"", "return defaultNamespace, name, nil",
       "if allowCrossNamespace || ns == defaultNamespace", "return ns, name, nil"] ∧
    Facts.c09BuildResourceName.length = 10 ∧
    Facts.c09ContentProtocolRegex = "^([a-z]+)://(.*)$" ∧
    Facts.c09ContentProtocol =
      ["data := contentProtocolRegex.FindStringSubmatch(input)", "if len(data) < 3", "return \"secret\", input",
       "return data[1], data[2]"] ∧
    Facts.c09BuildGlobalDynamic =
      ["staticSecrets := c.options.DynamicConfig.StaticCrossNamespaceSecrets",
       "c.options.DynamicConfig.CrossNamespaceSecretCA = staticSecrets || c.validateAllowDeny(d, ingtypes.GlobalCrossNamespaceSecretsCA)",
       "c.options.DynamicConfig.CrossNamespaceSecretCertificate = staticSecrets || c.validateAllowDeny(d, ingtypes.GlobalCrossNamespaceSecretsCrt)",
       "c.options.DynamicConfig.CrossNamespaceSecretPasswd = staticSecrets || c.validateAllowDeny(d, ingtypes.GlobalCrossNamespaceSecretsPasswd)",
       "c.options.DynamicConfig.CrossNamespaceServices = c.validateAllowDeny(d, ingtypes.GlobalCrossNamespaceServices)"] ∧
    Facts.c09ValidateAllowDeny =
      ["cfg := d.mapper.Get(key)", "value := strings.ToLower(cfg.Value)", "allow = value == \"allow\"",
       "if value != \"\" && value != \"allow\" && value != \"deny\"", "return allow"] ∧
    Facts.c09Sites =
      ["tls: source.Namespace, secretName",
       "gateway-cert: namespace, string(certRef.Name)",
       "auth-tls-secret: tlsSecret.Source.Namespace, tlsSecret.Value",
       "secure-crt-secret: namespace, name",
       "secure-verify-ca-secret: namespace, name",
       "auth-secret: authSecret.Source.Namespace, authSecret.Value",
       "auth-url: namespace, name, urlPort"] ∧
    Facts.c09SecureNamespacedName =
      ["namespace, name, err := crt.NamespacedName()", "namespace, name, err := ca.NamespacedName()"] ∧
    Facts.c09UserlistFindBeforeCache = true ∧
    Facts.c09SyncOrder.getLast? = some "ingressConverter.Sync" ∧
    Facts.c09SyncOrder.head? = some "gatewayConverter.Sync" ∧
    Facts.c09UpdateGlobalConfigCallers = ["syncFull"] := by
  decide

end HapVerif.C09
