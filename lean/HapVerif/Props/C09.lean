import HapVerif.Model.C09
import HapVerif.Generated.Facts
/-!
C09 — cross-namespace isolation.

  * `resolve_own_ns`: `buildResourceName` with the permission off and a default namespace never
    leaves that namespace (all strings).
  * `getter_reads_only_own`, `bits_independent`, `getter_bit_*`: each getter consults exactly
    its own permission.
  * `dyn_*`: `buildGlobalDynamic` — default deny, anything but `allow` denies, a key opens only
    its kind, `--allow-cross-namespace` opens the three secret kinds and not services.
  * `site_reads_only_own`, `reads_only_own`: every reference site (tls secretName, Gateway
    certificateRefs, auth-tls-secret, secure-crt-secret, secure-verify-ca-secret, auth-secret,
    auth-url) only makes the cache read the annotated object's namespace while its kind is denied.
  * `isolation` (FULL STRENGTH, all sites / settings / haproxy-model states / values) and
    `noninterference`; `gateway_sees_current`.
  * historical witnesses of the five repaired paths on the `…Old` definitions
    (`secure_crt_bypass_old`, `secure_ca_bypass_old`, `auth_secret_reuse_bypass_old`,
    `auth_url_findbackend_bypass_old`, `gateway_stale_permission_old`), each paired with the
    repaired model's answer on the same input.
  * `file_form_unchecked`: the known finding — a `file://` value is answered before any permission.
  * the `oauth` site (the auth backend is found by lookup of the `/oauth2` path in the host/path table,
    no key applies): `oauth_backend_same_namespace`, `findBackend_eq_find_ownPaths` (the lookup is a
    function of the declaring namespace's own paths), `oauth_independent_of_foreign`,
    `oauth_lookup_noninterference`, `oauth_found_order_irrelevant` (Go map order), and for the whole
    site `oauth_site_same_namespace`, `oauth_spec_holds`, `oauth_site_noninterference`,
    `oauth_site_independent_of_foreign` — all tables, namespaces, prefixes, configurations;
    `oauth_seeded_picks_foreign`: the seeded variant C09e (hostname first, no namespace test) on `decide`.
-/
namespace HapVerif.C09

/-! ### buildResourceName -/

theorem resolve_own_ns (dns : Str) (key : Option (Str × Str)) (ns n : Str)
    (hd : dns ≠ []) (h : buildResourceNameK dns key false = .obj ns n) : ns = dns := by
  cases key with
  | none => simp [buildResourceNameK] at h
  | some p =>
    rcases p with ⟨kns, kn⟩
    simp only [buildResourceNameK, hd, if_false, Bool.false_or] at h
    by_cases h1 : kns = []
    · simp [h1] at h; exact h.1.symm
    · by_cases h2 : kns = dns
      · subst h2; simp [h1] at h; exact h.1.symm
      · simp [h1, h2] at h

/-- … for every value string -/
theorem resolve_own_ns_str (dns value ns n : Str) (hd : dns ≠ [])
    (h : buildResourceName dns value false = .obj ns n) : ns = dns :=
  resolve_own_ns dns (splitKey value) ns n hd h

/-- with an empty default namespace nothing is checked (operator level references: global
ConfigMap keys, command-line defaults) -/
theorem no_default_no_check (ns n : Str) (allow : Bool) :
    buildResourceNameK [] (some (ns, n)) allow = .obj ns n := by simp [buildResourceNameK]

/-- denial does not depend on whether the object exists: the result is a function of the names only
(no existence oracle) — by construction `buildResourceNameK` has no world argument. -/
example : buildResourceName ['a'] ['b', '/', 'n'] false = .denied ∧
          buildResourceName ['a'] ['b', '/', 'n'] true = .obj ['b'] ['n'] ∧
          buildResourceName ['a'] ['a', '/', 'n'] false = .obj ['a'] ['n'] ∧
          buildResourceName ['a'] ['n'] false = .obj ['a'] ['n'] ∧
          buildResourceName ['a'] ['a', '/', 'b', '/', 'n'] true = .invalid := by decide

/-! ### getters -/

theorem getter_reads_only_own (g : Getter) (b : Bits) (dns value ns n : Str)
    (hb : getterAllow b g = false) (hd : dns ≠ [])
    (h : getterResolve g b dns value = .obj ns n) : ns = dns := by
  cases g with
  | svc =>
    simp only [getterResolve] at h
    simp only [getterAllow] at hb
    rw [hb] at h
    exact resolve_own_ns_str dns value ns n hd h
  | dh => simp [getterAllow] at hb
  | tls =>
    simp only [getterResolve] at h
    split at h
    · split at h <;> simp at h
    · split at h
      · simp at h
      · rw [hb] at h; exact resolve_own_ns_str dns _ ns n hd h
  | ca =>
    simp only [getterResolve] at h
    split at h
    · split at h <;> simp at h
    · split at h
      · simp at h
      · rw [hb] at h; exact resolve_own_ns_str dns _ ns n hd h
  | pw =>
    simp only [getterResolve] at h
    split at h
    · split at h <;> simp at h
    · split at h
      · simp at h
      · rw [hb] at h; exact resolve_own_ns_str dns _ ns n hd h

/-- a getter's answer depends on the settings only through ITS permission -/
theorem bits_independent (g : Getter) (b b' : Bits) (dns value : Str)
    (h : getterAllow b g = getterAllow b' g) :
    getterResolve g b dns value = getterResolve g b' dns value := by
  cases g <;> simp_all [getterResolve, getterAllow]

/-- which field that is: crt → tls, ca → ca, passwd → pw, services → svc (and none for dh) -/
theorem getter_bit_fields (b b' : Bits) (dns value : Str) :
    (b.crt = b'.crt → getterResolve .tls b dns value = getterResolve .tls b' dns value) ∧
    (b.ca = b'.ca → getterResolve .ca b dns value = getterResolve .ca b' dns value) ∧
    (b.pw = b'.pw → getterResolve .pw b dns value = getterResolve .pw b' dns value) ∧
    (b.svc = b'.svc → getterResolve .svc b dns value = getterResolve .svc b' dns value) ∧
    getterResolve .dh b dns value = getterResolve .dh b' dns value :=
  ⟨fun h => bits_independent _ _ _ _ _ (by simpa [getterAllow] using h),
   fun h => bits_independent _ _ _ _ _ (by simpa [getterAllow] using h),
   fun h => bits_independent _ _ _ _ _ (by simpa [getterAllow] using h),
   fun h => bits_independent _ _ _ _ _ (by simpa [getterAllow] using h),
   bits_independent _ _ _ _ _ (by simp [getterAllow])⟩

/-- opening the three other kinds opens nothing for a getter whose own kind is denied -/
example : getterResolve .tls ⟨false, true, true, true⟩ ['a'] ['b', '/', 'n'] = .denied ∧
          getterResolve .ca ⟨true, false, true, true⟩ ['a'] ['b', '/', 'n'] = .denied ∧
          getterResolve .pw ⟨true, true, false, true⟩ ['a'] ['b', '/', 'n'] = .denied ∧
          getterResolve .svc ⟨true, true, true, false⟩ ['a'] ['b', '/', 'n'] = .denied ∧
          getterResolve .tls ⟨true, false, false, false⟩ ['a'] ['b', '/', 'n'] = .obj ['b'] ['n'] := by decide

/-- `secret://ns/name` is the same reference as `ns/name`; `file://` reads no object -/
example : getterResolve .tls Bits.none ['a'] ("secret://b/n".toList) = .denied ∧
          getterResolve .tls Bits.none ['a'] ['s','e','c','r','e','t',':','/','/','a','/','n'] = .obj ['a'] ['n'] ∧
          getterResolve .ca Bits.none ['a'] ['f','i','l','e',':','/','/','/','x'] = .file ['/','x'] := by
  refine ⟨?_, ?_, ?_⟩ <;> decide

/-! ### buildGlobalDynamic -/

theorem dyn_default_deny : buildGlobalDynamic false {} = Bits.none := by decide

theorem dyn_allow_iff (static : Bool) (cm : GlobalCM) (k : Kind) :
    (buildGlobalDynamic static cm).get k = true ↔
      (k ≠ .svc ∧ static = true) ∨
      allowOf (match k with | .crt => cm.crt | .ca => cm.ca | .pw => cm.pw | .svc => cm.svc) = true := by
  cases k <;> cases static <;> simp [buildGlobalDynamic, Bits.get]

/-- only a value that lower-cases to `allow` opens; `deny`, an empty or missing value and every
other text deny -/
theorem allowOf_iff (v : Str) : allowOf v = true ↔ v.map lowerChar = sAllow := by simp [allowOf]

example : allowOf "deny".toList = false ∧ allowOf [] = false ∧ allowOf "yes".toList = false ∧
          allowOf "allowed".toList = false ∧ allowOf " allow".toList = false ∧
          allowOf ['a','l','l','o','w'] = true ∧ allowOf ['A','l','l','O','W'] = true := by
  refine ⟨?_, ?_, ?_, ?_, ?_, ?_, ?_⟩ <;> decide

/-- each key opens only its own kind: a key's value does not influence the three other bits -/
theorem dyn_key_opens_only_its_kind (static : Bool) (cm : GlobalCM) (v : Str) :
    (∀ k, k ≠ .crt → (buildGlobalDynamic static { cm with crt := v }).get k = (buildGlobalDynamic static cm).get k) ∧
    (∀ k, k ≠ .ca → (buildGlobalDynamic static { cm with ca := v }).get k = (buildGlobalDynamic static cm).get k) ∧
    (∀ k, k ≠ .pw → (buildGlobalDynamic static { cm with pw := v }).get k = (buildGlobalDynamic static cm).get k) ∧
    (∀ k, k ≠ .svc → (buildGlobalDynamic static { cm with svc := v }).get k = (buildGlobalDynamic static cm).get k) := by
  refine ⟨?_, ?_, ?_, ?_⟩ <;> intro k hk <;> cases k <;> simp_all [buildGlobalDynamic, Bits.get]

/-- the command-line override opens the three secret kinds and never services -/
theorem dyn_static (cm : GlobalCM) :
    (buildGlobalDynamic true cm).crt = true ∧ (buildGlobalDynamic true cm).ca = true ∧
    (buildGlobalDynamic true cm).pw = true ∧
    (buildGlobalDynamic true cm).svc = (buildGlobalDynamic false cm).svc := by
  simp [buildGlobalDynamic]

/-! ### reference sites -/

/-- every site hands the annotated object's namespace to its getter: while the site's kind is
denied, whatever the cache is asked for lives in that namespace -/
theorem site_reads_only_own (s : Site) (b : Bits) (src value ns n : Str)
    (hb : b.get s.kind = false) (hsrc : src ≠ [])
    (h : siteResolve s b src value = .obj ns n) : ns = src := by
  cases s <;>
    simp only [siteResolve, siteArgs] at h <;>
    exact getter_reads_only_own _ b src value ns n (by simpa [Site.getter, getterAllow, Site.kind, Bits.get] using hb) hsrc h

/-- Gateway references are judged with the permissions of the current global ConfigMap -/
theorem gateway_sees_current (s : Site) (prev cur : Bits) : bitsSeenBy s prev cur = cur := rfl

/-- **isolation** (full strength, every site, every settings, every state of the haproxy model,
every value): while the kind of a site is denied, whatever object reaches the configuration
lives in the namespace of the annotated object -/
theorem isolation (s : Site) (b : Bits) (ex : Existing) (fi : Bool) (src value ns n : Str)
    (hb : b.get s.kind = false) (hsrc : src ≠ [])
    (h : siteUses s b ex fi src value = .obj ns n) : ns = src := by
  cases s with
  | tls => exact site_reads_only_own .tls b src value ns n hb hsrc h
  | gwCert => exact site_reads_only_own .gwCert b src value ns n hb hsrc h
  | authTLS => exact site_reads_only_own .authTLS b src value ns n hb hsrc h
  | secureCrt => exact site_reads_only_own .secureCrt b src value ns n hb hsrc h
  | secureCA => exact site_reads_only_own .secureCA b src value ns n hb hsrc h
  | authSecret => exact site_reads_only_own .authSecret b src value ns n hb hsrc h
  | authURL =>
    have hsvc : b.svc = false := by simpa [Site.kind, Bits.get] using hb
    simp only [siteUses] at h
    split at h
    · simp at h
    · rename_i tns tn hnn
      split at h
      · simp at h
      · split at h
        · simp at h
        · rename_i hchk
          -- the check passed with services denied: the namespace is the annotated object's
          have htns : tns = src := by
            by_cases hx : tns = src
            · exact hx
            · exact absurd ⟨hx, hsvc⟩ hchk
          cases hr : siteResolve .authURL b src value with
          | obj rns rn =>
            simp only [hr] at h
            split at h
            · simp only [Res.obj.injEq] at h; rw [← h.1]; exact htns
            · simp at h
          | file p =>
            simp only [hr, Bool.and_false, Bool.false_or] at h
            split at h
            · simp only [Res.obj.injEq] at h; rw [← h.1]; exact htns
            · simp at h
          | denied =>
            simp only [hr, Bool.and_false, Bool.false_or] at h
            split at h
            · simp only [Res.obj.injEq] at h; rw [← h.1]; exact htns
            · simp at h
          | invalid =>
            simp only [hr, Bool.and_false, Bool.false_or] at h
            split at h
            · simp only [Res.obj.injEq] at h; rw [← h.1]; exact htns
            · simp at h

/-- the reads obey the same rule (auth-url: the pre-build through `GetService`) -/
theorem reads_only_own (s : Site) (b : Bits) (ex : Existing) (fi : Bool) (src value ns n : Str)
    (hb : b.get s.kind = false) (hsrc : src ≠ [])
    (h : siteReads s b ex fi src value = some (.obj ns n)) : ns = src := by
  cases s <;> simp only [siteReads] at h
  case authURL =>
    split at h
    · simp only [Option.some.injEq] at h; exact site_reads_only_own .authURL b src value ns n hb hsrc h
    · simp at h
  all_goals
    simp only [Option.some.injEq] at h
    exact site_reads_only_own _ b src value ns n hb hsrc h

/-! ### noninterference -/

/-- what reaches the configuration, given which objects exist -/
def effect (exist : Str → Str → Bool) : Res → Res
  | .obj ns n => if exist ns n then .obj ns n else .invalid
  | r => r

/-- **noninterference**: two clusters that hold the same objects in the annotated object's
namespace give the same result, whatever else differs (in particular: with and without any
foreign object), while the site's kind is denied -/
theorem noninterference (s : Site) (b : Bits) (ex : Existing) (fi : Bool) (src value : Str)
    (hb : b.get s.kind = false) (hsrc : src ≠ [])
    (w w' : Str → Str → Bool) (hagree : ∀ n, w src n = w' src n) :
    effect w (siteUses s b ex fi src value) = effect w' (siteUses s b ex fi src value) := by
  cases hu : siteUses s b ex fi src value with
  | obj ns n =>
    have := isolation s b ex fi src value ns n hb hsrc hu
    subst this
    simp [effect, hagree n]
  | file p => rfl
  | denied => rfl
  | invalid => rfl

/-- non-vacuity: own references resolve, foreign ones are refused by every site, also when another
namespace's userlist / backend already exist -/
example :
    siteUses .tls Bits.none Existing.none true ['a'] ['c', 'r', 't'] = .obj ['a'] ['c', 'r', 't'] ∧
    siteUses .tls Bits.none Existing.none true ['a'] ['b', '/', 'c', 'r', 't'] = .denied ∧
    siteUses .gwCert Bits.none Existing.none true ['a'] ['b', '/', 'c', 'r', 't'] = .denied ∧
    siteUses .authTLS ⟨true, false, true, true⟩ Existing.none true ['a'] ['b', '/', 'c', 'a'] = .denied ∧
    siteUses .secureCrt ⟨false, true, true, true⟩ Existing.none true ['a'] ['b', '/', 'c', 'r', 't'] = .denied ∧
    siteUses .secureCA ⟨true, false, true, true⟩ Existing.none false ['a'] ['b', '/', 'c', 'a'] = .denied ∧
    siteUses .authSecret ⟨true, true, false, true⟩ Existing.none true ['a'] ['b', '/', 'p', 'w'] = .denied ∧
    siteUses .authURL ⟨true, true, true, false⟩ Existing.none true ['a'] ['b', '/', 's', 'v', 'c'] = .denied ∧
    siteUses .authURL Bits.none Existing.none true ['a'] ['s', 'v', 'c'] = .obj ['a'] ['s', 'v', 'c'] ∧
    siteUses .secureCrt Bits.none Existing.none true ['a'] ['c', 'r', 't'] = .obj ['a'] ['c', 'r', 't'] ∧
    siteUses .secureCrt ⟨true, false, false, false⟩ Existing.none true ['a'] ['b', '/', 'c', 'r', 't'] = .obj ['b'] ['c', 'r', 't'] := by
  refine ⟨?_, ?_, ?_, ?_, ?_, ?_, ?_, ?_, ?_, ?_, ?_⟩ <;> decide

/-! ### historical witnesses: the behaviour before the repairs (definitions `…Old`), and the same
inputs on the repaired model.  Each one is a corpus line of the harness. -/

def exUserlistB : Existing :=
  { userlist := fun ns n => ns == ['b'] && n == ['p', 'w'], backend := fun _ _ => false }
def exBackendB : Existing :=
  { userlist := fun _ _ => false, backend := fun ns n => ns == ['b'] && n == ['s', 'v', 'c'] }

/-- (a) before c70e6fc `secure-crt-secret: b/crt` on an object of namespace `a`, every permission
denied, asked the cache for `b/crt` with default namespace `b` (signature
`foreign-secret-read:secure-crt-secret`, replay `C09 site securecrt ing other 00000 0`) -/
theorem secure_crt_bypass_old :
    siteResolveOld .secureCrt Bits.none ['a'] ['b', '/', 'c', 'r', 't'] = .obj ['b'] ['c', 'r', 't'] ∧
    siteResolve .secureCrt Bits.none ['a'] ['b', '/', 'c', 'r', 't'] = .denied := by
  refine ⟨?_, ?_⟩ <;> decide

/-- same for `secure-verify-ca-secret` (`C09 site secureca svc other 00000 0`) -/
theorem secure_ca_bypass_old :
    siteResolveOld .secureCA Bits.none ['a'] ['b', '/', 'c', 'a'] = .obj ['b'] ['c', 'a'] ∧
    siteResolve .secureCA Bits.none ['a'] ['b', '/', 'c', 'a'] = .denied := by
  refine ⟨?_, ?_⟩ <;> decide

/-- (c) before 6c4b527 `auth-secret: b/pw` reused namespace b's userlist `b_pw` without asking
the cache (`foreign-secret-used:auth-secret`, `C09 site authsecret ing other 00000 1`) -/
theorem auth_secret_reuse_bypass_old :
    siteUsesOld .authSecret Bits.none exUserlistB true ['a'] ['b', '/', 'p', 'w'] = .obj ['b'] ['p', 'w'] ∧
    siteReadsOld .authSecret Bits.none exUserlistB true ['a'] ['b', '/', 'p', 'w'] = none ∧
    siteUses .authSecret Bits.none exUserlistB true ['a'] ['b', '/', 'p', 'w'] = .denied ∧
    siteReads .authSecret Bits.none exUserlistB true ['a'] ['b', '/', 'p', 'w'] = some .denied := by
  refine ⟨?_, ?_, ?_, ?_⟩ <;> decide

/-- (b) before 05277b5 `auth-url: svc://b/svc:port` took the backend another tenant created
(`foreign-service-used:auth-url-svc`, `C09 site authurl ing other 00000 1`) -/
theorem auth_url_findbackend_bypass_old :
    siteUsesOld .authURL Bits.none exBackendB true ['a'] ['b', '/', 's', 'v', 'c'] = .obj ['b'] ['s', 'v', 'c'] ∧
    siteUses .authURL Bits.none exBackendB true ['a'] ['b', '/', 's', 'v', 'c'] = .denied ∧
    siteUses .authURL ⟨false, false, false, true⟩ exBackendB false ['a'] ['b', '/', 's', 'v', 'c'] = .obj ['b'] ['s', 'v', 'c'] := by
  refine ⟨?_, ?_, ?_⟩ <;> decide

/-- (e) before bce3fec Gateway certificateRefs were judged with the permissions of the PREVIOUS
reconciliation (`foreign-secret-read:gateway-certificate-ref`, `C09 site gwcert ing other 00000 2`) -/
theorem gateway_stale_permission_old :
    let prev := buildGlobalDynamic false { crt := sAllow }
    let cur := buildGlobalDynamic false {}
    cur.crt = false ∧
    siteResolve .gwCert (bitsSeenByOld .gwCert prev cur) ['a'] ['b', '/', 'c', 'r', 't'] = .obj ['b'] ['c', 'r', 't'] ∧
    siteResolve .gwCert (bitsSeenBy .gwCert prev cur) ['a'] ['b', '/', 'c', 'r', 't'] = .denied := by
  refine ⟨?_, ?_, ?_⟩ <;> decide

/- KNOWN FINDING (not repaired, outside the namespace model): a `file://` value is a local path
and carries no namespace; `getterResolve` answers `.file` before any permission is consulted.
A namespaced object can therefore name the controller's own copy of another namespace's secret
(`<certs dir>/b_crt.pem`, `<cacerts dir>/ca_b_ca.pem`).  Oracle signatures
`foreign-secret-used:{tls-secret-name,gateway-certificate-ref,secure-crt-secret,secure-verify-ca-secret,auth-tls-secret}-file`. -/
theorem file_form_unchecked (g : Getter) (hg : g = .tls ∨ g = .pw) (b : Bits) (dns path : Str)
    (hp : ∀ c ∈ path, c ≠ '\n') :
    getterResolve g b dns ('f' :: 'i' :: 'l' :: 'e' :: ':' :: '/' :: '/' :: path) = .file path := by
  have hgcp : getContentProtocol ('f' :: 'i' :: 'l' :: 'e' :: ':' :: '/' :: '/' :: path) = (sFile, path) := by
    simp [getContentProtocol, sFile, sSep, isLowerAZ, List.takeWhile]
    intro h; exact absurd rfl (hp _ h)
  rcases hg with rfl | rfl <;> simp [getterResolve, hgcp]

/-! ### the `oauth` site: the auth backend is found by LOOKUP in the host/path table

No value names a resource here and the cache is not asked, so no permission key applies
(`buildOAuth` has no `Bits` argument): the Spec is unconditional. -/

/-- what `findBackend` returns is a path of the table that passed both tests -/
theorem findBackend_some (hosts : List HHost) (ns pfx : Str) (p : HPath)
    (h : findBackend hosts ns pfx = some p) :
    p.ns = ns ∧ trimRightSlash p.path = pfx ∧ ∃ hh ∈ hosts, p ∈ hh.paths := by
  induction hosts with
  | nil => simp [findBackend] at h
  | cons x xs ih =>
    simp only [findBackend] at h
    split at h
    · rename_i q hq
      cases h
      have hc := List.find?_some hq
      have hm := List.mem_of_find?_eq_some hq
      simp only [oauthCandidate, Bool.and_eq_true, beq_iff_eq] at hc
      exact ⟨hc.2, hc.1, x, List.mem_cons_self, hm⟩
    · obtain ⟨a, b, hh, hm, hp⟩ := ih h
      exact ⟨a, b, hh, List.mem_cons_of_mem _ hm, hp⟩

/-- **oauth_backend_same_namespace** (all host/path tables, in every iteration order, all
namespaces and prefixes): the lookup only returns a backend of the declaring namespace -/
theorem oauth_backend_same_namespace (hosts : List HHost) (ns pfx : Str) (p : HPath)
    (h : findBackend hosts ns pfx = some p) : p.ns = ns :=
  (findBackend_some hosts ns pfx p h).1

/-- the lookup is a function of the declaring namespace's own paths only: it is `find?` over them -/
theorem findBackend_eq_find_ownPaths (hosts : List HHost) (ns pfx : Str) :
    findBackend hosts ns pfx = (ownPaths ns hosts).find? (fun p => trimRightSlash p.path == pfx) := by
  induction hosts with
  | nil => simp [findBackend, ownPaths]
  | cons x xs ih =>
    have hx : (x.paths.filter (·.ns == ns)).find? (fun p => trimRightSlash p.path == pfx)
        = x.paths.find? (oauthCandidate ns pfx) := by
      rw [List.find?_filter]
      congr 1
      funext p
      simp only [oauthCandidate]
      cases (p.ns == ns) <;> cases (trimRightSlash p.path == pfx) <;> simp
    have ho : ownPaths ns (x :: xs) = x.paths.filter (·.ns == ns) ++ ownPaths ns xs := by
      simp [ownPaths]
    rw [ho, List.find?_append, hx, ← ih]
    simp only [findBackend]
    cases x.paths.find? (oauthCandidate ns pfx) <;> simp

theorem ownPaths_removeForeign (ns : Str) (hosts : List HHost) :
    ownPaths ns (removeForeign ns hosts) = ownPaths ns hosts := by
  induction hosts with
  | nil => rfl
  | cons x xs ih =>
    simp only [ownPaths, removeForeign, List.map_cons, List.flatMap_cons] at ih ⊢
    rw [ih, List.filter_filter]
    simp

/-- **oauth_independent_of_foreign**: removing every path (hence every Service behind a path) of
the other namespaces does not change what the lookup returns -/
theorem oauth_independent_of_foreign (hosts : List HHost) (ns pfx : Str) :
    findBackend (removeForeign ns hosts) ns pfx = findBackend hosts ns pfx := by
  rw [findBackend_eq_find_ownPaths, findBackend_eq_find_ownPaths, ownPaths_removeForeign]

/-- noninterference of the lookup: two tables with the same own paths give the same answer,
whatever other namespaces declare on the same or on other hostnames -/
theorem oauth_lookup_noninterference (t t' : List HHost) (ns pfx : Str)
    (h : ownPaths ns t = ownPaths ns t') : findBackend t ns pfx = findBackend t' ns pfx := by
  rw [findBackend_eq_find_ownPaths, findBackend_eq_find_ownPaths, h]

theorem findBackend_none_iff (hosts : List HHost) (ns pfx : Str) :
    findBackend hosts ns pfx = none ↔ ∀ h ∈ hosts, ∀ p ∈ h.paths, oauthCandidate ns pfx p = false := by
  induction hosts with
  | nil => simp [findBackend]
  | cons x xs ih =>
    simp only [findBackend]
    cases hx : x.paths.find? (oauthCandidate ns pfx) with
    | some q =>
      simp only [List.mem_cons, forall_eq_or_imp, false_iff, not_and, reduceCtorEq]
      intro hall
      have := hall q (List.mem_of_find?_eq_some hx)
      rw [List.find?_some hx] at this
      exact absurd this (by simp)
    | none =>
      simp only [List.mem_cons, forall_eq_or_imp]
      rw [ih]
      constructor
      · intro h
        refine ⟨?_, h⟩
        intro p hp
        have := List.find?_eq_none.1 hx p hp
        simpa using this
      · exact fun h => h.2

/-- `Hosts().Items()` is a Go map: whether a proxy is found does not depend on the iteration order
(WHICH of several proxies of the namespace is taken does; each of them passes the namespace test) -/
theorem oauth_found_order_irrelevant (hosts hosts' : List HHost) (ns pfx : Str)
    (hperm : hosts.Perm hosts') :
    (findBackend hosts ns pfx).isSome = (findBackend hosts' ns pfx).isSome := by
  have hiff : findBackend hosts ns pfx = none ↔ findBackend hosts' ns pfx = none := by
    rw [findBackend_none_iff, findBackend_none_iff]
    constructor
    · intro H h hm; exact H h (hperm.mem_iff.2 hm)
    · intro H h hm; exact H h (hperm.mem_iff.1 hm)
  cases h1 : findBackend hosts ns pfx <;> cases h2 : findBackend hosts' ns pfx <;> simp_all

/-! #### the stable order of 58bb97c: the hostnames are sorted before the lookup -/

theorem hostLe_trans (a b c : HHost) (h1 : hostLe a b = true) (h2 : hostLe b c = true) : hostLe a c = true := by
  simp only [hostLe, decide_eq_true_eq] at *
  exact List.le_trans h1 h2

theorem hostLe_total (a b : HHost) : (hostLe a b || hostLe b a) = true := by
  simp only [hostLe, Bool.or_eq_true, decide_eq_true_eq]
  exact List.le_total _ _

theorem insertHost_perm (h : HHost) (l : List HHost) : (insertHost h l).Perm (h :: l) := by
  induction l with
  | nil => exact List.Perm.refl _
  | cons x xs ih =>
    simp only [insertHost]
    split
    · exact List.Perm.refl _
    · exact ((List.Perm.cons x ih).trans (List.Perm.swap h x xs))

theorem sortHosts_perm (hosts : List HHost) : (sortHosts hosts).Perm hosts := by
  induction hosts with
  | nil => exact List.Perm.refl _
  | cons x xs ih =>
    show (insertHost x (sortHosts xs)).Perm (x :: xs)
    exact (insertHost_perm x _).trans (List.Perm.cons x ih)

theorem insertHost_pairwise (h : HHost) (l : List HHost) (hl : l.Pairwise (fun a b => hostLe a b = true)) :
    (insertHost h l).Pairwise (fun a b => hostLe a b = true) := by
  induction l with
  | nil => simp [insertHost]
  | cons x xs ih =>
    rw [List.pairwise_cons] at hl
    simp only [insertHost]
    split
    · rename_i hle
      refine List.pairwise_cons.2 ⟨?_, List.pairwise_cons.2 hl⟩
      intro y hy
      rcases List.mem_cons.1 hy with rfl | hy
      · exact hle
      · exact hostLe_trans h x y hle (hl.1 y hy)
    · rename_i hnle
      have hxh : hostLe x h = true := by
        have := hostLe_total h x
        simp only [Bool.or_eq_true] at this
        rcases this with t | t
        · exact absurd t hnle
        · exact t
      refine List.pairwise_cons.2 ⟨?_, ih hl.2⟩
      intro y hy
      rcases List.mem_cons.1 ((insertHost_perm h xs).mem_iff.1 hy) with rfl | hy
      · exact hxh
      · exact hl.1 y hy

theorem sortHosts_pairwise (hosts : List HHost) : (sortHosts hosts).Pairwise (fun a b => hostLe a b = true) := by
  induction hosts with
  | nil => exact List.Pairwise.nil
  | cons x xs ih => exact insertHost_pairwise x _ ih

/-- `Hosts().Items()` is a map: one entry per hostname.  Two listings of the same map (any two
iteration orders) are sorted into the same list -/
theorem sortHosts_eq_of_perm (hosts hosts' : List HHost) (hperm : hosts.Perm hosts')
    (hkey : ∀ a ∈ hosts, ∀ b ∈ hosts, a.hostname = b.hostname → a = b) :
    sortHosts hosts = sortHosts hosts' := by
  have hp : (sortHosts hosts).Perm (sortHosts hosts') :=
    (sortHosts_perm hosts).trans (hperm.trans (sortHosts_perm hosts').symm)
  refine List.Perm.eq_of_pairwise (le := fun a b => hostLe a b = true) ?_ ?_ ?_ hp
  · intro a b ha hb hab hba
    have ha' : a ∈ hosts := (sortHosts_perm hosts).mem_iff.1 ha
    have hb' : b ∈ hosts := hperm.mem_iff.2 ((sortHosts_perm hosts').mem_iff.1 hb)
    simp only [hostLe, decide_eq_true_eq] at hab hba
    exact hkey a ha' b hb' (List.le_antisymm hab hba)
  · exact sortHosts_pairwise hosts
  · exact sortHosts_pairwise hosts'

/-- **findBackendSorted_perm** (58bb97c): with the hostnames sorted the backend found is a function of
the host SET — the Go map order of `Hosts().Items()` decides nothing any more, not even WHICH of
several proxies of the namespace is taken (compare `oauth_found_order_irrelevant`) -/
theorem findBackendSorted_perm (hosts hosts' : List HHost) (ns pfx : Str) (hperm : hosts.Perm hosts')
    (hkey : ∀ a ∈ hosts, ∀ b ∈ hosts, a.hostname = b.hostname → a = b) :
    findBackendSorted hosts ns pfx = findBackendSorted hosts' ns pfx := by
  simp only [findBackendSorted, sortHosts_eq_of_perm hosts hosts' hperm hkey]

/-- everything proved about `findBackend` over EVERY order holds for the sorted one: the backend found
belongs to the declaring namespace, and it is the same with and without the other namespaces' paths -/
theorem findBackendSorted_same_namespace (hosts : List HHost) (ns pfx : Str) (p : HPath)
    (h : findBackendSorted hosts ns pfx = some p) : p.ns = ns :=
  oauth_backend_same_namespace (sortHosts hosts) ns pfx p h

/-- the first proxy of the namespace in hostname order wins, whatever the listing order -/
example :
    findBackendSorted [⟨"h2".toList, [⟨"/oauth2".toList, ['a'], "p2".toList⟩]⟩,
                       ⟨"h0".toList, [⟨"/oauth2".toList, ['b'], "pb".toList⟩]⟩,
                       ⟨"h1".toList, [⟨"/oauth2".toList, ['a'], "p1".toList⟩]⟩] ['a'] "/oauth2".toList
      = some ⟨"/oauth2".toList, ['a'], "p1".toList⟩ ∧
    findBackendSorted [⟨"h1".toList, [⟨"/oauth2".toList, ['a'], "p1".toList⟩]⟩,
                       ⟨"h2".toList, [⟨"/oauth2".toList, ['a'], "p2".toList⟩]⟩,
                       ⟨"h0".toList, [⟨"/oauth2".toList, ['b'], "pb".toList⟩]⟩] ['a'] "/oauth2".toList
      = some ⟨"/oauth2".toList, ['a'], "p1".toList⟩ := by
  refine ⟨?_, ?_⟩ <;> decide

/-- **the site** (all tables, all configurations of the path): an auth backend configured by
`oauth` belongs to the namespace of the annotated object -/
theorem oauth_site_same_namespace (hosts : List HHost) (src : Str) (c : OAuthCfg) (p : HPath) (pfx : Str)
    (h : buildOAuth hosts src c = .proxy p pfx) : p.ns = src := by
  simp only [buildOAuth] at h
  split at h
  · simp at h
  · split at h
    · simp at h
    · split at h
      · simp at h
      · split at h
        · simp at h
        · split at h
          · simp at h
          · rename_i q hq
            simp only [OAuthOut.proxy.injEq] at h
            rw [← h.1]
            exact oauth_backend_same_namespace hosts src _ q hq

/-- the Spec of the site holds on every output of the model -/
theorem oauth_spec_holds (hosts : List HHost) (src : Str) (c : OAuthCfg) :
    oauthSpec src (buildOAuth hosts src c) = true := by
  cases h : buildOAuth hosts src c with
  | proxy p pfx => simp [oauthSpec, oauth_site_same_namespace hosts src c p pfx h]
  | _ => rfl

/-- **noninterference of the site**: the whole outcome (deny / proxy / kept / untouched, and
which proxy) is the same in two worlds whose host/path tables agree on namespace `src`'s paths -/
theorem oauth_site_noninterference (t t' : List HHost) (src : Str) (c : OAuthCfg)
    (h : ownPaths src t = ownPaths src t') : buildOAuth t src c = buildOAuth t' src c := by
  simp only [buildOAuth, oauth_lookup_noninterference t t' src _ h]

/-- … in particular with and without everything the other namespaces declared -/
theorem oauth_site_independent_of_foreign (hosts : List HHost) (src : Str) (c : OAuthCfg) :
    buildOAuth (removeForeign src hosts) src c = buildOAuth hosts src c :=
  oauth_site_noninterference _ _ src c (ownPaths_removeForeign src hosts)

/-- hosts of the witnesses: `app.local` is declared by both namespaces (`/` by a, `/oauth2` by b),
`login.local` holds namespace a's own proxy -/
def hShared : HHost :=
  { hostname := "app.local".toList,
    paths := [⟨"/oauth2".toList, ['b'], "proxy".toList⟩, ⟨['/'], ['a'], "app".toList⟩] }
def hOwn : HHost :=
  { hostname := "login.local".toList, paths := [⟨"/oauth2/".toList, ['a'], "proxy".toList⟩] }
def cfgOAuth : OAuthCfg := { oauth := some sOAuth2Proxy }

/-- non-vacuity: the lookup finds namespace a's own proxy (on another hostname, declared with a
trailing slash), ignores namespace b's one on the protected path's hostname, denies when the
namespace has none, follows `oauth-uri-prefix`, and the other branches of the site are reachable -/
example :
    buildOAuth [hShared, hOwn] ['a'] cfgOAuth = .proxy ⟨"/oauth2/".toList, ['a'], "proxy".toList⟩ sOAuth2Path ∧
    buildOAuth [hOwn, hShared] ['a'] cfgOAuth = .proxy ⟨"/oauth2/".toList, ['a'], "proxy".toList⟩ sOAuth2Path ∧
    buildOAuth [hShared] ['a'] cfgOAuth = .deny ∧
    buildOAuth [hShared] ['b'] cfgOAuth = .proxy ⟨"/oauth2".toList, ['b'], "proxy".toList⟩ sOAuth2Path ∧
    buildOAuth [hShared, hOwn] ['a'] { cfgOAuth with uriPrefix := some "/auth2/".toList } = .deny ∧
    buildOAuth [hShared, hOwn] ['a'] { oauth := some "other".toList } = .deny ∧
    buildOAuth [hShared, hOwn] ['a'] { cfgOAuth with authURL := true } = .kept ∧
    buildOAuth [hShared, hOwn] ['a'] { oauth := none } = .untouched := by
  refine ⟨?_, ?_, ?_, ?_, ?_, ?_, ?_, ?_⟩ <;> decide

/-- SEEDED VARIANT C09e (`findBackendSeeded`: the protected path's hostname first, without the
namespace test): namespace a's path gets namespace b's Service as its auth backend with every key
at deny; without b's path it is denied — the result depends on a foreign object; and a's own proxy
on another hostname does not help.  The code's lookup on the same tables, for comparison.
Replay of the corpus: `C09 oauth ing p - b:h0:h2f6f6175746832:proxy 00000 0`
(signature `foreign-service-used:oauth`). -/
theorem oauth_seeded_picks_foreign :
    buildOAuthSeeded [hShared] ['a'] "app.local".toList cfgOAuth
      = .proxy ⟨"/oauth2".toList, ['b'], "proxy".toList⟩ sOAuth2Path ∧
    oauthSpec ['a'] (buildOAuthSeeded [hShared] ['a'] "app.local".toList cfgOAuth) = false ∧
    buildOAuthSeeded (removeForeign ['a'] [hShared]) ['a'] "app.local".toList cfgOAuth = .deny ∧
    buildOAuthSeeded [hOwn, hShared] ['a'] "app.local".toList cfgOAuth
      = .proxy ⟨"/oauth2".toList, ['b'], "proxy".toList⟩ sOAuth2Path ∧
    buildOAuth [hShared] ['a'] cfgOAuth = .deny ∧
    buildOAuth (removeForeign ['a'] [hShared]) ['a'] cfgOAuth = .deny := by
  refine ⟨?_, ?_, ?_, ?_, ?_, ?_⟩ <;> decide

/-! ### facts regenerated from the Go source -/

set_option maxRecDepth 10000 in
/-- every getter passes its own permission; the name helpers, the regex, buildGlobalDynamic and
validateAllowDeny have the modelled shape; THE TABLE of reference sites (all of them hand over the
annotated object's namespace and the raw value); the cache is asked before Userlists().Find; the
auth-url permission check precedes FindBackend; a certificate taken from a file is parsed; the
ingress converter (which applies the dynamic config in its constructor) is created before any
converter runs; the oauth lookup `findBackend` sorts the hostnames of the host map and is two nested loops
(hostnames in sorted order, paths of the host) with ONE return under the test `trimmed path == prefix && path.Backend.Namespace == namespace`, called once with
the annotation's namespace and the trimmed prefix. -/
theorem facts_c09 :
    Facts.c09GetterPermission =
      ["GetService: defaultNamespace, \"service\", serviceName, c.dynconfig.CrossNamespaceServices",
       "GetTLSSecretPath: defaultNamespace, \"secret\", content, c.dynconfig.CrossNamespaceSecretCertificate",
       "GetCASecretPath: defaultNamespace, \"secret\", content, c.dynconfig.CrossNamespaceSecretCA",
       "GetDHSecretPath: defaultNamespace, \"secret\", content, true",
       "GetPasswdSecretContent: defaultNamespace, \"secret\", content, c.dynconfig.CrossNamespaceSecretPasswd"] ∧
    Facts.c09BuildResourceName.take 9 =
      ["ns, name, err := cache.SplitMetaNamespaceKey(resourceName)", "if err != nil", "return \"\", \"\", err",
       "if defaultNamespace == \"\"", "return ns, name, nil", "if ns == \"\"", "return defaultNamespace, name, nil",
       "if allowCrossNamespace || ns == defaultNamespace", "return ns, name, nil"] ∧
    Facts.c09BuildResourceName.length = 10 ∧
    Facts.c09ContentProtocolRegex = "^([a-z]+)://(.*)$" ∧
    Facts.c09ContentProtocol =
      ["data := contentProtocolRegex.FindStringSubmatch(input)", "if len(data) < 3", "return \"secret\", input",
       "return data[1], data[2]"] ∧
    Facts.c09BuildGlobalDynamic =
      ["staticSecrets := c.options.DynamicConfig.StaticCrossNamespaceSecrets",
       "c.options.DynamicConfig.CrossNamespaceSecretCA = staticSecrets || c.validateAllowDeny(d, ingtypes.GlobalCrossNamespaceSecretsCA)",
       "c.options.DynamicConfig.CrossNamespaceSecretCertificate = staticSecrets || c.validateAllowDeny(d, ingtypes.GlobalCrossNamespaceSecretsCrt)",
       "c.options.DynamicConfig.CrossNamespaceSecretPasswd = staticSecrets || c.validateAllowDeny(d, ingtypes.GlobalCrossNamespaceSecretsPasswd)",
       "c.options.DynamicConfig.CrossNamespaceServices = c.validateAllowDeny(d, ingtypes.GlobalCrossNamespaceServices)"] ∧
    Facts.c09ValidateAllowDeny =
      ["cfg := d.mapper.Get(key)", "value := strings.ToLower(cfg.Value)", "allow = value == \"allow\"",
       "if value != \"\" && value != \"allow\" && value != \"deny\"", "return allow"] ∧
    Facts.c09Sites =
      ["tls: source.Namespace, secretName",
       "gateway-cert: namespace, string(certRef.Name)",
       "auth-tls-secret: tlsSecret.Source.Namespace, tlsSecret.Value",
       "secure-crt-secret: defaultNamespace, crt.Value",
       "secure-verify-ca-secret: defaultNamespace, ca.Value",
       "auth-secret: authSecret.Source.Namespace, authSecret.Value",
       "auth-url: namespace, name, urlPort"] ∧
    Facts.c09SecureDefaultNamespace =
      ["defaultNamespace, err := crt.defaultNamespace()", "defaultNamespace, err := ca.defaultNamespace()"] ∧
    Facts.c09DefaultNamespace.take 2 = ["if cv.Source != nil", "return cv.Source.Namespace, nil"] ∧
    Facts.c09CacheBeforeUserlistFind = true ∧
    Facts.c09AuthURLCheck =
      ["url.Source != nil && namespace != url.Source.Namespace && !c.options.DynamicConfig.CrossNamespaceServices"] ∧
    Facts.c09AuthURLCheckBeforeFind = true ∧
    -- findBackend since 58bb97c: the hostnames of the map are collected, sorted, and each host is looked up in
    -- that order (model: `findBackendSorted`); ONE return under the test with the namespace comparison
    Facts.c09FindBackend =
      ["hosts := c.haproxy.Hosts().Items()", "hostnames := make([]string, 0, len(hosts))",
       "hostnames = append(hostnames, hostname)", "host := hosts[hostname]",
       "if strings.TrimRight(path.Path(), \"/\") == uriPrefix && path.Backend.Namespace == namespace",
       "return &path.Backend", "return nil"] ∧
    Facts.c09FindBackendRanges = ["hosts", "hostnames", "host.Paths"] ∧
    Facts.c09FindBackendSort = ["hostnames"] ∧
    Facts.c09OAuthFindBackendArgs = ["namespace, uriPrefix"] ∧
    Facts.c09OAuthNamespaceAndPrefix =
      ["uriPrefix := \"/oauth2\"", "uriPrefix = prefix.Value", "uriPrefix = strings.TrimRight(uriPrefix, \"/\")",
       "namespace := oauth.Source.Namespace"] ∧
    Facts.c09ReadCertificateFileCalls = 1 ∧
    Facts.c09SyncOrder.getLast? = some "ingressConverter.Sync" ∧
    Facts.c09SyncOrder.head? = some "gatewayConverter.Sync" ∧
    Facts.c09IngressConverterCreatedFirst = true ∧
    Facts.c09NewConverterDynamic = ["options, c.globalConfig"] ∧
    Facts.c09UpdateDynamicConfig =
      ["if options.DynamicConfig == nil", "return", "c := &updater{options: options, logger: options.Logger}"] := by
  decide

end HapVerif.C09
