import HapVerif.Model.C09
namespace HapVerif.C09
end HapVerif.C09
