import HapVerif.Model.C09
import HapVerif.Generated.Facts
/-!
C09 — cross-namespace isolation.

  * `resolve_own_ns`: `buildResourceName` with the permission off and a default namespace never
    leaves that namespace (all strings).
  * `getter_reads_only_own`, `bits_independent`, `getter_bit_*`: each getter consults exactly
    its own permission.
  * `dyn_*`: `buildGlobalDynamic` — default deny, anything but `allow` denies, a key opens only
    its kind, `--allow-cross-namespace` opens the three secret kinds and not services.
  * `site_reads_only_own`, `reads_only_own`: every reference site (tls secretName, Gateway
    certificateRefs, auth-tls-secret, secure-crt-secret, secure-verify-ca-secret, auth-secret,
    auth-url) only makes the cache read the annotated object's namespace while its kind is denied.
  * `isolation` (FULL STRENGTH, all sites / settings / haproxy-model states / values) and
    `noninterference`; `gateway_sees_current`.
  * historical witnesses of the five repaired paths on the `…Old` definitions
    (`secure_crt_bypass_old`, `secure_ca_bypass_old`, `auth_secret_reuse_bypass_old`,
    `auth_url_findbackend_bypass_old`, `gateway_stale_permission_old`), each paired with the
    repaired model's answer on the same input.
  * `file_form_unchecked`: the known finding — a `file://` value is answered before any permission.
-/
namespace HapVerif.C09

/-! ### buildResourceName -/

theorem resolve_own_ns (dns : Str) (key : Option (Str × Str)) (ns n : Str)
    (hd : dns ≠ []) (h : buildResourceNameK dns key false = .obj ns n) : ns = dns := by
  cases key with
  | none => simp [buildResourceNameK] at h
  | some p =>
    rcases p with ⟨kns, kn⟩
    simp only [buildResourceNameK, hd, if_false, Bool.false_or] at h
    by_cases h1 : kns = []
    · simp [h1] at h; exact h.1.symm
    · by_cases h2 : kns = dns
      · subst h2; simp [h1] at h; exact h.1.symm
      · simp [h1, h2] at h

/-- … for every value string -/
theorem resolve_own_ns_str (dns value ns n : Str) (hd : dns ≠ [])
    (h : buildResourceName dns value false = .obj ns n) : ns = dns :=
  resolve_own_ns dns (splitKey value) ns n hd h

/-- with an empty default namespace nothing is checked (operator level references: global
ConfigMap keys, command-line defaults) -/
theorem no_default_no_check (ns n : Str) (allow : Bool) :
    buildResourceNameK [] (some (ns, n)) allow = .obj ns n := by simp [buildResourceNameK]

/-- denial does not depend on whether the object exists: the result is a function of the names only
(no existence oracle) — by construction `buildResourceNameK` has no world argument. -/
example : buildResourceName ['a'] ['b', '/', 'n'] false = .denied ∧
          buildResourceName ['a'] ['b', '/', 'n'] true = .obj ['b'] ['n'] ∧
          buildResourceName ['a'] ['a', '/', 'n'] false = .obj ['a'] ['n'] ∧
          buildResourceName ['a'] ['n'] false = .obj ['a'] ['n'] ∧
          buildResourceName ['a'] ['a', '/', 'b', '/', 'n'] true = .invalid := by decide

/-! ### getters -/

theorem getter_reads_only_own (g : Getter) (b : Bits) (dns value ns n : Str)
    (hb : getterAllow b g = false) (hd : dns ≠ [])
    (h : getterResolve g b dns value = .obj ns n) : ns = dns := by
  cases g with
  | svc =>
    simp only [getterResolve] at h
    simp only [getterAllow] at hb
    rw [hb] at h
    exact resolve_own_ns_str dns value ns n hd h
  | dh => simp [getterAllow] at hb
  | tls =>
    simp only [getterResolve] at h
    split at h
    · split at h <;> simp at h
    · split at h
      · simp at h
      · rw [hb] at h; exact resolve_own_ns_str dns _ ns n hd h
  | ca =>
    simp only [getterResolve] at h
    split at h
    · split at h <;> simp at h
    · split at h
      · simp at h
      · rw [hb] at h; exact resolve_own_ns_str dns _ ns n hd h
  | pw =>
    simp only [getterResolve] at h
    split at h
    · split at h <;> simp at h
    · split at h
      · simp at h
      · rw [hb] at h; exact resolve_own_ns_str dns _ ns n hd h

/-- a getter's answer depends on the settings only through ITS permission -/
theorem bits_independent (g : Getter) (b b' : Bits) (dns value : Str)
    (h : getterAllow b g = getterAllow b' g) :
    getterResolve g b dns value = getterResolve g b' dns value := by
  cases g <;> simp_all [getterResolve, getterAllow]

/-- which field that is: crt → tls, ca → ca, passwd → pw, services → svc (and none for dh) -/
theorem getter_bit_fields (b b' : Bits) (dns value : Str) :
    (b.crt = b'.crt → getterResolve .tls b dns value = getterResolve .tls b' dns value) ∧
    (b.ca = b'.ca → getterResolve .ca b dns value = getterResolve .ca b' dns value) ∧
    (b.pw = b'.pw → getterResolve .pw b dns value = getterResolve .pw b' dns value) ∧
    (b.svc = b'.svc → getterResolve .svc b dns value = getterResolve .svc b' dns value) ∧
    getterResolve .dh b dns value = getterResolve .dh b' dns value :=
  ⟨fun h => bits_independent _ _ _ _ _ (by simpa [getterAllow] using h),
   fun h => bits_independent _ _ _ _ _ (by simpa [getterAllow] using h),
   fun h => bits_independent _ _ _ _ _ (by simpa [getterAllow] using h),
   fun h => bits_independent _ _ _ _ _ (by simpa [getterAllow] using h),
   bits_independent _ _ _ _ _ (by simp [getterAllow])⟩

/-- opening the three other kinds opens nothing for a getter whose own kind is denied -/
example : getterResolve .tls ⟨false, true, true, true⟩ ['a'] ['b', '/', 'n'] = .denied ∧
          getterResolve .ca ⟨true, false, true, true⟩ ['a'] ['b', '/', 'n'] = .denied ∧
          getterResolve .pw ⟨true, true, false, true⟩ ['a'] ['b', '/', 'n'] = .denied ∧
          getterResolve .svc ⟨true, true, true, false⟩ ['a'] ['b', '/', 'n'] = .denied ∧
          getterResolve .tls ⟨true, false, false, false⟩ ['a'] ['b', '/', 'n'] = .obj ['b'] ['n'] := by decide

/-- `secret://ns/name` is the same reference as `ns/name`; `file://` reads no object -/
example : getterResolve .tls Bits.none ['a'] ("secret://b/n".toList) = .denied ∧
          getterResolve .tls Bits.none ['a'] ['s','e','c','r','e','t',':','/','/','a','/','n'] = .obj ['a'] ['n'] ∧
          getterResolve .ca Bits.none ['a'] ['f','i','l','e',':','/','/','/','x'] = .file ['/','x'] := by
  refine ⟨?_, ?_, ?_⟩ <;> decide

/-! ### buildGlobalDynamic -/

theorem dyn_default_deny : buildGlobalDynamic false {} = Bits.none := by decide

theorem dyn_allow_iff (static : Bool) (cm : GlobalCM) (k : Kind) :
    (buildGlobalDynamic static cm).get k = true ↔
      (k ≠ .svc ∧ static = true) ∨
      allowOf (match k with | .crt => cm.crt | .ca => cm.ca | .pw => cm.pw | .svc => cm.svc) = true := by
  cases k <;> cases static <;> simp [buildGlobalDynamic, Bits.get]

/-- only a value that lower-cases to `allow` opens; `deny`, an empty or missing value and every
other text deny -/
theorem allowOf_iff (v : Str) : allowOf v = true ↔ v.map lowerChar = sAllow := by simp [allowOf]

example : allowOf "deny".toList = false ∧ allowOf [] = false ∧ allowOf "yes".toList = false ∧
          allowOf "allowed".toList = false ∧ allowOf " allow".toList = false ∧
          allowOf ['a','l','l','o','w'] = true ∧ allowOf ['A','l','l','O','W'] = true := by
  refine ⟨?_, ?_, ?_, ?_, ?_, ?_, ?_⟩ <;> decide

/-- each key opens only its own kind: a key's value does not influence the three other bits -/
theorem dyn_key_opens_only_its_kind (static : Bool) (cm : GlobalCM) (v : Str) :
    (∀ k, k ≠ .crt → (buildGlobalDynamic static { cm with crt := v }).get k = (buildGlobalDynamic static cm).get k) ∧
    (∀ k, k ≠ .ca → (buildGlobalDynamic static { cm with ca := v }).get k = (buildGlobalDynamic static cm).get k) ∧
    (∀ k, k ≠ .pw → (buildGlobalDynamic static { cm with pw := v }).get k = (buildGlobalDynamic static cm).get k) ∧
    (∀ k, k ≠ .svc → (buildGlobalDynamic static { cm with svc := v }).get k = (buildGlobalDynamic static cm).get k) := by
  refine ⟨?_, ?_, ?_, ?_⟩ <;> intro k hk <;> cases k <;> simp_all [buildGlobalDynamic, Bits.get]

/-- the command-line override opens the three secret kinds and never services -/
theorem dyn_static (cm : GlobalCM) :
    (buildGlobalDynamic true cm).crt = true ∧ (buildGlobalDynamic true cm).ca = true ∧
    (buildGlobalDynamic true cm).pw = true ∧
    (buildGlobalDynamic true cm).svc = (buildGlobalDynamic false cm).svc := by
  simp [buildGlobalDynamic]

/-! ### reference sites -/

/-- every site hands the annotated object's namespace to its getter: while the site's kind is
denied, whatever the cache is asked for lives in that namespace -/
theorem site_reads_only_own (s : Site) (b : Bits) (src value ns n : Str)
    (hb : b.get s.kind = false) (hsrc : src ≠ [])
    (h : siteResolve s b src value = .obj ns n) : ns = src := by
  cases s <;>
    simp only [siteResolve, siteArgs] at h <;>
    exact getter_reads_only_own _ b src value ns n (by simpa [Site.getter, getterAllow, Site.kind, Bits.get] using hb) hsrc h

/-- Gateway references are judged with the permissions of the current global ConfigMap -/
theorem gateway_sees_current (s : Site) (prev cur : Bits) : bitsSeenBy s prev cur = cur := rfl

/-- **isolation** (full strength, every site, every settings, every state of the haproxy model,
every value): while the kind of a site is denied, whatever object reaches the configuration
lives in the namespace of the annotated object -/
theorem isolation (s : Site) (b : Bits) (ex : Existing) (fi : Bool) (src value ns n : Str)
    (hb : b.get s.kind = false) (hsrc : src ≠ [])
    (h : siteUses s b ex fi src value = .obj ns n) : ns = src := by
  cases s with
  | tls => exact site_reads_only_own .tls b src value ns n hb hsrc h
  | gwCert => exact site_reads_only_own .gwCert b src value ns n hb hsrc h
  | authTLS => exact site_reads_only_own .authTLS b src value ns n hb hsrc h
  | secureCrt => exact site_reads_only_own .secureCrt b src value ns n hb hsrc h
  | secureCA => exact site_reads_only_own .secureCA b src value ns n hb hsrc h
  | authSecret => exact site_reads_only_own .authSecret b src value ns n hb hsrc h
  | authURL =>
    have hsvc : b.svc = false := by simpa [Site.kind, Bits.get] using hb
    simp only [siteUses] at h
    split at h
    · simp at h
    · rename_i tns tn hnn
      split at h
      · simp at h
      · split at h
        · simp at h
        · rename_i hchk
          -- the check passed with services denied: the namespace is the annotated object's
          have htns : tns = src := by
            by_cases hx : tns = src
            · exact hx
            · exact absurd ⟨hx, hsvc⟩ hchk
          cases hr : siteResolve .authURL b src value with
          | obj rns rn =>
            simp only [hr] at h
            split at h
            · simp only [Res.obj.injEq] at h; rw [← h.1]; exact htns
            · simp at h
          | file p =>
            simp only [hr, Bool.and_false, Bool.false_or] at h
            split at h
            · simp only [Res.obj.injEq] at h; rw [← h.1]; exact htns
            · simp at h
          | denied =>
            simp only [hr, Bool.and_false, Bool.false_or] at h
            split at h
            · simp only [Res.obj.injEq] at h; rw [← h.1]; exact htns
            · simp at h
          | invalid =>
            simp only [hr, Bool.and_false, Bool.false_or] at h
            split at h
            · simp only [Res.obj.injEq] at h; rw [← h.1]; exact htns
            · simp at h

/-- the reads obey the same rule (auth-url: the pre-build through `GetService`) -/
theorem reads_only_own (s : Site) (b : Bits) (ex : Existing) (fi : Bool) (src value ns n : Str)
    (hb : b.get s.kind = false) (hsrc : src ≠ [])
    (h : siteReads s b ex fi src value = some (.obj ns n)) : ns = src := by
  cases s <;> simp only [siteReads] at h
  case authURL =>
    split at h
    · simp only [Option.some.injEq] at h; exact site_reads_only_own .authURL b src value ns n hb hsrc h
    · simp at h
  all_goals
    simp only [Option.some.injEq] at h
    exact site_reads_only_own _ b src value ns n hb hsrc h

/-! ### noninterference -/

/-- what reaches the configuration, given which objects exist -/
def effect (exist : Str → Str → Bool) : Res → Res
  | .obj ns n => if exist ns n then .obj ns n else .invalid
  | r => r

/-- **noninterference**: two clusters that hold the same objects in the annotated object's
namespace give the same result, whatever else differs (in particular: with and without any
foreign object), while the site's kind is denied -/
theorem noninterference (s : Site) (b : Bits) (ex : Existing) (fi : Bool) (src value : Str)
    (hb : b.get s.kind = false) (hsrc : src ≠ [])
    (w w' : Str → Str → Bool) (hagree : ∀ n, w src n = w' src n) :
    effect w (siteUses s b ex fi src value) = effect w' (siteUses s b ex fi src value) := by
  cases hu : siteUses s b ex fi src value with
  | obj ns n =>
    have := isolation s b ex fi src value ns n hb hsrc hu
    subst this
    simp [effect, hagree n]
  | file p => rfl
  | denied => rfl
  | invalid => rfl

/-- non-vacuity: own references resolve, foreign ones are refused by every site, also when another
namespace's userlist / backend already exist -/
example :
    siteUses .tls Bits.none Existing.none true ['a'] ['c', 'r', 't'] = .obj ['a'] ['c', 'r', 't'] ∧
    siteUses .tls Bits.none Existing.none true ['a'] ['b', '/', 'c', 'r', 't'] = .denied ∧
    siteUses .gwCert Bits.none Existing.none true ['a'] ['b', '/', 'c', 'r', 't'] = .denied ∧
    siteUses .authTLS ⟨true, false, true, true⟩ Existing.none true ['a'] ['b', '/', 'c', 'a'] = .denied ∧
    siteUses .secureCrt ⟨false, true, true, true⟩ Existing.none true ['a'] ['b', '/', 'c', 'r', 't'] = .denied ∧
    siteUses .secureCA ⟨true, false, true, true⟩ Existing.none false ['a'] ['b', '/', 'c', 'a'] = .denied ∧
    siteUses .authSecret ⟨true, true, false, true⟩ Existing.none true ['a'] ['b', '/', 'p', 'w'] = .denied ∧
    siteUses .authURL ⟨true, true, true, false⟩ Existing.none true ['a'] ['b', '/', 's', 'v', 'c'] = .denied ∧
    siteUses .authURL Bits.none Existing.none true ['a'] ['s', 'v', 'c'] = .obj ['a'] ['s', 'v', 'c'] ∧
    siteUses .secureCrt Bits.none Existing.none true ['a'] ['c', 'r', 't'] = .obj ['a'] ['c', 'r', 't'] ∧
    siteUses .secureCrt ⟨true, false, false, false⟩ Existing.none true ['a'] ['b', '/', 'c', 'r', 't'] = .obj ['b'] ['c', 'r', 't'] := by
  refine ⟨?_, ?_, ?_, ?_, ?_, ?_, ?_, ?_, ?_, ?_, ?_⟩ <;> decide

/-! ### historical witnesses: the behaviour before the repairs (definitions `…Old`), and the same
inputs on the repaired model.  Each one is a corpus line of the harness. -/

def exUserlistB : Existing :=
  { userlist := fun ns n => ns == ['b'] && n == ['p', 'w'], backend := fun _ _ => false }
def exBackendB : Existing :=
  { userlist := fun _ _ => false, backend := fun ns n => ns == ['b'] && n == ['s', 'v', 'c'] }

/-- (a) before c70e6fc `secure-crt-secret: b/crt` on an object of namespace `a`, every permission
denied, asked the cache for `b/crt` with default namespace `b` (signature
`foreign-secret-read:secure-crt-secret`, replay `C09 site securecrt ing other 00000 0`) -/
theorem secure_crt_bypass_old :
    siteResolveOld .secureCrt Bits.none ['a'] ['b', '/', 'c', 'r', 't'] = .obj ['b'] ['c', 'r', 't'] ∧
    siteResolve .secureCrt Bits.none ['a'] ['b', '/', 'c', 'r', 't'] = .denied := by
  refine ⟨?_, ?_⟩ <;> decide

/-- same for `secure-verify-ca-secret` (`C09 site secureca svc other 00000 0`) -/
theorem secure_ca_bypass_old :
    siteResolveOld .secureCA Bits.none ['a'] ['b', '/', 'c', 'a'] = .obj ['b'] ['c', 'a'] ∧
    siteResolve .secureCA Bits.none ['a'] ['b', '/', 'c', 'a'] = .denied := by
  refine ⟨?_, ?_⟩ <;> decide

/-- (c) before 6c4b527 `auth-secret: b/pw` reused namespace b's userlist `b_pw` without asking
the cache (`foreign-secret-used:auth-secret`, `C09 site authsecret ing other 00000 1`) -/
theorem auth_secret_reuse_bypass_old :
    siteUsesOld .authSecret Bits.none exUserlistB true ['a'] ['b', '/', 'p', 'w'] = .obj ['b'] ['p', 'w'] ∧
    siteReadsOld .authSecret Bits.none exUserlistB true ['a'] ['b', '/', 'p', 'w'] = none ∧
    siteUses .authSecret Bits.none exUserlistB true ['a'] ['b', '/', 'p', 'w'] = .denied ∧
    siteReads .authSecret Bits.none exUserlistB true ['a'] ['b', '/', 'p', 'w'] = some .denied := by
  refine ⟨?_, ?_, ?_, ?_⟩ <;> decide

/-- (b) before 05277b5 `auth-url: svc://b/svc:port` took the backend another tenant created
(`foreign-service-used:auth-url-svc`, `C09 site authurl ing other 00000 1`) -/
theorem auth_url_findbackend_bypass_old :
    siteUsesOld .authURL Bits.none exBackendB true ['a'] ['b', '/', 's', 'v', 'c'] = .obj ['b'] ['s', 'v', 'c'] ∧
    siteUses .authURL Bits.none exBackendB true ['a'] ['b', '/', 's', 'v', 'c'] = .denied ∧
    siteUses .authURL ⟨false, false, false, true⟩ exBackendB false ['a'] ['b', '/', 's', 'v', 'c'] = .obj ['b'] ['s', 'v', 'c'] := by
  refine ⟨?_, ?_, ?_⟩ <;> decide

/-- (e) before bce3fec Gateway certificateRefs were judged with the permissions of the PREVIOUS
reconciliation (`foreign-secret-read:gateway-certificate-ref`, `C09 site gwcert ing other 00000 2`) -/
theorem gateway_stale_permission_old :
    let prev := buildGlobalDynamic false { crt := sAllow }
    let cur := buildGlobalDynamic false {}
    cur.crt = false ∧
    siteResolve .gwCert (bitsSeenByOld .gwCert prev cur) ['a'] ['b', '/', 'c', 'r', 't'] = .obj ['b'] ['c', 'r', 't'] ∧
    siteResolve .gwCert (bitsSeenBy .gwCert prev cur) ['a'] ['b', '/', 'c', 'r', 't'] = .denied := by
  refine ⟨?_, ?_, ?_⟩ <;> decide

/- KNOWN FINDING (not repaired, outside the namespace model): a `file://` value is a local path
and carries no namespace; `getterResolve` answers `.file` before any permission is consulted.
A namespaced object can therefore name the controller's own copy of another namespace's secret
(`<certs dir>/b_crt.pem`, `<cacerts dir>/ca_b_ca.pem`).  Oracle signatures
`foreign-secret-used:{tls-secret-name,gateway-certificate-ref,secure-crt-secret,secure-verify-ca-secret,auth-tls-secret}-file`. -/
theorem file_form_unchecked (g : Getter) (hg : g = .tls ∨ g = .pw) (b : Bits) (dns path : Str)
    (hp : ∀ c ∈ path, c ≠ '\n') :
    getterResolve g b dns ('f' :: 'i' :: 'l' :: 'e' :: ':' :: '/' :: '/' :: path) = .file path := by
  have hgcp : getContentProtocol ('f' :: 'i' :: 'l' :: 'e' :: ':' :: '/' :: '/' :: path) = (sFile, path) := by
    simp [getContentProtocol, sFile, sSep, isLowerAZ, List.takeWhile]
    intro h; exact absurd rfl (hp _ h)
  rcases hg with rfl | rfl <;> simp [getterResolve, hgcp]

/-! ### facts regenerated from the Go source -/

set_option maxRecDepth 10000 in
/-- every getter passes its own permission; the name helpers, the regex, buildGlobalDynamic and
validateAllowDeny have the modelled shape; THE TABLE of reference sites (all of them hand over the
annotated object's namespace and the raw value); the cache is asked before Userlists().Find; the
auth-url permission check precedes FindBackend; a certificate taken from a file is parsed; the
ingress converter (which applies the dynamic config in its constructor) is created before any
converter runs. -/
theorem facts_c09 :
    Facts.c09GetterPermission =
      ["GetService: defaultNamespace, \"service\", serviceName, c.dynconfig.CrossNamespaceServices",
       "GetTLSSecretPath: defaultNamespace, \"secret\", content, c.dynconfig.CrossNamespaceSecretCertificate",
       "GetCASecretPath: defaultNamespace, \"secret\", content, c.dynconfig.CrossNamespaceSecretCA",
       "GetDHSecretPath: defaultNamespace, \"secret\", content, true",
       "GetPasswdSecretContent: defaultNamespace, \"secret\", content, c.dynconfig.CrossNamespaceSecretPasswd"] ∧
    Facts.c09BuildResourceName.take 9 =
      ["ns, name, err := cache.SplitMetaNamespaceKey(resourceName)", "if err != nil", "return \"\", \"\", err",
       "if defaultNamespace == \"\"", "return ns, name, nil", "if ns == \"\"", "return defaultNamespace, name, nil",
       "if allowCrossNamespace || ns == defaultNamespace", "return ns, name, nil"] ∧
    Facts.c09BuildResourceName.length = 10 ∧
    Facts.c09ContentProtocolRegex = "^([a-z]+)://(.*)$" ∧
    Facts.c09ContentProtocol =
      ["data := contentProtocolRegex.FindStringSubmatch(input)", "if len(data) < 3", "return \"secret\", input",
       "return data[1], data[2]"] ∧
    Facts.c09BuildGlobalDynamic =
      ["staticSecrets := c.options.DynamicConfig.StaticCrossNamespaceSecrets",
       "c.options.DynamicConfig.CrossNamespaceSecretCA = staticSecrets || c.validateAllowDeny(d, ingtypes.GlobalCrossNamespaceSecretsCA)",
       "c.options.DynamicConfig.CrossNamespaceSecretCertificate = staticSecrets || c.validateAllowDeny(d, ingtypes.GlobalCrossNamespaceSecretsCrt)",
       "c.options.DynamicConfig.CrossNamespaceSecretPasswd = staticSecrets || c.validateAllowDeny(d, ingtypes.GlobalCrossNamespaceSecretsPasswd)",
       "c.options.DynamicConfig.CrossNamespaceServices = c.validateAllowDeny(d, ingtypes.GlobalCrossNamespaceServices)"] ∧
    Facts.c09ValidateAllowDeny =
      ["cfg := d.mapper.Get(key)", "value := strings.ToLower(cfg.Value)", "allow = value == \"allow\"",
       "if value != \"\" && value != \"allow\" && value != \"deny\"", "return allow"] ∧
    Facts.c09Sites =
      ["tls: source.Namespace, secretName",
       "gateway-cert: namespace, string(certRef.Name)",
       "auth-tls-secret: tlsSecret.Source.Namespace, tlsSecret.Value",
       "secure-crt-secret: defaultNamespace, crt.Value",
       "secure-verify-ca-secret: defaultNamespace, ca.Value",
       "auth-secret: authSecret.Source.Namespace, authSecret.Value",
       "auth-url: namespace, name, urlPort"] ∧
    Facts.c09SecureDefaultNamespace =
      ["defaultNamespace, err := crt.defaultNamespace()", "defaultNamespace, err := ca.defaultNamespace()"] ∧
    Facts.c09DefaultNamespace.take 2 = ["if cv.Source != nil", "return cv.Source.Namespace, nil"] ∧
    Facts.c09CacheBeforeUserlistFind = true ∧
    Facts.c09AuthURLCheck =
      ["url.Source != nil && namespace != url.Source.Namespace && !c.options.DynamicConfig.CrossNamespaceServices"] ∧
    Facts.c09AuthURLCheckBeforeFind = true ∧
    Facts.c09ReadCertificateFileCalls = 1 ∧
    Facts.c09SyncOrder.getLast? = some "ingressConverter.Sync" ∧
    Facts.c09SyncOrder.head? = some "gatewayConverter.Sync" ∧
    Facts.c09IngressConverterCreatedFirst = true ∧
    Facts.c09NewConverterDynamic = ["options, c.globalConfig"] ∧
    Facts.c09UpdateDynamicConfig =
      ["if options.DynamicConfig == nil", "return", "c := &updater{options: options, logger: options.Logger}"] := by
  decide

end HapVerif.C09
