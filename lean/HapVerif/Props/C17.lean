import HapVerif.Lemmas.C17
import HapVerif.Generated.Facts
/-!
# C17 — ACME: certificates requested exactly when needed; the queue tracks Ingress changes

Models (`HapVerif.Model.C17`), all three tied to the Go code by the differential run of
`harness/c17` (real `acme.signer`, real `AcmeStorages`/`config.Clear`/`Commit`/`Instance.AcmeUpdate`,
real ingress converter + tracker):

* `notify`      = `signer.Notify`/`verify`/`match`
* `cycle`       = what one reconciliation does to the acme storages and the queue
* `icycle`      = the controller cycle around it: `AcmeUpdate` ; `HAProxyUpdate` whose reload may fail
                  (`failedSince`, `reloadOwed`) and which commits the storages in every case
* `convCycle`   = which storages the ingress converter removes/re-acquires per sync

Three defects found by this check were repaired in /repo; the models follow the repaired code and
the statements are at full strength. The former behaviour is kept as `*Old` definitions with
kernel-checked witnesses (the same inputs stay in the harness corpus):

1. `full-sync-vanished-storage-not-removed` — `config.Clear()` dropped the storages object
   (repaired: the object is carried over, its items become removal candidates)
2. `changed-storage-not-enqueued` — `Acquire` handed out a committed storage that was then changed
   in place (repaired: `Acquire` snapshots it into `itemsDel` and registers it in `itemsAdd`)
3. `empty-domain-set-requested` — a TLS block without hosts declared a storage without domains,
   for which the signer asks the name "" (repaired: such a block declares no storage)
-/
namespace HapVerif.C17

/-! ## (a) signer: certificates are requested exactly when needed -/

/-! covers -/
theorem covers_self (d : Name) (h : d ≠ [""]) : coversOne d d = true := by
  unfold coversOne
  have : (d == [""]) = false := by simpa using h
  simp only [this, Bool.false_eq_true, if_false]
  by_cases hw : isWild d = true
  · simp [hw]
  · simp [hw]

theorem covers_wildcard (l : String) (rest : Name) (hl : l ≠ "*") (hr : rest ≠ []) :
    coversOne ("*" :: rest) (l :: rest) = true := by
  unfold coversOne isWild
  have h1 : ((l :: rest) == [""]) = false := by
    cases rest with
    | nil => exact absurd rfl hr
    | cons a t => simp
  cases rest with
  | nil => exact absurd rfl hr
  | cons a t => simp [hl]

theorem covers_wildcard_shape (rest d : Name) (hd : isWild d = false)
    (h : coversOne ("*" :: rest) d = true) : rest ≠ [] ∧ ∃ l, d = l :: rest := by
  unfold coversOne at h
  by_cases h0 : (d == [""]) = true
  · simp [h0] at h
  · simp only [h0, Bool.false_eq_true, if_false, hd] at h
    have hw : isWild ("*" :: rest) = true := by simp [isWild]
    simp only [hw, if_true, List.tail_cons, Bool.and_eq_true, Bool.not_eq_true', List.isEmpty_eq_false_iff,
      beq_iff_eq] at h
    refine ⟨h.1.1, ?_⟩
    cases d with
    | nil => exact absurd rfl h.1.2
    | cons a t => exact ⟨a, by simp at h; rw [h.2]⟩

theorem covers_wild_declared (san d : Name) (hd : isWild d = true) (h : coversOne san d = true) : san = d := by
  unfold coversOne at h
  by_cases h0 : (d == [""]) = true
  · simp [h0] at h
  · simpa [h0, hd] using h

theorem covers_exact (san d : Name) (hs : isWild san = false) (h : coversOne san d = true) : san = d := by
  unfold coversOne at h
  by_cases h0 : (d == [""]) = true
  · simp [h0] at h
  · by_cases hd : isWild d = true
    · simpa [h0, hd] using h
    · simpa [h0, hd, hs] using h

theorem covered_of_mem (sans : List Name) (d : Name) (hm : d ∈ sans) (h : d ≠ [""]) : covered sans d = true := by
  unfold covered
  exact List.any_eq_true.mpr ⟨d, hm, covers_self d h⟩


theorem itemDomains_of_ne {l : List Name} (h : l ≠ []) : itemDomains l = l := by
  unfold itemDomains; cases l with
  | nil => exact absurd rfl h
  | cons a t => rfl

theorem reasonOf_none_iff (i : VIn) (ds : List Name) :
    reasonOf i ds = none ↔ ∃ na sans, i.secret = .cert na sans ∧ ¬ na < i.now + i.window ∧ matchAll ds sans = true := by
  unfold reasonOf
  cases hs : i.secret with
  | missing => simp
  | cert na sans =>
    simp only [Secret.cert.injEq]
    constructor
    · intro h
      by_cases h1 : na < i.now + i.window
      · simp [h1] at h
      · simp only [h1, if_false] at h
        by_cases h2 : matchAll ds sans = true
        · exact ⟨na, sans, ⟨rfl, rfl⟩, h1, h2⟩
        · simp [h2] at h
    · rintro ⟨na', sans', ⟨rfl, rfl⟩, h1, h2⟩
      simp [h1, h2]

theorem signed_iff_reason (i : VIn) :
    (notify i).signed.isSome = true ↔ i.acct = true ∧ reasonOf i (itemDomains i.declared) ≠ none := by
  unfold notify
  by_cases ha : i.acct = true
  · simp only [ha, Bool.not_true, Bool.false_eq_true, if_false, true_and]
    cases hr : reasonOf i (itemDomains i.declared) with
    | none => simp
    | some r => by_cases hk : (i.sign.crt && i.sign.key) = true <;> simp [hk]
  · simp [ha]

theorem needed_iff (i : VIn) :
    needed i = true ↔ i.secret = .missing ∨
      ∃ na sans, i.secret = .cert na sans ∧ (na < i.now + i.window ∨ ∃ d ∈ i.declared, covered sans d = false) := by
  unfold needed
  cases hs : i.secret with
  | missing => simp
  | cert na sans =>
    simp only [Bool.or_eq_true, decide_eq_true_eq, Bool.not_eq_true', Secret.cert.injEq, false_or, reduceCtorEq,
      List.all_eq_false, Bool.not_eq_true]
    constructor
    · rintro (h | h)
      · exact ⟨na, sans, ⟨rfl, rfl⟩, Or.inl h⟩
      · exact ⟨na, sans, ⟨rfl, rfl⟩, Or.inr h⟩
    · rintro ⟨na', sans', ⟨rfl, rfl⟩, h⟩
      exact h

/-- **sign_iff**: for a queue item that carries at least one domain (every item the converter
produces: `ingAcqs_have_domains`, `conv_items_have_domains`) and with an account, `Client.Sign` is called
iff the secret is missing/unreadable, or `NotAfter < now + window` (strict), or some declared
domain is not covered by the certificate. -/
theorem sign_iff (i : VIn) (hd : i.declared ≠ []) :
    (notify i).signed.isSome = true ↔ i.acct = true ∧
      (i.secret = .missing ∨ ∃ na sans, i.secret = .cert na sans ∧
        (na < i.now + i.window ∨ ∃ d ∈ i.declared, covered sans d = false)) := by
  rw [signed_iff_reason, itemDomains_of_ne hd, ← needed_iff]
  constructor
  · rintro ⟨ha, hr⟩
    refine ⟨ha, ?_⟩
    cases hn : needed i with
    | true => rfl
    | false =>
      exfalso; apply hr
      rw [reasonOf_none_iff]
      unfold needed at hn
      cases hs : i.secret with
      | missing => simp [hs] at hn
      | cert na sans =>
        simp only [hs, Bool.or_eq_false_iff, decide_eq_false_iff_not, Bool.not_eq_false'] at hn
        exact ⟨na, sans, rfl, hn.1, hn.2⟩
  · rintro ⟨ha, hn⟩
    refine ⟨ha, ?_⟩
    intro hr
    rw [reasonOf_none_iff] at hr
    obtain ⟨na, sans, hs, h1, h2⟩ := hr
    unfold needed at hn
    simp only [hs, Bool.or_eq_true, decide_eq_true_eq, Bool.not_eq_true'] at hn
    rcases hn with h | h
    · exact h1 h
    · unfold matchAll at h2; rw [h2] at h; cases h

theorem signed_domains (i : VIn) (ds : List Name) (h : (notify i).signed = some ds) :
    ds = itemDomains i.declared := by
  unfold notify at h
  by_cases ha : i.acct = true
  · simp only [ha, Bool.not_true, Bool.false_eq_true, if_false] at h
    cases hr : reasonOf i (itemDomains i.declared) with
    | none => simp [hr] at h
    | some r =>
      simp only [hr] at h
      cases hk : (i.sign.crt && i.sign.key) <;> simp [hk] at h <;> exact h.symm
  · simp [ha] at h

/-- **store_only_both**: the secret is written iff `Sign` was called and returned both a
certificate and a key (a warning-level `err` next to both does not prevent the write) -/
theorem store_only_both (i : VIn) :
    (notify i).written = true ↔ (notify i).signed.isSome = true ∧ i.sign.crt = true ∧ i.sign.key = true := by
  unfold notify
  by_cases ha : i.acct = true
  · simp only [ha, Bool.not_true, Bool.false_eq_true, if_false]
    cases hr : reasonOf i (itemDomains i.declared) with
    | none => simp
    | some r =>
      cases hk : (i.sign.crt && i.sign.key) <;> simp <;> simpa using hk
  · simp [ha]


/- Historical (finding 3): without `i.declared ≠ []` the statement fails. `buildAcmeStorages` renders an
   empty domain set as "name,chain," and `Notify` splits that into the single domain "", which no
   certificate covers. Since the repair no storage without domains exists any more. -/

def emptyWitness : VIn :=
  { acct := true, secret := .cert 100 [["a", "x"]], now := 0, window := 10, declared := [],
    sign := ⟨true, true, false⟩, setErr := false }

/-- witness: valid, not expiring certificate, no declared domain — nothing is needed, yet
`Sign([""])` is called and its result stored; and this is how such an item came to be -/
theorem sign_iff_fails_for_empty_domain_set :
    needed emptyWitness = false ∧ (notify emptyWitness).signed = some [[""]] ∧
    (notify emptyWitness).written = true ∧
    ingAcqsOld { name := "i1", rule := "r1.x", acme := true, chain := "", tls := [⟨"s1", []⟩] } = [⟨"s1", "", []⟩] ∧
    ingAcqs { name := "i1", rule := "r1.x", acme := true, chain := "", tls := [⟨"s1", []⟩] } = [] := by decide

/-- a valid certificate that covers every declared domain is never re-requested and the secret
is not written -/
theorem valid_never_rerequested (i : VIn) (na : Int) (sans : List Name) (hd : i.declared ≠ [])
    (hs : i.secret = .cert na sans) (ht : i.now + i.window ≤ na)
    (hc : ∀ d ∈ i.declared, covered sans d = true) :
    (notify i).signed = none ∧ (notify i).written = false := by
  have h1 : ¬ (notify i).signed.isSome = true := by
    rw [sign_iff i hd]
    rintro ⟨_, h | ⟨na', sans', h, h2⟩⟩
    · rw [hs] at h; cases h
    · rw [hs] at h; cases h
      rcases h2 with h2 | ⟨d, hm, h2⟩
      · omega
      · rw [hc d hm] at h2; cases h2
  have h2 : ¬ (notify i).written = true := fun h => h1 ((store_only_both i).mp h).1
  constructor
  · cases h : (notify i).signed with
    | none => rfl
    | some _ => rw [h] at h1; exact absurd rfl h1
  · cases h : (notify i).written with
    | false => rfl
    | true => exact absurd h h2

/-- the expiry test is strict: a certificate whose `NotAfter` is exactly `now + window` is kept … -/
theorem boundary_equal_kept (i : VIn) (sans : List Name) (hd : i.declared ≠ [])
    (hs : i.secret = .cert (i.now + i.window) sans) (hc : ∀ d ∈ i.declared, covered sans d = true) :
    (notify i).signed = none :=
  (valid_never_rerequested i _ sans hd hs (Int.le_refl _) hc).1

/-- … and one nanosecond less is renewed -/
theorem boundary_minus_one_renewed (i : VIn) (na : Int) (sans : List Name) (hd : i.declared ≠ [])
    (ha : i.acct = true) (hs : i.secret = .cert na sans) (ht : na + 1 = i.now + i.window) :
    (notify i).signed = some i.declared := by
  have h : (notify i).signed.isSome = true := by
    rw [sign_iff i hd]
    exact ⟨ha, Or.inr ⟨na, sans, hs, Or.inl (by omega)⟩⟩
  cases hx : (notify i).signed with
  | none => rw [hx] at h; cases h
  | some ds => rw [signed_domains i ds hx, itemDomains_of_ne hd]

/-- a certificate whose SAN list contains every declared name (a superset) is not re-requested -/
theorem superset_not_rerequested (i : VIn) (na : Int) (sans : List Name) (hd : i.declared ≠ [])
    (hs : i.secret = .cert na sans) (ht : i.now + i.window ≤ na)
    (hsub : ∀ d ∈ i.declared, d ∈ sans ∧ d ≠ [""]) : (notify i).signed = none :=
  (valid_never_rerequested i na sans hd hs ht (fun d hm => covered_of_mem sans d (hsub d hm).1 (hsub d hm).2)).1

/-- a declared name that no SAN covers (the certificate covers only a subset) is re-requested, with
the whole declared set -/
theorem subset_rerequested (i : VIn) (na : Int) (sans : List Name) (d : Name)
    (ha : i.acct = true) (hs : i.secret = .cert na sans) (hm : d ∈ i.declared) (hc : covered sans d = false) :
    (notify i).signed = some i.declared := by
  have hd : i.declared ≠ [] := by intro e; rw [e] at hm; cases hm
  have h : (notify i).signed.isSome = true := by
    rw [sign_iff i hd]
    exact ⟨ha, Or.inr ⟨na, sans, hs, Or.inr ⟨d, hm, hc⟩⟩⟩
  cases hx : (notify i).signed with
  | none => rw [hx] at h; cases h
  | some ds => rw [signed_domains i ds hx, itemDomains_of_ne hd]

/-- without an account nothing is read, requested or written -/
theorem no_account_nothing (i : VIn) (h : i.acct = false) :
    (notify i).got = false ∧ (notify i).signed = none ∧ (notify i).written = false := by
  unfold notify; simp [h]

/-! non-vacuity: wildcard one label deep is covered, two labels deep is not; boundary cases -/
example : coversOne ["*", "dev", "local"] ["s3", "dev", "local"] = true := by decide
example : coversOne ["*", "dev", "local"] ["other", "s3", "dev", "local"] = false := by decide
example : coversOne ["*", "dev", "local"] ["dev", "local"] = false := by decide
example : coversOne ["*", "dev", "local"] ["*", "dev", "local"] = true := by decide
example : coversOne ["a", "dev", "local"] ["*", "dev", "local"] = false := by decide
def exIn (now : Int) (declared : List Name) (sign : SignRes) : VIn :=
  { acct := true, secret := .cert 10 [["a", "x"]], now := now, window := 7, declared := declared,
    sign := sign, setErr := false }
example : (notify (exIn 3 [["a", "x"]] ⟨true, true, false⟩)).signed = none := by decide
example : notify (exIn 4 [["a", "x"]] ⟨true, true, false⟩) =
    { got := true, signed := some [["a", "x"]], written := true, err := false,
      metric := some (.expiring, true) } := by decide
example : notify (exIn 0 [["a", "x"], ["b", "x"]] ⟨true, false, true⟩) =
    { got := true, signed := some [["a", "x"], ["b", "x"]], written := false, err := true,
      metric := some (.outdated, false) } := by decide

/-! ## (b) the queue follows the storages -/

/-- **queue_follows**, one cycle, no contract on what the converter removes or acquires: on the leader the
queue gets a `Remove` for exactly the former items that are gone or changed — partial AND full
sync — and an `Add` for exactly the new/changed storages (partial) or for every storage (full). -/
theorem queue_follows_cycle (s : Storages) (c : Cycle) (hadd : s.add = []) (hdel : s.del = [])
    (hcl : s.cleared = false) (hu : Uniq s.items) (hl : c.leader = true) (ha : c.acct = true) :
    (∀ n x, QOp.add n x ∈ (cycle s c).2 ↔
        find (cycle s c).1.items n = some x ∧ (c.full = true ∨ find s.items n ≠ some x)) ∧
    (∀ n x, QOp.remove n x ∈ (cycle s c).2 ↔
        find s.items n = some x ∧ find (cycle s c).1.items n ≠ some x) := by
  rw [cycle_ops_leader s c hl ha, cycle_items]
  have hpc := preUpdate_cleared s c hcl
  cases hf : c.full with
  | false =>
    have hs := start_partial s c.dirty hdel
    have hu0 : Uniq (removeAll s c.dirty).del := removeAll_uniq_del (by rw [hdel]; exact uniq_nil) _
    have inv : Inv (removeAll s c.dirty) s.items (preUpdate s c) := by
      unfold preUpdate; simp only [hf, Bool.false_eq_true, if_false]
      exact applyAcqs_inv hs _ (inv_init _ _ (by rw [removeAll_add, hadd]) hu0)
    have h2 : ∀ k x, find (removeAll s c.dirty).del k = some x →
        find s.items k = some x ∧ find (removeAll s c.dirty).items k = none := by
      intro k x h
      rw [removeAll_del s c.dirty k hdel] at h; rw [removeAll_items]
      by_cases hd : k ∈ c.dirty
      · simp only [hd, if_true] at h ⊢; exact ⟨h, trivial⟩
      · simp [hd] at h
    have h3 : ∀ k x, find s.items k = some x →
        find (removeAll s c.dirty).items k = some x ∨ find (removeAll s c.dirty).del k = some x := by
      intro k x h
      rw [removeAll_del s c.dirty k hdel, removeAll_items]
      by_cases hd : k ∈ c.dirty
      · simp [hd, h]
      · simp [hd, h]
    constructor
    · intro n x
      rw [mem_ops_add, mem_iff_find (shrink_uniq_add inv.uadd), shrink_add_partial _ (by rw [hpc, hf])]
      simp only [Bool.false_eq_true, false_or]
      constructor
      · rintro ⟨h1, hd⟩
        refine ⟨inv.same n x h1, ?_⟩
        rw [← inv.old n (by rw [h1]; simp)]; exact hd
      · rintro ⟨h1, hp⟩
        cases hx : find (preUpdate s c).add n with
        | none =>
          have hk := inv.keep n hx
          rw [hk.1] at h1
          exact absurd (hs.h1 n x h1).2 hp
        | some y =>
          have := inv.same n y hx
          rw [h1] at this; cases this
          exact ⟨rfl, by rw [inv.old n (by rw [hx]; simp)]; exact hp⟩
    · intro n x
      rw [mem_ops_remove, mem_iff_find (shrink_uniq_del inv.udel), shrink_del]
      exact removes_char hs inv h2 h3 n x
  | true =>
    have hs := start_full s hdel
    have hu0 : Uniq (clear s).del := by rw [clear_del s hdel]; exact hu
    have inv : Inv (clear s) s.items (preUpdate s c) := by
      unfold preUpdate; simp only [hf, if_true]
      exact applyAcqs_inv hs _ (inv_init _ _ rfl hu0)
    have h2 : ∀ k x, find (clear s).del k = some x → find s.items k = some x ∧ find (clear s).items k = none := by
      intro k x h; rw [clear_del s hdel] at h; exact ⟨h, rfl⟩
    have h3 : ∀ k x, find s.items k = some x →
        find (clear s).items k = some x ∨ find (clear s).del k = some x := by
      intro k x h; right; rw [clear_del s hdel]; exact h
    constructor
    · intro n x
      rw [mem_ops_add, mem_iff_find (shrink_uniq_add inv.uadd), shrink_add_full _ (by rw [hpc, hf])]
      simp only [true_or, and_true]
      constructor
      · exact inv.same n x
      · intro h1
        cases hx : find (preUpdate s c).add n with
        | none =>
          have hk := inv.keep n hx
          rw [hk.1] at h1; simp [clear, find] at h1
        | some y =>
          have := inv.same n y hx
          rw [h1] at this; cases this; rfl
    · intro n x
      rw [mem_ops_remove, mem_iff_find (shrink_uniq_del inv.udel), shrink_del]
      exact removes_char hs inv h2 h3 n x


/-- incremental syncs do not re-enqueue (nor remove) an unchanged storage -/
theorem unchanged_not_reenqueued (s : Storages) (c : Cycle)
    (hadd : s.add = []) (hdel : s.del = []) (hcl : s.cleared = false) (hu : Uniq s.items)
    (hp : c.full = false) (hl : c.leader = true) (ha : c.acct = true) (n : String) (x : Cert)
    (h0 : find s.items n = some x) (h1 : find (cycle s c).1.items n = some x) :
    QOp.add n x ∉ (cycle s c).2 ∧ QOp.remove n x ∉ (cycle s c).2 := by
  have h := queue_follows_cycle s c hadd hdel hcl hu hl ha
  refine ⟨fun hm => ?_, fun hm => ((h.2 n x).mp hm).2 h1⟩
  rcases ((h.1 n x).mp hm).2 with hf | hne
  · rw [hp] at hf; cases hf
  · exact hne h0

/-- non-leaders, and leaders without an ACME account, enqueue nothing -/
theorem not_leader_or_account (s : Storages) (c : Cycle) (h : ¬ (c.leader = true ∧ c.acct = true)) :
    (cycle s c).2 = [] := by
  unfold cycle acmeUpdate
  cases hl : c.leader <;> cases ha : c.acct <;> simp_all

theorem nonleader_enqueues_nothing (s : Storages) (c : Cycle) (h : c.leader = false) : (cycle s c).2 = [] :=
  not_leader_or_account s c (by simp [h])

/-! ### histories -/

/-- what the queue must see in one cycle: `prev`/`new` are the storages before and after it -/
def SpecCycle (prev new : SMap) (c : Cycle) (o : List QOp) : Prop :=
  if c.leader = true ∧ c.acct = true then
    (∀ n x, QOp.add n x ∈ o ↔ find new n = some x ∧ (c.full = true ∨ find prev n ≠ some x)) ∧
    (∀ n x, QOp.remove n x ∈ o ↔ find prev n = some x ∧ find new n ≠ some x)
  else o = []

def Follows : Storages → List Cycle → List (List QOp) → Prop
  | _, [], os => os = []
  | _, _ :: _, [] => False
  | s, c :: cs, o :: os => SpecCycle s.items (cycle s c).1.items c o ∧ Follows (cycle s c).1 cs os

/-- **queue_follows**, full strength, over ALL histories of reconciliation cycles (partial and full,
leader or not, with or without account, whatever the converter removes and acquires) from a
committed state: on the leader a cycle removes exactly the items that disappeared or changed; a
partial cycle enqueues exactly the storages that appeared or changed (unchanged ones are not
touched), a full sync enqueues every storage; a non-leader enqueues nothing. -/
theorem queue_follows (cs : List Cycle) :
    ∀ (s : Storages), s.add = [] → s.del = [] → s.cleared = false → Uniq s.items →
      Follows s cs (runCycles s cs).2 := by
  induction cs with
  | nil => intro s _ _ _ _; rfl
  | cons c cs ih =>
    intro s hadd hdel hcl hu
    simp only [runCycles, Follows]
    have hc := cycle_committed s c
    refine ⟨?_, ih _ hc.1 hc.2.1 hc.2.2 (cycle_uniq_items s c hu)⟩
    unfold SpecCycle
    by_cases hla : c.leader = true ∧ c.acct = true
    · simp only [hla, and_self, if_true]
      exact queue_follows_cycle s c hadd hdel hcl hu hla.1 hla.2
    · simp only [hla, if_false]
      exact not_leader_or_account s c hla

/-- non-vacuity: a history with an appearing, a changing (rebuilt and extended in place), an
unchanged and a disappearing storage, a non-leader cycle and a full sync -/
example :
    let h : List Cycle :=
      [⟨true, true, true, [], [⟨"s1", "", ["h1.x"]⟩, ⟨"s2", "", ["h2.x"]⟩]⟩,
       ⟨false, true, true, ["s1", "s2"], [⟨"s1", "", ["h1.x", "h3.x"]⟩, ⟨"s2", "", ["h2.x"]⟩, ⟨"s3", "X1", ["h4.x"]⟩]⟩,
       ⟨false, false, true, ["s3"], []⟩,
       ⟨false, true, true, [], [⟨"s2", "", ["h5.x"]⟩]⟩,
       ⟨true, true, true, [], [⟨"s1", "", ["h1.x", "h3.x"]⟩]⟩]
    (runCycles {} h).2 =
      [[.add "s2" ⟨"", ["h2.x"]⟩, .add "s1" ⟨"", ["h1.x"]⟩],
       [.add "s3" ⟨"X1", ["h4.x"]⟩, .add "s1" ⟨"", ["h1.x", "h3.x"]⟩, .remove "s1" ⟨"", ["h1.x"]⟩],
       [],
       [.add "s2" ⟨"", ["h2.x", "h5.x"]⟩, .remove "s2" ⟨"", ["h2.x"]⟩],
       [.add "s1" ⟨"", ["h1.x", "h3.x"]⟩, .remove "s2" ⟨"", ["h2.x", "h5.x"]⟩]] := by decide +kernel

/-! ### the code before the repairs (historical witnesses) -/

/-- finding 1: `s1` is declared, then a full sync without it — the old code sent no `Remove`;
the repaired code does -/
theorem full_sync_vanished_not_removed_old :
    let c1 : Cycle := ⟨true, true, true, [], [⟨"s1", "", ["h1.x"]⟩]⟩
    let c2 : Cycle := ⟨true, true, true, [], []⟩
    let s1 := (cycleOld {} c1).1
    find s1.items "s1" = some ⟨"", ["h1.x"]⟩ ∧ (cycleOld s1 c2).2 = [] ∧
    oracleCycle true true true s1.items (cycleOld s1 c2).1.items (cycleOld s1 c2).2 =
      some "full-sync-vanished-storage-not-removed" ∧
    (cycle (cycle {} c1).1 c2).2 = [.remove "s1" ⟨"", ["h1.x"]⟩] := by decide +kernel

/-- finding 2 at the storages level: a committed storage acquired again (not removed first) and
extended — the old code enqueued nothing; the repaired code adds the new and removes the old item -/
theorem inplace_change_not_enqueued_old :
    let c1 : Cycle := ⟨true, true, true, [], [⟨"s1", "", ["r1.x"]⟩]⟩
    let c2 : Cycle := ⟨false, true, true, [], [⟨"s1", "", ["r2.x"]⟩]⟩
    let s1 := (cycleOld {} c1).1
    (cycleOld s1 c2).2 = [] ∧ find (cycleOld s1 c2).1.items "s1" = some ⟨"", ["r1.x", "r2.x"]⟩ ∧
    oracleCycle false true true s1.items (cycleOld s1 c2).1.items (cycleOld s1 c2).2 =
      some "changed-storage-not-enqueued" ∧
    (cycle (cycle {} c1).1 c2).2 = [.add "s1" ⟨"", ["r1.x", "r2.x"]⟩, .remove "s1" ⟨"", ["r1.x"]⟩] := by
  decide +kernel

/-! ### the controller cycle: `AcmeUpdate`, then `HAProxyUpdate` whose reload may fail

`Inst` carries what the instance remembers between reconciliations next to the storages:
`failing` (`failedSince != nil`), `owed` (`reloadOwed`), `committed`. An `ICycle` adds to a storages
cycle whether the sync needs a reload (`chg`) and whether a reload attempted in it fails (`rfail`).
`HAProxyUpdate` commits the storages in every case (deferred `Commit`). The statements below hold
for every initial instance state (so: whatever the reload outcomes BEFORE the cycle) and for every
`chg`/`rfail` (whatever the outcome IN the cycle). -/

/-- the deferred `Commit`: after a controller cycle nothing is pending in the storages, whatever
the reload did and whatever `AcmeUpdate` handed to the queue -/
theorem storages_committed_any_reload_outcome (p : AddPolicy) (i : Inst) (c : ICycle) :
    (icycleP p i c).1.st.add = [] ∧ (icycleP p i c).1.st.del = [] ∧ (icycleP p i c).1.st.cleared = false := by
  rw [icycleP_st]; exact ⟨rfl, rfl, rfl⟩

/-- `failedSince` / `reloadOwed` follow the last attempted reload (`updateSuccessful`) … -/
theorem failing_tracks_last_reload (p : AddPolicy) (i : Inst) (c : ICycle) :
    (icycleP p i c).1.failing = (match reloadOf i c with | .none => i.failing | .ok => false | .failed => true) := by
  rw [(icycleP_flags p i c).1]; cases reloadOf i c <;> rfl

/-- … and a reload that is owed is attempted again by the next cycle, changed or not -/
theorem owed_reload_is_retried (i : Inst) (c : ICycle) (h : i.owed = true) : reloadOf i c ≠ .none := by
  unfold reloadOf; simp only [h, Bool.or_true, if_true]; split <;> simp

/-- **queue_follows_cycle_any_reload_outcome**: `queue_follows_cycle` for the controller cycle. On the
leader with an account the queue gets an `Add` for exactly the storages that are new or whose domain set /
preferred chain changed in this cycle (every storage on a full sync) and a `Remove` for exactly the former
items that are gone or changed — for every `i.failing`, `i.owed`, `i.committed`, `c.chg`, `c.rfail`. -/
theorem queue_follows_cycle_any_reload_outcome (i : Inst) (c : ICycle) (hadd : i.st.add = []) (hdel : i.st.del = [])
    (hcl : i.st.cleared = false) (hu : Uniq i.st.items) (hl : c.c.leader = true) (ha : c.c.acct = true) :
    (∀ n x, QOp.add n x ∈ (icycle i c).2.1 ↔
        find (icycle i c).1.st.items n = some x ∧ (c.c.full = true ∨ find i.st.items n ≠ some x)) ∧
    (∀ n x, QOp.remove n x ∈ (icycle i c).2.1 ↔
        find i.st.items n = some x ∧ find (icycle i c).1.st.items n ≠ some x) := by
  rw [icycle_ops, icycle_st]
  exact queue_follows_cycle i.st c.c hadd hdel hcl hu hl ha

/-- the clause the seeded defect breaks, spelled out: a storage that appears, or whose domain set or
preferred chain changes, in a cycle is handed to `queue.Add` in that very cycle, also while HAProxy is
failing to reload (`i.failing = true`) and also when the reload of this cycle fails -/
theorem appeared_or_changed_enqueued_any_reload_outcome (i : Inst) (c : ICycle) (hadd : i.st.add = [])
    (hdel : i.st.del = []) (hcl : i.st.cleared = false) (hu : Uniq i.st.items)
    (hl : c.c.leader = true) (ha : c.c.acct = true) (n : String) (x : Cert)
    (hnew : find (icycle i c).1.st.items n = some x) (hold : find i.st.items n ≠ some x) :
    QOp.add n x ∈ (icycle i c).2.1 :=
  ((queue_follows_cycle_any_reload_outcome i c hadd hdel hcl hu hl ha).1 n x).mpr ⟨hnew, Or.inr hold⟩

/-- incremental syncs do not re-enqueue (nor remove) an unchanged storage, whatever the reloads do -/
theorem unchanged_not_reenqueued_any_reload_outcome (i : Inst) (c : ICycle)
    (hadd : i.st.add = []) (hdel : i.st.del = []) (hcl : i.st.cleared = false) (hu : Uniq i.st.items)
    (hp : c.c.full = false) (hl : c.c.leader = true) (ha : c.c.acct = true) (n : String) (x : Cert)
    (h0 : find i.st.items n = some x) (h1 : find (icycle i c).1.st.items n = some x) :
    QOp.add n x ∉ (icycle i c).2.1 ∧ QOp.remove n x ∉ (icycle i c).2.1 := by
  rw [icycle_ops]; rw [icycle_st] at h1
  exact unchanged_not_reenqueued i.st c.c hadd hdel hcl hu hp hl ha n x h0 h1

/-- non-leaders, and leaders without an account, enqueue nothing, whatever the reloads do -/
theorem not_leader_or_account_any_reload_outcome (p : AddPolicy) (i : Inst) (c : ICycle)
    (h : ¬ (c.c.leader = true ∧ c.c.acct = true)) : (icycleP p i c).2.1 = [] := by
  have h0 : (acmeUpdate c.c.leader c.c.acct (preUpdate i.st c.c)).2 = [] := not_leader_or_account i.st c.c h
  cases p
  · exact h0
  · simp only [icycleP, acmeUpdateP]
    split
    · simp only [h0, List.filter_nil]
    · exact h0

/-- what one controller cycle must show: the queue operations the storages before/after demand
(`SpecCycle`, in which no reload outcome occurs), the reload outcome, and `failedSince` after it -/
def FollowsI : Inst → List ICycle → List (List QOp × Reload × Bool) → Prop
  | _, [], os => os = []
  | _, _ :: _, [] => False
  | i, c :: cs, o :: os =>
    SpecCycle i.st.items (icycle i c).1.st.items c.c o.1 ∧ o.2.1 = reloadOf i c ∧
    o.2.2 = (icycle i c).1.failing ∧ FollowsI (icycle i c).1 cs os

/-- **queue_follows_any_reload_outcome**, full strength, over ALL histories of controller cycles —
partial and full syncs, leader or not, with or without account, whatever the converter removes and
acquires, with ARBITRARY reload-failure flags in every cycle — from ANY instance state with committed
storages (`failing`, `owed`, `committed` arbitrary): on the leader with an account every cycle enqueues
exactly the storages that appeared or changed in it (all of them on a full sync) and removes exactly
the items that disappeared or changed; otherwise nothing is enqueued. -/
theorem queue_follows_any_reload_outcome (cs : List ICycle) :
    ∀ (i : Inst), i.st.add = [] → i.st.del = [] → i.st.cleared = false → Uniq i.st.items →
      FollowsI i cs (runI .always i cs).2 := by
  induction cs with
  | nil => intro i _ _ _ _; rfl
  | cons c cs ih =>
    intro i hadd hdel hcl hu
    simp only [runI, FollowsI]
    have hc := storages_committed_any_reload_outcome .always i c
    have hu' : Uniq (icycle i c).1.st.items := by rw [icycle_st]; exact cycle_uniq_items i.st c.c hu
    refine ⟨?_, rfl, trivial, ih _ hc.1 hc.2.1 hc.2.2 hu'⟩
    unfold SpecCycle
    by_cases hla : c.c.leader = true ∧ c.c.acct = true
    · simp only [hla, and_self, if_true]
      exact queue_follows_cycle_any_reload_outcome i c hadd hdel hcl hu hla.1 hla.2
    · simp only [hla, if_false]
      exact not_leader_or_account_any_reload_outcome .always i c hla

/-- two histories that differ only in the reload outcomes (`chg`, `rfail`, and the `failing`/`owed`/
`committed` flags they start from) hand the same items to the queue, cycle by cycle, and end with the
same storages -/
theorem enqueued_independent_of_reload_outcomes (cs cs' : List ICycle) (i i' : Inst)
    (hc : cs.map (·.c) = cs'.map (·.c)) (hs : i.st = i'.st) :
    (runI .always i cs).2.map (·.1) = (runI .always i' cs').2.map (·.1) ∧
    (runI .always i cs).1.st = (runI .always i' cs').1.st := by
  have h := runI_always_proj cs i
  have h' := runI_always_proj cs' i'
  rw [h.1, h.2, h'.1, h'.2, hc, hs]; exact ⟨rfl, rfl⟩

/-- the `skipWhileFailing` variant is indistinguishable from the code that exists as long as no reload
fails (why nothing but a fault-injecting history tells them apart) -/
theorem skip_variant_same_while_no_reload_fails (cs : List ICycle) :
    ∀ (i : Inst), i.failing = false → (∀ c ∈ cs, c.rfail = false) →
      runI .skipWhileFailing i cs = runI .always i cs := by
  induction cs with
  | nil => intro i _ _; rfl
  | cons c cs ih =>
    intro i hf hr
    simp only [runI]
    rw [icycleP_skip_not_failing i c hf]
    have hnf : (icycleP .always i c).1.failing = false := by
      rw [(icycleP_flags .always i c).1, hf]
      have := reloadOf_not_failed i c (hr c List.mem_cons_self)
      cases hrl : reloadOf i c <;> simp_all [afterReload]
    rw [ih _ hnf (fun c' hc' => hr c' (List.mem_cons_of_mem _ hc'))]

/-- the history of the seeded defect: the first reload fails; in the next cycle `s1` appears and the
reload succeeds; then an idle cycle -/
def hFail : List ICycle :=
  [⟨⟨true, true, true, [], []⟩, false, true⟩,
   ⟨⟨false, true, true, [], [⟨"s1", "", ["h1.x"]⟩]⟩, false, false⟩]

def hIdle : ICycle := ⟨⟨false, true, true, [], []⟩, false, false⟩

/-- **witness (seeded variant)**: an `AcmeUpdate` that skips the additions while `failedSince` is set
LOSES them — `AcmeUpdate` runs before `HAProxyUpdate`, still sees `failing` from the previous cycle,
and the deferred `Commit` empties `itemsAdd`: `s1` is in the storages, `add` is empty, no later cycle
enqueues it, and the Spec rejects the output. The code that exists enqueues `s1` in cycle 2 and is
accepted. -/
theorem skip_while_failing_loses_addition :
    (runI .skipWhileFailing {} hFail).2 = [([], .failed, true), ([], .ok, false)] ∧
    find (runI .skipWhileFailing {} hFail).1.st.items "s1" = some ⟨"", ["h1.x"]⟩ ∧
    (runI .skipWhileFailing {} hFail).1.st.add = [] ∧
    (runI .skipWhileFailing {} (hFail ++ [hIdle, hIdle])).2.map (·.1) = [[], [], [], []] ∧
    oracleICycles {} hFail ((runI .skipWhileFailing {} hFail).2.map (·.1)) = some "changed-storage-not-enqueued" ∧
    (runI .always {} hFail).2 = [([], .failed, true), ([.add "s1" ⟨"", ["h1.x"]⟩], .ok, false)] ∧
    oracleICycles {} hFail ((runI .always {} hFail).2.map (·.1)) = none := by decide +kernel

/-- non-vacuity of `queue_follows_any_reload_outcome`: a history in which the first reload fails, a
storage appears while failing and the retried reload fails again (`s` then changes while still failing),
a cycle without any reload, a non-leader cycle, and a full sync whose reload fails: the additions and
removals are those of the storages, next to every reload outcome -/
example :
    let h : List ICycle :=
      [⟨⟨true, true, true, [], []⟩, false, true⟩,
       ⟨⟨false, true, true, [], [⟨"s1", "", ["h1.x"]⟩]⟩, false, true⟩,
       ⟨⟨false, true, true, ["s1"], [⟨"s1", "", ["h1.x", "h2.x"]⟩, ⟨"s2", "X1", ["h3.x"]⟩]⟩, true, false⟩,
       ⟨⟨false, true, true, [], []⟩, false, true⟩,
       ⟨⟨false, false, true, ["s2"], []⟩, true, true⟩,
       ⟨⟨true, true, true, [], [⟨"s1", "", ["h1.x", "h2.x"]⟩]⟩, false, true⟩]
    (runI .always {} h).2 =
      [([], .failed, true),
       ([.add "s1" ⟨"", ["h1.x"]⟩], .failed, true),
       ([.add "s2" ⟨"X1", ["h3.x"]⟩, .add "s1" ⟨"", ["h1.x", "h2.x"]⟩, .remove "s1" ⟨"", ["h1.x"]⟩], .ok, false),
       ([], .none, false),
       ([], .failed, true),
       ([.add "s1" ⟨"", ["h1.x", "h2.x"]⟩], .failed, true)] ∧
    oracleICycles {} h ((runI .always {} h).2.map (·.1)) = none := by decide +kernel

/-- non-vacuity of the oracle over controller cycles: it rejects a cycle-2 output without `s1` -/
example : oracleICycles {} hFail [[], []] = some "changed-storage-not-enqueued" ∧
    oracleICycles {} hFail [[], [.add "s1" ⟨"", ["h1.x"]⟩]] = none ∧
    oracleICycles {} hFail [[.add "s1" ⟨"", ["h1.x"]⟩], []] = some "stale-item-enqueued" := by decide +kernel

/-! ## (c) the ingress converter feeding the storages -/

theorem acmeUpdate_items (l a : Bool) (s : Storages) : (acmeUpdate l a s).1.items = s.items := by
  unfold acmeUpdate
  cases l <;> cases a <;> rfl

/-- the items after an acquisition only depend on the items before it -/
theorem acquire_items (s : Storages) (n ch : String) (ds : List String) :
    (acquire s n ch ds).items = insert s.items n
      (match find s.items n with
       | none => { chain := assignChain "" ch, doms := addDoms [] ds }
       | some cur => { chain := assignChain cur.chain ch, doms := addDoms cur.doms ds }) := by
  unfold acquire
  cases find s.items n with
  | none => rfl
  | some cur => by_cases h : (find s.add n).isSome = true <;> simp [h]

theorem acquire_items_congr (s t : Storages) (h : s.items = t.items) (n ch : String) (ds : List String) :
    (acquire s n ch ds).items = (acquire t n ch ds).items := by
  rw [acquire_items, acquire_items, h]

theorem applyAcqs_items_congr (as : List Acq) (s t : Storages) (h : s.items = t.items) :
    (applyAcqs s as).items = (applyAcqs t as).items := by
  unfold applyAcqs
  induction as generalizing s t with
  | nil => exact h
  | cons a r ih => simp only [List.foldl_cons]; exact ih _ _ (acquire_items_congr s t h _ _ _)

/-- after a full sync the storages are exactly what the ingress world declares -/
theorem conv_full_items (s : ConvSt) (c : ConvCycle) (hf : c.full = true) :
    (convCycle s c).1.st.items = declared c.world := by
  unfold convCycle convPlan
  simp only [hf, if_true]
  rw [cycle_items]
  unfold preUpdate declared
  simp only [if_true]
  exact applyAcqs_items_congr _ _ _ rfl

/-- whatever the tracker makes the converter remove and re-acquire, the queue follows the storages -/
theorem conv_follows (s : ConvSt) (c : ConvCycle) (hadd : s.st.add = []) (hdel : s.st.del = [])
    (hcl : s.st.cleared = false) (hu : Uniq s.st.items) (hl : c.leader = true) (ha : c.acct = true) :
    (∀ n x, QOp.add n x ∈ (convCycle s c).2 ↔
        find (convCycle s c).1.st.items n = some x ∧ (c.full = true ∨ find s.st.items n ≠ some x)) ∧
    (∀ n x, QOp.remove n x ∈ (convCycle s c).2 ↔
        find s.st.items n = some x ∧ find (convCycle s c).1.st.items n ≠ some x) := by
  have h1 : (convPlan s c).1.full = c.full := by unfold convPlan; cases c.full <;> simp
  have h2 : (convPlan s c).1.leader = true := by unfold convPlan; cases c.full <;> simp [hl]
  have h3 : (convPlan s c).1.acct = true := by unfold convPlan; cases c.full <;> simp [ha]
  have := queue_follows_cycle s.st (convPlan s c).1 hadd hdel hcl hu h2 h3
  rw [h1] at this
  exact this

/-- every storage an ingress declares carries at least one domain (finding 3 repaired) -/
theorem ingAcqs_have_domains (i : Ing) (a : Acq) (h : a ∈ ingAcqs i) : a.doms ≠ [] := by
  unfold ingAcqs at h
  split at h
  · simp only [List.mem_filterMap] at h
    obtain ⟨t, _, ht⟩ := h
    split at ht
    · rename_i hc
      simp only [Option.some.injEq] at ht
      subst ht
      simp only [Bool.and_eq_true, Bool.not_eq_true', List.isEmpty_eq_false_iff] at hc
      exact hc.2
    · cases ht
  · cases h

theorem addDom_ne_nil (l : List String) (d : String) : addDom l d ≠ [] := by
  cases l with
  | nil => simp [addDom]
  | cons x t =>
    unfold addDom
    split
    · simp
    · split <;> simp

theorem addDoms_ne_nil (l ds : List String) (h : l ≠ [] ∨ ds ≠ []) : addDoms l ds ≠ [] := by
  unfold addDoms
  induction ds generalizing l with
  | nil => rcases h with h | h; exact h; exact absurd rfl h
  | cons d t ih => simp only [List.foldl_cons]; exact ih _ (Or.inl (addDom_ne_nil l d))

/-- the storages never hold a certificate request without domains when every acquisition names one -/
def AllDoms (m : SMap) : Prop := ∀ e ∈ m, e.2.doms ≠ []

theorem allDoms_erase {m : SMap} (h : AllDoms m) (n : String) : AllDoms (erase m n) :=
  fun e he => h e (List.mem_filter.mp he).1

theorem allDoms_insert {m : SMap} (h : AllDoms m) (n : String) (c : Cert) (hc : c.doms ≠ []) :
    AllDoms (insert m n c) := by
  intro e he
  unfold insert at he
  rcases List.mem_cons.mp he with rfl | he
  · exact hc
  · exact allDoms_erase h n e he

theorem acquire_allDoms {s : Storages} (h : AllDoms s.items) (n ch : String) (ds : List String) (hd : ds ≠ []) :
    AllDoms (acquire s n ch ds).items := by
  unfold acquire; split
  · exact allDoms_insert h _ _ (addDoms_ne_nil _ _ (Or.inr hd))
  · split <;> exact allDoms_insert h _ _ (addDoms_ne_nil _ _ (Or.inr hd))

theorem removeAll_allDoms {s : Storages} (h : AllDoms s.items) (ns : List String) : AllDoms (removeAll s ns).items := by
  unfold removeAll
  induction ns generalizing s with
  | nil => exact h
  | cons n t ih =>
    simp only [List.foldl_cons]
    apply ih
    unfold removeOne; split
    · exact allDoms_erase h n
    · exact h

theorem applyAcqs_allDoms (as : List Acq) {s : Storages} (h : AllDoms s.items) (hd : ∀ a ∈ as, a.doms ≠ []) :
    AllDoms (applyAcqs s as).items := by
  unfold applyAcqs
  induction as generalizing s with
  | nil => exact h
  | cons a t ih =>
    simp only [List.foldl_cons]
    exact ih (acquire_allDoms h _ _ _ (hd a List.mem_cons_self)) (fun b hb => hd b (List.mem_cons_of_mem _ hb))

theorem convPlan_acqs_have_domains (s : ConvSt) (c : ConvCycle) : ∀ a ∈ (convPlan s c).1.acqs, a.doms ≠ [] := by
  intro a ha
  unfold convPlan at ha
  split at ha
  · simp only [List.mem_flatMap] at ha
    obtain ⟨i, _, hi⟩ := ha
    exact ingAcqs_have_domains i a hi
  · simp only [List.mem_flatMap] at ha
    obtain ⟨i, _, hi⟩ := ha
    exact ingAcqs_have_domains i a hi

/-- over every history of ingress worlds no storage (hence no queue item) is without a domain:
the precondition of `sign_iff` -/
theorem conv_items_have_domains (cs : List ConvCycle) :
    ∀ (s : ConvSt), AllDoms s.st.items → AllDoms (runConv s cs).1.st.items := by
  induction cs with
  | nil => intro s h; exact h
  | cons c cs ih =>
    intro s h
    simp only [runConv]
    apply ih
    unfold convCycle
    simp only
    rw [cycle_items]
    unfold preUpdate
    apply applyAcqs_allDoms _ _ (convPlan_acqs_have_domains s c)
    cases (convPlan s c).1.full
    · exact removeAll_allDoms h _
    · intro e he; simp [clear] at he

/-- one cycle of the converter in front of the old storages code -/
def convCycleOld (s : ConvSt) (c : ConvCycle) : ConvSt × List QOp :=
  let (cy, T') := convPlan s c
  let r := cycleOld s.st cy
  ({ world := c.world, tracker := T', st := r.1 }, r.2)

def wA : World := [{ name := "i1", rule := "r1.x", acme := true, chain := "", tls := [⟨"s1", ["r1.x"]⟩] }]
def wB : World := wA ++ [{ name := "i2", rule := "r2.x", acme := true, chain := "", tls := [⟨"s1", ["r2.x"]⟩] }]

/-- finding 2 through the converter: a second ingress sharing the TLS secret is added by a partial
sync. `trackAddedIngress` does not know acme storages, the storage is neither removed nor rebuilt,
just acquired again: nothing was enqueued by the old code; the repaired code enqueues the new item
and removes the old one, and the oracle accepts the history -/
theorem inplace_change_through_converter :
    let c1 : ConvCycle := ⟨true, true, true, wA⟩
    let c2 : ConvCycle := ⟨false, true, true, wB⟩
    let s1 := (convCycleOld {} c1).1
    (convPlan s1 c2).1.dirty = [] ∧ (convPlan s1 c2).1.acqs = [⟨"s1", "", ["r2.x"]⟩] ∧
    declared wB = [("s1", ⟨"", ["r1.x", "r2.x"]⟩)] ∧
    (convCycleOld s1 c2).2 = [] ∧
    (runConv {} [c1, c2]).2 = [[.add "s1" ⟨"", ["r1.x"]⟩], [.add "s1" ⟨"", ["r1.x", "r2.x"]⟩, .remove "s1" ⟨"", ["r1.x"]⟩]] ∧
    oracleConv [] [c1, c2] (runConv {} [c1, c2]).2 = none := by decide +kernel

/-- non-vacuity of the oracle: it accepts a full-sync history and rejects the old outputs -/
example : oracleConv [] [⟨true, true, true, wA⟩, ⟨true, true, true, wB⟩, ⟨true, true, true, []⟩]
      (runConv {} [⟨true, true, true, wA⟩, ⟨true, true, true, wB⟩, ⟨true, true, true, []⟩]).2 = none ∧
    oracleConv [] [⟨true, true, true, wA⟩, ⟨true, true, true, []⟩] [[.add "s1" ⟨"", ["r1.x"]⟩], []] =
      some "full-sync-vanished-storage-not-removed" ∧
    oracleConv [] [⟨true, true, true, wA⟩, ⟨false, true, true, wB⟩] [[.add "s1" ⟨"", ["r1.x"]⟩], []] =
      some "changed-storage-not-enqueued" ∧
    oracleConv [] [⟨true, true, true, wA⟩] [[.add "s1" ⟨"", []⟩]] = some "empty-domain-set-requested" := by
  decide +kernel

/-! ## facts regenerated from the Go source on every run -/

/-- the decision, the strict `Before`, the due date, the write guard, `VerifyHostname` per domain,
`DeepEqual` and the `cleared` guard in shrink, the snapshot in `Acquire`, `Clear()` carrying the
storages over, the order Sync / `AcmeUpdate` / `HAProxyUpdate` of a reconciliation, the leader/account
guards of `AcmeUpdate` and the instance fields it touches (no
`failedSince`/`reloadOwed`/`up`), the deferred `Commit` at the head of `HAProxyUpdate`, the retry of an
owed reload, `updateSuccessful`, the bookkeeping of `Reload`, the committed-data test of the dynamic
updater, the host requirement of an acme TLS block, and what `trackAddedIngress` pre-tracks (the fifth
`ctx`: the default host, under `strict-host` only — repairs de67e1a/204d50f; none is `ResourceAcmeData`) -/
theorem facts_c17 :
    Facts.c17VerifyConds = ["errSecret != nil || tls.Crt.NotAfter.Before(duedate) || !match(domains, tls.Crt)", "errSecret != nil", "tls.Crt.NotAfter.Before(duedate)", "crt != nil && key != nil", "err != nil", "errTLS == nil"] ∧
    Facts.c17VerifyDue = ["duedate := time.Now().Add(s.expiring)"] ∧
    Facts.c17MatchBody = ["found := false", "for _, domain := range domains {\n\tfound = crt.VerifyHostname(domain) == nil\n\tif !found {\n\t\treturn false\n\t}\n}", "return true"] ∧
    Facts.c17ShrinkConds = ["found && reflect.DeepEqual(add, del)", "!c.cleared"] ∧
    Facts.c17AcquireConds = ["!found", "!tracked", "!removed"] ∧
    Facts.c17AcquireAssigns = ["storage, found := c.items[name]", "storage = &AcmeCerts{\n\tcerts: map[string]struct{}{},\n}", "c.items[name] = storage", "c.itemsAdd[name] = storage", "_, tracked := c.itemsAdd[name]", "_, removed := c.itemsDel[name]", "c.itemsDel[name] = storage.clone()", "c.itemsAdd[name] = storage"] ∧
    Facts.c17RemoveAllBody = ["for _, name := range names {\n\tif item, found := c.items[name]; found {\n\t\tc.itemsDel[name] = item\n\t\tdelete(c.items, name)\n\t}\n}"] ∧
    Facts.c17StoragesClearBody = ["for name, item := range c.items {\n\tc.itemsDel[name] = item\n}", "c.items = map[string]*AcmeCerts{}", "c.itemsAdd = map[string]*AcmeCerts{}", "c.cleared = true"] ∧
    Facts.c17CommitBody = ["c.itemsAdd = map[string]*AcmeCerts{}", "c.itemsDel = map[string]*AcmeCerts{}", "c.cleared = false"] ∧
    Facts.c17ClearBody = ["config := createConfig(c.options)", "config.backends = c.backends", "config.backends.Clear()", "config.acmeData = c.acmeData.ClearStorages()", "config.globalPrev = c.globalOld", "if config.globalPrev == nil {\n\tconfig.globalPrev = c.globalPrev\n}", "*c = *config"] ∧
    Facts.c17AcmeUpdateConds = ["i.config == nil || i.options.AcmeQueue == nil", "le.IsLeader()", "!hasAccount", "storages.Updated()"] ∧
    Facts.c17AcmeUpdateCalls = [".Storages", "i.config.AcmeData", "le.IsLeader", "i.acmeEnsureConfig", "i.config.AcmeData", "storages.BuildAcmeStoragesAdd", "i.acmeAddStorage", "storages.BuildAcmeStoragesDel", "i.acmeRemoveStorage", "storages.Updated", "i.logger.InfoV", "le.LeaderName"] ∧
    Facts.c17ReconcileOrder = [".Sync", "s.instance.Config", "s.svcleader.isLeader", "s.instance.AcmeUpdate", "s.instance.HAProxyUpdate"] ∧
    Facts.c17AcmeUpdateFields = ["i.acmeAddStorage", "i.acmeEnsureConfig", "i.acmeRemoveStorage", "i.config", "i.logger", "i.options"] ∧
    Facts.c17HAProxyUpdateHead = ["if i.config == nil {\n\treturn nil\n}", "defer i.config.Commit()"] ∧
    Facts.c17HAProxyUpdateOwedConds = ["updated && i.reloadOwed"] ∧
    Facts.c17UpdateSuccessfulBody = ["if success {\n\ti.failedSince = nil\n} else if i.failedSince == nil {\n\tnow := time.Now()\n\ti.failedSince = &now\n}", "i.metrics.UpdateSuccessful(success)"] ∧
    Facts.c17ReloadMarks = ["i.reloadOwed = true", "i.updateSuccessful(false)", "i.reloadOwed = false", "i.up = true", "i.updateSuccessful(true)"] ∧
    Facts.c17DynUpdateFirst = ["updated := d.config.hasCommittedData() && d.checkConfigChange()"] ∧
    Facts.c17AcmeTLSConds = ["tls.SecretName != \"\"", "tls.SecretName != \"\" && len(tls.Hosts) > 0", "tls.SecretName != \"\""] ∧
    Facts.c17PreTrackContexts = ["convtypes.ResourceHABackend", "ctx", "ctx", "ctx", "ctx", "ctx", "convtypes.ResourceHABackend"] :=
  ⟨rfl, rfl, rfl, rfl, rfl, rfl, rfl, rfl, rfl, rfl, rfl, rfl, rfl, rfl, rfl, rfl, rfl, rfl, rfl, rfl, rfl⟩

end HapVerif.C17
