import HapVerif.Model.C17
namespace HapVerif.C17
end HapVerif.C17
