import HapVerif.Lemmas.C17
import HapVerif.Generated.Facts
/-!
# C17 — ACME: certificates requested exactly when needed; the queue tracks Ingress changes

Models (`HapVerif.Model.C17`), all three tied to the Go code by the differential run of
`harness/c17` (real `acme.signer`, real `AcmeStorages`/`config.Clear`/`Commit`/`Instance.AcmeUpdate`,
real ingress converter + tracker):

* `notify`      = `signer.Notify`/`verify`/`match`
* `cycle`       = what one reconciliation does to the acme storages and the queue
* `convCycle`   = which storages the ingress converter removes/re-acquires per sync

Three places where the code does not meet the property are kept visible below: the full-strength
statement in a comment, the `_partial` theorem with its side condition, and a kernel-checked
counter-example on the model (the same inputs are in the harness corpus):

1. `full-sync-vanished-storage-not-removed` — `config.Clear()` drops the storages object
2. `changed-storage-not-enqueued` — the converter mutates an existing storage in place
3. `empty-domain-set-requested` — a storage without domains asks for the name ""
-/
namespace HapVerif.C17

/-! ## (a) signer: certificates are requested exactly when needed -/

/-! covers -/
theorem covers_self (d : Name) (h : d ≠ [""]) : coversOne d d = true := by
  unfold coversOne
  have : (d == [""]) = false := by simpa using h
  simp only [this, Bool.false_eq_true, if_false]
  by_cases hw : isWild d = true
  · simp [hw]
  · simp [hw]

theorem covers_wildcard (l : String) (rest : Name) (hl : l ≠ "*") (hr : rest ≠ []) :
    coversOne ("*" :: rest) (l :: rest) = true := by
  unfold coversOne isWild
  have h1 : ((l :: rest) == [""]) = false := by
    cases rest with
    | nil => exact absurd rfl hr
    | cons a t => simp
  cases rest with
  | nil => exact absurd rfl hr
  | cons a t => simp [hl]

theorem covers_wildcard_shape (rest d : Name) (hd : isWild d = false)
    (h : coversOne ("*" :: rest) d = true) : rest ≠ [] ∧ ∃ l, d = l :: rest := by
  unfold coversOne at h
  by_cases h0 : (d == [""]) = true
  · simp [h0] at h
  · simp only [h0, Bool.false_eq_true, if_false, hd] at h
    have hw : isWild ("*" :: rest) = true := by simp [isWild]
    simp only [hw, if_true, List.tail_cons, Bool.and_eq_true, Bool.not_eq_true', List.isEmpty_eq_false_iff,
      beq_iff_eq] at h
    refine ⟨h.1.1, ?_⟩
    cases d with
    | nil => exact absurd rfl h.1.2
    | cons a t => exact ⟨a, by simp at h; rw [h.2]⟩

theorem covers_wild_declared (san d : Name) (hd : isWild d = true) (h : coversOne san d = true) : san = d := by
  unfold coversOne at h
  by_cases h0 : (d == [""]) = true
  · simp [h0] at h
  · simpa [h0, hd] using h

theorem covers_exact (san d : Name) (hs : isWild san = false) (h : coversOne san d = true) : san = d := by
  unfold coversOne at h
  by_cases h0 : (d == [""]) = true
  · simp [h0] at h
  · by_cases hd : isWild d = true
    · simpa [h0, hd] using h
    · simpa [h0, hd, hs] using h

theorem covered_of_mem (sans : List Name) (d : Name) (hm : d ∈ sans) (h : d ≠ [""]) : covered sans d = true := by
  unfold covered
  exact List.any_eq_true.mpr ⟨d, hm, covers_self d h⟩


theorem itemDomains_of_ne {l : List Name} (h : l ≠ []) : itemDomains l = l := by
  unfold itemDomains; cases l with
  | nil => exact absurd rfl h
  | cons a t => rfl

theorem reasonOf_none_iff (i : VIn) (ds : List Name) :
    reasonOf i ds = none ↔ ∃ na sans, i.secret = .cert na sans ∧ ¬ na < i.now + i.window ∧ matchAll ds sans = true := by
  unfold reasonOf
  cases hs : i.secret with
  | missing => simp
  | cert na sans =>
    simp only [Secret.cert.injEq]
    constructor
    · intro h
      by_cases h1 : na < i.now + i.window
      · simp [h1] at h
      · simp only [h1, if_false] at h
        by_cases h2 : matchAll ds sans = true
        · exact ⟨na, sans, ⟨rfl, rfl⟩, h1, h2⟩
        · simp [h2] at h
    · rintro ⟨na', sans', ⟨rfl, rfl⟩, h1, h2⟩
      simp [h1, h2]

theorem signed_iff_reason (i : VIn) :
    (notify i).signed.isSome = true ↔ i.acct = true ∧ reasonOf i (itemDomains i.declared) ≠ none := by
  unfold notify
  by_cases ha : i.acct = true
  · simp only [ha, Bool.not_true, Bool.false_eq_true, if_false, true_and]
    cases hr : reasonOf i (itemDomains i.declared) with
    | none => simp
    | some r => by_cases hk : (i.sign.crt && i.sign.key) = true <;> simp [hk]
  · simp [ha]

theorem needed_iff (i : VIn) :
    needed i = true ↔ i.secret = .missing ∨
      ∃ na sans, i.secret = .cert na sans ∧ (na < i.now + i.window ∨ ∃ d ∈ i.declared, covered sans d = false) := by
  unfold needed
  cases hs : i.secret with
  | missing => simp
  | cert na sans =>
    simp only [Bool.or_eq_true, decide_eq_true_eq, Bool.not_eq_true', Secret.cert.injEq, false_or, reduceCtorEq,
      List.all_eq_false, Bool.not_eq_true]
    constructor
    · rintro (h | h)
      · exact ⟨na, sans, ⟨rfl, rfl⟩, Or.inl h⟩
      · exact ⟨na, sans, ⟨rfl, rfl⟩, Or.inr h⟩
    · rintro ⟨na', sans', ⟨rfl, rfl⟩, h⟩
      exact h

/-- **sign_iff** (for a non-empty declared domain set): with an account, `Client.Sign` is called
iff the secret is missing/unreadable, or `NotAfter < now + window` (strict), or some declared
domain is not covered by the certificate. -/
theorem sign_iff_partial (i : VIn) (hd : i.declared ≠ []) :
    (notify i).signed.isSome = true ↔ i.acct = true ∧
      (i.secret = .missing ∨ ∃ na sans, i.secret = .cert na sans ∧
        (na < i.now + i.window ∨ ∃ d ∈ i.declared, covered sans d = false)) := by
  rw [signed_iff_reason, itemDomains_of_ne hd, ← needed_iff]
  constructor
  · rintro ⟨ha, hr⟩
    refine ⟨ha, ?_⟩
    cases hn : needed i with
    | true => rfl
    | false =>
      exfalso; apply hr
      rw [reasonOf_none_iff]
      unfold needed at hn
      cases hs : i.secret with
      | missing => simp [hs] at hn
      | cert na sans =>
        simp only [hs, Bool.or_eq_false_iff, decide_eq_false_iff_not, Bool.not_eq_false'] at hn
        exact ⟨na, sans, rfl, hn.1, hn.2⟩
  · rintro ⟨ha, hn⟩
    refine ⟨ha, ?_⟩
    intro hr
    rw [reasonOf_none_iff] at hr
    obtain ⟨na, sans, hs, h1, h2⟩ := hr
    unfold needed at hn
    simp only [hs, Bool.or_eq_true, decide_eq_true_eq, Bool.not_eq_true'] at hn
    rcases hn with h | h
    · exact h1 h
    · unfold matchAll at h2; rw [h2] at h; cases h

theorem signed_domains (i : VIn) (ds : List Name) (h : (notify i).signed = some ds) :
    ds = itemDomains i.declared := by
  unfold notify at h
  by_cases ha : i.acct = true
  · simp only [ha, Bool.not_true, Bool.false_eq_true, if_false] at h
    cases hr : reasonOf i (itemDomains i.declared) with
    | none => simp [hr] at h
    | some r =>
      simp only [hr] at h
      cases hk : (i.sign.crt && i.sign.key) <;> simp [hk] at h <;> exact h.symm
  · simp [ha] at h

/-- **store_only_both**: the secret is written iff `Sign` was called and returned both a
certificate and a key (a warning-level `err` next to both does not prevent the write) -/
theorem store_only_both (i : VIn) :
    (notify i).written = true ↔ (notify i).signed.isSome = true ∧ i.sign.crt = true ∧ i.sign.key = true := by
  unfold notify
  by_cases ha : i.acct = true
  · simp only [ha, Bool.not_true, Bool.false_eq_true, if_false]
    cases hr : reasonOf i (itemDomains i.declared) with
    | none => simp
    | some r =>
      cases hk : (i.sign.crt && i.sign.key) <;> simp <;> simpa using hk
  · simp [ha]


/- Full-strength statement (does NOT hold, see `sign_iff_fails_for_empty_domain_set`):

   theorem sign_iff (i : VIn) : (notify i).signed.isSome = true ↔ i.acct = true ∧ (i.secret = .missing ∨ ...)

   It needs `i.declared ≠ []`: `buildAcmeStorages` renders an empty domain set as "name,chain," and
   `Notify` splits that into the single domain "", which no certificate covers. -/

def emptyWitness : VIn :=
  { acct := true, secret := .cert 100 [["a", "x"]], now := 0, window := 10, declared := [],
    sign := ⟨true, true, false⟩, setErr := false }

/-- counter-example: valid, not expiring certificate, no declared domain — nothing is needed, yet
`Sign([""])` is called and its result stored -/
theorem sign_iff_fails_for_empty_domain_set :
    needed emptyWitness = false ∧ (notify emptyWitness).signed = some [[""]] ∧
    (notify emptyWitness).written = true := by decide

/-- a valid certificate that covers every declared domain is never re-requested and the secret
is not written -/
theorem valid_never_rerequested (i : VIn) (na : Int) (sans : List Name) (hd : i.declared ≠ [])
    (hs : i.secret = .cert na sans) (ht : i.now + i.window ≤ na)
    (hc : ∀ d ∈ i.declared, covered sans d = true) :
    (notify i).signed = none ∧ (notify i).written = false := by
  have h1 : ¬ (notify i).signed.isSome = true := by
    rw [sign_iff_partial i hd]
    rintro ⟨_, h | ⟨na', sans', h, h2⟩⟩
    · rw [hs] at h; cases h
    · rw [hs] at h; cases h
      rcases h2 with h2 | ⟨d, hm, h2⟩
      · omega
      · rw [hc d hm] at h2; cases h2
  have h2 : ¬ (notify i).written = true := fun h => h1 ((store_only_both i).mp h).1
  constructor
  · cases h : (notify i).signed with
    | none => rfl
    | some _ => rw [h] at h1; exact absurd rfl h1
  · cases h : (notify i).written with
    | false => rfl
    | true => exact absurd h h2

/-- the expiry test is strict: a certificate whose `NotAfter` is exactly `now + window` is kept … -/
theorem boundary_equal_kept (i : VIn) (sans : List Name) (hd : i.declared ≠ [])
    (hs : i.secret = .cert (i.now + i.window) sans) (hc : ∀ d ∈ i.declared, covered sans d = true) :
    (notify i).signed = none :=
  (valid_never_rerequested i _ sans hd hs (Int.le_refl _) hc).1

/-- … and one nanosecond less is renewed -/
theorem boundary_minus_one_renewed (i : VIn) (na : Int) (sans : List Name) (hd : i.declared ≠ [])
    (ha : i.acct = true) (hs : i.secret = .cert na sans) (ht : na + 1 = i.now + i.window) :
    (notify i).signed = some i.declared := by
  have h : (notify i).signed.isSome = true := by
    rw [sign_iff_partial i hd]
    exact ⟨ha, Or.inr ⟨na, sans, hs, Or.inl (by omega)⟩⟩
  cases hx : (notify i).signed with
  | none => rw [hx] at h; cases h
  | some ds => rw [signed_domains i ds hx, itemDomains_of_ne hd]

/-- a certificate whose SAN list contains every declared name (a superset) is not re-requested -/
theorem superset_not_rerequested (i : VIn) (na : Int) (sans : List Name) (hd : i.declared ≠ [])
    (hs : i.secret = .cert na sans) (ht : i.now + i.window ≤ na)
    (hsub : ∀ d ∈ i.declared, d ∈ sans ∧ d ≠ [""]) : (notify i).signed = none :=
  (valid_never_rerequested i na sans hd hs ht (fun d hm => covered_of_mem sans d (hsub d hm).1 (hsub d hm).2)).1

/-- a declared name that no SAN covers (the certificate covers only a subset) is re-requested, with
the whole declared set -/
theorem subset_rerequested (i : VIn) (na : Int) (sans : List Name) (d : Name)
    (ha : i.acct = true) (hs : i.secret = .cert na sans) (hm : d ∈ i.declared) (hc : covered sans d = false) :
    (notify i).signed = some i.declared := by
  have hd : i.declared ≠ [] := by intro e; rw [e] at hm; cases hm
  have h : (notify i).signed.isSome = true := by
    rw [sign_iff_partial i hd]
    exact ⟨ha, Or.inr ⟨na, sans, hs, Or.inr ⟨d, hm, hc⟩⟩⟩
  cases hx : (notify i).signed with
  | none => rw [hx] at h; cases h
  | some ds => rw [signed_domains i ds hx, itemDomains_of_ne hd]

/-- without an account nothing is read, requested or written -/
theorem no_account_nothing (i : VIn) (h : i.acct = false) :
    (notify i).got = false ∧ (notify i).signed = none ∧ (notify i).written = false := by
  unfold notify; simp [h]

/-! non-vacuity: wildcard one label deep is covered, two labels deep is not; boundary cases -/
example : coversOne ["*", "dev", "local"] ["s3", "dev", "local"] = true := by decide
example : coversOne ["*", "dev", "local"] ["other", "s3", "dev", "local"] = false := by decide
example : coversOne ["*", "dev", "local"] ["dev", "local"] = false := by decide
example : coversOne ["*", "dev", "local"] ["*", "dev", "local"] = true := by decide
example : coversOne ["a", "dev", "local"] ["*", "dev", "local"] = false := by decide
def exIn (now : Int) (declared : List Name) (sign : SignRes) : VIn :=
  { acct := true, secret := .cert 10 [["a", "x"]], now := now, window := 7, declared := declared,
    sign := sign, setErr := false }
example : (notify (exIn 3 [["a", "x"]] ⟨true, true, false⟩)).signed = none := by decide
example : notify (exIn 4 [["a", "x"]] ⟨true, true, false⟩) =
    { got := true, signed := some [["a", "x"]], written := true, err := false,
      metric := some (.expiring, true) } := by decide
example : notify (exIn 0 [["a", "x"], ["b", "x"]] ⟨true, false, true⟩) =
    { got := true, signed := some [["a", "x"], ["b", "x"]], written := false, err := true,
      metric := some (.outdated, false) } := by decide

/-! ## (b) the queue follows the storages -/

/-- **queue_follows** for one partial (incremental) cycle on the leader: the queue gets an `Add`
for exactly the storages that are new or whose (chain, domain set) differs from before the cycle,
and a `Remove` for exactly the former items that are gone or changed. -/
theorem queue_follows_cycle_partial (s : Storages) (c : Cycle)
    (hadd : s.add = []) (hdel : s.del = []) (hp : c.full = false) (hwf : c.wf s)
    (hl : c.leader = true) (ha : c.acct = true) :
    (∀ n x, QOp.add n x ∈ (cycle s c).2 ↔
        find (cycle s c).1.items n = some x ∧ find s.items n ≠ some x) ∧
    (∀ n x, QOp.remove n x ∈ (cycle s c).2 ↔
        find s.items n = some x ∧ find (cycle s c).1.items n ≠ some x) := by
  have inv := preUpdate_inv s c hadd hp hwf
  have hud : Uniq (preUpdate s c).del := by
    rw [inv.del]; apply removeAll_uniq_del; rw [hdel]; exact uniq_nil
  have hdel0 : ∀ k, find (preUpdate s c).del k = if k ∈ c.dirty then find s.items k else none := by
    intro k; rw [inv.del]; exact removeAll_del s c.dirty k hdel
  have hit0 : ∀ k, find (removeAll s c.dirty).items k = if k ∈ c.dirty then none else find s.items k :=
    fun k => removeAll_items s c.dirty k
  rw [cycle_ops_leader s c hl ha, cycle_items]
  constructor
  · intro n x
    rw [mem_ops_add, mem_iff_find (shrink_uniq_add inv.uadd), shrink_add, hdel0]
    constructor
    · rintro ⟨h1, h2⟩
      refine ⟨inv.same n x h1, ?_⟩
      intro hs
      have hf := inv.fresh n (by rw [h1]; simp)
      rw [hit0] at hf
      by_cases hd : n ∈ c.dirty
      · simp only [hd, if_true] at h2; exact h2 hs
      · simp only [hd, if_false] at hf; rw [hf] at hs; cases hs
    · rintro ⟨h1, h2⟩
      cases hx : find (preUpdate s c).add n with
      | none =>
        have := inv.keep n hx
        rw [h1, hit0] at this
        by_cases hd : n ∈ c.dirty
        · simp [hd] at this
        · simp only [hd, if_false] at this; exact absurd this.symm h2
      | some y =>
        have := inv.same n y hx
        rw [h1] at this; cases this
        refine ⟨rfl, ?_⟩
        by_cases hd : n ∈ c.dirty
        · simp only [hd, if_true]; exact h2
        · simp [hd]
  · intro n x
    rw [mem_ops_remove, mem_iff_find (shrink_uniq_del hud), shrink_del, hdel0]
    constructor
    · rintro ⟨h1, h2⟩
      by_cases hd : n ∈ c.dirty
      · simp only [hd, if_true] at h1
        refine ⟨h1, ?_⟩
        intro hs
        cases hx : find (preUpdate s c).add n with
        | none =>
          have := inv.keep n hx
          rw [hs, hit0] at this; simp [hd] at this
        | some y =>
          have := inv.same n y hx
          rw [hs] at this; cases this
          exact h2 hx
      · simp [hd] at h1
    · rintro ⟨h1, h2⟩
      by_cases hd : n ∈ c.dirty
      · simp only [hd, if_true]
        refine ⟨h1, ?_⟩
        intro hx
        exact h2 (inv.same n x hx)
      · exfalso
        cases hx : find (preUpdate s c).add n with
        | none =>
          have := inv.keep n hx
          rw [hit0] at this; simp only [hd, if_false] at this
          rw [h1] at this; exact h2 this
        | some y =>
          have := inv.fresh n (by rw [hx]; simp)
          rw [hit0] at this; simp only [hd, if_false] at this
          rw [h1] at this; cases this


/-- incremental syncs do not re-enqueue (nor remove) an unchanged storage -/
theorem unchanged_not_reenqueued (s : Storages) (c : Cycle)
    (hadd : s.add = []) (hdel : s.del = []) (hp : c.full = false) (hwf : c.wf s)
    (hl : c.leader = true) (ha : c.acct = true) (n : String) (x : Cert)
    (h0 : find s.items n = some x) (h1 : find (cycle s c).1.items n = some x) :
    QOp.add n x ∉ (cycle s c).2 ∧ QOp.remove n x ∉ (cycle s c).2 := by
  have h := queue_follows_cycle_partial s c hadd hdel hp hwf hl ha
  exact ⟨fun hm => ((h.1 n x).mp hm).2 h0, fun hm => ((h.2 n x).mp hm).2 h1⟩

/-- non-leaders enqueue nothing -/
theorem nonleader_enqueues_nothing (s : Storages) (c : Cycle) (h : c.leader = false) : (cycle s c).2 = [] := by
  unfold cycle acmeUpdate; simp [h]

/-- without an ACME account nothing is enqueued either -/
theorem noaccount_enqueues_nothing (s : Storages) (c : Cycle) (h : c.acct = false) : (cycle s c).2 = [] := by
  unfold cycle acmeUpdate
  cases c.leader <;> simp [h]

/-- a full sync on the leader (the code that exists): every storage of the new state is enqueued,
nothing is ever removed — the old storages object, hence what vanished, is gone after `Clear()` -/
theorem queue_full_cycle (s : Storages) (c : Cycle) (hf : c.full = true)
    (hl : c.leader = true) (ha : c.acct = true) :
    (∀ n x, QOp.add n x ∈ (cycle s c).2 ↔ find (cycle s c).1.items n = some x) ∧
    (∀ n x, QOp.remove n x ∉ (cycle s c).2) := by
  have hpre : preUpdate s c = applyAcqs {} c.acqs := by unfold preUpdate clear; simp [hf]
  have inv : AcqInv {} (preUpdate s c) := by
    rw [hpre]
    apply applyAcqs_inv
    · exact ⟨rfl, fun _ _ => rfl, fun k x h => by simp [find] at h, fun k h => by simp [find] at h, uniq_nil⟩
    · intro a _; rfl
  have hdel : (preUpdate s c).del = [] := inv.del
  rw [cycle_ops_leader s c hl ha, cycle_items]
  constructor
  · intro n x
    rw [mem_ops_add, mem_iff_find (shrink_uniq_add inv.uadd), shrink_add, hdel]
    constructor
    · rintro ⟨h1, _⟩; exact inv.same n x h1
    · intro h1
      refine ⟨?_, by simp [find]⟩
      cases hx : find (preUpdate s c).add n with
      | none => have := inv.keep n hx; rw [h1] at this; simp [find] at this
      | some y => have := inv.same n y hx; rw [h1] at this; cases this; rfl
  · intro n x
    rw [mem_ops_remove]
    have : (shrink (preUpdate s c)).del = [] := by unfold shrink; simp [hdel]
    rw [this]; simp

/-! ### histories -/

/-- what the queue sees in one cycle, as the code behaves: `prev`/`new` are the storages before and
after the cycle -/
def SpecCycle (prev new : SMap) (c : Cycle) (o : List QOp) : Prop :=
  if c.leader = true ∧ c.acct = true then
    if c.full = true then
      (∀ n x, QOp.add n x ∈ o ↔ find new n = some x) ∧ (∀ n x, QOp.remove n x ∉ o)
    else
      (∀ n x, QOp.add n x ∈ o ↔ find new n = some x ∧ find prev n ≠ some x) ∧
      (∀ n x, QOp.remove n x ∈ o ↔ find prev n = some x ∧ find new n ≠ some x)
  else o = []

def Follows : Storages → List Cycle → List (List QOp) → Prop
  | _, [], os => os = []
  | _, _ :: _, [] => False
  | s, c :: cs, o :: os => SpecCycle s.items (cycle s c).1.items c o ∧ Follows (cycle s c).1 cs os

/-- every cycle of the history respects the converter contract -/
def wfHist : Storages → List Cycle → Prop
  | _, [] => True
  | s, c :: cs => c.wf s ∧ wfHist (cycle s c).1 cs

def decWfHist : (s : Storages) → (cs : List Cycle) → Decidable (wfHist s cs)
  | _, [] => isTrue trivial
  | s, c :: cs =>
    have := decWfHist (cycle s c).1 cs
    show Decidable (c.wf s ∧ wfHist (cycle s c).1 cs) from inferInstance
instance (s : Storages) (cs : List Cycle) : Decidable (wfHist s cs) := decWfHist s cs

/- Full-strength statement (does NOT hold for full syncs, see `full_sync_vanished_not_removed`):

   theorem queue_follows : ... → Follows' s cs (runCycles s cs).2
     where for EVERY cycle on the leader  adds ⊇ new ∖ prev,  removes = prev ∖ new

   A full sync replaces the storages object (`config.Clear()` -> `createConfig`), so the entries
   that disappear with it are never passed to `AcmeQueue.Remove`. -/

/-- **queue_follows** over all histories of reconciliation cycles (partial and full, leader or not,
with or without account) that start from a committed state and respect the converter contract:
on the leader a partial cycle adds exactly the storages that appeared or changed and removes
exactly the items that disappeared or changed; unchanged ones are not touched; a non-leader
enqueues nothing; a full sync enqueues everything and removes nothing. -/
theorem queue_follows_partial (cs : List Cycle) :
    ∀ (s : Storages), s.add = [] → s.del = [] → wfHist s cs → Follows s cs (runCycles s cs).2 := by
  induction cs with
  | nil => intro s _ _ _; rfl
  | cons c cs ih =>
    intro s hadd hdel hw
    simp only [runCycles, Follows]
    refine ⟨?_, ih _ (cycle_committed s c).1 (cycle_committed s c).2 hw.2⟩
    unfold SpecCycle
    by_cases hla : c.leader = true ∧ c.acct = true
    · simp only [hla, and_self, if_true]
      by_cases hf : c.full = true
      · simp only [hf, if_true]; exact queue_full_cycle s c hf hla.1 hla.2
      · have hf' : c.full = false := by simpa using hf
        simp only [hf', Bool.false_eq_true, if_false]
        exact queue_follows_cycle_partial s c hadd hdel hf' hw.1 hla.1 hla.2
    · simp only [hla, if_false]
      by_cases hl : c.leader = true
      · have : c.acct = false := by
          cases h : c.acct with
          | false => rfl
          | true => exact absurd ⟨hl, h⟩ hla
        exact noaccount_enqueues_nothing s c this
      · exact nonleader_enqueues_nothing s c (by simpa using hl)

/-- counter-example for full syncs: `s1` is declared, then a full sync without it — no `Remove` -/
theorem full_sync_vanished_not_removed :
    let c1 : Cycle := ⟨true, true, true, [], [⟨"s1", "", ["h1.x"]⟩]⟩
    let c2 : Cycle := ⟨true, true, true, [], []⟩
    let s1 := (cycle {} c1).1
    find s1.items "s1" = some ⟨"", ["h1.x"]⟩ ∧ find (cycle s1 c2).1.items "s1" = none ∧
    (cycle s1 c2).2 = [] ∧
    oracleCycle true true true s1.items (cycle s1 c2).1.items (cycle s1 c2).2 =
      some "full-sync-vanished-storage-not-removed" := by decide +kernel

/-- non-vacuity of `queue_follows_partial`: a history with an appearing, a changing, an unchanged
and a disappearing storage -/
example :
    let h : List Cycle :=
      [⟨true, true, true, [], [⟨"s1", "", ["h1.x"]⟩, ⟨"s2", "", ["h2.x"]⟩]⟩,
       ⟨false, true, true, ["s1", "s2"], [⟨"s1", "", ["h1.x", "h3.x"]⟩, ⟨"s2", "", ["h2.x"]⟩, ⟨"s3", "X1", ["h4.x"]⟩]⟩,
       ⟨false, false, true, ["s3"], []⟩,
       ⟨false, true, true, ["s2"], []⟩]
    wfHist {} h ∧ (runCycles {} h).2 =
      [[.add "s2" ⟨"", ["h2.x"]⟩, .add "s1" ⟨"", ["h1.x"]⟩],
       [.add "s3" ⟨"X1", ["h4.x"]⟩, .add "s1" ⟨"", ["h1.x", "h3.x"]⟩, .remove "s1" ⟨"", ["h1.x"]⟩],
       [],
       [.remove "s2" ⟨"", ["h2.x"]⟩]] := by decide +kernel

/-! ## (c) the ingress converter feeding the storages -/

theorem acmeUpdate_items (l a : Bool) (s : Storages) : (acmeUpdate l a s).1.items = s.items := by
  unfold acmeUpdate
  cases l <;> cases a <;> rfl

/-- after a full sync the storages are exactly what the ingress world declares -/
theorem conv_full_items (s : ConvSt) (c : ConvCycle) (hf : c.full = true) :
    (convCycle s c).1.st.items = declared c.world := by
  unfold convCycle convPlan
  simp only [hf, if_true]
  rw [cycle_items]
  unfold preUpdate declared clear
  simp

/-- if the plan the converter produces respects the contract, the queue follows (instance of
`queue_follows_cycle_partial`) -/
theorem conv_follows_if_wf (s : ConvSt) (c : ConvCycle) (hadd : s.st.add = []) (hdel : s.st.del = [])
    (hp : c.full = false) (hl : c.leader = true) (ha : c.acct = true)
    (hwf : (convPlan s c).1.wf s.st) :
    (∀ n x, QOp.add n x ∈ (convCycle s c).2 ↔
        find (convCycle s c).1.st.items n = some x ∧ find s.st.items n ≠ some x) ∧
    (∀ n x, QOp.remove n x ∈ (convCycle s c).2 ↔
        find s.st.items n = some x ∧ find (convCycle s c).1.st.items n ≠ some x) := by
  have h1 : (convPlan s c).1.full = false := by unfold convPlan; simp [hp]
  have h2 : (convPlan s c).1.leader = true := by unfold convPlan; simp [hp, hl]
  have h3 : (convPlan s c).1.acct = true := by unfold convPlan; simp [hp, ha]
  exact queue_follows_cycle_partial s.st (convPlan s c).1 hadd hdel h1 hwf h2 h3

/- Full-strength statement (does NOT hold, see `inplace_change_not_enqueued`): for every history of
   ingress worlds the plan of every partial sync respects the contract, hence
   `oracleConv [] h (runConv {} h).2 = none`.

   `trackAddedIngress` pre-tracks only host names and backends of an added/updated ingress, not
   its acme storages: an ingress that starts to use a secret another (unchanged) ingress already
   uses reaches `Acquire` of an existing, un-removed storage and extends it in place; the storage is
   not in `itemsAdd`, nothing is enqueued until the next full sync / periodic check. -/

def wA : World := [{ name := "i1", rule := "r1.x", acme := true, chain := "", tls := [⟨"s1", ["r1.x"]⟩] }]
def wB : World := wA ++ [{ name := "i2", rule := "r2.x", acme := true, chain := "", tls := [⟨"s1", ["r2.x"]⟩] }]

/-- counter-example: a second ingress sharing the TLS secret is added by a partial sync -/
theorem inplace_change_not_enqueued :
    let h : List ConvCycle := [⟨true, true, true, wA⟩, ⟨false, true, true, wB⟩]
    let s1 := (convCycle {} ⟨true, true, true, wA⟩).1
    ¬ (convPlan s1 ⟨false, true, true, wB⟩).1.wf s1.st ∧
    declared wB = [("s1", ⟨"", ["r1.x", "r2.x"]⟩)] ∧
    (runConv {} h).2 = [[.add "s1" ⟨"", ["r1.x"]⟩], []] ∧
    oracleConv [] h (runConv {} h).2 = some "changed-storage-not-enqueued" := by decide +kernel

/-- the same two worlds through a full sync: the new item is enqueued, but the item of the old
domain set stays in the queue (finding 1 again) -/
example : (runConv {} [⟨true, true, true, wA⟩, ⟨true, true, true, wB⟩]).2 =
      [[.add "s1" ⟨"", ["r1.x"]⟩], [.add "s1" ⟨"", ["r1.x", "r2.x"]⟩]] ∧
    oracleConv [] [⟨true, true, true, wA⟩, ⟨true, true, true, wB⟩]
      (runConv {} [⟨true, true, true, wA⟩, ⟨true, true, true, wB⟩]).2 =
      some "full-sync-vanished-storage-not-removed" := by decide +kernel

/-- non-vacuity of the oracle: a history it accepts -/
example : oracleConv [] [⟨true, true, true, wB⟩, ⟨false, true, true, wA⟩, ⟨false, false, true, wB⟩]
    (runConv {} [⟨true, true, true, wB⟩, ⟨false, true, true, wA⟩, ⟨false, false, true, wB⟩]).2 = none := by
  decide +kernel

/-- deleting the sharing ingress again is tracked: old item removed, new one added -/
example : (runConv {} [⟨true, true, true, wB⟩, ⟨false, true, true, wA⟩]).2 =
    [[.add "s1" ⟨"", ["r1.x", "r2.x"]⟩], [.add "s1" ⟨"", ["r1.x"]⟩, .remove "s1" ⟨"", ["r1.x", "r2.x"]⟩]] := by
  decide +kernel

/-! ## facts regenerated from the Go source on every run -/

/-- the decision, the strict `Before`, the due date, the write guard, `VerifyHostname` per domain,
`DeepEqual` in shrink, `Clear()` carrying over only the backends, the leader/account guards of
`AcmeUpdate`, and the pre-tracking that knows nothing about acme storages -/
theorem facts_c17 :
    Facts.c17VerifyConds = ["errSecret != nil || tls.Crt.NotAfter.Before(duedate) || !match(domains, tls.Crt)",
      "errSecret != nil", "tls.Crt.NotAfter.Before(duedate)", "crt != nil && key != nil", "err != nil", "errTLS == nil"] ∧
    Facts.c17VerifyDue = ["duedate := time.Now().Add(s.expiring)"] ∧
    Facts.c17MatchBody = ["found := false",
      "for _, domain := range domains {\n\tfound = crt.VerifyHostname(domain) == nil\n\tif !found {\n\t\treturn false\n\t}\n}",
      "return true"] ∧
    Facts.c17ShrinkConds = ["found && reflect.DeepEqual(add, del)"] ∧
    Facts.c17AcquireConds = ["!found"] ∧
    Facts.c17AcquireAssigns = ["storage, found := c.items[name]",
      "storage = &AcmeCerts{\n\tcerts: map[string]struct{}{},\n}", "c.items[name] = storage", "c.itemsAdd[name] = storage"] ∧
    Facts.c17RemoveAllBody = ["for _, name := range names {\n\tif item, found := c.items[name]; found {\n\t\tc.itemsDel[name] = item\n\t\tdelete(c.items, name)\n\t}\n}"] ∧
    Facts.c17CommitBody = ["c.itemsAdd = map[string]*AcmeCerts{}", "c.itemsDel = map[string]*AcmeCerts{}"] ∧
    Facts.c17ClearBody = ["config := createConfig(c.options)", "config.backends = c.backends", "config.backends.Clear()", "*c = *config"] ∧
    Facts.c17AcmeUpdateConds = ["i.config == nil || i.options.AcmeQueue == nil", "le.IsLeader()", "!hasAccount", "storages.Updated()"] ∧
    Facts.c17AcmeUpdateCalls = [".Storages", "i.config.AcmeData", "le.IsLeader", "i.acmeEnsureConfig", "i.config.AcmeData",
      "storages.BuildAcmeStoragesAdd", "i.acmeAddStorage", "storages.BuildAcmeStoragesDel", "i.acmeRemoveStorage",
      "storages.Updated", "i.logger.InfoV", "le.LeaderName"] ∧
    Facts.c17PreTrackContexts = ["convtypes.ResourceHABackend", "ctx", "convtypes.ResourceHABackend"] := 
  ⟨rfl, rfl, rfl, rfl, rfl, rfl, rfl, rfl, rfl, rfl, rfl, rfl⟩

end HapVerif.C17
