import HapVerif.Lemmas.C17
import HapVerif.Generated.Facts
/-!
# C17 — ACME: certificates requested exactly when needed; the queue tracks Ingress changes

Models (`HapVerif.Model.C17`), all three tied to the Go code by the differential run of
`harness/c17` (real `acme.signer`, real `AcmeStorages`/`config.Clear`/`Commit`/`Instance.AcmeUpdate`,
real ingress converter + tracker):

* `notify`      = `signer.Notify`/`verify`/`match`
* `cycle`       = what one reconciliation does to the acme storages and the queue
* `convCycle`   = which storages the ingress converter removes/re-acquires per sync

Three places where the code does not meet the property are kept visible below: the full-strength
statement in a comment, the `_partial` theorem with its side condition, and a kernel-checked
counter-example on the model (the same inputs are in the harness corpus):

1. `full-sync-vanished-storage-not-removed` — `config.Clear()` drops the storages object
2. `changed-storage-not-enqueued` — the converter mutates an existing storage in place
3. `empty-domain-set-requested` — a storage without domains asks for the name ""
-/
namespace HapVerif.C17

/-! ## (a) signer: certificates are requested exactly when needed -/

/-! covers -/
theorem covers_self (d : Name) (h : d ≠ [""]) : coversOne d d = true := by
  unfold coversOne
  have : (d == [""]) = false := by simpa using h
  simp only [this, Bool.false_eq_true, if_false]
  by_cases hw : isWild d = true
  · simp [hw]
  · simp [hw]

theorem covers_wildcard (l : String) (rest : Name) (hl : l ≠ "*") (hr : rest ≠ []) :
    coversOne ("*" :: rest) (l :: rest) = true := by
  unfold coversOne isWild
  have h1 : ((l :: rest) == [""]) = false := by
    cases rest with
    | nil => exact absurd rfl hr
    | cons a t => simp
  cases rest with
  | nil => exact absurd rfl hr
  | cons a t => simp [hl]

theorem covers_wildcard_shape (rest d : Name) (hd : isWild d = false)
    (h : coversOne ("*" :: rest) d = true) : rest ≠ [] ∧ ∃ l, d = l :: rest := by
  unfold coversOne at h
  by_cases h0 : (d == [""]) = true
  · simp [h0] at h
  · simp only [h0, Bool.false_eq_true, if_false, hd] at h
    have hw : isWild ("*" :: rest) = true := by simp [isWild]
    simp only [hw, if_true, List.tail_cons, Bool.and_eq_true, Bool.not_eq_true', List.isEmpty_eq_false_iff,
      beq_iff_eq] at h
    refine ⟨h.1.1, ?_⟩
    cases d with
    | nil => exact absurd rfl h.1.2
    | cons a t => exact ⟨a, by simp at h; rw [h.2]⟩

theorem covers_wild_declared (san d : Name) (hd : isWild d = true) (h : coversOne san d = true) : san = d := by
  unfold coversOne at h
  by_cases h0 : (d == [""]) = true
  · simp [h0] at h
  · simpa [h0, hd] using h

theorem covers_exact (san d : Name) (hs : isWild san = false) (h : coversOne san d = true) : san = d := by
  unfold coversOne at h
  by_cases h0 : (d == [""]) = true
  · simp [h0] at h
  · by_cases hd : isWild d = true
    · simpa [h0, hd] using h
    · simpa [h0, hd, hs] using h

theorem covered_of_mem (sans : List Name) (d : Name) (hm : d ∈ sans) (h : d ≠ [""]) : covered sans d = true := by
  unfold covered
  exact List.any_eq_true.mpr ⟨d, hm, covers_self d h⟩


theorem itemDomains_of_ne {l : List Name} (h : l ≠ []) : itemDomains l = l := by
  unfold itemDomains; cases l with
  | nil => exact absurd rfl h
  | cons a t => rfl

theorem reasonOf_none_iff (i : VIn) (ds : List Name) :
    reasonOf i ds = none ↔ ∃ na sans, i.secret = .cert na sans ∧ ¬ na < i.now + i.window ∧ matchAll ds sans = true := by
  unfold reasonOf
  cases hs : i.secret with
  | missing => simp
  | cert na sans =>
    simp only [Secret.cert.injEq]
    constructor
    · intro h
      by_cases h1 : na < i.now + i.window
      · simp [h1] at h
      · simp only [h1, if_false] at h
        by_cases h2 : matchAll ds sans = true
        · exact ⟨na, sans, ⟨rfl, rfl⟩, h1, h2⟩
        · simp [h2] at h
    · rintro ⟨na', sans', ⟨rfl, rfl⟩, h1, h2⟩
      simp [h1, h2]

theorem signed_iff_reason (i : VIn) :
    (notify i).signed.isSome = true ↔ i.acct = true ∧ reasonOf i (itemDomains i.declared) ≠ none := by
  unfold notify
  by_cases ha : i.acct = true
  · simp only [ha, Bool.not_true, Bool.false_eq_true, if_false, true_and]
    cases hr : reasonOf i (itemDomains i.declared) with
    | none => simp
    | some r => by_cases hk : (i.sign.crt && i.sign.key) = true <;> simp [hk]
  · simp [ha]

theorem needed_iff (i : VIn) :
    needed i = true ↔ i.secret = .missing ∨
      ∃ na sans, i.secret = .cert na sans ∧ (na < i.now + i.window ∨ ∃ d ∈ i.declared, covered sans d = false) := by
  unfold needed
  cases hs : i.secret with
  | missing => simp
  | cert na sans =>
    simp only [Bool.or_eq_true, decide_eq_true_eq, Bool.not_eq_true', Secret.cert.injEq, false_or, reduceCtorEq,
      List.all_eq_false, Bool.not_eq_true]
    constructor
    · rintro (h | h)
      · exact ⟨na, sans, ⟨rfl, rfl⟩, Or.inl h⟩
      · exact ⟨na, sans, ⟨rfl, rfl⟩, Or.inr h⟩
    · rintro ⟨na', sans', ⟨rfl, rfl⟩, h⟩
      exact h

/-- **sign_iff** (for a non-empty declared domain set): with an account, `Client.Sign` is called
iff the secret is missing/unreadable, or `NotAfter < now + window` (strict), or some declared
domain is not covered by the certificate. -/
theorem sign_iff_partial (i : VIn) (hd : i.declared ≠ []) :
    (notify i).signed.isSome = true ↔ i.acct = true ∧
      (i.secret = .missing ∨ ∃ na sans, i.secret = .cert na sans ∧
        (na < i.now + i.window ∨ ∃ d ∈ i.declared, covered sans d = false)) := by
  rw [signed_iff_reason, itemDomains_of_ne hd, ← needed_iff]
  constructor
  · rintro ⟨ha, hr⟩
    refine ⟨ha, ?_⟩
    cases hn : needed i with
    | true => rfl
    | false =>
      exfalso; apply hr
      rw [reasonOf_none_iff]
      unfold needed at hn
      cases hs : i.secret with
      | missing => simp [hs] at hn
      | cert na sans =>
        simp only [hs, Bool.or_eq_false_iff, decide_eq_false_iff_not, Bool.not_eq_false'] at hn
        exact ⟨na, sans, rfl, hn.1, hn.2⟩
  · rintro ⟨ha, hn⟩
    refine ⟨ha, ?_⟩
    intro hr
    rw [reasonOf_none_iff] at hr
    obtain ⟨na, sans, hs, h1, h2⟩ := hr
    unfold needed at hn
    simp only [hs, Bool.or_eq_true, decide_eq_true_eq, Bool.not_eq_true'] at hn
    rcases hn with h | h
    · exact h1 h
    · unfold matchAll at h2; rw [h2] at h; cases h

theorem signed_domains (i : VIn) (ds : List Name) (h : (notify i).signed = some ds) :
    ds = itemDomains i.declared := by
  unfold notify at h
  by_cases ha : i.acct = true
  · simp only [ha, Bool.not_true, Bool.false_eq_true, if_false] at h
    cases hr : reasonOf i (itemDomains i.declared) with
    | none => simp [hr] at h
    | some r =>
      simp only [hr] at h
      cases hk : (i.sign.crt && i.sign.key) <;> simp [hk] at h <;> exact h.symm
  · simp [ha] at h

/-- **store_only_both**: the secret is written iff `Sign` was called and returned both a
certificate and a key (a warning-level `err` next to both does not prevent the write) -/
theorem store_only_both (i : VIn) :
    (notify i).written = true ↔ (notify i).signed.isSome = true ∧ i.sign.crt = true ∧ i.sign.key = true := by
  unfold notify
  by_cases ha : i.acct = true
  · simp only [ha, Bool.not_true, Bool.false_eq_true, if_false]
    cases hr : reasonOf i (itemDomains i.declared) with
    | none => simp
    | some r =>
      cases hk : (i.sign.crt && i.sign.key) <;> simp <;> simpa using hk
  · simp [ha]


/- Full-strength statement (does NOT hold, see `sign_iff_fails_for_empty_domain_set`):

   theorem sign_iff (i : VIn) : (notify i).signed.isSome = true ↔ i.acct = true ∧ (i.secret = .missing ∨ ...)

   It needs `i.declared ≠ []`: `buildAcmeStorages` renders an empty domain set as "name,chain," and
   `Notify` splits that into the single domain "", which no certificate covers. -/

def emptyWitness : VIn :=
  { acct := true, secret := .cert 100 [["a", "x"]], now := 0, window := 10, declared := [],
    sign := ⟨true, true, false⟩, setErr := false }

/-- counter-example: valid, not expiring certificate, no declared domain — nothing is needed, yet
`Sign([""])` is called and its result stored -/
theorem sign_iff_fails_for_empty_domain_set :
    needed emptyWitness = false ∧ (notify emptyWitness).signed = some [[""]] ∧
    (notify emptyWitness).written = true := by decide

/-- a valid certificate that covers every declared domain is never re-requested and the secret
is not written -/
theorem valid_never_rerequested (i : VIn) (na : Int) (sans : List Name) (hd : i.declared ≠ [])
    (hs : i.secret = .cert na sans) (ht : i.now + i.window ≤ na)
    (hc : ∀ d ∈ i.declared, covered sans d = true) :
    (notify i).signed = none ∧ (notify i).written = false := by
  have h1 : ¬ (notify i).signed.isSome = true := by
    rw [sign_iff_partial i hd]
    rintro ⟨_, h | ⟨na', sans', h, h2⟩⟩
    · rw [hs] at h; cases h
    · rw [hs] at h; cases h
      rcases h2 with h2 | ⟨d, hm, h2⟩
      · omega
      · rw [hc d hm] at h2; cases h2
  have h2 : ¬ (notify i).written = true := fun h => h1 ((store_only_both i).mp h).1
  constructor
  · cases h : (notify i).signed with
    | none => rfl
    | some _ => rw [h] at h1; exact absurd rfl h1
  · cases h : (notify i).written with
    | false => rfl
    | true => exact absurd h h2

/-- the expiry test is strict: a certificate whose `NotAfter` is exactly `now + window` is kept … -/
theorem boundary_equal_kept (i : VIn) (sans : List Name) (hd : i.declared ≠ [])
    (hs : i.secret = .cert (i.now + i.window) sans) (hc : ∀ d ∈ i.declared, covered sans d = true) :
    (notify i).signed = none :=
  (valid_never_rerequested i _ sans hd hs (Int.le_refl _) hc).1

/-- … and one nanosecond less is renewed -/
theorem boundary_minus_one_renewed (i : VIn) (na : Int) (sans : List Name) (hd : i.declared ≠ [])
    (ha : i.acct = true) (hs : i.secret = .cert na sans) (ht : na + 1 = i.now + i.window) :
    (notify i).signed = some i.declared := by
  have h : (notify i).signed.isSome = true := by
    rw [sign_iff_partial i hd]
    exact ⟨ha, Or.inr ⟨na, sans, hs, Or.inl (by omega)⟩⟩
  cases hx : (notify i).signed with
  | none => rw [hx] at h; cases h
  | some ds => rw [signed_domains i ds hx, itemDomains_of_ne hd]

/-- a certificate whose SAN list contains every declared name (a superset) is not re-requested -/
theorem superset_not_rerequested (i : VIn) (na : Int) (sans : List Name) (hd : i.declared ≠ [])
    (hs : i.secret = .cert na sans) (ht : i.now + i.window ≤ na)
    (hsub : ∀ d ∈ i.declared, d ∈ sans ∧ d ≠ [""]) : (notify i).signed = none :=
  (valid_never_rerequested i na sans hd hs ht (fun d hm => covered_of_mem sans d (hsub d hm).1 (hsub d hm).2)).1

/-- a declared name that no SAN covers (the certificate covers only a subset) is re-requested, with
the whole declared set -/
theorem subset_rerequested (i : VIn) (na : Int) (sans : List Name) (d : Name)
    (ha : i.acct = true) (hs : i.secret = .cert na sans) (hm : d ∈ i.declared) (hc : covered sans d = false) :
    (notify i).signed = some i.declared := by
  have hd : i.declared ≠ [] := by intro e; rw [e] at hm; cases hm
  have h : (notify i).signed.isSome = true := by
    rw [sign_iff_partial i hd]
    exact ⟨ha, Or.inr ⟨na, sans, hs, Or.inr ⟨d, hm, hc⟩⟩⟩
  cases hx : (notify i).signed with
  | none => rw [hx] at h; cases h
  | some ds => rw [signed_domains i ds hx, itemDomains_of_ne hd]

/-- without an account nothing is read, requested or written -/
theorem no_account_nothing (i : VIn) (h : i.acct = false) :
    (notify i).got = false ∧ (notify i).signed = none ∧ (notify i).written = false := by
  unfold notify; simp [h]

/-! non-vacuity: wildcard one label deep is covered, two labels deep is not; boundary cases -/
example : coversOne ["*", "dev", "local"] ["s3", "dev", "local"] = true := by decide
example : coversOne ["*", "dev", "local"] ["other", "s3", "dev", "local"] = false := by decide
example : coversOne ["*", "dev", "local"] ["dev", "local"] = false := by decide
example : coversOne ["*", "dev", "local"] ["*", "dev", "local"] = true := by decide
example : coversOne ["a", "dev", "local"] ["*", "dev", "local"] = false := by decide
def exIn (now : Int) (declared : List Name) (sign : SignRes) : VIn :=
  { acct := true, secret := .cert 10 [["a", "x"]], now := now, window := 7, declared := declared,
    sign := sign, setErr := false }
example : (notify (exIn 3 [["a", "x"]] ⟨true, true, false⟩)).signed = none := by decide
example : notify (exIn 4 [["a", "x"]] ⟨true, true, false⟩) =
    { got := true, signed := some [["a", "x"]], written := true, err := false,
      metric := some (.expiring, true) } := by decide
example : notify (exIn 0 [["a", "x"], ["b", "x"]] ⟨true, false, true⟩) =
    { got := true, signed := some [["a", "x"], ["b", "x"]], written := false, err := true,
      metric := some (.outdated, false) } := by decide

/-! ## (b) the queue follows the storages -/

/-- **queue_follows** for one partial (incremental) cycle on the leader: the queue gets an `Add`
for exactly the storages that are new or whose (chain, domain set) differs from before the cycle,
and a `Remove` for exactly the former items that are gone or changed. -/
theorem queue_follows_cycle_partial (s : Storages) (c : Cycle)
    (hadd : s.add = []) (hdel : s.del = []) (hp : c.full = false) (hwf : c.wf s)
    (hl : c.leader = true) (ha : c.acct = true) :
    (∀ n x, QOp.add n x ∈ (cycle s c).2 ↔
        find (cycle s c).1.items n = some x ∧ find s.items n ≠ some x) ∧
    (∀ n x, QOp.remove n x ∈ (cycle s c).2 ↔
        find s.items n = some x ∧ find (cycle s c).1.items n ≠ some x) := by
  have inv := preUpdate_inv s c hadd hp hwf
  have hud : Uniq (preUpdate s c).del := by
    rw [inv.del]; apply removeAll_uniq_del; rw [hdel]; exact uniq_nil
  have hdel0 : ∀ k, find (preUpdate s c).del k = if k ∈ c.dirty then find s.items k else none := by
    intro k; rw [inv.del]; exact removeAll_del s c.dirty k hdel
  have hit0 : ∀ k, find (removeAll s c.dirty).items k = if k ∈ c.dirty then none else find s.items k :=
    fun k => removeAll_items s c.dirty k
  rw [cycle_ops_leader s c hl ha, cycle_items]
  constructor
  · intro n x
    rw [mem_ops_add, mem_iff_find (shrink_uniq_add inv.uadd), shrink_add, hdel0]
    constructor
    · rintro ⟨h1, h2⟩
      refine ⟨inv.same n x h1, ?_⟩
      intro hs
      have hf := inv.fresh n (by rw [h1]; simp)
      rw [hit0] at hf
      by_cases hd : n ∈ c.dirty
      · simp only [hd, if_true] at h2; exact h2 hs
      · simp only [hd, if_false] at hf; rw [hf] at hs; cases hs
    · rintro ⟨h1, h2⟩
      cases hx : find (preUpdate s c).add n with
      | none =>
        have := inv.keep n hx
        rw [h1, hit0] at this
        by_cases hd : n ∈ c.dirty
        · simp [hd] at this
        · simp only [hd, if_false] at this; exact absurd this.symm h2
      | some y =>
        have := inv.same n y hx
        rw [h1] at this; cases this
        refine ⟨rfl, ?_⟩
        by_cases hd : n ∈ c.dirty
        · simp only [hd, if_true]; exact h2
        · simp [hd]
  · intro n x
    rw [mem_ops_remove, mem_iff_find (shrink_uniq_del hud), shrink_del, hdel0]
    constructor
    · rintro ⟨h1, h2⟩
      by_cases hd : n ∈ c.dirty
      · simp only [hd, if_true] at h1
        refine ⟨h1, ?_⟩
        intro hs
        cases hx : find (preUpdate s c).add n with
        | none =>
          have := inv.keep n hx
          rw [hs, hit0] at this; simp [hd] at this
        | some y =>
          have := inv.same n y hx
          rw [hs] at this; cases this
          exact h2 hx
      · simp [hd] at h1
    · rintro ⟨h1, h2⟩
      by_cases hd : n ∈ c.dirty
      · simp only [hd, if_true]
        refine ⟨h1, ?_⟩
        intro hx
        exact h2 (inv.same n x hx)
      · exfalso
        cases hx : find (preUpdate s c).add n with
        | none =>
          have := inv.keep n hx
          rw [hit0] at this; simp only [hd, if_false] at this
          rw [h1] at this; exact h2 this
        | some y =>
          have := inv.fresh n (by rw [hx]; simp)
          rw [hit0] at this; simp only [hd, if_false] at this
          rw [h1] at this; cases this


/-- incremental syncs do not re-enqueue (nor remove) an unchanged storage -/
theorem unchanged_not_reenqueued (s : Storages) (c : Cycle)
    (hadd : s.add = []) (hdel : s.del = []) (hp : c.full = false) (hwf : c.wf s)
    (hl : c.leader = true) (ha : c.acct = true) (n : String) (x : Cert)
    (h0 : find s.items n = some x) (h1 : find (cycle s c).1.items n = some x) :
    QOp.add n x ∉ (cycle s c).2 ∧ QOp.remove n x ∉ (cycle s c).2 := by
  have h := queue_follows_cycle_partial s c hadd hdel hp hwf hl ha
  exact ⟨fun hm => ((h.1 n x).mp hm).2 h0, fun hm => ((h.2 n x).mp hm).2 h1⟩

/-- non-leaders enqueue nothing -/
theorem nonleader_enqueues_nothing (s : Storages) (c : Cycle) (h : c.leader = false) : (cycle s c).2 = [] := by
  unfold cycle acmeUpdate; simp [h]

/-- without an ACME account nothing is enqueued either -/
theorem noaccount_enqueues_nothing (s : Storages) (c : Cycle) (h : c.acct = false) : (cycle s c).2 = [] := by
  unfold cycle acmeUpdate
  cases c.leader <;> simp [h]

/-- a full sync on the leader (the code that exists): every storage of the new state is enqueued,
nothing is ever removed — the old storages object, hence what vanished, is gone after `Clear()` -/
theorem queue_full_cycle (s : Storages) (c : Cycle) (hf : c.full = true)
    (hl : c.leader = true) (ha : c.acct = true) :
    (∀ n x, QOp.add n x ∈ (cycle s c).2 ↔ find (cycle s c).1.items n = some x) ∧
    (∀ n x, QOp.remove n x ∉ (cycle s c).2) := by
  have hpre : preUpdate s c = applyAcqs {} c.acqs := by unfold preUpdate clear; simp [hf]
  have inv : AcqInv {} (preUpdate s c) := by
    rw [hpre]
    apply applyAcqs_inv
    · exact ⟨rfl, fun _ _ => rfl, fun k x h => by simp [find] at h, fun k h => by simp [find] at h, uniq_nil⟩
    · intro a _; rfl
  have hdel : (preUpdate s c).del = [] := inv.del
  rw [cycle_ops_leader s c hl ha, cycle_items]
  constructor
  · intro n x
    rw [mem_ops_add, mem_iff_find (shrink_uniq_add inv.uadd), shrink_add, hdel]
    constructor
    · rintro ⟨h1, _⟩; exact inv.same n x h1
    · intro h1
      refine ⟨?_, by simp [find]⟩
      cases hx : find (preUpdate s c).add n with
      | none => have := inv.keep n hx; rw [h1] at this; simp [find] at this
      | some y => have := inv.same n y hx; rw [h1] at this; cases this; rfl
  · intro n x
    rw [mem_ops_remove]
    have : (shrink (preUpdate s c)).del = [] := by unfold shrink; simp [hdel]
    rw [this]; simp

/-! ### histories -/

/-- what the queue sees in one cycle, as the code behaves: `prev`/`new` are the storages before and
after the cycle -/
def SpecCycle (prev new : SMap) (c : Cycle) (o : List QOp) : Prop :=
  if c.leader = true ∧ c.acct = true then
    if c.full = true then
      (∀ n x, QOp.add n x ∈ o ↔ find new n = some x) ∧ (∀ n x, QOp.remove n x ∉ o)
    else
      (∀ n x, QOp.add n x ∈ o ↔ find new n = some x ∧ find prev n ≠ some x) ∧
      (∀ n x, QOp.remove n x ∈ o ↔ find prev n = some x ∧ find new n ≠ some x)
  else o = []

def Follows : Storages → List Cycle → List (List QOp) → Prop
  | _, [], os => os = []
  | _, _ :: _, [] => False
  | s, c :: cs, o :: os => SpecCycle s.items (cycle s c).1.items c o ∧ Follows (cycle s c).1 cs os

/-- every cycle of the history respects the converter contract -/
def wfHist : Storages → List Cycle → Prop
  | _, [] => True
  | s, c :: cs => c.wf s ∧ wfHist (cycle s c).1 cs

def decWfHist : (s : Storages) → (cs : List Cycle) → Decidable (wfHist s cs)
  | _, [] => isTrue trivial
  | s, c :: cs =>
    have := decWfHist (cycle s c).1 cs
    show Decidable (c.wf s ∧ wfHist (cycle s c).1 cs) from inferInstance
instance (s : Storages) (cs : List Cycle) : Decidable (wfHist s cs) := decWfHist s cs

/- Full-strength statement (does NOT hold for full syncs, see `full_sync_vanished_not_removed`):

   theorem queue_follows : ... → Follows' s cs (runCycles s cs).2
     where for EVERY cycle on the leader  adds ⊇ new ∖ prev,  removes = prev ∖ new

   A full sync replaces the storages object (`config.Clear()` -> `createConfig`), so the entries
   that disappear with it are never passed to `AcmeQueue.Remove`. -/

/-- **queue_follows** over all histories of reconciliation cycles (partial and full, leader or not,
with or without account) that start from a committed state and respect the converter contract:
on the leader a partial cycle adds exactly the storages that appeared or changed and removes
exactly the items that disappeared or changed; unchanged ones are not touched; a non-leader
enqueues nothing; a full sync enqueues everything and removes nothing. -/
theorem queue_follows_partial (cs : List Cycle) :
    ∀ (s : Storages), s.add = [] → s.del = [] → wfHist s cs → Follows s cs (runCycles s cs).2 := by
  induction cs with
  | nil => intro s _ _ _; rfl
  | cons c cs ih =>
    intro s hadd hdel hw
    simp only [runCycles, Follows]
    refine ⟨?_, ih _ (cycle_committed s c).1 (cycle_committed s c).2 hw.2⟩
    unfold SpecCycle
    by_cases hla : c.leader = true ∧ c.acct = true
    · simp only [hla, and_self, if_true]
      by_cases hf : c.full = true
      · simp only [hf, if_true]; exact queue_full_cycle s c hf hla.1 hla.2
      · have hf' : c.full = false := by simpa using hf
        simp only [hf', Bool.false_eq_true, if_false]
        exact queue_follows_cycle_partial s c hadd hdel hf' hw.1 hla.1 hla.2
    · simp only [hla, if_false]
      by_cases hl : c.leader = true
      · have : c.acct = false := by
          cases h : c.acct with
          | false => rfl
          | true => exact absurd ⟨hl, h⟩ hla
        exact noaccount_enqueues_nothing s c this
      · exact nonleader_enqueues_nothing s c (by simpa using hl)

/-- counter-example for full syncs: `s1` is declared, then a full sync without it — no `Remove` -/
theorem full_sync_vanished_not_removed :
    let c1 : Cycle := ⟨true, true, true, [], [⟨"s1", "", ["h1.x"]⟩]⟩
    let c2 : Cycle := ⟨true, true, true, [], []⟩
    let s1 := (cycle {} c1).1
    find s1.items "s1" = some ⟨"", ["h1.x"]⟩ ∧ find (cycle s1 c2).1.items "s1" = none ∧
    (cycle s1 c2).2 = [] ∧
    oracleCycle true true true s1.items (cycle s1 c2).1.items (cycle s1 c2).2 =
      some "full-sync-vanished-storage-not-removed" := by decide +kernel

/-- non-vacuity of `queue_follows_partial`: a history with an appearing, a changing, an unchanged
and a disappearing storage -/
example :
    let h : List Cycle :=
      [⟨true, true, true, [], [⟨"s1", "", ["h1.x"]⟩, ⟨"s2", "", ["h2.x"]⟩]⟩,
       ⟨false, true, true, ["s1", "s2"], [⟨"s1", "", ["h1.x", "h3.x"]⟩, ⟨"s2", "", ["h2.x"]⟩, ⟨"s3", "X1", ["h4.x"]⟩]⟩,
       ⟨false, false, true, ["s3"], []⟩,
       ⟨false, true, true, ["s2"], []⟩]
    wfHist {} h ∧ (runCycles {} h).2 =
      [[.add "s2" ⟨"", ["h2.x"]⟩, .add "s1" ⟨"", ["h1.x"]⟩],
       [.add "s3" ⟨"X1", ["h4.x"]⟩, .add "s1" ⟨"", ["h1.x", "h3.x"]⟩, .remove "s1" ⟨"", ["h1.x"]⟩],
       [],
       [.remove "s2" ⟨"", ["h2.x"]⟩]] := by decide +kernel

/-! ## (c) the ingress converter feeding the storages -/

theorem acmeUpdate_items (l a : Bool) (s : Storages) : (acmeUpdate l a s).1.items = s.items := by
  unfold acmeUpdate
  cases l <;> cases a <;> rfl

/-- after a full sync the storages are exactly what the ingress world declares -/
theorem conv_full_items (s : ConvSt) (c : ConvCycle) (hf : c.full = true) :
    (convCycle s c).1.st.items = declared c.world := by
  unfold convCycle convPlan
  simp only [hf, if_true]
  rw [cycle_items]
  unfold preUpdate declared clear
  simp

/-- if the plan the converter produces respects the contract, the queue follows (instance of
`queue_follows_cycle_partial`) -/
theorem conv_follows_if_wf (s : ConvSt) (c : ConvCycle) (hadd : s.st.add = []) (hdel : s.st.del = [])
    (hp : c.full = false) (hl : c.leader = true) (ha : c.acct = true)
    (hwf : (convPlan s c).1.wf s.st) :
    (∀ n x, QOp.add n x ∈ (convCycle s c).2 ↔
        find (convCycle s c).1.st.items n = some x ∧ find s.st.items n ≠ some x) ∧
    (∀ n x, QOp.remove n x ∈ (convCycle s c).2 ↔
        find s.st.items n = some x ∧ find (convCycle s c).1.st.items n ≠ some x) := by
  have h1 : (convPlan s c).1.full = false := by unfold convPlan; simp [hp]
  have h2 : (convPlan s c).1.leader = true := by unfold convPlan; simp [hp, hl]
  have h3 : (convPlan s c).1.acct = true := by unfold convPlan; simp [hp, ha]
  exact queue_follows_cycle_partial s.st (convPlan s c).1 hadd hdel h1 hwf h2 h3

/- Full-strength statement (does NOT hold, see `inplace_change_not_enqueued`): for every history of
   ingress worlds the plan of every partial sync respects the contract, hence
   `oracleConv [] h (runConv {} h).2 = none`.

   `trackAddedIngress` pre-tracks only host names and backends of an added/updated ingress, not
   its acme storages: an ingress that starts to use a secret another (unchanged) ingress already
   uses reaches `Acquire` of an existing, un-removed storage and extends it in place; the storage is
   not in `itemsAdd`, nothing is enqueued until the next full sync / periodic check. -/

def wA : World := [{ name := "i1", rule := "r1.x", acme := true, chain := "", tls := [⟨"s1", ["r1.x"]⟩] }]
def wB : World := wA ++ [{ name := "i2", rule := "r2.x", acme := true, chain := "", tls := [⟨"s1", ["r2.x"]⟩] }]

/-- counter-example: a second ingress sharing the TLS secret is added by a partial sync -/
theorem inplace_change_not_enqueued :
    let h : List ConvCycle := [⟨true, true, true, wA⟩, ⟨false, true, true, wB⟩]
    let s1 := (convCycle {} ⟨true, true, true, wA⟩).1
    ¬ (convPlan s1 ⟨false, true, true, wB⟩).1.wf s1.st ∧
    declared wB = [("s1", ⟨"", ["r1.x", "r2.x"]⟩)] ∧
    (runConv {} h).2 = [[.add "s1" ⟨"", ["r1.x"]⟩], []] ∧
    oracleConv [] h (runConv {} h).2 = some "changed-storage-not-enqueued" := by decide +kernel

/-- the same two worlds through a full sync: the new item is enqueued, but the item of the old
domain set stays in the queue (finding 1 again) -/
example : (runConv {} [⟨true, true, true, wA⟩, ⟨true, true, true, wB⟩]).2 =
      [[.add "s1" ⟨"", ["r1.x"]⟩], [.add "s1" ⟨"", ["r1.x", "r2.x"]⟩]] ∧
    oracleConv [] [⟨true, true, true, wA⟩, ⟨true, true, true, wB⟩]
      (runConv {} [⟨true, true, true, wA⟩, ⟨true, true, true, wB⟩]).2 =
      some "full-sync-vanished-storage-not-removed" := by decide +kernel

/-- non-vacuity of the oracle: a history it accepts -/
example : oracleConv [] [⟨true, true, true, wB⟩, ⟨false, true, true, wA⟩, ⟨false, false, true, wB⟩]
    (runConv {} [⟨true, true, true, wB⟩, ⟨false, true, true, wA⟩, ⟨false, false, true, wB⟩]).2 = none := by
  decide +kernel

/-- deleting the sharing ingress again is tracked: old item removed, new one added -/
example : (runConv {} [⟨true, true, true, wB⟩, ⟨false, true, true, wA⟩]).2 =
    [[.add "s1" ⟨"", ["r1.x", "r2.x"]⟩], [.add "s1" ⟨"", ["r1.x"]⟩, .remove "s1" ⟨"", ["r1.x", "r2.x"]⟩]] := by
  decide +kernel

/-! ## a repair, checked on the model

Not the code that exists: `Fix.*` models a small change of `pkg/haproxy/types/global.go`
(`Acquire` registers an already committed storage that is handed out again, `Clear()` keeps the
storages object and turns its items into removal candidates, `shrink` keeps the additions of a
full sync) for which the FULL-STRENGTH statement is provable — without any contract on the
converter. It is here to show that findings 1 and 2 have a small repair inside `AcmeStorages`
and to make the switch of the model trivial once the code is changed. -/

namespace Fix

/-- proposed `Acquire`: an already committed storage that is handed out again is registered in
`itemsAdd`, and a copy of its former state in `itemsDel` (so `shrink` cancels it when nothing
changed and `AcmeUpdate` sees the difference otherwise) -/
def acquire (s : Storages) (n chain : String) (doms : List String) : Storages :=
  match find s.items n with
  | none =>
    let c : Cert := { chain := assignChain "" chain, doms := addDoms [] doms }
    { s with items := insert s.items n c, add := insert s.add n c }
  | some cur =>
    let c : Cert := { chain := assignChain cur.chain chain, doms := addDoms cur.doms doms }
    if (find s.add n).isSome then { s with items := insert s.items n c, add := insert s.add n c }
    else { items := insert s.items n c, add := insert s.add n c,
           del := if (find s.del n).isSome then s.del else insert s.del n cur }

/-- proposed `AcmeStorages.Clear()` called by `config.Clear()` on the carried-over object: all the
current storages become removal candidates -/
def clear (s : Storages) : Storages :=
  { items := [], add := [], del := s.items ++ s.del.filter (fun e => (find s.items e.1).isNone) }

/-- proposed `shrink`: after a `Clear()` (full sync) equal pairs are only dropped from the removal
side, so that a full sync still enqueues every storage -/
def shrink (full : Bool) (s : Storages) : Storages :=
  let same (n : String) : Bool := (find s.add n).isSome && find s.add n == find s.del n
  { s with add := if full then s.add else s.add.filter (fun e => !same e.1),
           del := s.del.filter (fun e => !same e.1) }

/-- proposed `AcmeUpdate`: removals first -/
def acmeUpdate (full leader acct : Bool) (s : Storages) : Storages × List QOp :=
  if leader then
    if !acct then (s, [])
    else
      let s' := shrink full s
      (s', s'.add.map (fun e => QOp.add e.1 e.2) ++ s'.del.map (fun e => QOp.remove e.1 e.2))
  else (shrink full s, [])

def applyAcqs (s : Storages) (as : List Acq) : Storages :=
  as.foldl (fun s a => acquire s a.name a.chain a.doms) s

def preUpdate (s : Storages) (c : Cycle) : Storages :=
  applyAcqs (if c.full then clear s else removeAll s c.dirty) c.acqs

def cycle (s : Storages) (c : Cycle) : Storages × List QOp :=
  let r := acmeUpdate c.full c.leader c.acct (preUpdate s c)
  (commit r.1, r.2)

def runCycles (s : Storages) : List Cycle → Storages × List (List QOp)
  | [] => (s, [])
  | c :: cs =>
    let r := cycle s c
    let rest := runCycles r.1 cs
    (rest.1, r.2 :: rest.2)

/-- invariant of the acquisitions relative to the state `s0` they start from and the storages `P`
before the cycle -/
structure Inv (s0 : Storages) (P : SMap) (s : Storages) : Prop where
  keep : ∀ k, find s.add k = none → find s.items k = find s0.items k ∧ find s.del k = find s0.del k
  same : ∀ k c, find s.add k = some c → find s.items k = some c
  old  : ∀ k, find s.add k ≠ none → find s.del k = find P k
  uadd : Uniq s.add
  udel : Uniq s.del

/-- what the start state must satisfy w.r.t. `P` -/
structure Start (s0 : Storages) (P : SMap) : Prop where
  h0 : ∀ k, find s0.items k = none → find s0.del k = find P k
  h1 : ∀ k c, find s0.items k = some c → find s0.del k = none ∧ find P k = some c

theorem acquire_inv {s0 s : Storages} {P : SMap} (hs : Start s0 P) (h : Inv s0 P s)
    (n ch : String) (ds : List String) : Inv s0 P (acquire s n ch ds) := by
  unfold acquire
  split
  · rename_i hnone
    have hadd : find s.add n = none := by
      cases hx : find s.add n with
      | none => rfl
      | some y => have := h.same n y hx; rw [hnone] at this; cases this
    have hk := h.keep n hadd
    have hdel : find s.del n = find P n := by rw [hk.2]; exact hs.h0 n (by rw [← hk.1]; exact hnone)
    refine ⟨?_, ?_, ?_, uniq_insert h.uadd _ _, h.udel⟩
    · intro k hk
      simp only [find_insert] at hk ⊢
      by_cases e : k = n
      · simp [e] at hk
      · simp only [e, if_false] at hk ⊢; exact h.keep k hk
    · intro k c hk
      simp only [find_insert] at hk ⊢
      by_cases e : k = n
      · simp only [e, if_true] at hk ⊢; exact hk
      · simp only [e, if_false] at hk ⊢; exact h.same k c hk
    · intro k hk
      simp only [find_insert] at hk
      by_cases e : k = n
      · subst e; exact hdel
      · simp only [e, if_false] at hk; exact h.old k hk
  · rename_i cur hcur
    cases hx : find s.add n with
    | some y =>
      simp only [Option.isSome_some, if_true]
      refine ⟨?_, ?_, ?_, uniq_insert h.uadd _ _, h.udel⟩
      · intro k hk
        simp only [find_insert] at hk ⊢
        by_cases e : k = n
        · simp [e] at hk
        · simp only [e, if_false] at hk ⊢; exact h.keep k hk
      · intro k c hk
        simp only [find_insert] at hk ⊢
        by_cases e : k = n
        · simp only [e, if_true] at hk ⊢; exact hk
        · simp only [e, if_false] at hk ⊢; exact h.same k c hk
      · intro k hk
        simp only [find_insert] at hk
        by_cases e : k = n
        · subst e; exact h.old k (by rw [hx]; simp)
        · simp only [e, if_false] at hk; exact h.old k hk
    | none =>
      have hk := h.keep n hx
      have h1 := hs.h1 n cur (by rw [← hk.1]; exact hcur)
      have hdn : find s.del n = none := by rw [hk.2]; exact h1.1
      simp only [Option.isSome_none, Bool.false_eq_true, if_false, hdn]
      refine ⟨?_, ?_, ?_, uniq_insert h.uadd _ _, uniq_insert h.udel _ _⟩
      · intro k hk
        simp only [find_insert] at hk ⊢
        by_cases e : k = n
        · simp [e] at hk
        · simp only [e, if_false] at hk ⊢; exact h.keep k hk
      · intro k c hk
        simp only [find_insert] at hk ⊢
        by_cases e : k = n
        · simp only [e, if_true] at hk ⊢; exact hk
        · simp only [e, if_false] at hk ⊢; exact h.same k c hk
      · intro k hk
        simp only [find_insert] at hk ⊢
        by_cases e : k = n
        · subst e; simp only [if_true]; exact h1.2.symm
        · simp only [e, if_false] at hk ⊢; exact h.old k hk

theorem applyAcqs_inv {s0 : Storages} {P : SMap} (hs : Start s0 P) (as : List Acq) {s : Storages}
    (h : Inv s0 P s) : Inv s0 P (applyAcqs s as) := by
  unfold applyAcqs
  induction as generalizing s with
  | nil => exact h
  | cons a t ih => simp only [List.foldl_cons]; exact ih (acquire_inv hs h _ _ _)


theorem find_append (a b : SMap) (k : String) :
    find (a ++ b) k = match find a k with | some c => some c | none => find b k := by
  induction a with
  | nil => simp [find]
  | cons e t ih =>
    obtain ⟨x, v⟩ := e
    simp only [List.cons_append, find]
    by_cases h : x = k
    · simp [h]
    · simp [h, ih]

theorem shrink_add_partial (s : Storages) (k : String) (c : Cert) :
    find (shrink false s).add k = some c ↔ find s.add k = some c ∧ find s.del k ≠ some c :=
  HapVerif.C17.shrink_add s k c

theorem shrink_del (full : Bool) (s : Storages) (k : String) (c : Cert) :
    find (shrink full s).del k = some c ↔ find s.del k = some c ∧ find s.add k ≠ some c :=
  HapVerif.C17.shrink_del s k c

theorem shrink_add_full (s : Storages) : (shrink true s).add = s.add := rfl

theorem shrink_uniq_add (full : Bool) {s : Storages} (h : Uniq s.add) : Uniq (shrink full s).add := by
  unfold shrink; cases full
  · exact uniq_filter _ h
  · exact h
theorem shrink_uniq_del (full : Bool) {s : Storages} (h : Uniq s.del) : Uniq (shrink full s).del := uniq_filter _ h

/-- start state of a partial cycle -/
theorem start_partial (s : Storages) (dirty : List String) (hdel : s.del = []) :
    Start (removeAll s dirty) s.items := by
  constructor
  · intro k hk
    rw [removeAll_items] at hk; rw [removeAll_del s dirty k hdel]
    by_cases hd : k ∈ dirty
    · simp [hd]
    · simp only [hd, if_false] at hk ⊢; exact hk.symm
  · intro k c hk
    rw [removeAll_items] at hk; rw [removeAll_del s dirty k hdel]
    by_cases hd : k ∈ dirty
    · simp [hd] at hk
    · simp only [hd, if_false] at hk ⊢; exact ⟨trivial, hk⟩

theorem clear_del (s : Storages) (hdel : s.del = []) : (clear s).del = s.items := by
  unfold clear; simp [hdel]

theorem start_full (s : Storages) (hdel : s.del = []) : Start (clear s) s.items := by
  constructor
  · intro k _; rw [clear_del s hdel]
  · intro k c hk; simp [clear, find] at hk

theorem inv_init (s0 : Storages) (P : SMap) (ha : s0.add = []) (hu : Uniq s0.del) : Inv s0 P s0 :=
  ⟨fun _ _ => ⟨rfl, rfl⟩, fun k c h => by rw [ha] at h; simp [find] at h,
   fun k h => by rw [ha] at h; simp [find] at h, by rw [ha]; exact uniq_nil, hu⟩

theorem cycle_items (s : Storages) (c : Cycle) : (cycle s c).1.items = (preUpdate s c).items := by
  unfold cycle acmeUpdate commit
  split
  · split <;> rfl
  · rfl

theorem cycle_committed (s : Storages) (c : Cycle) : (cycle s c).1.add = [] ∧ (cycle s c).1.del = [] := by
  unfold cycle commit; exact ⟨rfl, rfl⟩

theorem cycle_ops_leader (s : Storages) (c : Cycle) (hl : c.leader = true) (ha : c.acct = true) :
    (cycle s c).2 = (shrink c.full (preUpdate s c)).add.map (fun e => QOp.add e.1 e.2) ++
                    (shrink c.full (preUpdate s c)).del.map (fun e => QOp.remove e.1 e.2) := by
  unfold cycle acmeUpdate; simp [hl, ha]

/-- removals, for both kinds of cycle -/
theorem removes_char {s0 s : Storages} {P : SMap} (_hs : Start s0 P) (inv : Inv s0 P s)
    (h2 : ∀ k c, find s0.del k = some c → find P k = some c ∧ find s0.items k = none)
    (h3 : ∀ k c, find P k = some c → find s0.items k = some c ∨ find s0.del k = some c)
    (k : String) (x : Cert) :
    (find s.del k = some x ∧ find s.add k ≠ some x) ↔ (find P k = some x ∧ find s.items k ≠ some x) := by
  constructor
  · rintro ⟨hd, ha⟩
    cases hx : find s.add k with
    | none =>
      have hk := inv.keep k hx
      rw [hk.2] at hd
      have := h2 k x hd
      exact ⟨this.1, by rw [hk.1, this.2]; simp⟩
    | some y =>
      have ho := inv.old k (by rw [hx]; simp)
      rw [ho] at hd
      refine ⟨hd, ?_⟩
      rw [inv.same k y hx]
      intro e; cases e; exact ha hx
  · rintro ⟨hp, hn⟩
    cases hx : find s.add k with
    | none =>
      have hk := inv.keep k hx
      rcases h3 k x hp with h | h
      · rw [hk.1] at hn; exact absurd h hn
      · exact ⟨by rw [hk.2]; exact h, by simp⟩
    | some y =>
      have ho := inv.old k (by rw [hx]; simp)
      refine ⟨by rw [ho]; exact hp, ?_⟩
      intro e; cases e
      exact hn (inv.same k x hx)

theorem removeOne_uniq_items {s : Storages} (h : Uniq s.items) (n : String) : Uniq (removeOne s n).items := by
  unfold removeOne; split
  · exact uniq_erase h _
  · exact h

theorem removeAll_uniq_items {s : Storages} (h : Uniq s.items) (ns : List String) : Uniq (removeAll s ns).items := by
  unfold removeAll
  induction ns generalizing s with
  | nil => exact h
  | cons n t ih => simp only [List.foldl_cons]; exact ih (removeOne_uniq_items h n)

theorem acquire_uniq_items {s : Storages} (h : Uniq s.items) (n ch : String) (ds : List String) :
    Uniq (acquire s n ch ds).items := by
  unfold acquire; split
  · exact uniq_insert h _ _
  · split <;> exact uniq_insert h _ _

theorem applyAcqs_uniq_items (as : List Acq) {s : Storages} (h : Uniq s.items) : Uniq (applyAcqs s as).items := by
  unfold applyAcqs
  induction as generalizing s with
  | nil => exact h
  | cons a t ih => simp only [List.foldl_cons]; exact ih (acquire_uniq_items h _ _ _)

theorem cycle_uniq_items (s : Storages) (c : Cycle) (hu : Uniq s.items) : Uniq (cycle s c).1.items := by
  rw [cycle_items]; unfold preUpdate
  apply applyAcqs_uniq_items
  cases c.full
  · exact removeAll_uniq_items hu _
  · exact uniq_nil

/-- **queue_follows for the repaired model**, one cycle, no converter contract: on the leader the
queue gets a `Remove` for exactly the former items that are gone or changed — partial AND full
sync — and an `Add` for exactly the new/changed storages (partial) or for every storage (full). -/
theorem queue_follows_cycle (s : Storages) (c : Cycle) (hadd : s.add = []) (hdel : s.del = [])
    (hu : Uniq s.items) (hl : c.leader = true) (ha : c.acct = true) :
    (∀ n x, QOp.add n x ∈ (cycle s c).2 ↔
        find (cycle s c).1.items n = some x ∧ (c.full = true ∨ find s.items n ≠ some x)) ∧
    (∀ n x, QOp.remove n x ∈ (cycle s c).2 ↔
        find s.items n = some x ∧ find (cycle s c).1.items n ≠ some x) := by
  rw [cycle_ops_leader s c hl ha, cycle_items]
  cases hf : c.full with
  | false =>
    have hs := start_partial s c.dirty hdel
    have hu0 : Uniq (removeAll s c.dirty).del := removeAll_uniq_del (by rw [hdel]; exact uniq_nil) _
    have inv : Inv (removeAll s c.dirty) s.items (preUpdate s c) := by
      unfold preUpdate; simp only [hf, Bool.false_eq_true, if_false]
      exact applyAcqs_inv hs _ (inv_init _ _ (by rw [removeAll_add, hadd]) hu0)
    have h2 : ∀ k x, find (removeAll s c.dirty).del k = some x →
        find s.items k = some x ∧ find (removeAll s c.dirty).items k = none := by
      intro k x h
      rw [removeAll_del s c.dirty k hdel] at h; rw [removeAll_items]
      by_cases hd : k ∈ c.dirty
      · simp only [hd, if_true] at h ⊢; exact ⟨h, trivial⟩
      · simp [hd] at h
    have h3 : ∀ k x, find s.items k = some x →
        find (removeAll s c.dirty).items k = some x ∨ find (removeAll s c.dirty).del k = some x := by
      intro k x h
      rw [removeAll_del s c.dirty k hdel, removeAll_items]
      by_cases hd : k ∈ c.dirty
      · simp [hd, h]
      · simp [hd, h]
    constructor
    · intro n x
      rw [mem_ops_add, mem_iff_find (shrink_uniq_add _ inv.uadd), shrink_add_partial]
      simp only [Bool.false_eq_true, false_or]
      constructor
      · rintro ⟨h1, hd⟩
        refine ⟨inv.same n x h1, ?_⟩
        rw [← inv.old n (by rw [h1]; simp)]; exact hd
      · rintro ⟨h1, hp⟩
        cases hx : find (preUpdate s c).add n with
        | none =>
          have hk := inv.keep n hx
          rw [hk.1] at h1
          exact absurd (hs.h1 n x h1).2 hp
        | some y =>
          have := inv.same n y hx
          rw [h1] at this; cases this
          exact ⟨rfl, by rw [inv.old n (by rw [hx]; simp)]; exact hp⟩
    · intro n x
      rw [mem_ops_remove, mem_iff_find (shrink_uniq_del _ inv.udel), shrink_del]
      exact removes_char hs inv h2 h3 n x
  | true =>
    have hs := start_full s hdel
    have hu0 : Uniq (clear s).del := by rw [clear_del s hdel]; exact hu
    have inv : Inv (clear s) s.items (preUpdate s c) := by
      unfold preUpdate; simp only [hf, if_true]
      exact applyAcqs_inv hs _ (inv_init _ _ rfl hu0)
    have h2 : ∀ k x, find (clear s).del k = some x → find s.items k = some x ∧ find (clear s).items k = none := by
      intro k x h; rw [clear_del s hdel] at h; exact ⟨h, rfl⟩
    have h3 : ∀ k x, find s.items k = some x →
        find (clear s).items k = some x ∨ find (clear s).del k = some x := by
      intro k x h; right; rw [clear_del s hdel]; exact h
    constructor
    · intro n x
      rw [mem_ops_add, mem_iff_find (shrink_uniq_add _ inv.uadd), shrink_add_full]
      simp only [true_or, and_true]
      constructor
      · exact inv.same n x
      · intro h1
        cases hx : find (preUpdate s c).add n with
        | none =>
          have hk := inv.keep n hx
          rw [hk.1] at h1; simp [clear, find] at h1
        | some y =>
          have := inv.same n y hx
          rw [h1] at this; cases this; rfl
    · intro n x
      rw [mem_ops_remove, mem_iff_find (shrink_uniq_del _ inv.udel), shrink_del]
      exact removes_char hs inv h2 h3 n x

/-- Spec of one cycle at full strength -/
def SpecFull (prev new : SMap) (c : Cycle) (o : List QOp) : Prop :=
  if c.leader = true ∧ c.acct = true then
    (∀ n x, QOp.add n x ∈ o ↔ find new n = some x ∧ (c.full = true ∨ find prev n ≠ some x)) ∧
    (∀ n x, QOp.remove n x ∈ o ↔ find prev n = some x ∧ find new n ≠ some x)
  else o = []

def FollowsFull : Storages → List Cycle → List (List QOp) → Prop
  | _, [], os => os = []
  | _, _ :: _, [] => False
  | s, c :: cs, o :: os => SpecFull s.items (cycle s c).1.items c o ∧ FollowsFull (cycle s c).1 cs os

theorem not_leader_or_account (s : Storages) (c : Cycle) (h : ¬ (c.leader = true ∧ c.acct = true)) :
    (cycle s c).2 = [] := by
  unfold cycle acmeUpdate
  cases hl : c.leader <;> cases ha : c.acct <;> simp_all

/-- **queue_follows, full strength, for the repaired model**: all histories of partial and full
cycles, no contract on what the converter removes or acquires -/
theorem queue_follows_repaired (cs : List Cycle) :
    ∀ (s : Storages), s.add = [] → s.del = [] → Uniq s.items → FollowsFull s cs (runCycles s cs).2 := by
  induction cs with
  | nil => intro s _ _ _; rfl
  | cons c cs ih =>
    intro s hadd hdel hu
    simp only [runCycles, FollowsFull]
    refine ⟨?_, ih _ (cycle_committed s c).1 (cycle_committed s c).2 (cycle_uniq_items s c hu)⟩
    unfold SpecFull
    by_cases hla : c.leader = true ∧ c.acct = true
    · simp only [hla, and_self, if_true]
      exact queue_follows_cycle s c hadd hdel hu hla.1 hla.2
    · simp only [hla, if_false]
      exact not_leader_or_account s c hla

/-- the two counter-examples are gone in the repaired model: the in-place extension is enqueued
(new item added, old item removed) and a full sync removes what vanished -/
example :
    let s1 := (cycle {} ⟨true, true, true, [], [⟨"s1", "", ["r1.x"]⟩]⟩).1
    (cycle s1 ⟨false, true, true, [], [⟨"s1", "", ["r2.x"]⟩]⟩).2 =
      [.add "s1" ⟨"", ["r1.x", "r2.x"]⟩, .remove "s1" ⟨"", ["r1.x"]⟩] ∧
    (cycle s1 ⟨true, true, true, [], [⟨"s2", "", ["r2.x"]⟩]⟩).2 =
      [.add "s2" ⟨"", ["r2.x"]⟩, .remove "s1" ⟨"", ["r1.x"]⟩] ∧
    (cycle s1 ⟨true, true, true, [], [⟨"s1", "", ["r1.x"]⟩]⟩).2 = [.add "s1" ⟨"", ["r1.x"]⟩] ∧
    (cycle s1 ⟨false, true, true, [], [⟨"s1", "", ["r1.x"]⟩]⟩).2 = [] := by decide +kernel

end Fix

/-! ## facts regenerated from the Go source on every run -/

/-- the decision, the strict `Before`, the due date, the write guard, `VerifyHostname` per domain,
`DeepEqual` in shrink, `Clear()` carrying over only the backends, the leader/account guards of
`AcmeUpdate`, and the pre-tracking that knows nothing about acme storages -/
theorem facts_c17 :
    Facts.c17VerifyConds = ["errSecret != nil || tls.Crt.NotAfter.Before(duedate) || !match(domains, tls.Crt)",
      "errSecret != nil", "tls.Crt.NotAfter.Before(duedate)", "crt != nil && key != nil", "err != nil", "errTLS == nil"] ∧
    Facts.c17VerifyDue = ["duedate := time.Now().Add(s.expiring)"] ∧
    Facts.c17MatchBody = ["found := false",
      "for _, domain := range domains {\n\tfound = crt.VerifyHostname(domain) == nil\n\tif !found {\n\t\treturn false\n\t}\n}",
      "return true"] ∧
    Facts.c17ShrinkConds = ["found && reflect.DeepEqual(add, del)"] ∧
    Facts.c17AcquireConds = ["!found"] ∧
    Facts.c17AcquireAssigns = ["storage, found := c.items[name]",
      "storage = &AcmeCerts{\n\tcerts: map[string]struct{}{},\n}", "c.items[name] = storage", "c.itemsAdd[name] = storage"] ∧
    Facts.c17RemoveAllBody = ["for _, name := range names {\n\tif item, found := c.items[name]; found {\n\t\tc.itemsDel[name] = item\n\t\tdelete(c.items, name)\n\t}\n}"] ∧
    Facts.c17CommitBody = ["c.itemsAdd = map[string]*AcmeCerts{}", "c.itemsDel = map[string]*AcmeCerts{}"] ∧
    Facts.c17ClearBody = ["config := createConfig(c.options)", "config.backends = c.backends", "config.backends.Clear()", "*c = *config"] ∧
    Facts.c17AcmeUpdateConds = ["i.config == nil || i.options.AcmeQueue == nil", "le.IsLeader()", "!hasAccount", "storages.Updated()"] ∧
    Facts.c17AcmeUpdateCalls = [".Storages", "i.config.AcmeData", "le.IsLeader", "i.acmeEnsureConfig", "i.config.AcmeData",
      "storages.BuildAcmeStoragesAdd", "i.acmeAddStorage", "storages.BuildAcmeStoragesDel", "i.acmeRemoveStorage",
      "storages.Updated", "i.logger.InfoV", "le.LeaderName"] ∧
    Facts.c17PreTrackContexts = ["convtypes.ResourceHABackend", "ctx", "convtypes.ResourceHABackend"] := 
  ⟨rfl, rfl, rfl, rfl, rfl, rfl, rfl, rfl, rfl, rfl, rfl, rfl⟩

end HapVerif.C17
