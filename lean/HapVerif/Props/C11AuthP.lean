import HapVerif.Model.C11AuthP
import HapVerif.Generated.Facts
/-
C11, auth proxy ports (after seed C11g): theorems about the allocator `AcquireAuthBackendName` /
`RemoveAuthBackendExcept` / `RemoveAuthBackendByTarget` of pkg/haproxy/types/frontend.go (Model/C11AuthP).

* `acquire_idem`            - for EVERY bind list (sorted or not, with or without holes): acquiring the name of a backend
                              that holds a bind answers the port of that bind and leaves list and `changed` flag alone;
* `noop_reacquire_quiet`    - after EVERY history of acquire / remove-except / remove-by-target / commit operations,
                              re-acquiring any sequence of bound backends after a commit leaves the frontend committed
                              (a no-op re-parse never flags the frontend, so it never asks for a reload);
* `wf_run`, `ports_unique_history`, `backs_unique_history`, `ports_in_range_history` - along every history the list is
                              sorted by port, a port names one backend, a backend holds one bind, ports stay in the range;
* `acquire_new_least_free`  - a backend without bind gets the least unused port of the range, the frontend is flagged;
* `acquire_full_iff`        - "auth proxy list is full" exactly when every port of the range is taken;
* `seeded_break_rebinds`    - kernel-checked witness: the variant that leaves the walk at the first hole (seed C11g)
                              binds a backend placed after a hole a second time and flags the frontend;
* `break_agrees_without_hole` - why the variant looks innocent: on a list without a hole before the bind it agrees;
* `facts_c11_authp`         - regenerated go/ast pin of the three functions.
-/
namespace HapVerif.C11AuthP

/-! ## the walk -/

theorem walk_found_of_mem (b : Nat) : ∀ (l : List Bind) (fp : Nat), (∃ x ∈ l, x.back = b) →
    ∃ x ∈ l, x.back = b ∧ walk b fp l = .found x.port
  | [], _, h => by obtain ⟨x, hx, _⟩ := h; cases hx
  | y :: rest, fp, h => by
    by_cases hy : y.back = b
    · exact ⟨y, List.mem_cons_self, hy, by simp [walk, hy]⟩
    · have h' : ∃ x ∈ rest, x.back = b := by
        obtain ⟨x, hx, hb⟩ := h
        rcases List.mem_cons.mp hx with rfl | hx
        · exact absurd hb hy
        · exact ⟨x, hx, hb⟩
      obtain ⟨x, hx, hb, hw⟩ := walk_found_of_mem b rest (if fp = y.port then fp + 1 else fp) h'
      exact ⟨x, List.mem_cons_of_mem _ hx, hb, by simp [walk, hy, hw]⟩

theorem walk_free_of_not_mem (b : Nat) : ∀ (l : List Bind) (fp : Nat), (∀ x ∈ l, x.back ≠ b) →
    walk b fp l = .free (freeFrom fp (l.map (·.port)))
  | [], _, _ => rfl
  | y :: rest, fp, h => by
    have hy : y.back ≠ b := h y List.mem_cons_self
    simp only [walk, hy, if_false, List.map_cons, freeFrom]
    exact walk_free_of_not_mem b rest _ fun x hx => h x (List.mem_cons_of_mem _ hx)

/-- ACQUIRE IS IDEMPOTENT, whatever holes the list has (no hypothesis on the list at all): a backend that holds a
bind gets the port of that bind back, and neither the list nor the `changed` flag moves -/
theorem acquire_idem (f : Front) (b : Nat) (h : ∃ x ∈ f.binds, x.back = b) :
    (acquire f b).2 = f ∧ ∃ x ∈ f.binds, x.back = b ∧ (acquire f b).1 = some x.port := by
  obtain ⟨x, hx, hb, hw⟩ := walk_found_of_mem b f.binds f.lo h
  exact ⟨by simp [acquire, hw], x, hx, hb, by simp [acquire, hw]⟩

example : (acquire { lo := 14415, hi := 14499, binds := [⟨14416, 2⟩, ⟨14419, 3⟩], changed := false } 3).1 = some 14419 := by
  decide

/-! ## histories -/

theorem run_append (f : Front) (a b : List Op) : run f (a ++ b) = run (run f a) b := by
  simp [run, List.foldl_append]

/-- re-acquiring bound backends, one after the other, is the identity -/
theorem reacquire_id (f : Front) : ∀ bs : List Nat, (∀ b ∈ bs, ∃ x ∈ f.binds, x.back = b) →
    run f (bs.map Op.acq) = f
  | [], _ => rfl
  | b :: rest, h => by
    have h1 := (acquire_idem f b (h b List.mem_cons_self)).1
    show run (step f (.acq b)) (rest.map Op.acq) = f
    simp only [step, h1]
    exact reacquire_id f rest fun b' hb' => h b' (List.mem_cons_of_mem _ hb')

/-- NO-OP RE-PARSE IS QUIET, for all histories: whatever acquire / remove operations built the frontend (holes
included), once committed, re-acquiring any sequence of backends that hold a bind leaves it committed: the bind
list is the same and `Changed()` stays false - the dynamic updater is not asked for a reload -/
theorem noop_reacquire_quiet (lo hi : Nat) (ops : List Op) (bs : List Nat)
    (h : ∀ b ∈ bs, ∃ x ∈ (run (empty lo hi) ops).binds, x.back = b) :
    run (commit (run (empty lo hi) ops)) (bs.map Op.acq) = commit (run (empty lo hi) ops) ∧
    (run (commit (run (empty lo hi) ops)) (bs.map Op.acq)).changed = false := by
  have := reacquire_id (commit (run (empty lo hi) ops)) bs (by simpa [commit] using h)
  exact ⟨this, by rw [this]; rfl⟩

example : run (commit (run (empty 5 9) [.acq 1, .acq 2, .acq 3, .target [1]])) [.acq 3, .acq 2] =
    { lo := 5, hi := 9, binds := [⟨6, 2⟩, ⟨7, 3⟩], changed := false } := by decide

/-! ## the invariant -/

structure Wf (f : Front) : Prop where
  sorted : f.binds.Pairwise fun a b => a.port < b.port
  range : ∀ x ∈ f.binds, f.lo ≤ x.port ∧ x.port ≤ f.hi
  backs : f.binds.Pairwise fun a b => a.back ≠ b.back

theorem freeFrom_gt : ∀ (l : List Nat) (fp : Nat), (∀ p ∈ l, fp < p) → freeFrom fp l = fp
  | [], _, _ => rfl
  | p :: rest, fp, h => by
    have hp : fp ≠ p := Nat.ne_of_lt (h p List.mem_cons_self)
    simp only [freeFrom, hp, if_false]
    exact freeFrom_gt rest fp fun q hq => h q (List.mem_cons_of_mem _ hq)

/-- the candidate port of the walk over a sorted list is the least unused port from `fp` on -/
theorem freeFrom_spec : ∀ (l : List Nat) (fp : Nat), l.Pairwise (· < ·) → (∀ p ∈ l, fp ≤ p) →
    fp ≤ freeFrom fp l ∧ freeFrom fp l ∉ l ∧ ∀ n, fp ≤ n → n < freeFrom fp l → n ∈ l
  | [], fp, _, _ => ⟨Nat.le_refl _, by simp, fun n h1 h2 => absurd h1 (Nat.not_le_of_gt h2)⟩
  | p :: rest, fp, hs, hl => by
    obtain ⟨hp, hr⟩ := List.pairwise_cons.mp hs
    by_cases e : fp = p
    · subst e
      simp only [freeFrom, if_true]
      obtain ⟨h1, h2, h3⟩ := freeFrom_spec rest (fp + 1) hr fun q hq => hp q hq
      refine ⟨by omega, ?_, ?_⟩
      · intro hm
        rcases List.mem_cons.mp hm with e | hm
        · omega
        · exact h2 hm
      · intro n hn1 hn2
        by_cases e : n = fp
        · subst e; exact List.mem_cons_self
        · exact List.mem_cons_of_mem _ (h3 n (by omega) hn2)
    · have hlt : fp < p := Nat.lt_of_le_of_ne (hl p List.mem_cons_self) e
      have hg := freeFrom_gt rest fp fun q hq => Nat.lt_trans hlt (hp q hq)
      simp only [freeFrom, e, if_false, hg]
      refine ⟨Nat.le_refl _, ?_, fun n h1 h2 => absurd h1 (Nat.not_le_of_gt h2)⟩
      intro hm
      rcases List.mem_cons.mp hm with e' | hm
      · exact e e'
      · exact absurd (hp fp hm) (by omega)

theorem mem_ins (n x : Bind) : ∀ l : List Bind, x ∈ ins n l ↔ x = n ∨ x ∈ l
  | [] => by simp [ins]
  | y :: rest => by
    unfold ins
    split
    · simp
    · simp only [List.mem_cons, mem_ins n x rest]
      constructor
      · rintro (h | h | h) <;> simp [h]
      · rintro (h | h | h) <;> simp [h]

theorem ins_sorted (n : Bind) : ∀ l : List Bind, (∀ x ∈ l, x.port ≠ n.port) →
    l.Pairwise (fun a b => a.port < b.port) → (ins n l).Pairwise fun a b => a.port < b.port
  | [], _, _ => by simp [ins]
  | y :: rest, hn, hp => by
    obtain ⟨hy, hr⟩ := List.pairwise_cons.mp hp
    unfold ins
    split
    · rename_i hlt
      refine List.pairwise_cons.mpr ⟨fun z hz => ?_, hp⟩
      rcases List.mem_cons.mp hz with rfl | hz
      · exact hlt
      · exact Nat.lt_trans hlt (hy z hz)
    · rename_i hge
      have hne := hn y List.mem_cons_self
      refine List.pairwise_cons.mpr ⟨fun z hz => ?_, ins_sorted n rest (fun x hx => hn x (List.mem_cons_of_mem _ hx)) hr⟩
      rcases (mem_ins n z rest).mp hz with rfl | hz
      · omega
      · exact hy z hz

theorem ins_backs (n : Bind) : ∀ l : List Bind, (∀ x ∈ l, x.back ≠ n.back) →
    l.Pairwise (fun a b => a.back ≠ b.back) → (ins n l).Pairwise fun a b => a.back ≠ b.back
  | [], _, _ => by simp [ins]
  | y :: rest, hn, hp => by
    obtain ⟨hy, hr⟩ := List.pairwise_cons.mp hp
    unfold ins
    split
    · exact List.pairwise_cons.mpr ⟨fun z hz => fun e => hn z hz e.symm, hp⟩
    · refine List.pairwise_cons.mpr ⟨fun z hz => ?_, ins_backs n rest (fun x hx => hn x (List.mem_cons_of_mem _ hx)) hr⟩
      rcases (mem_ins n z rest).mp hz with rfl | hz
      · exact hn y List.mem_cons_self
      · exact hy z hz

theorem not_bound_of_walk_free {b fp p : Nat} : ∀ {l : List Bind}, walk b fp l = .free p → ∀ x ∈ l, x.back ≠ b := by
  intro l hw x hx hb
  obtain ⟨y, _, _, hy⟩ := walk_found_of_mem b l fp ⟨x, hx, hb⟩
  rw [hw] at hy
  cases hy

theorem mem_ports {l : List Bind} {p : Nat} : p ∈ l.map (·.port) ↔ ∃ x ∈ l, x.port = p := by
  simp [List.mem_map]

theorem sorted_ports {l : List Bind} (h : l.Pairwise fun a b => a.port < b.port) : (l.map (·.port)).Pairwise (· < ·) :=
  List.pairwise_map.mpr h

/-- what the walk answers for a backend without bind on a well-formed frontend: the least unused port -/
theorem walk_free_spec {f : Front} (w : Wf f) {b p : Nat} (hw : walk b f.lo f.binds = .free p) :
    f.lo ≤ p ∧ (∀ x ∈ f.binds, x.port ≠ p) ∧ ∀ n, f.lo ≤ n → n < p → ∃ x ∈ f.binds, x.port = n := by
  have hnb := not_bound_of_walk_free hw
  rw [walk_free_of_not_mem b f.binds f.lo hnb] at hw
  injection hw with hw
  obtain ⟨h1, h2, h3⟩ := freeFrom_spec (f.binds.map (·.port)) f.lo (sorted_ports w.sorted)
    (fun q hq => by obtain ⟨x, hx, rfl⟩ := mem_ports.mp hq; exact (w.range x hx).1)
  rw [hw] at h1 h2 h3
  exact ⟨h1, fun x hx e => h2 (mem_ports.mpr ⟨x, hx, e⟩), fun n a c => mem_ports.mp (h3 n a c)⟩

theorem wf_acquire {f : Front} (w : Wf f) (b : Nat) : Wf (acquire f b).2 := by
  unfold acquire
  split
  · exact w
  · rename_i p hw
    split
    · exact w
    · rename_i hhi
      obtain ⟨h1, h2, _⟩ := walk_free_spec w hw
      exact {
        sorted := ins_sorted _ _ h2 w.sorted
        range := fun x hx => by
          rcases (mem_ins _ x _).mp hx with rfl | hx
          · exact ⟨h1, by simp at hhi ⊢; omega⟩
          · exact w.range x hx
        backs := ins_backs _ _ (not_bound_of_walk_free hw) w.backs }

theorem wf_filter {f : Front} (w : Wf f) (p : Bind → Bool) : Wf { f with binds := f.binds.filter p } :=
  { sorted := w.sorted.filter p
    range := fun x hx => w.range x (List.mem_filter.mp hx).1
    backs := w.backs.filter p }

theorem wf_step {f : Front} (w : Wf f) : ∀ o : Op, Wf (step f o)
  | .acq b => wf_acquire w b
  | .except _ => wf_filter w _
  | .target _ => wf_filter w _
  | .commit => ⟨w.sorted, w.range, w.backs⟩

theorem wf_empty (lo hi : Nat) : Wf (empty lo hi) :=
  ⟨List.Pairwise.nil, (fun _ h => nomatch h), List.Pairwise.nil⟩

theorem wf_run {f : Front} (w : Wf f) : ∀ ops : List Op, Wf (run f ops) := by
  intro ops
  induction ops generalizing f with
  | nil => exact w
  | cons o rest ih => exact ih (wf_step w o)

theorem pairwise_key_unique {α : Type} {R : α → α → Prop} (key : α → Nat) (irr : ∀ a b, R a b → key a ≠ key b) :
    ∀ l : List α, l.Pairwise R → ∀ x ∈ l, ∀ y ∈ l, key x = key y → x = y
  | [], _, _, hx, _, _, _ => by cases hx
  | a :: rest, hp, x, hx, y, hy, e => by
    obtain ⟨ha, hr⟩ := List.pairwise_cons.mp hp
    rcases List.mem_cons.mp hx with ex | hx' <;> rcases List.mem_cons.mp hy with ey | hy'
    · rw [ex, ey]
    · exact absurd (ex ▸ e) (irr _ _ (ha y hy'))
    · exact absurd (ey ▸ e.symm) (irr _ _ (ha x hx'))
    · exact pairwise_key_unique key irr rest hr x hx' y hy' e

/-- along EVERY history two backends never share a port -/
theorem ports_unique_history (lo hi : Nat) (ops : List Op) :
    ∀ x ∈ (run (empty lo hi) ops).binds, ∀ y ∈ (run (empty lo hi) ops).binds, x.port = y.port → x = y :=
  pairwise_key_unique (fun x : Bind => x.port) (fun _ _ h => Nat.ne_of_lt h) _ (wf_run (wf_empty lo hi) ops).sorted

/-- along EVERY history a backend holds at most one bind -/
theorem backs_unique_history (lo hi : Nat) (ops : List Op) :
    ∀ x ∈ (run (empty lo hi) ops).binds, ∀ y ∈ (run (empty lo hi) ops).binds, x.back = y.back → x = y :=
  pairwise_key_unique (fun x : Bind => x.back) (fun _ _ h => h) _ (wf_run (wf_empty lo hi) ops).backs

theorem run_lo_hi (f : Front) : ∀ ops : List Op, (run f ops).lo = f.lo ∧ (run f ops).hi = f.hi := by
  intro ops
  induction ops generalizing f with
  | nil => exact ⟨rfl, rfl⟩
  | cons o rest ih =>
    have hs : (step f o).lo = f.lo ∧ (step f o).hi = f.hi := by
      cases o <;> simp [step, removeExcept, removeByTarget, commit]
      simp only [acquire]; split <;> try split
      all_goals simp
    obtain ⟨a, b⟩ := ih (step f o)
    exact ⟨a.trans hs.1, b.trans hs.2⟩

/-- along EVERY history the ports stay inside the configured range -/
theorem ports_in_range_history (lo hi : Nat) (ops : List Op) :
    ∀ x ∈ (run (empty lo hi) ops).binds, lo ≤ x.port ∧ x.port ≤ hi := by
  intro x hx
  have h := (wf_run (wf_empty lo hi) ops).range x hx
  have e := run_lo_hi (empty lo hi) ops
  rw [e.1, e.2] at h
  exact h

/-- a backend without bind gets the LEAST unused port of the range; the list gains exactly that bind and the
frontend is flagged (this reload is legitimate: the configuration of the auth frontend changes) -/
theorem acquire_new_least_free {f : Front} (w : Wf f) (b : Nat) (hnb : ∀ x ∈ f.binds, x.back ≠ b) {p : Nat}
    (h : (acquire f b).1 = some p) :
    f.lo ≤ p ∧ p ≤ f.hi ∧ (∀ x ∈ f.binds, x.port ≠ p) ∧ (∀ n, f.lo ≤ n → n < p → ∃ x ∈ f.binds, x.port = n) ∧
    (acquire f b).2.changed = true ∧ ∀ x, x ∈ (acquire f b).2.binds ↔ x = ⟨p, b⟩ ∨ x ∈ f.binds := by
  have hw := walk_free_of_not_mem b f.binds f.lo hnb
  obtain ⟨h1, h2, h3⟩ := walk_free_spec w hw
  by_cases hhi : freeFrom f.lo (f.binds.map (·.port)) > f.hi
  · simp [acquire, hw, hhi] at h
  · have e : acquire f b = (some (freeFrom f.lo (f.binds.map (·.port))),
        { f with binds := ins ⟨freeFrom f.lo (f.binds.map (·.port)), b⟩ f.binds, changed := true }) := by
      simp [acquire, hw, hhi]
    rw [e] at h ⊢
    injection h with h
    subst h
    exact ⟨h1, by omega, h2, h3, rfl, fun x => mem_ins _ x _⟩

/-- "auth proxy list is full" exactly when every port of the range is taken -/
theorem acquire_full_iff {f : Front} (w : Wf f) (b : Nat) (hnb : ∀ x ∈ f.binds, x.back ≠ b) :
    (acquire f b).1 = none ↔ ∀ n, f.lo ≤ n → n ≤ f.hi → ∃ x ∈ f.binds, x.port = n := by
  have hw := walk_free_of_not_mem b f.binds f.lo hnb
  obtain ⟨h1, h2, h3⟩ := walk_free_spec w hw
  by_cases hhi : freeFrom f.lo (f.binds.map (·.port)) > f.hi
  · have e : (acquire f b).1 = none := by simp [acquire, hw, hhi]
    exact ⟨fun _ n a c => h3 n a (by omega), fun _ => e⟩
  · have e : (acquire f b).1 = some (freeFrom f.lo (f.binds.map (·.port))) := by simp [acquire, hw, hhi]
    rw [e]
    refine ⟨(fun h => nomatch h), fun h => ?_⟩
    obtain ⟨x, hx, ex⟩ := h _ h1 (by omega)
    exact absurd ex (h2 x hx)

example : (acquire { lo := 5, hi := 6, binds := [⟨5, 1⟩, ⟨6, 2⟩], changed := false } 3).1 = none := by decide
example : (acquire { lo := 5, hi := 7, binds := [⟨5, 1⟩, ⟨7, 2⟩], changed := false } 3) =
    (some 6, { lo := 5, hi := 7, binds := [⟨5, 1⟩, ⟨6, 3⟩, ⟨7, 2⟩], changed := true }) := by decide

/-! ## the seeded variant -/

/-- SEED C11g, kernel-checked: the bind of 14415 was released (a hole), backend 3 sits on 14417 behind backend 2.
The code finds the bind of backend 3 and changes nothing; the variant that leaves the walk at the first unused port
does not see it, binds backend 3 a second time in the hole, answers another name and flags the frontend: a no-op
re-parse of backend 3 reloads HAProxy -/
theorem seeded_break_rebinds :
    let f : Front := { lo := 14415, hi := 14499, binds := [⟨14416, 2⟩, ⟨14417, 3⟩], changed := false }
    acquire f 3 = (some 14417, f) ∧
    acquireBreak f 3 = (some 14415, { f with binds := [⟨14415, 3⟩, ⟨14416, 2⟩, ⟨14417, 3⟩], changed := true }) := by
  decide

/-- why the variant looks innocent: both walks agree whenever the walk meets no unused port before the bind of the
backend (in particular on every list without holes, and for the bind right after a hole) -/
theorem break_agrees_without_hole (b : Nat) : ∀ (l : List Bind) (fp : Nat),
    (∀ x ∈ l, x.back ≠ b) → l.Pairwise (fun a c => a.port < c.port) → (∀ x ∈ l, fp ≤ x.port) →
    walkBreak b fp l = walk b fp l
  | [], _, _, _, _ => rfl
  | y :: rest, fp, hnb, hs, hl => by
    obtain ⟨hy, hr⟩ := List.pairwise_cons.mp hs
    have hb : y.back ≠ b := hnb y List.mem_cons_self
    have hnb' : ∀ x ∈ rest, x.back ≠ b := fun x hx => hnb x (List.mem_cons_of_mem _ hx)
    by_cases e : fp = y.port
    · subst e
      simp only [walkBreak, walk, hb, if_false, Nat.lt_irrefl, if_true]
      exact break_agrees_without_hole b rest _ hnb' hr fun x hx => hy x hx
    · have hlt : fp < y.port := Nat.lt_of_le_of_ne (hl y List.mem_cons_self) e
      simp only [walkBreak, walk, hb, if_false, hlt, if_true, e]
      rw [walk_free_of_not_mem b rest fp hnb', freeFrom_gt]
      intro q hq
      obtain ⟨x, hx, rfl⟩ := mem_ports.mp hq
      exact Nat.lt_trans hlt (hy x hx)

/-! ## regenerated pin -/

/-- the three functions of pkg/haproxy/types/frontend.go as the model reads them (go/ast, regenerated on every check):
the loop of `AcquireAuthBackendName` tests the backend of EVERY bind before anything else and never leaves early -/
theorem facts_c11_authp :
    Facts.c11AcquireAuthBackendName = ["proxy := &f.AuthProxy", "freePort := proxy.RangeStart",
      "for _, bind := range proxy.BindList", "if bind.Backend == backend", "return bind.AuthBackendName, nil", "end",
      "if freePort == bind.LocalPort", "freePort++", "end", "end",
      "if freePort > proxy.RangeEnd", "return \"\", fmt.Errorf(\"auth proxy list is full\")", "end",
      "socketID := 10000 + freePort",
      "bind := &AuthProxyBind{AuthBackendName: fmt.Sprintf(\"_auth_%d\", freePort), Backend: backend, LocalPort: freePort, SocketID: socketID}",
      "proxy.BindList = append(proxy.BindList, bind)",
      "sort.Slice(proxy.BindList, func(i, j int) bool { return proxy.BindList[i].LocalPort < proxy.BindList[j].LocalPort })",
      "f.changed = true", "return bind.AuthBackendName, nil"] ∧
    Facts.c11RemoveAuthBackendExcept = ["bindList := f.AuthProxy.BindList", "var i int", "for _, bind := range bindList",
      "if used[bind.AuthBackendName]", "bindList[i] = bind", "i++", "end", "end", "f.AuthProxy.BindList = bindList[:i]"] ∧
    Facts.c11RemoveAuthBackendByTarget = ["bindList := f.AuthProxy.BindList", "var i int", "for _, bind := range bindList",
      "if !hasBackend(backends, bind.Backend.String())", "bindList[i] = bind", "i++", "end", "end",
      "f.AuthProxy.BindList = bindList[:i]"] := by
  decide +kernel

end HapVerif.C11AuthP
