import HapVerif.Model.C11
namespace HapVerif.C11
end HapVerif.C11
