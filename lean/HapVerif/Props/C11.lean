import HapVerif.Model.C11
import HapVerif.Generated.Facts
import HapVerif.Props.C02Pair
import HapVerif.Drv.C02
/-!
# C11 — no needless reloads (slot arithmetic of `alignSlots`)

`align_post`: after every reload-time `alignSlots` a dynamic backend has at least `slots-min-free`
empty slots, a slot count that is a multiple of `backend-server-slots-increment`, and at least one
slot — for every endpoint list and every setting.  The "fits ⇒ no reload" and "no-op ⇒ no reload"
clauses are theorems about `checkBackendPair` (see `Props/C02.lean`, shared model) and are
searched on the implementation by the `fits`/`noop` cases of the harness.

Second part — the STORE of several backends and whole histories (`Model/C11.lean`: `Sys`, `Step`, `step`,
`run`).  An update batch re-creates a subset of the backends, the others are bystanders; the update reloads
iff some pair asks for it or something outside the backends changed, and then `alignSlots` walks over ALL
items.  For ALL histories:
* (a) `reload_aligns_all` (+ `reload_aligns_store`, `boot_aligns_all`): after every step that reloads, every
  dynamic backend — bystanders included — has, in the files HAProxy loads, at least `slots-min-free` empty slots
  and a positive slot count that is a multiple of the increment; `files_follow_store` (the `BackendChanged`
  flag makes writeConfig rewrite the shard file of a padded bystander);
* (b) `noreload_keeps_slots`, `slots_are_last_reload`: dynamic updates never change a slot count, so at every
  point the slot count of a backend is what the last reload left;
* (c) `fits_stays_dynamic_history`, `scale_up_after_reload`: what fits in those slots is applied without
  reload, also right after a reload caused by ANOTHER backend or by a change outside the backends;
* (d) `noop_history`: re-creating any set of backends with identical effective content never reloads;
* `single_backend`: the one-backend history mode is the special case;
* `seeded_only_recreated_starves_bystander`, `no_flag_leaves_stale_shard_file`: kernel-checked witnesses
  that walking only the re-created backends (seeded defect C11e), or dropping `BackendChanged`, breaks (a).
The side condition `Step.wf` (a converter never emits a disabled endpoint) is what a history is.
-/
namespace HapVerif.C11
open HapVerif.C02

theorem addEmpty_length (b : Back) : (addEmpty b).eps.length = b.eps.length + 1 := by
  simp [addEmpty]

theorem addEmpty_dyn (b : Back) : (addEmpty b).dynUpdate = b.dynUpdate := rfl

theorem mkEmpty_isEmpty (n : String) (w : Int) : (mkEmpty n w).isEmpty = true := by
  simp [mkEmpty, EP.isEmpty]

theorem addEmpty_free (b : Back) :
    ((addEmpty b).eps.filter (·.isEmpty)).length = (b.eps.filter (·.isEmpty)).length + 1 := by
  simp [addEmpty, List.filter_append, mkEmpty_isEmpty]

theorem addEmpty_prefix (b : Back) : (addEmpty b).eps.take b.eps.length = b.eps := by
  simp [addEmpty]

/-- adding `n` empty endpoints -/
def addN (b : Back) (n : Nat) : Back := (List.range n).foldl (fun b _ => addEmpty b) b

theorem foldl_addEmpty (l : List Nat) (b : Back) :
    (l.foldl (fun b _ => addEmpty b) b).eps.length = b.eps.length + l.length ∧
    ((l.foldl (fun b _ => addEmpty b) b).eps.filter (·.isEmpty)).length = (b.eps.filter (·.isEmpty)).length + l.length ∧
    (l.foldl (fun b _ => addEmpty b) b).eps.take b.eps.length = b.eps := by
  induction l generalizing b with
  | nil => simp
  | cons x xs ih =>
    simp only [List.foldl_cons, List.length_cons]
    obtain ⟨h1, h2, h3⟩ := ih (addEmpty b)
    refine ⟨by rw [h1, addEmpty_length]; omega, by rw [h2, addEmpty_free]; omega, ?_⟩
    have : b.eps.length ≤ (addEmpty b).eps.length := by rw [addEmpty_length]; omega
    have h4 := congrArg (List.take b.eps.length) h3
    rw [List.take_take, Nat.min_eq_left this] at h4
    rw [h4, addEmpty_prefix]

theorem block_arith (len bs : Nat) (hbs : 1 ≤ bs) :
    (len + (bs - (((len + bs - 1) % bs) + 1))) % bs = 0 := by
  have hr : (len + bs - 1) % bs < bs := Nat.mod_lt _ (by omega)
  have hq := Nat.div_add_mod (len + bs - 1) bs
  generalize (len + bs - 1) % bs = r at hr hq
  generalize hq' : bs * ((len + bs - 1) / bs) = t at hq
  by_cases hl : len = 0
  · subst hl
    have : r = bs - 1 := by
      have : (0 + bs - 1) / bs = 0 := by
        apply Nat.div_eq_of_lt; omega
      rw [this] at hq'; simp at hq'; omega
    subst this
    have : 0 + (bs - (bs - 1 + 1)) = 0 := by omega
    rw [this]; simp
  · have : len + (bs - (r + 1)) = t := by omega
    rw [this, ← hq']; exact Nat.mul_mod_right _ _

/-- **align_post** — every reload leaves each dynamic backend with at least `minFree` empty slots, a
slot count that is a (positive) multiple of the block size, and its existing endpoints untouched. -/
theorem align_post (b : Back) (minFree blockSize : Nat) (hd : b.dynUpdate = true) :
    alignPost (alignSlots b minFree blockSize).eps minFree blockSize = true ∧
    (alignSlots b minFree blockSize).eps.take b.eps.length = b.eps := by
  unfold alignSlots alignPost blockOf
  simp only [hd, Bool.not_true, Bool.false_eq_true, if_false]
  generalize hbs : (if blockSize < 1 then 1 else blockSize) = bs
  have hbs1 : 1 ≤ bs := by subst hbs; split <;> omega
  by_cases h0 : minFree = 0 ∧ b.eps.length = 0
  · simp only [h0, and_self, if_true]
    obtain ⟨h1, h2, h3⟩ := foldl_addEmpty (List.range bs) b
    simp only [List.length_range] at h1 h2
    refine ⟨?_, by simpa [h0.2] using h3⟩
    simp only [Bool.and_eq_true, decide_eq_true_eq]
    rw [h1, h0.2]
    refine ⟨⟨by omega, by simp⟩, by omega⟩
  · simp only [h0, if_false]
    generalize hf : (b.eps.filter (·.isEmpty)).length = free
    obtain ⟨h1, h2, h3⟩ := foldl_addEmpty (List.range (minFree - free)) b
    simp only [List.length_range] at h1 h2
    generalize hb1 : (List.range (minFree - free)).foldl (fun b _ => addEmpty b) b = b1 at h1 h2 h3
    generalize hn : bs - (((b1.eps.length + bs - 1) % bs) + 1) = n
    obtain ⟨g1, g2, g3⟩ := foldl_addEmpty (List.range n) b1
    simp only [List.length_range] at g1 g2
    refine ⟨?_, ?_⟩
    · simp only [Bool.and_eq_true, decide_eq_true_eq]
      refine ⟨⟨by rw [g2, h2, hf]; omega, ?_⟩, ?_⟩
      · rw [g1, ← hn]; exact block_arith _ _ hbs1
      · have hfl : free ≤ b.eps.length := by rw [← hf]; exact List.length_filter_le _ _
        rw [g1, h1]; omega
    · have hle : b.eps.length ≤ b1.eps.length := by rw [h1]; omega
      have := congrArg (List.take b.eps.length) g3
      rw [List.take_take, Nat.min_eq_left hle] at this
      rw [this, h3]

/-- a static backend is left alone -/
theorem align_static (b : Back) (minFree blockSize : Nat) (hd : b.dynUpdate = false) :
    alignSlots b minFree blockSize = b := by
  simp [alignSlots, hd]

/-- non-vacuity: 3 endpoints, min-free 2, increment 4 -> 8 slots, 5 empty -/
example : let b : Back := { eps := [mkEmpty "a" 1, mkEmpty "b" 1, mkEmpty "c" 1].map (fun e => { e with ip := "10.0.0.1" }),
                            dynUpdate := true, resolver := false, cookiePreserve := false }
    (alignSlots b 2 4).eps.length = 8 := by decide

/-! ### "fits ⇒ no reload" and "no-op ⇒ no reload" (proved in `Props/C02Pair.lean`, restated for the audit) -/

/-- an endpoint-only change that fits in the existing slots is applied without reload -/
theorem fits_no_reload (old cur : Back) (hd : cur.dynUpdate = true) (hr : cur.resolver = false)
    (hp : cur.cookiePreserve = false) (hf : fits old.eps cur.eps = true) :
    (checkBackendPair old cur true []).updated = true := C02Pair.fits_no_reload old cur hd hr hp hf

/-- a re-notification without change is neither a command nor (nothing else changed) a reload -/
theorem noop_no_reload (old cur : Back) (same : Bool) (sc : List Resp) (hd : cur.dynUpdate = true)
    (hr : cur.resolver = false) (hlen : cur.eps.length ≤ old.eps.length) (hO : hasDupTarget old.eps = false)
    (hC : hasDupTarget cur.eps = false) (hn : C02Pair.noopB old.eps cur.eps = true) :
    (checkBackendPair old cur same sc).updated = same ∧ (checkBackendPair old cur same sc).cmds = [] :=
  C02Pair.noop_no_reload old cur same sc hd hr hlen hO hC hn

/-! ## The store -/

theorem pairAll_getElem? (s : Sys) (r : List (Option (List EP))) (i : Nat) :
    (pairAll s r)[i]? = s[i]?.map (fun c => pairCell c (r.getD i none)) := by
  induction s generalizing r i with
  | nil => simp [pairAll]
  | cons c cs ih =>
    cases r with
    | nil => cases i with
      | zero => simp [pairAll]
      | succ j => simp [pairAll, ih]
    | cons x xs => cases i with
      | zero => simp [pairAll]
      | succ j => simp [pairAll, ih]

theorem pairAll_mem {s : Sys} {r : List (Option (List EP))} {p : Mid} (h : p ∈ pairAll s r) :
    ∃ i c, s[i]? = some c ∧ p = pairCell c (r.getD i none) := by
  obtain ⟨i, hi⟩ := List.getElem?_of_mem h
  rw [pairAll_getElem?] at hi
  cases hs : s[i]? with
  | none => rw [hs] at hi; cases hi
  | some c => rw [hs] at hi; simp at hi; exact ⟨i, c, hs, hi.symm⟩

/-- equal apart from the endpoint list -/
def cfgEq (a b : Back) : Prop :=
  a.dynUpdate = b.dynUpdate ∧ a.resolver = b.resolver ∧ a.cookiePreserve = b.cookiePreserve ∧
  a.initialWeight = b.initialWeight ∧ a.naming = b.naming

theorem back_ext {a b : Back} (h : cfgEq a b) (he : a.eps = b.eps) : a = b := by
  cases a; cases b; simp only [cfgEq] at h; simp_all

/-- adding empty endpoints touches nothing but the endpoint list -/
theorem foldl_addEmpty_cfg (l : List Nat) (b : Back) : cfgEq (l.foldl (fun b _ => addEmpty b) b) b := by
  induction l generalizing b with
  | nil => simp [cfgEq]
  | cons x xs ih =>
    simp only [List.foldl_cons]
    have := ih (addEmpty b)
    simpa [cfgEq, addEmpty] using this

theorem alignSlots_cfg (b : Back) (m k : Nat) : cfgEq (alignSlots b m k) b := by
  unfold alignSlots
  split
  · simp [cfgEq]
  · simp only []
    split
    · exact foldl_addEmpty_cfg _ _
    · have h1 := foldl_addEmpty_cfg (List.range (m - (b.eps.filter (·.isEmpty)).length)) b
      generalize (List.range (m - (b.eps.filter (·.isEmpty)).length)).foldl (fun b _ => addEmpty b) b = b1 at h1
      have h2 := foldl_addEmpty_cfg (List.range ((if k < 1 then 1 else k) - (((b1.eps.length + (if k < 1 then 1 else k) - 1) % (if k < 1 then 1 else k)) + 1))) b1
      simp only [cfgEq] at h1 h2 ⊢
      obtain ⟨a1, a2, a3, a4, a5⟩ := h1
      obtain ⟨c1, c2, c3, c4, c5⟩ := h2
      exact ⟨c1.trans a1, c2.trans a2, c3.trans a3, c4.trans a4, c5.trans a5⟩

theorem alignSB_dyn (b : SB) : (alignSB b).back.dynUpdate = b.back.dynUpdate := (alignSlots_cfg _ _ _).1

/-- `alignSlots` only appends: an item whose slot count it leaves alone is left alone altogether -/
theorem alignSB_eq_of_slots (b : SB) (h : (alignSB b).slots = b.slots) : alignSB b = b := by
  have hb : alignSlots b.back b.minFree b.block = b.back := by
    apply back_ext (alignSlots_cfg _ _ _)
    cases hd : b.back.dynUpdate with
    | false => rw [align_static _ _ _ hd]
    | true =>
      have h2 := (align_post b.back b.minFree b.block hd).2
      have h3 : (alignSlots b.back b.minFree b.block).eps.length = b.back.eps.length := h
      rw [← h3, List.take_length] at h2
      exact h2
  cases b
  simp only [alignSB] at hb ⊢
  rw [hb]

/-- **align_post, lifted to an item of the store** -/
theorem alignSB_post (b : SB) (hd : b.back.dynUpdate = true) :
    alignPost (alignSB b).back.eps (alignSB b).minFree (alignSB b).block = true :=
  (align_post b.back b.minFree b.block hd).1

/-- the settings of a backend: what a history never changes -/
def cfgOf (b : SB) : Bool × Bool × Bool × Int × Nat × Nat × Nat :=
  (b.back.dynUpdate, b.back.resolver, b.back.cookiePreserve, b.back.initialWeight, b.minFree, b.block, b.shard)

theorem alignSB_cfg (b : SB) : cfgOf (alignSB b) = cfgOf b := by
  obtain ⟨h1, h2, h3, h4, _⟩ := alignSlots_cfg b.back b.minFree b.block
  simp only [cfgOf, alignSB, h1, h2, h3, h4]

theorem pairCell_cfg (c : Cell) (r : Option (List EP)) : cfgOf (pairCell c r).sb = cfgOf c.sb := by
  cases r with
  | none => rfl
  | some cur =>
    simp only [pairCell]
    split <;> rfl

theorem alignMid_cfg (v : Variant) (m : Mid) : cfgOf (alignMid v m).sb = cfgOf m.sb := by
  unfold alignMid
  split
  · rfl
  · exact alignSB_cfg _

/-- a backend that is not flagged after the pair stage is the committed one, file included -/
theorem pairCell_unflagged (c : Cell) (r : Option (List EP)) (h : (pairCell c r).flag = false) :
    (pairCell c r).sb = c.sb ∧ (pairCell c r).file = c.file := by
  cases r with
  | none => exact ⟨rfl, rfl⟩
  | some cur =>
    simp only [pairCell] at h ⊢
    split
    · exact ⟨rfl, rfl⟩
    · next hs => simp [hs] at h

theorem pairCell_file (c : Cell) (r : Option (List EP)) : (pairCell c r).file = c.file := by
  cases r with
  | none => rfl
  | some cur => simp only [pairCell]; split <;> rfl

/-- an accepted dynamic update keeps the slot count (all return paths of `checkBackendPair`) -/
theorem cbp_updated_len (old cur : Back) (same : Bool) (sc : List Resp) (hE : C02Pair.AllEnabled cur.eps)
    (hu : (checkBackendPair old cur same sc).updated = true) :
    (checkBackendPair old cur same sc).cur.length = old.eps.length := by
  revert hu
  apply C02Pair.cbp_cases old cur same sc (fun o => o.updated = true → o.cur.length = old.eps.length)
  · intro _ h; cases h
  · intro hl _ _ _
    obtain ⟨h1, _, _⟩ := foldl_addEmpty (List.range (old.eps.length - cur.eps.length)) cur
    simp only [List.length_range] at h1
    simp only [h1]; omega
  · intro _ _ _ h; cases h
  · intro _ _ _ _ _ h; cases h
  · intro _ _ _ he h
    simp only at h
    rw [he h]
  · intro _ _ _ _ h; cases h
  · intro _ _ _ _ _ _ h; cases h
  · intro hl _ _ hO hC s hs _
    exact C02Pair.len_preserved _ _ _ _ _ _ hO hC hE hl s hs

theorem pairCell_ok_slots (c : Cell) (r : Option (List EP))
    (hE : ∀ l, r = some l → l.all (·.enabled) = true) (hok : (pairCell c r).ok = true) :
    (pairCell c r).sb.slots = c.sb.slots := by
  cases r with
  | none => rfl
  | some cur =>
    simp only [pairCell] at hok ⊢
    split
    · rfl
    · next hs =>
      simp only [hs, Bool.false_eq_true, if_false] at hok
      exact cbp_updated_len c.sb.back { c.sb.back with eps := cur } true [] (hE cur rfl) hok

/-! ### every item of the store after a step -/

theorem mids_mem {v : Variant} {s : Sys} {st : Step} {m : Mid} (h : m ∈ mids v s st) :
    ∃ i c, s[i]? = some c ∧
      m = (if needReload s st then alignMid v (pairCell c (st.at i)) else pairCell c (st.at i)) := by
  unfold mids at h
  split at h
  · next hr =>
    obtain ⟨p, hp, rfl⟩ := List.mem_map.1 h
    obtain ⟨i, c, hc, rfl⟩ := pairAll_mem hp
    exact ⟨i, c, hc, by simp [hr, Step.at]⟩
  · next hr =>
    obtain ⟨i, c, hc, rfl⟩ := pairAll_mem h
    exact ⟨i, c, hc, by simp [hr, Step.at]⟩

theorem mids_getElem? (v : Variant) (s : Sys) (st : Step) (i : Nat) :
    (mids v s st)[i]? = s[i]?.map fun c =>
      (if needReload s st then alignMid v (pairCell c (st.at i)) else pairCell c (st.at i)) := by
  unfold mids
  split
  · simp only [List.getElem?_map, pairAll_getElem?, Step.at, Option.map_map]; rfl
  · simp only [pairAll_getElem?, Step.at]

theorem step_length (v : Variant) (sh : Bool) (s : Sys) (st : Step) : (step v sh s st).sys.length = s.length := by
  have : ∀ s r, (pairAll s r).length = s.length := by
    intro s; induction s with
    | nil => intro r; simp [pairAll]
    | cons c cs ih => intro r; cases r <;> simp [pairAll, ih]
  simp only [step, List.length_map, mids]
  split <;> simp [this]

/-- **the settings of every backend are those it was created with** -/
theorem step_cfg (v : Variant) (sh : Bool) (s : Sys) (st : Step) :
    (step v sh s st).sys.map (fun c => cfgOf c.sb) = s.map (fun c => cfgOf c.sb) := by
  apply List.ext_getElem?
  intro i
  simp only [step, List.getElem?_map, mids_getElem?, Option.map_map]
  cases s[i]? with
  | none => rfl
  | some c =>
    simp only [Option.map_some, Function.comp, writeCell]
    split
    · rw [alignMid_cfg, pairCell_cfg]
    · rw [pairCell_cfg]

/-- (a) **reload_aligns_all**, on the store: after a step that reloads, EVERY dynamic backend — re-created in
this step or not — has at least `minFree` empty slots and a positive slot count that is a multiple of the
increment.  Any state `s`, any step. -/
theorem reload_aligns_store (sh : Bool) (s : Sys) (st : Step) (hr : (step .real sh s st).reload = true) :
    ∀ c ∈ (step .real sh s st).sys, c.sb.back.dynUpdate = true →
      alignPost c.sb.back.eps c.sb.minFree c.sb.block = true := by
  intro c hc hd
  simp only [step] at hr hc
  obtain ⟨m, hm, rfl⟩ := List.mem_map.1 hc
  obtain ⟨i, c0, _, rfl⟩ := mids_mem hm
  simp only [hr, if_true, writeCell] at hd ⊢
  simp only [alignMid] at hd ⊢
  simp only [reduceCtorEq, false_and, if_false] at hd ⊢
  rw [alignSB_dyn] at hd
  exact alignSB_post _ hd

/-- the files show the store: what HAProxy loads at a reload is what the model holds -/
def FilesOK (s : Sys) : Prop := ∀ c ∈ s, c.file = c.sb.back.eps

theorem boot_filesOK (bs : List SB) : FilesOK (boot bs) := by
  intro c hc
  obtain ⟨b, _, rfl⟩ := List.mem_map.1 hc
  rfl

/-- **files_follow_store** — one step: `BackendChanged` makes writeConfig rewrite the shard of a padded bystander -/
theorem step_filesOK (sh : Bool) (s : Sys) (st : Step) (h : FilesOK s) : FilesOK (step .real sh s st).sys := by
  intro c hc
  simp only [step] at hc
  obtain ⟨m, hm, rfl⟩ := List.mem_map.1 hc
  simp only [writeCell]
  split
  · rfl
  · next hcond =>
    -- the backend is not flagged
    have hf : m.flag = false := by
      cases hfl : m.flag with
      | false => rfl
      | true =>
        exfalso; apply hcond
        have h1 : (mids .real s st).any (·.flag) = true := List.any_eq_true.2 ⟨m, hm, hfl⟩
        have h2 : (flaggedShards (mids .real s st)).contains m.sb.shard = true := by
          simp only [flaggedShards, List.contains_iff_mem, List.mem_map, List.mem_filter]
          exact ⟨m, ⟨hm, hfl⟩, rfl⟩
        rw [h1, h2]; simp
    obtain ⟨i, c0, hc0, rfl⟩ := mids_mem hm
    have hc0m : c0 ∈ s := List.mem_of_getElem? hc0
    cases hrl : needReload s st
    all_goals simp only [hrl, if_true, if_false, Bool.false_eq_true] at hf ⊢
    rotate_left
    · -- reload: alignSlots left it alone
      simp only [alignMid, reduceCtorEq, false_and, if_false, decide_true, Bool.true_and, Bool.or_eq_false_iff,
        bne_eq_false_iff_eq] at hf ⊢
      obtain ⟨hpf, hsl⟩ := hf
      obtain ⟨h1, h2⟩ := pairCell_unflagged c0 _ hpf
      rw [alignSB_eq_of_slots _ hsl, h1, h2]
      exact h c0 hc0m
    · obtain ⟨h1, h2⟩ := pairCell_unflagged c0 _ hf
      rw [h1, h2]
      exact h c0 hc0m

theorem runFrom_filesOK (sh : Bool) (s : Sys) (steps : List Step) (h : FilesOK s) : FilesOK (runFrom .real sh s steps) := by
  induction steps generalizing s with
  | nil => exact h
  | cons st rest ih => exact ih _ (step_filesOK sh s st h)

/-- **files_follow_store**: at every point of every history the server lines on disk are the model's -/
theorem files_follow_store (sh : Bool) (bs : List SB) (steps : List Step) : FilesOK (run .real sh bs steps) :=
  runFrom_filesOK sh _ steps (boot_filesOK bs)

/-- (a) **reload_aligns_all** — for ALL histories: whatever happened before, a step that reloads leaves, in the
FILES HAProxy loads, every dynamic backend of the store with at least `slots-min-free` empty slots and a
positive slot count that is a multiple of `backend-server-slots-increment`. -/
theorem reload_aligns_all (sh : Bool) (bs : List SB) (pre : List Step) (st : Step)
    (hr : (step .real sh (run .real sh bs pre) st).reload = true) :
    ∀ c ∈ (step .real sh (run .real sh bs pre) st).sys, c.sb.back.dynUpdate = true →
      alignPost c.file c.sb.minFree c.sb.block = true ∧ c.file = c.sb.back.eps := by
  intro c hc hd
  have hf := step_filesOK sh _ st (files_follow_store sh bs pre) c hc
  exact ⟨hf ▸ reload_aligns_store sh _ st hr c hc hd, hf⟩

/-- the first update (a reload) too -/
theorem boot_aligns_all (bs : List SB) : ∀ c ∈ boot bs, c.sb.back.dynUpdate = true →
    alignPost c.file c.sb.minFree c.sb.block = true := by
  intro c hc hd
  obtain ⟨b, _, rfl⟩ := List.mem_map.1 hc
  simp only [alignSB_dyn] at hd
  exact alignSB_post b hd

/-! ### (b) dynamic updates never change a slot count -/

theorem wf_at {st : Step} (h : st.wf = true) {i : Nat} {l : List EP} (hl : st.at i = some l) :
    l.all (·.enabled) = true := by
  unfold Step.wf at h
  unfold Step.at at hl
  rw [List.getD_eq_getElem?_getD] at hl
  cases hg : st.recr[i]? with
  | none => rw [hg] at hl; cases hl
  | some r =>
    rw [hg] at hl
    simp only [Option.getD_some] at hl
    have := List.all_eq_true.1 h r (List.mem_of_getElem? hg)
    rw [hl] at this
    exact this

theorem needReload_false {s : Sys} {st : Step} (h : needReload s st = false) :
    st.other = false ∧ ∀ i c, s[i]? = some c → (pairCell c (st.at i)).ok = true := by
  unfold needReload at h
  simp only [Bool.or_eq_false_iff, Bool.not_eq_false'] at h
  refine ⟨h.1, fun i c hc => ?_⟩
  have hm : pairCell c (st.at i) ∈ pairAll s st.recr := by
    apply List.mem_of_getElem? (i := i)
    rw [pairAll_getElem?, hc]; rfl
  exact List.all_eq_true.1 h.2 _ hm

theorem needReload_false_of {s : Sys} {st : Step} (ho : st.other = false)
    (h : ∀ i c, s[i]? = some c → (pairCell c (st.at i)).ok = true) : needReload s st = false := by
  unfold needReload
  simp only [ho, Bool.false_or, Bool.not_eq_false']
  apply List.all_eq_true.2
  intro p hp
  obtain ⟨i, c, hc, rfl⟩ := pairAll_mem hp
  exact h i c hc

/-- (b), one step: an update that does not reload leaves every slot count as it was -/
theorem noreload_keeps_slots (v : Variant) (sh : Bool) (s : Sys) (st : Step) (hwf : st.wf = true)
    (h : (step v sh s st).reload = false) : slotsOf (step v sh s st).sys = slotsOf s := by
  have hr : needReload s st = false := h
  obtain ⟨_, hok⟩ := needReload_false hr
  apply List.ext_getElem?
  intro i
  simp only [slotsOf, step, List.getElem?_map, mids_getElem?, Option.map_map, hr]
  cases hc : s[i]? with
  | none => rfl
  | some c =>
    simp only [Option.map_some, Function.comp, writeCell, Bool.false_eq_true, if_false]
    rw [pairCell_ok_slots c (st.at i) (fun l hl => wf_at hwf hl) (hok i c hc)]

theorem runG_fst (v : Variant) (sh : Bool) (acc : Sys × List Nat) (steps : List Step) :
    (runG v sh acc steps).1 = runFrom v sh acc.1 steps := by
  induction steps generalizing acc with
  | nil => rfl
  | cons st rest ih => simp only [runG, runFrom, List.foldl_cons] at ih ⊢; exact ih _

/-- (b) **slots_are_last_reload** — at every point of every history the slot count of every backend is what
the last reload (the first update included) left: dynamic updates never change it. -/
theorem slots_are_last_reload (v : Variant) (sh : Bool) (bs : List SB) (steps : List Step)
    (hwf : ∀ st ∈ steps, st.wf = true) :
    (runG v sh (boot bs, slotsOf (boot bs)) steps).2 = slotsOf (run v sh bs steps) := by
  have key : ∀ (steps : List Step) (acc : Sys × List Nat), (∀ st ∈ steps, st.wf = true) → acc.2 = slotsOf acc.1 →
      (runG v sh acc steps).2 = slotsOf (runG v sh acc steps).1 := by
    intro steps
    induction steps with
    | nil => intro acc _ h; exact h
    | cons st rest ih =>
      intro acc hwf h
      simp only [runG, List.foldl_cons]
      apply ih
      · exact fun st' h' => hwf st' (List.mem_cons_of_mem _ h')
      · simp only
        cases hr : (step v sh acc.1 st).reload with
        | true => simp
        | false =>
          simp only [Bool.false_eq_true, if_false]
          rw [h, noreload_keeps_slots v sh acc.1 st (hwf st List.mem_cons_self) hr]
  rw [key steps _ hwf rfl, runG_fst]; rfl

/-! ### (c) what fits stays dynamic -/

/-- `fits` against a slot budget -/
def fitsIn (n : Nat) (old cur : List EP) : Bool :=
  cur.length ≤ n && cur.all (fun e => e.enabled && e.label = "") && old.all (fun e => e.label = "") &&
  !hasDupTarget old && !hasDupTarget cur

theorem fitsIn_length (old cur : List EP) : fitsIn old.length old cur = fits old cur := rfl

/-- one step, any state: endpoint-only changes that fit, of any set of backends, do not reload -/
theorem fits_stays_dynamic (s : Sys) (st : Step) (ho : st.other = false)
    (h : ∀ i c cur, s[i]? = some c → st.at i = some cur →
      c.sb.back.dynUpdate = true ∧ c.sb.back.resolver = false ∧ c.sb.back.cookiePreserve = false ∧
      fits c.sb.back.eps cur = true) : needReload s st = false := by
  apply needReload_false_of ho
  intro i c hc
  cases hr : st.at i with
  | none => rfl
  | some cur =>
    obtain ⟨hd, hres, hp, hf⟩ := h i c cur hc hr
    simp only [pairCell]
    split
    · rfl
    · exact fits_no_reload c.sb.back { c.sb.back with eps := cur } hd hres hp hf

/-- (c) **fits_stays_dynamic_history** — in any history, an update that only re-creates dynamic backends (no
labels, no preserved cookies, no resolver) with endpoint lists that fit in the slots THE LAST RELOAD LEFT them
(the ghost of `runG`) is applied without reload, all commands being answered OK — for any set of backends at
once, whichever backend or outside change caused that last reload. -/
theorem fits_stays_dynamic_history (sh : Bool) (bs : List SB) (pre : List Step) (hwf : ∀ st ∈ pre, st.wf = true)
    (st : Step) (ho : st.other = false)
    (h : ∀ i c cur, (run .real sh bs pre)[i]? = some c → st.at i = some cur →
      c.sb.back.dynUpdate = true ∧ c.sb.back.resolver = false ∧ c.sb.back.cookiePreserve = false ∧
      fitsIn ((runG .real sh (boot bs, slotsOf (boot bs)) pre).2.getD i 0) c.sb.back.eps cur = true) :
    (step .real sh (run .real sh bs pre) st).reload = false := by
  apply fits_stays_dynamic _ st ho
  intro i c cur hc hr
  obtain ⟨hd, hres, hp, hf⟩ := h i c cur hc hr
  refine ⟨hd, hres, hp, ?_⟩
  rw [slots_are_last_reload .real sh bs pre hwf] at hf
  have : (slotsOf (run .real sh bs pre)).getD i 0 = c.sb.back.eps.length := by
    simp [slotsOf, List.getD_eq_getElem?_getD, List.getElem?_map, hc, SB.slots]
  rw [this, fitsIn_length] at hf
  exact hf

/-- real (non-empty) endpoints of a backend -/
def SB.real (b : SB) : Nat := (b.back.eps.filter (!·.isEmpty)).length

theorem real_add_free (b : SB) : b.real + b.free = b.slots := by
  unfold SB.real SB.free SB.slots
  induction b.back.eps with
  | nil => rfl
  | cons e es ih =>
    simp only [List.filter_cons, List.length_cons]
    cases e.isEmpty <;> simp <;> omega

/-- (c) **scale_up_after_reload** — right after ANY step that reloads (another backend overflowed, a global
changed, …) every dynamic backend — bystanders included — takes a scale-up by up to `slots-min-free` endpoints
without another reload. -/
theorem scale_up_after_reload (sh : Bool) (bs : List SB) (pre : List Step) (st1 st2 : Step)
    (hr : (step .real sh (run .real sh bs pre) st1).reload = true) (ho : st2.other = false)
    (h : ∀ i c cur, (step .real sh (run .real sh bs pre) st1).sys[i]? = some c → st2.at i = some cur →
      c.sb.back.dynUpdate = true ∧ c.sb.back.resolver = false ∧ c.sb.back.cookiePreserve = false ∧
      cur.length ≤ c.sb.real + c.sb.minFree ∧
      fitsIn cur.length c.sb.back.eps cur = true) :
    (step .real sh (step .real sh (run .real sh bs pre) st1).sys st2).reload = false := by
  apply fits_stays_dynamic _ st2 ho
  intro i c cur hc hat
  obtain ⟨hd, hres, hp, hlen, hf⟩ := h i c cur hc hat
  refine ⟨hd, hres, hp, ?_⟩
  have hpost := reload_aligns_store sh _ st1 hr c (List.mem_of_getElem? hc) hd
  simp only [alignPost, Bool.and_eq_true, decide_eq_true_eq] at hpost
  have hrf := real_add_free c.sb
  have hfree : c.sb.minFree ≤ c.sb.free := hpost.1.1
  have : cur.length ≤ c.sb.back.eps.length := by unfold SB.slots at hrf; omega
  simp only [fitsIn, fits, Bool.and_eq_true, decide_eq_true_eq] at hf ⊢
  exact ⟨⟨⟨⟨this, hf.1.1.1.2⟩, hf.1.1.2⟩, hf.1.2⟩, hf.2⟩

/-! ### (d) identical content never reloads -/

/-- the re-created content is the old effective content: the backend is dropped by `Shrink`, or (dynamic) the
current endpoints are the enabled old ones up to names and order -/
def noopRecr (b : SB) (cur : List EP) : Bool :=
  shrinks true b.back.eps cur ||
  (b.back.dynUpdate && !b.back.resolver && decide (cur.length ≤ b.back.eps.length) &&
    !hasDupTarget b.back.eps && !hasDupTarget cur && C02Pair.noopB b.back.eps cur)

/-- one step, any state: no reload and not a single command -/
theorem noop_step (v : Variant) (sh : Bool) (s : Sys) (st : Step) (ho : st.other = false)
    (h : ∀ i c cur, s[i]? = some c → st.at i = some cur → noopRecr c.sb cur = true) :
    (step v sh s st).reload = false ∧ ∀ m ∈ (step v sh s st).mids, m.cmds = [] := by
  have hpc : ∀ i c, s[i]? = some c → (pairCell c (st.at i)).ok = true ∧ (pairCell c (st.at i)).cmds = [] := by
    intro i c hc
    cases hr : st.at i with
    | none => exact ⟨rfl, rfl⟩
    | some cur =>
      have hn := h i c cur hc hr
      simp only [pairCell]
      split
      · exact ⟨rfl, rfl⟩
      · next hs =>
        simp only [noopRecr, hs, Bool.false_or, Bool.and_eq_true, decide_eq_true_eq, Bool.not_eq_true'] at hn
        obtain ⟨⟨⟨⟨⟨hd, hres⟩, hlen⟩, hO⟩, hC⟩, hnb⟩ := hn
        exact C02Pair.noop_no_reload c.sb.back { c.sb.back with eps := cur } true [] hd hres hlen hO hC hnb
  have hr : needReload s st = false := needReload_false_of ho fun i c hc => (hpc i c hc).1
  refine ⟨hr, ?_⟩
  intro m hm
  obtain ⟨i, c, hc, rfl⟩ := mids_mem hm
  simp only [hr, Bool.false_eq_true, if_false]
  exact (hpc i c hc).2

/-- (d) **noop_history** — at any point of any history, an update that re-creates any set of backends with
identical effective content neither reloads nor sends a command. -/
theorem noop_history (sh : Bool) (bs : List SB) (pre : List Step) (st : Step) (ho : st.other = false)
    (h : ∀ i c cur, (run .real sh bs pre)[i]? = some c → st.at i = some cur → noopRecr c.sb cur = true) :
    (step .real sh (run .real sh bs pre) st).reload = false ∧
    ∀ m ∈ (step .real sh (run .real sh bs pre) st).mids, m.cmds = [] :=
  noop_step .real sh _ st ho h

/-! ### the single-backend definitions are the special case -/

/-- a store of one backend makes the step of the one-backend history mode (`shrinks`, else `updateOne` =
`checkBackendPair` + `alignSlots` on a reload) -/
theorem single_backend (f : Flags) (sh : Bool) (shard : Nat) (old file cur : List EP) :
    let b : SB := { back := { eps := old, dynUpdate := f.dyn, resolver := f.res, cookiePreserve := f.pres,
                              initialWeight := f.iw }, minFree := f.minfree, block := f.block, shard := shard }
    let o : Outcome := if shrinks true old cur then ⟨true, old, [], false⟩ else updateOne { f with same := true } old cur []
    (step .real sh [⟨b, file⟩] { recr := [some cur] }).reload = !o.updated ∧
    (step .real sh [⟨b, file⟩] { recr := [some cur] }).sys.map (·.sb.back.eps) = [o.cur] ∧
    (step .real sh [⟨b, file⟩] { recr := [some cur] }).mids.map (·.cmds) = [o.cmds] := by
  intro b o
  by_cases hs : shrinks true old cur = true
  · simp [o, step, mids, needReload, pairAll, pairCell, writeCell, b, hs]
  · have hnp := C02Pair.no_panic b.back { b.back with eps := cur } true []
    cases hu : (checkBackendPair b.back { b.back with eps := cur } true []).updated with
    | true =>
      simp only [b] at hu hnp
      simp [o, step, mids, needReload, pairAll, pairCell, writeCell, b, hs, updateOne, hu, hnp]
    | false =>
      simp only [b] at hu hnp
      simp [o, step, mids, needReload, pairAll, pairCell, writeCell, b, hs, updateOne, hu, hnp, alignMid, alignSB]

/-! ### non-vacuity and the seeded variant -/

def exEP (ip : String) : EP :=
  { name := "", ip := ip, port := 8080, enabled := true, weight := 1, cookie := "", label := "", tref := "", puid := 0 }
def exSB (ips : List String) (minFree block shard : Nat) : SB :=
  { back := { eps := fresh (ips.map exEP), dynUpdate := true, resolver := false, cookiePreserve := false },
    minFree := minFree, block := block, shard := shard }
def exRecr (ips : List String) : Option (List EP) := some (fresh (ips.map exEP))

/-- two backends `a` (1 endpoint) and `b` (1 endpoint), slots-min-free 2, increment 1, shards 0 and 2 -/
def exStore : List SB := [exSB ["10.0.0.1"] 2 1 0, exSB ["10.0.1.1"] 2 1 2]
/-- `a` scales up to 2 endpoints (dynamic); then a global changes (reload, both are bystanders) -/
def exScaleA : Step := { recr := [exRecr ["10.0.0.1", "10.0.0.2"], none] }
def exOther : Step := { recr := [none, none], other := true }
/-- `a` scales up by slots-min-free endpoints -/
def exScaleA2 : Step := { recr := [exRecr ["10.0.0.1", "10.0.0.2", "10.0.0.3", "10.0.0.4"], none] }
/-- `b` gets more endpoints than it has slots: a reload caused by `b` with `a` as bystander -/
def exOverflowB : Step := { recr := [none, exRecr ["10.0.1.1", "10.0.1.2", "10.0.1.3", "10.0.1.4"]] }

/-- non-vacuity of (a), (b), (c): the real code on the history of seeded defect C11e, sharded: the scale-up is
dynamic and keeps the 3 slots; the reload (global change, or `b` overflowing) pads the bystander `a` to 2 free
slots again and its file shows it; the next scale-up of `a` by 2 is dynamic. -/
example :
    (step .real true (run .real true exStore []) exScaleA).reload = false ∧
    slotsOf (run .real true exStore [exScaleA]) = [3, 3] ∧
    (step .real true (run .real true exStore [exScaleA]) exOther).reload = true ∧
    (run .real true exStore [exScaleA, exOther]).map (fun c => (c.sb.free, c.file.length)) = [(2, 4), (2, 3)] ∧
    (step .real true (run .real true exStore [exScaleA]) exOverflowB).reload = true ∧
    (run .real true exStore [exScaleA, exOverflowB]).map (fun c => (c.sb.free, c.file.length)) = [(2, 4), (2, 6)] ∧
    (step .real true (run .real true exStore [exScaleA, exOther]) exScaleA2).reload = false := by decide +kernel

/-- **the seeded variant (alignSlots over the re-created backends only) breaks (a)**: after the reload the
bystander `a` is loaded with 1 free slot < slots-min-free = 2, and its next scale-up by 2 needs another reload
— whether the reload came from outside the backends or from `b`. -/
theorem seeded_only_recreated_starves_bystander :
    (step .onlyRecreated false (run .onlyRecreated false exStore [exScaleA]) exOther).reload = true ∧
    (run .onlyRecreated false exStore [exScaleA, exOther]).map (fun c => (c.sb.back.dynUpdate, c.sb.free, c.sb.minFree)) =
      [(true, 1, 2), (true, 2, 2)] ∧
    (run .onlyRecreated false exStore [exScaleA, exOther]).map
      (fun c => alignPost c.file c.sb.minFree c.sb.block) = [false, true] ∧
    (step .onlyRecreated false (run .onlyRecreated false exStore [exScaleA, exOther]) exScaleA2).reload = true ∧
    (run .onlyRecreated false exStore [exScaleA, exOverflowB]).map
      (fun c => alignPost c.file c.sb.minFree c.sb.block) = [false, true] := by decide +kernel

/-- **without `BackendChanged`** the model pads the bystander but, with backend shards, its file is not
rewritten: HAProxy loads 3 server lines where the model holds 4 (`files_follow_store` fails) -/
theorem no_flag_leaves_stale_shard_file :
    (run .noFlag true exStore [exScaleA, exOther]).map (fun c => (c.sb.slots, c.file.length)) = [(4, 3), (3, 3)] ∧
    (run .noFlag false exStore [exScaleA, exOther]).map (fun c => (c.sb.slots, c.file.length)) = [(4, 4), (3, 3)] := by
  decide +kernel

/-- non-vacuity of (d): both backends re-created with the same endpoints (`a` in another order, after a
dynamic update permuted its slots): hypotheses hold, no reload, no command -/
example :
    let s := run .real false exStore [exScaleA]
    let st : Step := { recr := [exRecr ["10.0.0.2", "10.0.0.1"], exRecr ["10.0.1.1"]] }
    ((s.zip st.recr).all fun (c, r) => match r with | some cur => noopRecr c.sb cur | none => true) = true ∧
    (step .real false s st).reload = false ∧ (step .real false s st).mids.map (·.cmds) = [[], []] := by decide +kernel

end HapVerif.C11
