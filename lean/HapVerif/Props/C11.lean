import HapVerif.Model.C11
import HapVerif.Generated.Facts
import HapVerif.Props.C02Pair
/-!
# C11 — no needless reloads (slot arithmetic of `alignSlots`)

`align_post`: after every reload-time `alignSlots` a dynamic backend has at least `slots-min-free`
empty slots, a slot count that is a multiple of `backend-server-slots-increment`, and at least one
slot — for every endpoint list and every setting.  The "fits ⇒ no reload" and "no-op ⇒ no reload"
clauses are theorems about `checkBackendPair` (see `Props/C02.lean`, shared model) and are
searched on the implementation by the `fits`/`noop` cases of the harness.
-/
namespace HapVerif.C11
open HapVerif.C02

theorem addEmpty_length (b : Back) : (addEmpty b).eps.length = b.eps.length + 1 := by
  simp [addEmpty]

theorem addEmpty_dyn (b : Back) : (addEmpty b).dynUpdate = b.dynUpdate := rfl

theorem mkEmpty_isEmpty (n : String) (w : Int) : (mkEmpty n w).isEmpty = true := by
  simp [mkEmpty, EP.isEmpty]

theorem addEmpty_free (b : Back) :
    ((addEmpty b).eps.filter (·.isEmpty)).length = (b.eps.filter (·.isEmpty)).length + 1 := by
  simp [addEmpty, List.filter_append, mkEmpty_isEmpty]

theorem addEmpty_prefix (b : Back) : (addEmpty b).eps.take b.eps.length = b.eps := by
  simp [addEmpty]

/-- adding `n` empty endpoints -/
def addN (b : Back) (n : Nat) : Back := (List.range n).foldl (fun b _ => addEmpty b) b

theorem foldl_addEmpty (l : List Nat) (b : Back) :
    (l.foldl (fun b _ => addEmpty b) b).eps.length = b.eps.length + l.length ∧
    ((l.foldl (fun b _ => addEmpty b) b).eps.filter (·.isEmpty)).length = (b.eps.filter (·.isEmpty)).length + l.length ∧
    (l.foldl (fun b _ => addEmpty b) b).eps.take b.eps.length = b.eps := by
  induction l generalizing b with
  | nil => simp
  | cons x xs ih =>
    simp only [List.foldl_cons, List.length_cons]
    obtain ⟨h1, h2, h3⟩ := ih (addEmpty b)
    refine ⟨by rw [h1, addEmpty_length]; omega, by rw [h2, addEmpty_free]; omega, ?_⟩
    have : b.eps.length ≤ (addEmpty b).eps.length := by rw [addEmpty_length]; omega
    have h4 := congrArg (List.take b.eps.length) h3
    rw [List.take_take, Nat.min_eq_left this] at h4
    rw [h4, addEmpty_prefix]

theorem block_arith (len bs : Nat) (hbs : 1 ≤ bs) :
    (len + (bs - (((len + bs - 1) % bs) + 1))) % bs = 0 := by
  have hr : (len + bs - 1) % bs < bs := Nat.mod_lt _ (by omega)
  have hq := Nat.div_add_mod (len + bs - 1) bs
  generalize (len + bs - 1) % bs = r at hr hq
  generalize hq' : bs * ((len + bs - 1) / bs) = t at hq
  by_cases hl : len = 0
  · subst hl
    have : r = bs - 1 := by
      have : (0 + bs - 1) / bs = 0 := by
        apply Nat.div_eq_of_lt; omega
      rw [this] at hq'; simp at hq'; omega
    subst this
    have : 0 + (bs - (bs - 1 + 1)) = 0 := by omega
    rw [this]; simp
  · have : len + (bs - (r + 1)) = t := by omega
    rw [this, ← hq']; exact Nat.mul_mod_right _ _

/-- **align_post** — every reload leaves each dynamic backend with at least `minFree` empty slots, a
slot count that is a (positive) multiple of the block size, and its existing endpoints untouched. -/
theorem align_post (b : Back) (minFree blockSize : Nat) (hd : b.dynUpdate = true) :
    alignPost (alignSlots b minFree blockSize).eps minFree blockSize = true ∧
    (alignSlots b minFree blockSize).eps.take b.eps.length = b.eps := by
  unfold alignSlots alignPost blockOf
  simp only [hd, Bool.not_true, Bool.false_eq_true, if_false]
  generalize hbs : (if blockSize < 1 then 1 else blockSize) = bs
  have hbs1 : 1 ≤ bs := by subst hbs; split <;> omega
  by_cases h0 : minFree = 0 ∧ b.eps.length = 0
  · simp only [h0, and_self, if_true]
    obtain ⟨h1, h2, h3⟩ := foldl_addEmpty (List.range bs) b
    simp only [List.length_range] at h1 h2
    refine ⟨?_, by simpa [h0.2] using h3⟩
    simp only [Bool.and_eq_true, decide_eq_true_eq]
    rw [h1, h0.2]
    refine ⟨⟨by omega, by simp⟩, by omega⟩
  · simp only [h0, if_false]
    generalize hf : (b.eps.filter (·.isEmpty)).length = free
    obtain ⟨h1, h2, h3⟩ := foldl_addEmpty (List.range (minFree - free)) b
    simp only [List.length_range] at h1 h2
    generalize hb1 : (List.range (minFree - free)).foldl (fun b _ => addEmpty b) b = b1 at h1 h2 h3
    generalize hn : bs - (((b1.eps.length + bs - 1) % bs) + 1) = n
    obtain ⟨g1, g2, g3⟩ := foldl_addEmpty (List.range n) b1
    simp only [List.length_range] at g1 g2
    refine ⟨?_, ?_⟩
    · simp only [Bool.and_eq_true, decide_eq_true_eq]
      refine ⟨⟨by rw [g2, h2, hf]; omega, ?_⟩, ?_⟩
      · rw [g1, ← hn]; exact block_arith _ _ hbs1
      · have hfl : free ≤ b.eps.length := by rw [← hf]; exact List.length_filter_le _ _
        rw [g1, h1]; omega
    · have hle : b.eps.length ≤ b1.eps.length := by rw [h1]; omega
      have := congrArg (List.take b.eps.length) g3
      rw [List.take_take, Nat.min_eq_left hle] at this
      rw [this, h3]

/-- a static backend is left alone -/
theorem align_static (b : Back) (minFree blockSize : Nat) (hd : b.dynUpdate = false) :
    alignSlots b minFree blockSize = b := by
  simp [alignSlots, hd]

/-- non-vacuity: 3 endpoints, min-free 2, increment 4 -> 8 slots, 5 empty -/
example : let b : Back := { eps := [mkEmpty "a" 1, mkEmpty "b" 1, mkEmpty "c" 1].map (fun e => { e with ip := "10.0.0.1" }),
                            dynUpdate := true, resolver := false, cookiePreserve := false }
    (alignSlots b 2 4).eps.length = 8 := by decide

/-! ### "fits ⇒ no reload" and "no-op ⇒ no reload" (proved in `Props/C02Pair.lean`, restated for the audit) -/

/-- an endpoint-only change that fits in the existing slots is applied without reload -/
theorem fits_no_reload (old cur : Back) (hd : cur.dynUpdate = true) (hr : cur.resolver = false)
    (hp : cur.cookiePreserve = false) (hf : fits old.eps cur.eps = true) :
    (checkBackendPair old cur true []).updated = true := C02Pair.fits_no_reload old cur hd hr hp hf

/-- a re-notification without change is neither a command nor (nothing else changed) a reload -/
theorem noop_no_reload (old cur : Back) (same : Bool) (sc : List Resp) (hd : cur.dynUpdate = true)
    (hr : cur.resolver = false) (hlen : cur.eps.length ≤ old.eps.length) (hO : hasDupTarget old.eps = false)
    (hC : hasDupTarget cur.eps = false) (hn : C02Pair.noopB old.eps cur.eps = true) :
    (checkBackendPair old cur same sc).updated = same ∧ (checkBackendPair old cur same sc).cmds = [] :=
  C02Pair.noop_no_reload old cur same sc hd hr hlen hO hC hn

end HapVerif.C11
