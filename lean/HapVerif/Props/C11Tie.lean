import HapVerif.Model.C11Views
import HapVerif.Generated.CodeC11
/-!
# C11 — tie between the model and the source (`alignSlots`)

`HapVerif.CodeC11.alignSlots` is REGENERATED on every run from `pkg/haproxy/dynupdate.go`: the reload-time
padding of EVERY backend of `Items()` (not only the re-created ones — seed C11e), with the hand-made shard flag
`BackendChanged` raised whenever a slot was added, by the min-free top-up as well as by the block padding
(seed C05e).  `alignSlots_tie` states that the translated loops compute the closed form `oneExp` for every
backend, in iteration order, never panic and never run out of fuel; `oneExp_model` that the closed form is the
M-Dyn `C02.alignSlots` every C11 theorem (`align_post`, `reload_aligns_all`, …) is about.
-/
namespace HapVerif.C11Tie
open HapVerif HapVerif.GoLib HapVerif.C11Views

/-- `k` calls of `back.AddEmptyEndpoint()` -/
def iterE : Nat → BackView → BackView
  | 0, v => v
  | k + 1, v => iterE k (addEmpty v)

/-- `for i := a; i < n; i++ { back.AddEmptyEndpoint(); changed = true }` (in the form `simp only` gives the
generated loop: the state tuple accessed by projections) -/
theorem countLoop (n : Int) : ∀ (fuel : Nat) (v : BackView) (ch : Bool) (i : Int), (n - i).toNat < fuel →
    GoLib.whileFuel (ρ := Option (List BackView)) fuel (v, ch, i)
      (fun x => decide (x.2.snd < n))
      (fun x => GoLib.Step.next (C11Views.addEmpty x.fst, true, GoLib.add x.2.snd 1))
      = .done (iterE (n - i).toNat v, ch || decide (i < n), if i < n then n else i) := by
  intro fuel
  induction fuel with
  | zero => intro v ch i h; omega
  | succ f ih =>
    intro v ch i h
    unfold GoLib.whileFuel
    by_cases hlt : i < n
    · simp only [hlt, decide_true, ↓reduceIte]
      have hstep : (n - i).toNat = (n - (i + 1)).toNat + 1 := by omega
      have := ih (addEmpty v) true (i + 1) (by omega)
      simp only [GoLib.add] at this ⊢
      rw [this, hstep]
      simp only [iterE, Bool.true_or, Bool.or_true]
      by_cases h2 : i + 1 < n
      · simp [h2]
      · have : i + 1 = n := by omega
        simp [h2, this]
    · have hz : (n - i).toNat = 0 := by omega
      simp [hlt, hz, iterE]

/-- the counting loop over the endpoints -/
theorem freeLoop (eps : List C02.EP) (c : Int) :
    GoLib.forRange (ρ := Option (List BackView)) eps c (fun ep totalFreeSlots =>
        if C11Views.isEmpty ep = true then GoLib.Step.next (GoLib.add totalFreeSlots 1) else GoLib.Step.next totalFreeSlots)
      = .done (c + ((eps.filter C11Views.isEmpty).length : Int)) := by
  induction eps generalizing c with
  | nil => simp [GoLib.forRange]
  | cons e es ih =>
    unfold GoLib.forRange
    by_cases he : C11Views.isEmpty e = true
    · simp only [he, ↓reduceIte]
      rw [ih]; simp [he, GoLib.add]; omega
    · have he' : C11Views.isEmpty e = false := by simpa using he
      simp only [he', Bool.false_eq_true, ↓reduceIte]
      rw [ih]; simp [he']

/-- what `alignSlots` does with one dynamic backend, block size `bs` already normalised (the loops replaced by
their closed forms `countLoop` / `freeLoop`, nothing else rearranged) -/
def oneBS (fx : List BackView) (v : BackView) (bs : Int) : List BackView :=
  if (v.minFree == 0 && GoLib.len v.b.eps == (0 : Int)) = true then
    if (false || decide ((0 : Int) < bs)) = true then C11Views.markChanged fx (iterE (bs - 0).toNat v) else fx
  else
    let t : Int := 0 + ((v.b.eps.filter C11Views.isEmpty).length : Int)
    let v1 := iterE (v.minFree - t).toNat v
    let n : Int := bs - GoLib.add (GoLib.rem (GoLib.add (GoLib.len v1.b.eps) bs - 1) bs) 1
    if ((false || decide (t < v.minFree)) || decide ((0 : Int) < n)) = true then
      C11Views.markChanged fx (iterE (n - 0).toNat v1)
    else fx

def oneExp (fx : List BackView) (v : BackView) : List BackView :=
  if v.dyn = false then fx else if v.block < 1 then oneBS fx v 1 else oneBS fx v v.block

theorem step_static (v : BackView) (is : List BackView) (fx : List BackView) (hd : v.dyn = false) :
    CodeC11.alignSlots (v :: is) fx = CodeC11.alignSlots is (oneExp fx v) := by
  unfold CodeC11.alignSlots
  simp only [GoLib.forRange, hd, Bool.not_false, ↓reduceIte, oneExp]

theorem step_dyn (v : BackView) (is : List BackView) (fx : List BackView) (hd : v.dyn = true) :
    CodeC11.alignSlots (v :: is) fx = CodeC11.alignSlots is (oneExp fx v) := by
  unfold CodeC11.alignSlots
  simp only [GoLib.forRange, hd, Bool.not_true, Bool.false_eq_true, ↓reduceIte]
  by_cases hb : v.block < 1
  · have ho : oneExp fx v = oneBS fx v 1 := by simp [oneExp, hd, hb]
    rw [ho]
    simp only [hb, decide_true, ↓reduceIte]
    by_cases hz : (v.minFree == 0 && GoLib.len v.b.eps == (0 : Int)) = true
    · simp only [hz, ↓reduceIte, oneBS]
      rw [countLoop 1 _ v false 0 (by omega)]
      simp only []
      simp only [← apply_ite (GoLib.Step.next (σ := List BackView) (ρ := Option (List BackView)))]
    · have hz' : (v.minFree == 0 && GoLib.len v.b.eps == (0 : Int)) = false := by simpa using hz
      simp only [hz', Bool.false_eq_true, ↓reduceIte, oneBS]
      rw [freeLoop]
      simp only []
      rw [countLoop v.minFree _ v false _ (by omega)]
      simp only []
      rw [countLoop _ _ _ _ 0 (by omega)]
      simp only []
      simp only [← apply_ite (GoLib.Step.next (σ := List BackView) (ρ := Option (List BackView)))]
  · have ho : oneExp fx v = oneBS fx v v.block := by simp [oneExp, hd, hb]
    rw [ho]
    simp only [hb, decide_false, Bool.false_eq_true, ↓reduceIte]
    by_cases hz : (v.minFree == 0 && GoLib.len v.b.eps == (0 : Int)) = true
    · simp only [hz, ↓reduceIte, oneBS]
      rw [countLoop v.block _ v false 0 (by omega)]
      simp only []
      simp only [← apply_ite (GoLib.Step.next (σ := List BackView) (ρ := Option (List BackView)))]
    · have hz' : (v.minFree == 0 && GoLib.len v.b.eps == (0 : Int)) = false := by simpa using hz
      simp only [hz', Bool.false_eq_true, ↓reduceIte, oneBS]
      rw [freeLoop]
      simp only []
      rw [countLoop v.minFree _ v false _ (by omega)]
      simp only []
      rw [countLoop _ _ _ _ 0 (by omega)]
      simp only []
      simp only [← apply_ite (GoLib.Step.next (σ := List BackView) (ρ := Option (List BackView)))]

/-- **the translated `alignSlots` visits every backend of `Items()`** in iteration order, computes `oneExp` for
each, never panics and never runs out of fuel -/
theorem alignSlots_tie (items : List BackView) (fx : List BackView) :
    CodeC11.alignSlots items fx = some (items.foldl oneExp fx) := by
  induction items generalizing fx with
  | nil => rfl
  | cons v is ih =>
    cases hd : v.dyn with
    | false => rw [step_static v is fx hd, ih]; rfl
    | true => rw [step_dyn v is fx hd, ih]; rfl

/-! ## the closed form is the M-Dyn model -/

def foldAdd (k : Nat) (b : C02.Back) : C02.Back := (List.range k).foldl (fun b _ => C02.addEmpty b) b

theorem foldAdd_succ (k : Nat) (b : C02.Back) : foldAdd (k + 1) b = foldAdd k (C02.addEmpty b) := by
  unfold foldAdd
  rw [List.range_succ_eq_map, List.foldl_cons, List.foldl_map]

theorem iterE_b (k : Nat) (v : BackView) : (iterE k v).b = foldAdd k v.b := by
  induction k generalizing v with
  | zero => rfl
  | succ k ih => rw [iterE, ih, foldAdd_succ]; rfl

theorem iterE_cfg (k : Nat) (v : BackView) :
    (iterE k v).dyn = v.dyn ∧ (iterE k v).minFree = v.minFree ∧ (iterE k v).block = v.block := by
  induction k generalizing v with
  | zero => exact ⟨rfl, rfl, rfl⟩
  | succ k ih => rw [iterE]; exact ih (addEmpty v)

theorem addEmpty_len (b : C02.Back) : (C02.addEmpty b).eps.length = b.eps.length + 1 := by
  simp [C02.addEmpty]

theorem addEmpty_dyn (b : C02.Back) : (C02.addEmpty b).dynUpdate = b.dynUpdate := rfl

theorem foldAdd_len (k : Nat) (b : C02.Back) : (foldAdd k b).eps.length = b.eps.length + k := by
  induction k generalizing b with
  | zero => rfl
  | succ k ih => rw [foldAdd_succ, ih, addEmpty_len]; omega

theorem foldAdd_add (j k : Nat) (b : C02.Back) : foldAdd k (foldAdd j b) = foldAdd (j + k) b := by
  induction j generalizing b with
  | zero => simp [foldAdd]
  | succ j ih => rw [foldAdd_succ, ih, show j + 1 + k = (j + k) + 1 by omega, foldAdd_succ]

theorem iterE_eq (k : Nat) (v : BackView) : iterE k v = { v with b := foldAdd k v.b } := by
  have h1 := iterE_b k v
  obtain ⟨h2, h3, h4⟩ := iterE_cfg k v
  cases hv : iterE k v
  rw [hv] at h1 h2 h3 h4
  simp_all

/-- **the closed form is `C02.alignSlots`** (the function `align_post` & co. are proved about): for settings as the
converter produces them (`slots-min-free`, `slots-increment` ≥ 0; the view's `dyn` is the backend's `DynUpdate`) the
backend is handed to `BackendChanged` exactly when a slot was added, as it is after the padding -/
theorem oneExp_model (fx : List BackView) (v : BackView) (hd : v.dyn = v.b.dynUpdate)
    (hm : 0 ≤ v.minFree) (hb : 0 ≤ v.block) :
    oneExp fx v =
      (if (C02.alignSlots v.b v.minFree.toNat v.block.toNat).eps.length ≠ v.b.eps.length then
        fx ++ [{ v with b := C02.alignSlots v.b v.minFree.toNat v.block.toNat }] else fx) := by
  cases hdv : v.dyn with
  | false =>
    have : v.b.dynUpdate = false := by rw [← hd, hdv]
    simp [oneExp, hdv, C02.alignSlots, this]
  | true =>
    have hdu : v.b.dynUpdate = true := by rw [← hd, hdv]
    -- the normalised block size, as Int and as Nat
    have hex : ∃ bs : Nat, 1 ≤ bs ∧ (if v.block < 1 then (1 : Int) else v.block) = (bs : Int) ∧
        (if v.block.toNat < 1 then 1 else v.block.toNat) = bs := by
      by_cases h : v.block < 1
      · have h0 : v.block.toNat = 0 := by omega
        refine ⟨1, Nat.le_refl _, ?_, ?_⟩
        · simp [h]
        · simp [h0]
      · have h0 : ¬ v.block.toNat < 1 := by omega
        refine ⟨v.block.toNat, by omega, ?_, ?_⟩
        · simp only [h, ↓reduceIte]; omega
        · simp [h0]
    obtain ⟨bs, hbs1, hbsI, hbsN⟩ := hex
    have hone : oneExp fx v = oneBS fx v (bs : Int) := by
      unfold oneExp
      rw [← hbsI]
      by_cases h : v.block < 1 <;> simp [hdv, h]
    rw [hone]
    unfold oneBS C02.alignSlots
    simp only [hdu, Bool.not_true, Bool.false_eq_true, ↓reduceIte, hbsN]
    by_cases hz : v.minFree.toNat = 0 ∧ v.b.eps.length = 0
    · obtain ⟨hz1, hz2⟩ := hz
      have hm0 : v.minFree = 0 := by omega
      have hc : (v.minFree == 0 && GoLib.len v.b.eps == (0 : Int)) = true := by
        simp [hm0, GoLib.len, hz2]
      have hpos : (false || decide ((0 : Int) < (bs : Int))) = true := by simp; omega
      simp only [hc, hpos, ↓reduceIte, hz1, hz2, and_self, C11Views.markChanged]
      have hl : (foldAdd bs v.b).eps.length ≠ 0 := by rw [foldAdd_len]; omega
      have hfa : (List.range bs).foldl (fun b _ => C02.addEmpty b) v.b = foldAdd bs v.b := rfl
      rw [hfa]
      simp only [ne_eq, hl, not_false_eq_true, ↓reduceIte, Int.sub_zero, Int.toNat_natCast, iterE_eq, hdv]
    · have hc : (v.minFree == 0 && GoLib.len v.b.eps == (0 : Int)) = false := by
        simp only [GoLib.len, Bool.and_eq_false_iff, beq_eq_false_iff_ne, ne_eq]
        by_cases h1 : v.minFree = 0
        · right; intro h2; apply hz; constructor <;> omega
        · left; exact h1
      simp only [hc, Bool.false_eq_true, ↓reduceIte, hz]
      -- names for the pieces
      have hfilt : (v.b.eps.filter C11Views.isEmpty) = (v.b.eps.filter (·.isEmpty)) := rfl
      generalize hfree : (v.b.eps.filter (fun e => e.isEmpty)).length = free
      rw [hfilt, hfree]
      have hk1 : (v.minFree - (0 + (free : Int))).toNat = v.minFree.toNat - free := by omega
      rw [hk1]
      generalize hk : v.minFree.toNat - free = k1
      have hfa1 : (List.range k1).foldl (fun b _ => C02.addEmpty b) v.b = foldAdd k1 v.b := rfl
      rw [hfa1]
      have hl1 : (iterE k1 v).b.eps.length = v.b.eps.length + k1 := by rw [iterE_b, foldAdd_len]
      have hl1' : (foldAdd k1 v.b).eps.length = v.b.eps.length + k1 := foldAdd_len _ _
      -- the block padding: Int expression = Nat expression
      have hn : ((bs : Int) - GoLib.add (GoLib.rem (GoLib.add (GoLib.len (iterE k1 v).b.eps) (bs : Int) - 1) (bs : Int)) 1 - 0).toNat
          = bs - (((foldAdd k1 v.b).eps.length + bs - 1) % bs + 1) := by
        simp only [GoLib.add, GoLib.rem, GoLib.len, hl1, hl1']
        have hmod : Int.tmod (((v.b.eps.length + k1 : Nat) : Int) + (bs : Int) - 1) (bs : Int)
            = (((v.b.eps.length + k1 + bs - 1) % bs : Nat) : Int) := by
          have hnn : ((v.b.eps.length + k1 : Nat) : Int) + (bs : Int) - 1 = ((v.b.eps.length + k1 + bs - 1 : Nat) : Int) := by omega
          rw [hnn, Int.tmod_eq_emod_of_nonneg (by omega)]
          exact (Int.natCast_emod _ _).symm
        rw [hmod]
        have : (v.b.eps.length + k1 + bs - 1) % bs < bs := Nat.mod_lt _ (by omega)
        omega
      rw [hn]
      generalize hn2 : bs - (((foldAdd k1 v.b).eps.length + bs - 1) % bs + 1) = n2
      have hfa2 : (List.range n2).foldl (fun b _ => C02.addEmpty b) (foldAdd k1 v.b) = foldAdd n2 (foldAdd k1 v.b) := rfl
      rw [hfa2, foldAdd_add, foldAdd_len]
      rw [hn2] at hn
      have hval : C11Views.markChanged fx (iterE n2 (iterE k1 v)) =
          fx ++ [{ dyn := true, minFree := v.minFree, block := v.block, b := foldAdd (k1 + n2) v.b }] := by
        rw [iterE_eq n2, iterE_eq k1]
        simp only [C11Views.markChanged, foldAdd_add, hdv]
      rw [hval]
      by_cases hch : v.b.eps.length + (k1 + n2) ≠ v.b.eps.length
      · have : (false || decide (0 + (free : Int) < v.minFree) ||
            decide (0 < (bs : Int) - GoLib.add (GoLib.rem (GoLib.add (GoLib.len (iterE k1 v).b.eps) (bs : Int) - 1) (bs : Int)) 1)) = true := by
          simp only [Bool.false_or, Bool.or_eq_true, decide_eq_true_eq]
          omega
        rw [if_pos this, if_pos hch]
      · have : ¬ ((false || decide (0 + (free : Int) < v.minFree) ||
            decide (0 < (bs : Int) - GoLib.add (GoLib.rem (GoLib.add (GoLib.len (iterE k1 v).b.eps) (bs : Int) - 1) (bs : Int)) 1)) = true) := by
          simp only [Bool.false_or, Bool.or_eq_true, decide_eq_true_eq]
          omega
        rw [if_neg this, if_neg hch]

/-- what one reload-time `alignSlots` hands to `BackendChanged`, by the model -/
def flagged (v : BackView) : List BackView :=
  if (C02.alignSlots v.b v.minFree.toNat v.block.toNat).eps.length ≠ v.b.eps.length then
    [{ v with b := C02.alignSlots v.b v.minFree.toNat v.block.toNat }] else []

/-- **end to end**: for every list of backends (`Items()` in any iteration order) with converter-produced settings,
the translated `alignSlots` returns normally and flags exactly the backends `C02.alignSlots` grows — every one of them,
whether it was re-created by this update or not — each padded as `C02.alignSlots` says -/
theorem alignSlots_model (items : List BackView) (fx : List BackView)
    (h : ∀ v ∈ items, v.dyn = v.b.dynUpdate ∧ 0 ≤ v.minFree ∧ 0 ≤ v.block) :
    CodeC11.alignSlots items fx = some (fx ++ items.flatMap flagged) := by
  rw [alignSlots_tie]
  congr 1
  induction items generalizing fx with
  | nil => simp
  | cons v is ih =>
    obtain ⟨h1, h2, h3⟩ := h v (List.mem_cons_self ..)
    rw [List.foldl_cons, ih _ (fun w hw => h w (List.mem_cons_of_mem _ hw)), oneExp_model fx v h1 h2 h3]
    simp only [List.flatMap_cons, flagged]
    split <;> simp

def exEP : C02.EP := ⟨"srv001", "10.0.0.1", 8080, true, 1, "", "", "", 0⟩
def exBack : C02.Back := { eps := [exEP], dynUpdate := true, resolver := false, cookiePreserve := false }
def exView : BackView := { dyn := true, minFree := 2, block := 1, b := exBack }

/-- non-vacuity: a bystander with one endpoint, slots-min-free 2, increment 1 gets two empty slots and is flagged -/
example : (CodeC11.alignSlots [exView] []).map (fun l => l.map (fun v => v.b.eps.length)) = some [3] := by
  decide +kernel

end HapVerif.C11Tie
