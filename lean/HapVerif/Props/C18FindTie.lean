import HapVerif.Generated.CodeC18
/-!
# C18 — tie to the source: `updater.findBackend` (the lookup of the oauth2-proxy backend)

`HapVerif.CodeC18.findBackend` is REGENERATED on every run from
`pkg/converters/ingress/annotations/backend.go` (as repaired by 58bb97c: the hostnames are sorted).  For
`oauth: oauth2_proxy` it decides which backend the authentication call of the protected path goes to — "the
authentication service call configured for exactly that path" of C18.  The theorems state, for every hosts map: the
function is a first-match search over the hosts in hostname order and their paths in `host.Paths` order; a backend is
only ever returned for a path of the requested namespace whose declared path EQUALS the uri prefix up to trailing
slashes (never one that merely starts with it: seed C18f), and `nil` is returned exactly when no listed host has
such a path (the caller then leaves the path denied).
-/
namespace HapVerif.C18FindTie
open HapVerif HapVerif.GoLib
open HapVerif.C18V (BackendRef PathView)

abbrev Hosts := List (List Char × C18V.HostView)

/-- the test of the inner loop -/
def hit (ns pfx : List Char) (p : PathView) : Bool :=
  GoLib.trimRight p.path ['/'] == pfx && p.Backend.Namespace == ns

def inHost (ns pfx : List Char) (h : C18V.HostView) : Option BackendRef :=
  h.Paths.findSome? fun p => if hit ns pfx p then some p.Backend else none

/-- the function as a first-match search -/
def spec (hosts : Hosts) (ns pfx : List Char) : Option BackendRef :=
  (GoLib.sortStrings (GoLib.keys hosts)).findSome? fun hn => inHost ns pfx (GoLib.index hosts hn)

/-- a hit leaves the loop with the value, a miss goes on -/
def stepOf {β : Type} : Option β → Step Unit (Option β)
  | some v => Step.ret (some v)
  | none => Step.next ()

def doneOf {β : Type} : Option β → RDone Unit (Option β)
  | some v => .ret (some v)
  | none => .done ()

/-- a unit-state loop whose body returns at the first hit -/
theorem forRange_first {α β : Type} (f : α → Unit → Step Unit (Option β)) (g : α → Option β)
    (h : ∀ x, f x () = stepOf (g x)) (xs : List α) :
    GoLib.forRange xs () f = doneOf (xs.findSome? g) := by
  induction xs with
  | nil => rfl
  | cons x xs ih =>
    simp only [GoLib.forRange, List.findSome?_cons, h]
    cases hg : g x with
    | some v => rfl
    | none => simpa [stepOf] using ih

def collectBody (hostname : List Char) (hostnames : List (List Char)) : Step (List (List Char)) (Option BackendRef) :=
  let hostnames := (GoLib.append1 hostnames hostname)
  GoLib.Step.next hostnames

def innerBody (namespace' uriPrefix : List Char) (path : PathView) (_ : Unit) : Step Unit (Option BackendRef) :=
  if (((GoLib.trimRight (C18V.pathOf path) (GoLib.chars "/")) == uriPrefix) && (((path).Backend).Namespace == namespace')) then
    GoLib.Step.ret (some (path).Backend)
  else
    GoLib.Step.next ()

def outerBody (hosts : Hosts) (namespace' uriPrefix : List Char) (hostname : List Char) (_ : Unit) :
    Step Unit (Option BackendRef) :=
  let host := (GoLib.index hosts hostname)
  match GoLib.forRange (host).Paths () (innerBody namespace' uriPrefix) with
  | .ret r' => GoLib.Step.ret r'
  | .done _ =>
    GoLib.Step.next ()

/-- the translated function with its loop bodies named -/
def specCode (hostsItems : Hosts) (namespace' uriPrefix : List Char) : Option BackendRef :=
  let hosts := hostsItems
  let hostnames := ([] : List (List Char))
  match GoLib.forRange (GoLib.keys hosts) hostnames collectBody with
  | .ret r' => r'
  | .done hostnames =>
    let hostnames := (GoLib.sortStrings hostnames)
    match GoLib.forRange hostnames () (outerBody hosts namespace' uriPrefix) with
    | .ret r' => r'
    | .done _ =>
      GoLib.nil

theorem code_eq_spec (hosts : Hosts) (ns pfx : List Char) : CodeC18.findBackend hosts ns pfx = specCode hosts ns pfx := rfl

theorem collect_keys (xs acc : List (List Char)) :
    GoLib.forRange xs acc collectBody = .done (acc ++ xs) := by
  induction xs generalizing acc with
  | nil => simp [GoLib.forRange]
  | cons x xs ih => simp only [GoLib.forRange, collectBody, ih, GoLib.append1]; simp

theorem inner_eq (ns pfx : List Char) (p : PathView) :
    innerBody ns pfx p () = stepOf (if hit ns pfx p then some p.Backend else none) := by
  unfold innerBody
  have hc : ((GoLib.trimRight (C18V.pathOf p) (GoLib.chars "/")) == pfx && (p.Backend.Namespace == ns)) = hit ns pfx p := rfl
  rw [hc]
  cases hit ns pfx p <;> rfl

theorem outer_eq (hosts : Hosts) (ns pfx hn : List Char) :
    outerBody hosts ns pfx hn () = stepOf (inHost ns pfx (GoLib.index hosts hn)) := by
  unfold outerBody inHost
  simp only []
  rw [forRange_first (innerBody ns pfx) (fun p => if hit ns pfx p then some p.Backend else none) (inner_eq ns pfx)]
  cases List.findSome? (fun p => if hit ns pfx p = true then some p.Backend else none) (GoLib.index hosts hn).Paths <;> rfl

/-- **the translated `findBackend` is the first-match search `spec`** -/
theorem findBackend_tie (hosts : Hosts) (ns pfx : List Char) :
    CodeC18.findBackend hosts ns pfx = spec hosts ns pfx := by
  rw [code_eq_spec]
  unfold specCode spec
  simp only []
  rw [collect_keys]
  simp only [List.nil_append]
  rw [forRange_first (outerBody hosts ns pfx) (fun hn => inHost ns pfx (GoLib.index hosts hn)) (outer_eq hosts ns pfx)]
  cases List.findSome? (fun hn => inHost ns pfx (GoLib.index hosts hn)) (GoLib.sortStrings (GoLib.keys hosts)) <;> rfl

theorem insStr_mem (a x : List Char) (l : List (List Char)) : x ∈ GoLib.insStr a l ↔ x = a ∨ x ∈ l := by
  induction l with
  | nil => simp [GoLib.insStr]
  | cons b t ih =>
    unfold GoLib.insStr
    split
    · simp
    · simp only [List.mem_cons, ih]
      constructor
      · rintro (h | h | h) <;> simp [h]
      · rintro (h | h | h) <;> simp [h]

theorem sortStrings_mem (x : List Char) (l : List (List Char)) : x ∈ GoLib.sortStrings l ↔ x ∈ l := by
  induction l with
  | nil => simp [GoLib.sortStrings]
  | cons a t ih => simp [GoLib.sortStrings, insStr_mem, ih]

/-- **only a path that EQUALS the uri prefix up to trailing slashes, in the requested namespace, is ever chosen** -/
theorem found_is_exact (hosts : Hosts) (ns pfx : List Char) (b : BackendRef)
    (h : CodeC18.findBackend hosts ns pfx = some b) :
    ∃ hn ∈ GoLib.keys hosts, ∃ p ∈ (GoLib.index hosts hn).Paths,
      GoLib.trimRight p.path ['/'] = pfx ∧ p.Backend.Namespace = ns ∧ p.Backend = b := by
  rw [findBackend_tie] at h
  unfold spec at h
  obtain ⟨hn, hmem, hin⟩ := List.exists_of_findSome?_eq_some h
  unfold inHost at hin
  obtain ⟨p, hp, hhit⟩ := List.exists_of_findSome?_eq_some hin
  have hk : hn ∈ GoLib.keys hosts := (sortStrings_mem hn _).1 hmem
  by_cases hh : hit ns pfx p = true
  · simp only [hh, if_true, Option.some.injEq] at hhit
    simp only [hit, Bool.and_eq_true, beq_iff_eq] at hh
    exact ⟨hn, hk, p, hp, hh.1, hh.2, hhit⟩
  · simp [hh] at hhit

/-- **`nil` exactly when no listed host has such a path**: the caller (`buildBackendOAuth`) then leaves the
protected path denied -/
theorem none_iff (hosts : Hosts) (ns pfx : List Char) :
    CodeC18.findBackend hosts ns pfx = none ↔
      ∀ hn ∈ GoLib.keys hosts, ∀ p ∈ (GoLib.index hosts hn).Paths, hit ns pfx p = false := by
  rw [findBackend_tie]
  unfold spec inHost
  simp only [List.findSome?_eq_none_iff]
  constructor
  · intro h hn hk p hp
    have := h hn ((sortStrings_mem hn _).2 hk) p hp
    by_cases hh : hit ns pfx p = true
    · simp [hh] at this
    · simpa using hh
  · intro h hn hmem p hp
    have := h hn ((sortStrings_mem hn _).1 hmem) p hp
    simp [this]

/-- concrete runs: `/oauth2-docs` merely starts with the prefix and is NOT taken (seed C18f picks it: paths are kept
in descending order, the longer sibling comes first); `/oauth2/` equals it up to the trailing slash -/
example : CodeC18.findBackend
    [("a.local".toList, ⟨[⟨"/oauth2-docs".toList, ⟨"d".toList, "d_docs_8080".toList⟩⟩, ⟨"/oauth2/".toList, ⟨"d".toList, "d_proxy_4180".toList⟩⟩,
      ⟨"/".toList, ⟨"d".toList, "d_app_8080".toList⟩⟩]⟩)] "d".toList "/oauth2".toList
    = some ⟨"d".toList, "d_proxy_4180".toList⟩ := by decide
example : CodeC18.findBackend
    [("a.local".toList, ⟨[⟨"/oauth2-docs".toList, ⟨"d".toList, "d_docs_8080".toList⟩⟩, ⟨"/".toList, ⟨"d".toList, "d_app_8080".toList⟩⟩]⟩)]
    "d".toList "/oauth2".toList = none := by decide

end HapVerif.C18FindTie
