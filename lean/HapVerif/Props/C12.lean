import HapVerif.Model.C12
namespace HapVerif.C12
end HapVerif.C12
