import HapVerif.Lemmas.C12
import HapVerif.Generated.Facts
/-!
# C12 — a change is never lost to a transient failure: the next reconcile applies it

Model: `HapVerif.C12.FW` = the C05 stores (backends + shard files, hosts + frontend maps) plus one
tcp service, the backend map files, what haproxy.cfg says about the host maps, and what the
running HAProxy holds; `upd o sh f` = one whole `instance.HAProxyUpdate` with fault `f` injected
(`Fault`: tcp maps, frontend maps, backend maps, crt-lists, Sends of the dynamic update,
haproxy.cfg, shard file k, reload request, reload result); `qrun` = one run of the reload queue
worker (`Services.reloadHAProxy`).  The two retry paths: `IngressReconciler.Reconcile` requeues the
same item after an error (`upd .none` on whatever batch accumulated, possibly none), the worker puts
its item back after a failed `Reload` (`qrun`).

Spec: `DiskGood` (every file = rendering of the in-memory model) ∧ `RunGood` (HAProxy = the files).

Full-strength statement (does NOT hold for the code as it is):

    theorem retry_converges (hist : List (Ev p)) (hok : allOk o sh {} hist) :   -- faults anywhere in hist
        let r := upd o sh .none (run o sh {} hist)                               -- fault-free, empty batch
        (o.queue = false → DiskGood o sh r.w ∧ RunGood sh r.w) ∧
        (o.queue = true → DiskGood o sh (qrun sh .none r.w).w ∧ RunGood sh (qrun sh .none r.w).w)

What is proved: `retry_converges_partial` / `retry_converges_queue_partial` for the fault points
`Fault.good` (a failed runtime command: the update falls back to a reload; in queue mode also the
reload request and its result, inside the worker).  For every other fault point a `decide`d
counter-example below, replayed on the real code by the harness (same op sequences, mode `inst`).
-/
namespace HapVerif.C12
open HapVerif.C05
variable {p : Nat}

theorem run_append (o : Opt) (sh : Sh p) (w : FW p) (a b : List (Ev p)) :
    run o sh w (a ++ b) = run o sh (run o sh w a) b := by
  simp [run, List.foldl_append]

theorem allOk_append (o : Opt) (sh : Sh p) (a b : List (Ev p)) : ∀ (w : FW p),
    allOk o sh w (a ++ b) = (allOk o sh w a && allOk o sh (run o sh w a) b) := by
  induction a with
  | nil => intro w; simp [allOk, run]
  | cons e a ih => intro w; simp [allOk, run, ih, Bool.and_assoc]

/-- the invariant holds along every disciplined history whose faults are good ones -/
theorem run_inv {o : Opt} {sh : Sh p} (wf : sh.WF) (evs : List (Ev p)) : ∀ {w : FW p}, FInv o sh w →
    allOk o sh w evs = true → (∀ e ∈ evs, goodEv o e = true) → FInv o sh (run o sh w evs) := by
  induction evs with
  | nil => intro w h _ _; exact h
  | cons e evs ih =>
    intro w h hok hg
    simp only [allOk, Bool.and_eq_true] at hok
    have hge := hg e List.mem_cons_self
    have hstep : FInv o sh (step o sh w e) := by
      cases e with
      | upd f => exact (upd_good wf h (by simpa [goodEv] using hge)).2.1
      | qrun f => exact qrun_inv h f
      | acq x c => exact step_inv_batch wf h _ hok.1 (fun _ h => by cases h) (fun _ h => by cases h)
      | rem xs => exact step_inv_batch wf h _ hok.1 (fun _ h => by cases h) (fun _ h => by cases h)
      | hacq x c => exact step_inv_batch wf h _ hok.1 (fun _ h => by cases h) (fun _ h => by cases h)
      | hrem xs => exact step_inv_batch wf h _ hok.1 (fun _ h => by cases h) (fun _ h => by cases h)
      | tcp v => exact step_inv_batch wf h _ hok.1 (fun _ h => by cases h) (fun _ h => by cases h)
      | full => exact step_inv_batch wf h _ hok.1 (fun _ h => by cases h) (fun _ h => by cases h)
    exact ih hstep hok.2 (fun e' he' => hg e' (List.mem_cons_of_mem _ he'))

/-- **C12, direct reload (`--reload-interval=0`), good fault points.**  For every shard count, shard
function and name universe, every disciplined history of batches and updates in which the only
faults are failed runtime commands (any Sends, any number of times, in any updates): the next
reconcile with an empty batch returns no error, every file holds the rendering of the in-memory
model and HAProxy holds the files. -/
theorem retry_converges_partial (o : Opt) (sh : Sh p) (wf : sh.WF) (hq : o.queue = false) (hist : List (Ev p))
    (hok : allOk o sh {} hist = true) (hgood : ∀ e ∈ hist, goodEv o e = true) :
    (upd o sh .none (run o sh {} hist)).err = false ∧
    DiskGood o sh (upd o sh .none (run o sh {} hist)).w ∧ RunGood sh (upd o sh .none (run o sh {} hist)).w := by
  have hi := run_inv wf hist (finv_init o sh) hok hgood
  obtain ⟨he, hf, hd⟩ := upd_good wf hi (f := .none) rfl
  refine ⟨he, hd, ?_⟩
  rcases hf.r with h | h
  · rw [hf.q hq] at h; cases h
  · exact h

/-- the faulty update itself already ends converged: a failed runtime command makes the same
update reload -/
theorem admin_fault_converges_at_once (o : Opt) (sh : Sh p) (wf : sh.WF) (hq : o.queue = false) (hist : List (Ev p))
    (hok : allOk o sh {} hist = true) (hgood : ∀ e ∈ hist, goodEv o e = true) (bad : List Nat) :
    (upd o sh (.admin bad) (run o sh {} hist)).err = false ∧
    DiskGood o sh (upd o sh (.admin bad) (run o sh {} hist)).w ∧
    RunGood sh (upd o sh (.admin bad) (run o sh {} hist)).w := by
  have hi := run_inv wf hist (finv_init o sh) hok hgood
  obtain ⟨he, hf, hd⟩ := upd_good wf hi (f := .admin bad) rfl
  refine ⟨he, hd, ?_⟩
  rcases hf.r with h | h
  · rw [hf.q hq] at h; cases h
  · exact h

/-- **C12, reload queue (`--reload-interval>0`), good fault points.**  The same for histories in
which, besides failed runtime commands, the reload request or its result fails inside the queue
worker any number of times: after the next reconcile with an empty batch and one fault-free run of
the worker, files = model, HAProxy = files, nothing is left in the queue. -/
theorem retry_converges_queue_partial (o : Opt) (sh : Sh p) (wf : sh.WF) (hist : List (Ev p))
    (hok : allOk o sh {} hist = true) (hgood : ∀ e ∈ hist, goodEv o e = true) :
    let u := upd o sh .none (run o sh {} hist)
    let r := qrun sh .none u.w
    u.err = false ∧ r.err = false ∧ DiskGood o sh r.w ∧ RunGood sh r.w ∧ r.w.pending = false := by
  have hi := run_inv wf hist (finv_init o sh) hok hgood
  obtain ⟨he, hf, hd⟩ := upd_good wf hi (f := .none) rfl
  obtain ⟨hqe, hqp, hqr⟩ := qrun_settles hf (f := .none) rfl
  exact ⟨he, hqe, qrun_diskGood hd _, hqr, hqp⟩

/-! ### non-vacuity and the counter-examples, one per fault point outside `Fault.good`

Each history below is also a corpus case of the harness (`c12instCorpus`), run on the real
`haproxy.Instance`. -/

def s0 : Sh 2 := { n := 0, shardOf := fun _ => 0 }
def s3 : Sh 2 := { n := 3, shardOf := fun x => if x.val = 0 then 2 else 0 }
theorem s0_wf : s0.WF := by intro x; simp [s0]
theorem s3_wf : s3.WF := by intro x; simp only [s3]; by_cases h : x.val = 0 <;> simp [h]

def oD : Opt := {}
def oQ : Opt := { queue := true }
def oA : Opt := { needACL := fun _ => true }

def c4 : Content := ⟨4, 0⟩
def c5 : Content := ⟨5, 0⟩     -- same conf as c4, other address
def c8 : Content := ⟨8, 0⟩     -- other conf

/-- non-vacuity of `retry_converges_partial`: a runtime command fails twice in a row (the update
reloads instead), then the change is applied dynamically, then the empty retry -/
example :
    let hist : List (Ev 2) := [.acq 0 c4, .hacq 0 1, .tcp 1, .upd .none,
      .rem [0], .acq 0 c5, .upd (.admin [0]), .rem [0], .acq 0 c4, .upd (.admin [0]), .rem [0], .acq 0 c5, .upd .none]
    allOk oD s0 {} hist = true ∧ (∀ e ∈ hist, goodEv oD e = true) ∧
    (run oD s0 {} hist).run.back 0 = some c5 ∧ (run oD s0 {} hist).g.w.disk 0 0 = some c5 ∧
    (upd oD s0 (.admin [0]) (run oD s0 {} (hist.take 6))).sends = 1 := by decide

/-- non-vacuity of `retry_converges_queue_partial`: the worker fails twice -/
example :
    let hist : List (Ev 2) := [.acq 0 c4, .upd .none, .qrun .reloadSend, .qrun .reloadResult]
    allOk oQ s0 {} hist = true ∧ (∀ e ∈ hist, goodEv oQ e = true) ∧
    (run oQ s0 {} hist).pending = true ∧ (run oQ s0 {} hist).run.back 0 = none ∧
    (qrun s0 .none (upd oQ s0 .none (run oQ s0 {} hist)).w).w.run.back 0 = some c4 := by decide

/-- fault point 1, `change-lost-after-failed-map-write` / `half-written-files-after-fault`: the tcp
sni map cannot be written; the retry rewrites the crt-list only (it has no guard), the map and the
`listen` section keep the old service, nothing is reloaded -/
theorem lost_after_failed_tcp_map_write :
    let hist : List (Ev 2) := [.tcp 1, .upd .none, .tcp 2, .upd .tcpMaps]
    let r := upd oD s0 .none (run oD s0 {} hist)
    allOk oD s0 {} hist = true ∧ (upd oD s0 .tcpMaps (run oD s0 {} (hist.take 3))).err = true ∧ r.err = false ∧
    r.w.tcp.want = 2 ∧ r.w.tcp.map = 1 ∧ r.w.tcp.crt = 2 ∧ r.w.tcp.main = 1 ∧ r.w.run.tcpMap = 1 := by decide

/-- fault point 2, `change-lost-after-failed-map-write`: the frontend maps cannot be written; the
deferred `Commit()` empties the hosts' changed-sets, the retry skips `WriteFrontendMaps`; only a later
change of the hosts brings the maps back -/
theorem lost_after_failed_frontend_map_write :
    let hist : List (Ev 2) := [.hacq 0 1, .upd .none, .hrem [0], .hacq 0 2, .upd .frontMaps]
    let r := upd oD s0 .none (run oD s0 {} hist)
    allOk oD s0 {} hist = true ∧ r.err = false ∧
    r.w.h.items 0 = some 2 ∧ r.w.h.maps 0 = some (1, false) ∧ r.w.run.maps 0 = some (1, false) ∧
    (run oD s0 {} (hist ++ [.upd .none, .hrem [0], .hacq 0 3, .upd .none])).h.maps 0 = some (3, false) := by decide

/-- the first update fails at the frontend maps: the retry writes the maps (`frontend.Maps == nil`) but
haproxy.cfg is never written and nothing is ever loaded -/
theorem first_update_failure_leaves_no_cfg :
    let hist : List (Ev 2) := [.acq 0 c4, .hacq 0 1, .upd .frontMaps]
    let r := upd oD s0 .none (run oD s0 {} hist)
    allOk oD s0 {} hist = true ∧ r.err = false ∧ r.w.h.maps 0 = some (1, false) ∧
    r.w.g.w.store.items 0 = some c4 ∧ r.w.g.w.disk 0 0 = none ∧ r.w.mainHosts = false ∧ r.w.run.back 0 = none := by decide

/-- fault point 3, `change-lost-after-failed-map-write`: a backend map cannot be written -/
theorem lost_after_failed_backend_map_write :
    let hist : List (Ev 2) := [.acq 0 c4, .upd .none, .rem [0], .acq 0 c8, .upd .backMaps]
    let r := upd oA s0 .none (run oA s0 {} hist)
    allOk oA s0 {} hist = true ∧ (upd oA s0 .backMaps (run oA s0 {} (hist.take 4))).err = true ∧ r.err = false ∧
    r.w.g.w.store.items 0 = some c8 ∧ r.w.bm 0 = some 1 ∧ r.w.g.w.disk 0 0 = some c4 := by decide

/-- `update-keeps-failing-after-failed-map-write`: a backend that needs ACLs is added in a batch whose
update fails BEFORE WriteBackendMaps (here: at the tcp maps); its `PathsMap` stays nil, and from then
on every update that renders it fails inside the template — also the ones for unrelated changes -/
theorem update_keeps_failing_after_failed_map_write :
    let hist : List (Ev 2) := [.tcp 1, .upd .none, .acq 0 c4, .tcp 2, .upd .tcpMaps, .upd .none]
    allOk oA s0 {} hist = true ∧
    (upd oA s0 .none (run oA s0 {} (hist.take 5))).err = false ∧        -- the retry: "configurations match"
    (upd oA s0 .none (run oA s0 {} (hist ++ [.acq 1 c4]))).err = true ∧    -- an unrelated backend is added
    (upd oA s0 .none (run oA s0 {} (hist ++ [.acq 1 c4, .upd .none]))).err = false ∧
    (upd oA s0 .none (run oA s0 {} (hist ++ [.acq 1 c4, .upd .none, .tcp 3]))).err = true := by decide

/-- fault point 4, `half-written-files-after-fault`: the tcp crt-list cannot be written; the retry
writes it (no guard) but haproxy.cfg keeps the old service and nothing is reloaded -/
theorem lost_after_failed_crtlist_write :
    let hist : List (Ev 2) := [.tcp 1, .upd .none, .tcp 2, .upd .crtLists]
    let r := upd oD s0 .none (run oD s0 {} hist)
    allOk oD s0 {} hist = true ∧ r.err = false ∧
    r.w.tcp.map = 2 ∧ r.w.tcp.crt = 2 ∧ r.w.tcp.main = 1 ∧ r.w.run.tcpMap = 1 ∧ r.w.run.tcpCrt = 1 := by decide

/-- fault point 6a, `change-lost-after-failed-cfg-write`: haproxy.cfg cannot be written -/
theorem lost_after_failed_cfg_write :
    let hist : List (Ev 2) := [.acq 0 c4, .upd .none, .rem [0], .acq 0 c8, .upd .mainCfg]
    let r := upd oD s0 .none (run oD s0 {} hist)
    allOk oD s0 {} hist = true ∧ r.err = false ∧
    r.w.g.w.store.items 0 = some c8 ∧ r.w.g.w.disk 0 0 = some c4 ∧ r.w.run.back 0 = some c4 := by decide

/-- fault point 6b, `change-lost-after-failed-cfg-write`: the second changed shard file cannot be
written: the first one holds the new backend, the second one the old; not even a full resync
(`config.Clear()`, everything parsed again) rewrites it, because `Shrink` finds nothing changed -/
theorem lost_after_failed_shard_write :
    let hist : List (Ev 2) := [.acq 0 c4, .acq 1 c4, .upd .none, .rem [0], .acq 0 c8, .rem [1], .acq 1 c8, .upd (.shard 2)]
    let r := upd oD s3 .none (run oD s3 {} hist)
    let r2 := upd oD s3 .none (run oD s3 {} (hist ++ [.upd .none, .full, .acq 0 c8, .acq 1 c8]))
    allOk oD s3 {} (hist ++ [.upd .none, .full, .acq 0 c8, .acq 1 c8]) = true ∧ r.err = false ∧
    r.w.g.w.disk 0 1 = some c8 ∧ r.w.g.w.disk 2 0 = some c4 ∧ r.w.g.w.store.items 0 = some c8 ∧
    r2.err = false ∧ r2.w.g.w.disk 2 0 = some c4 ∧ r2.w.run.back 0 = some c4 := by decide

/-- fault points 8a / 8b, `reload-not-retried-after-failed-reload`: without a reload queue the failed
reload is returned as an error and the reconcile is retried, but the retry finds "old and new
configurations match" and does not reload: the files are right, HAProxy never reads them -/
theorem reload_not_retried_after_failed_reload :
    let hist : List (Ev 2) := [.acq 0 c4, .upd .none, .rem [0], .acq 0 c8]
    let r1 := upd oD s0 .none (upd oD s0 .reloadSend (run oD s0 {} hist)).w
    let r2 := upd oD s0 .none (upd oD s0 .reloadResult (run oD s0 {} hist)).w
    allOk oD s0 {} hist = true ∧ (upd oD s0 .reloadSend (run oD s0 {} hist)).err = true ∧
    r1.err = false ∧ r1.w.g.w.disk 0 0 = some c8 ∧ r1.w.run.back 0 = some c4 ∧
    r2.err = false ∧ r2.w.g.w.disk 0 0 = some c8 ∧ r2.w.run.back 0 = some c4 := by decide

/-- a write fault in queue mode is lost the same way (the queue only retries the reload) -/
theorem queue_does_not_help_a_failed_write :
    let hist : List (Ev 2) := [.acq 0 c4, .upd .none, .qrun .none, .rem [0], .acq 0 c8, .upd .mainCfg]
    let r := qrun s0 .none (upd oQ s0 .none (run oQ s0 {} hist)).w
    allOk oQ s0 {} hist = true ∧ r.err = false ∧ r.w.pending = false ∧
    r.w.g.w.store.items 0 = some c8 ∧ r.w.g.w.disk 0 0 = some c4 := by decide

/-! ### regenerated facts: the Go source still has the shape the model assumes -/

/-- `HAProxyUpdate` defers `Commit()` before anything else, shrinks, then runs the four writers in the
modelled order, each returning at once on error; the dynamic updater; the gate in front of
`writeConfig`; `updated` returns nil; the reload queue gets `Add`, otherwise `Reload` is returned.
`Reload` has one error path.  `Reconcile` swallows the error and asks for the same item again after
`ReloadRetry`; the queue worker puts its item back.  Runtime commands need committed data.  Files
are written in place with `os.WriteFile` after every template of the set was executed. -/
theorem facts_c12 :
    Facts.c12UpdateStmts = ["if:i.config==nil=>return:nil", "defer:i.config.Commit", "call:i.config.SyncConfig",
      "call:i.config.Shrink",
      "if-init:i.config.WriteTCPServicesMaps();err!=nil=>return:fmt.Errorf",
      "if-init:i.config.WriteFrontendMaps();err!=nil=>return:fmt.Errorf",
      "if-init:i.config.WriteBackendMaps();err!=nil=>return:fmt.Errorf",
      "if-init:i.writeCrtLists();err!=nil=>return:fmt.Errorf",
      "call:timer.Tick", "if:!i.options.fake", "assign:i.newDynUpdater()", "assign:updater.update()",
      "if:i.options.SortEndpointsBy!=\"random\"", "call:i.config.Backends().FillSourceIPs",
      "if:!updated||updater.cmdCnt>0||i.config.Backends().Changed()", "call:i.updateCertExpiring", "defer:?",
      "if:updated=>return:nil", "if:i.options.ReloadQueue!=nil=>return:nil", "return:i.Reload(timer)"] ∧
    Facts.c12ReloadStmts = ["if:i.options.TrackInstances", "assign:i.reloadHAProxy()", "if:err!=nil=>return:fmt.Errorf",
      "assign:true", "assign:\"haproxy successfully reloaded\"", "if:i.options.IsExternal",
      "if:i.options.TrackInstances", "return:nil"] ∧
    Facts.c12ReconcileRequeue = ["RequeueAfter=r.Config.ReloadRetry"] ∧
    Facts.c12ReconcileCalls = ["r.watchers.getChangedObjects", "r.Services.ReconcileIngress", "r.log.Error",
      "r.Config.ReloadRetry.String"] ∧
    Facts.c12QueueWorkerCalls = ["s.instance.Reload", "s.reloadQueue.AddAfter"] ∧
    Facts.c12DynGate = ["d.config.hasCommittedData()&&d.checkConfigChange()"] ∧
    Facts.c12WriteToDiskOS = ["os.Stat", "os.Rename", "os.IsNotExist", "os.Remove", "os.IsNotExist", "os.WriteFile"] ∧
    Facts.c12WriteOutputCalls = ["t.tmpl.Execute", "t.writeToDisk"] := by
  decide

end HapVerif.C12
